#!/bin/sh
# Runs the repository's pinned test suite (guard OFF; no hooks exist) and compares with BASELINE.json's stable_pass list.
# usage: baseline.sh [repo-dir]
REPO="${1:-/repo}"
export PATH=/opt/veriftools/go1.26.8/bin:$PATH
export GOTOOLCHAIN=local GOFLAGS=-mod=mod GOPROXY=off GOSUMDB=off GOWORK=off
OUT=$(mktemp)
(cd "$REPO" && go test -json -vet=off -count=1 -timeout 25m ./... > "$OUT" 2>/dev/null)
python3 - "$OUT" <<'PY'
import json,sys
base=json.load(open('/root/.vp/BASELINE.json'))
want=set(base['stable_pass'])
res={}
for l in open(sys.argv[1]):
    try: e=json.loads(l)
    except Exception: continue
    if e.get('Test') and e.get('Action') in('pass','fail','skip'):
        res[e['Package']+'::'+e['Test']]=e['Action']
missing=[t for t in sorted(want) if res.get(t)!='pass']
print('baseline: %d/%d stable tests pass'%(len(want)-len(missing),len(want)))
for t in missing: print('  NOT PASSING:',t,res.get(t))
sys.exit(1 if missing else 0)
PY
rc=$?
rm -f "$OUT"
exit $rc
