#!/bin/sh
# Driver wrapper: pins the toolchain/environment, (re)builds bin/hcv when sources changed, then runs it.
set -e
cd "$(dirname "$0")"
export PATH=/opt/veriftools/go1.26.8/bin:$PATH
export GOTOOLCHAIN=local GOFLAGS=-mod=mod GOPROXY=off GOSUMDB=off GOWORK=off CGO_ENABLED=0
unset GOOS GOARCH
build() {
  mkdir -p bin
  go build -o bin/hcv ./cmd/hcv
}
if [ "$1" = "build" ]; then build; exit 0; fi
# a frozen binary (used by long self-test runs so that edits to the sources do not change the checker mid-run)
if [ -n "$HCV_BIN" ]; then exec "$HCV_BIN" "$@"; fi
# rebuild if any source is newer than the binary
if [ ! -x bin/hcv ] || [ -n "$(find cmd hcv go.mod -newer bin/hcv -print -quit 2>/dev/null)" ]; then build; fi
exec ./bin/hcv "$@"
