#!/bin/sh
# Parallel form of seeded_matrix.sh / refactor_eval.sh used for the round-4 regression (frozen checker binary via HCV_BIN; paths under /tmp are scratch).
BIN=/tmp/hcv.r4d
/tmp/wt9/eval_final.sh /tmp/seedeval19 12 $BIN > /tmp/seedeval19.log 2>&1
# old seeds: target property only
mkdir -p /tmp/sm19; rm -f /tmp/sm19/*
ls -d /verif/seeded/*/ | xargs -P 12 -n 1 sh -c 'd=$0; id=$(basename $d); prop=$(echo $id | cut -c1-3); wt=$(mktemp -d /tmp/hcv-sm.XXXXXX); rmdir $wt; git -C /repo worktree add -q --detach $wt HEAD || exit 0; if git -C $wt apply $d/patch.diff 2>/dev/null; then res=$(cd /verif && HCV_BIN='$BIN' ./run.sh check -p $prop -repo $wt -evidence $wt/.ev.json 2>&1); if printf "%s\n" "$res" | grep -q "^VIOLATION"; then echo "$id DETECTED by $(printf "%s\n" "$res" | grep -E "^(VIOLATED|UNDECIDED)" | awk "{print \$2}" | sort -u | tr "\n" " ")" > /tmp/sm19/$id; else echo "$id MISSED" > /tmp/sm19/$id; fi; else echo "$id PATCH-DOES-NOT-APPLY" > /tmp/sm19/$id; fi; git -C /repo worktree remove --force $wt'
cat /tmp/sm19/* > /tmp/sm19.txt
# old refactors: all 20 checks, no test run
mkdir -p /tmp/rf19; rm -f /tmp/rf19/*
ls /verif/selftest/refactors/*.diff | grep -v '/r[1-6]-[1-4].diff' | xargs -P 12 -n 1 sh -c 'f=$0; n=$(basename $f .diff); wt=$(mktemp -d /tmp/hcv-rf.XXXXXX); rmdir $wt; git -C /repo worktree add -q --detach $wt HEAD || exit 0; out=/tmp/rf19/$n.txt; : > $out; git -C $wt apply $f 2>/dev/null || echo "PATCH-DOES-NOT-APPLY" >> $out; for p in C01 C02 C03 C04 C05 C06 C07 C08 C09 C10 C11 C12 C13 C14 C15 C16 C17 C18 C19 C20; do res=$(cd /verif && HCV_BIN='$BIN' ./run.sh check -p $p -repo $wt -evidence $wt/.ev.json 2>&1); if printf "%s\n" "$res" | grep -q "^VIOLATION"; then echo "FALSE-ALARM $p: $(printf "%s\n" "$res" | grep -E "^(VIOLATED|UNDECIDED)" | awk "{print \$2}" | sort -u | tr "\n" " ")" >> $out; fi; done; grep -q "FALSE-ALARM\|PATCH" $out || echo silent >> $out; git -C /repo worktree remove --force $wt'
echo ALLDONE
