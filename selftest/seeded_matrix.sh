#!/bin/sh
# Re-applies every kept seeded change (/verif/seeded/<id>/patch.diff) to a scratch worktree of /repo and runs the check of
# the property it breaks: each must report a VIOLATION. Nothing is ever applied to /repo itself.
# usage: selftest/seeded_matrix.sh [outfile]
cd "$(dirname "$0")/.."
OUT="${1:-selftest/seeded_matrix.txt}"
: > "$OUT"
for d in seeded/*/; do
  id=$(basename "$d"); prop=$(echo "$id" | cut -c1-3)
  wt=$(mktemp -d /tmp/hcv-sm.XXXXXX); rmdir "$wt"
  git -C /repo worktree add -q --detach "$wt" HEAD || continue
  if git -C "$wt" apply "$PWD/$d/patch.diff" 2>/dev/null; then
    res=$(./run.sh check -p "$prop" -repo "$wt" -evidence "$wt/.ev.json" 2>&1)
    if printf "%s\n" "$res" | grep -q '^VIOLATION'; then
      echo "$id DETECTED by $(printf "%s\n" "$res" | grep -E '^(VIOLATED|UNDECIDED)' | grep -v 'C11.2 freshness-age-fabricated' | awk '{print $2}' | sort -u | tr '\n' ' ')" >> "$OUT"
    else
      echo "$id MISSED" >> "$OUT"
    fi
  else
    echo "$id PATCH-DOES-NOT-APPLY (the repository moved on)" >> "$OUT"
  fi
  git -C /repo worktree remove --force "$wt"
done
git -C /repo worktree prune
cat "$OUT"
