#!/bin/sh
# Runs every check against a behaviour-preserving refactoring: any VIOLATION is a false alarm of the checker.
# usage: refactor_eval.sh <refactor.diff> <out.txt>
DIFF="$1"; OUT="$2"
cd "$(dirname "$0")/.."
export PATH=/opt/veriftools/go1.26.8/bin:$PATH GOTOOLCHAIN=local GOFLAGS=-mod=mod GOPROXY=off GOSUMDB=off GOWORK=off
WT=$(mktemp -d /tmp/hcv-rf.XXXXXX); rmdir "$WT"
git -C /repo worktree add -q --detach "$WT" HEAD || exit 2
: > "$OUT"
if git -C "$WT" apply "$DIFF" 2>>"$OUT"; then echo "patch: applies" >> "$OUT"; else echo "patch: DOES NOT APPLY" >> "$OUT"; fi
if (cd "$WT" && go build ./... >/dev/null 2>&1); then echo "build: OK" >> "$OUT"; else echo "build: FAILS" >> "$OUT"; fi
./baseline.sh "$WT" | head -3 >> "$OUT"
for p in C01 C02 C03 C04 C05 C06 C07 C08 C09 C10 C11 C12 C13 C14 C15 C16 C17 C18 C19 C20; do
  res=$(./run.sh check -p $p -repo "$WT" -evidence "$WT/.ev.json" 2>&1)
  if printf "%s\n" "$res" | grep -q '^VIOLATION'; then
    echo "FALSE-ALARM $p:" >> "$OUT"
    printf "%s\n" "$res" | grep -E -A1 '^(VIOLATED|UNDECIDED)' | grep -v 'C11.2 freshness-age-fabricated' | head -12 >> "$OUT"
  fi
done
grep -q FALSE-ALARM "$OUT" || echo "checks: all silent" >> "$OUT"
git -C /repo worktree remove --force "$WT"; git -C /repo worktree prune
cat "$OUT"
