#!/bin/sh
# Self-test of the rules against real regressions: every repair commit of /repo (see known-findings.txt, "fixed:" lines)
# is reverted one at a time in a scratch worktree; the check of the property named on the line must then report a
# VIOLATION, and must be silent again on the unreverted tree. Output: one line per (commit, property).
# usage: selftest/revert_matrix.sh [outfile]
cd "$(dirname "$0")/.."
OUT="${1:-selftest/revert_matrix.txt}"
SCR=$(mktemp -d /tmp/hcv-revert.XXXXXX)
: > "$OUT"
grep '^fixed:' known-findings.txt | while read -r _ prop commit rest; do
  prop=${prop#property=}
  wt="$SCR/$commit-$prop"
  git -C /repo worktree add -q --detach "$wt" HEAD 2>/dev/null || { echo "$commit $prop WORKTREE-FAILED" >> "$OUT"; continue; }
  if ! git -C "$wt" revert --no-commit "$commit" >/dev/null 2>&1; then
    echo "$commit $prop REVERT-CONFLICT (skipped) :: $rest" >> "$OUT"
  elif ! (cd "$wt" && PATH=/opt/veriftools/go1.26.8/bin:$PATH GOTOOLCHAIN=local GOFLAGS=-mod=mod GOPROXY=off GOWORK=off go build ./... >/dev/null 2>&1); then
    echo "$commit $prop REVERT-DOES-NOT-BUILD (skipped) :: $rest" >> "$OUT"
  else
    res=$(./run.sh check -p "$prop" -repo "$wt" -evidence "$SCR/ev.json" 2>&1)
    if printf "%s\n" "$res" | grep -q '^VIOLATION'; then
      rules=$(printf "%s\n" "$res" | grep -E '^(VIOLATED|UNDECIDED)' | awk '{print $2}' | sort -u | tr '\n' ' ')
      echo "$commit $prop DETECTED by $rules:: $rest" >> "$OUT"
    else
      echo "$commit $prop MISSED :: $rest" >> "$OUT"
    fi
  fi
  git -C /repo worktree remove --force "$wt" >/dev/null 2>&1
done
rm -rf "$SCR"
git -C /repo worktree prune
cat "$OUT"
