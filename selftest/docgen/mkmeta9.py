#!/usr/bin/env python3
# builds /verif/seeded/<id>/ for wave-2 seeds from first-pass (/tmp/seedeval2) and final (/tmp/seedeval4) evaluations
import json, os, re, shutil, sys
first='/tmp/seedeval17.first'; final='/tmp/seedeval19'
drop=set()
def parse(path):
    d={}
    if not os.path.exists(path): return None
    t=open(path).read()
    d['without']='PASS' if 'demo-without-change: PASS' in t else 'FAIL'
    d['with']='FAIL (as required)' if 'demo-with-change: FAIL' in t else 'PASS'
    m=re.search(r'baseline: .*', t); d['baseline']=m.group(0) if m else ''
    d['applies']='patch: applies' in t
    d['checks']={}
    for m in re.finditer(r'^check (C\d\d): VIOLATION (.*)$', t, re.M):
        rules=[r for r in m.group(2).split() if r and r not in ('C08.14','C09.18','C19.12','C03.11','C17.11','C14.15')]
        d['checks'][m.group(1)]=rules
    d['target']='DETECTED' in t.split('target-property')[-1]
    return d
n=0
for p in ['C%02d'%i for i in range(1,21)]:
    for k in (17,18):
        id_=f'{p}-{k}'
        if id_ in drop: continue
        f1=parse(f'{first}/{id_}/eval.txt'); f2=parse(f'{final}/{id_}/eval.txt')
        if not f2: print('missing final', id_); continue
        if not (f2['without']=='PASS' and f2['with'].startswith('FAIL') and f2['applies']):
            print('NOT CONFIRMED', id_, f2); continue
        out=f'/verif/seeded/{id_}'; os.makedirs(out, exist_ok=True)
        for fn in ('patch.diff','demo_test.go','notes.md'):
            shutil.copy(f'{final}/{id_}/{fn}', f'{out}/{fn}')
        notes=' '.join(open(f'{out}/notes.md').read().split())[:500]
        other_first=[f'{q}:'+','.join(r) for q,r in (f1['checks'].items() if f1 else []) if q!=p and r]
        # the empty C11 lists of the first pass were an artefact of the known-finding key being renamed while it ran
        meta={"id":id_,"property":p,"wave":9,
          "origin":"independent sub-agent given only the property text, its own scratch worktree of /repo and one-line titles of the sixteen changes already seeded for this property (nothing from /verif)",
          "what_it_needs_to_manifest":"see notes.md (written by the seeding agent): "+notes,
          "confirmed_by_me":{"commands":"selftest/seed_eval.sh <seed-dir> <N> %s <out> on /repo HEAD aa70bef (after the repair D90; the first pass ran on 5c53b22 with the rules of /verif commit 23b1927 plus the five value-binding rules written before any seed of this wave was read): scratch worktree of /repo HEAD; demo copied to its directory; go test -run '^(demo tests)$' without the change; git apply patch.diff; go build ./...; demo again; ./baseline.sh <worktree>; ./run.sh check -p Cxx -repo <worktree> for all 20 properties; worktree removed" % p,
            "demo_without_change":f2['without'],"demo_with_change":f2['with'],"existing_suite_with_change":f2['baseline']},
          "first_pass":{"target_property_detected": bool(f1 and f1['target'] and f1['checks'].get(p)),"detected_under_other_property":'; '.join(other_first)},
          "final":{"target_property_detected":f2['target'],"checks_that_fire":[f'{q}:'+','.join(r) for q,r in sorted(f2['checks'].items()) if r]}}
        json.dump(meta, open(f'{out}/meta.json','w'), indent=1)
        n+=1
        if not f2['target']: print('FINAL MISSED', id_)
print('written', n)
