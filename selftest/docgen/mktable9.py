#!/usr/bin/env python3
# builds the markdown table of DESIGN §12.2 from seeded/Cxx-17|18/meta.json
import json,glob,re
rows=[]
for p in ['C%02d'%i for i in range(1,21)]:
    for k in (17,18):
        d=f'/verif/seeded/{p}-{k}'
        try: m=json.load(open(d+'/meta.json'))
        except Exception as e: rows.append(f'| {p}-{k} (not kept) | | |'); continue
        title=''
        for l in open(d+'/notes.md'):
            l=l.strip().lstrip('#').strip()
            if l: title=l; break
        title=re.sub(r'\s+',' ',title)[:150].replace('|','/')
        fp=m['first_pass']
        if fp['target_property_detected']: first='**'+p+'**'
        elif fp['detected_under_other_property']:
            props=sorted(set(x.split(':')[0] for x in fp['detected_under_other_property'].split('; ') if x))
            first='('+', '.join(props)+')'
        else: first='missed'
        now=', '.join(x.split(':',1)[1] for x in m['final']['checks_that_fire'])
        rows.append(f'| {p}-{k} {title} | {first} | {now} |')
print('| seeded | first pass | reported now by |\n|---|---|---|')
print('\n'.join(rows))
