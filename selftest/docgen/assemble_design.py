import re,subprocess,json,sys
D='/verif/DESIGN.md'
s=open(D).read()
# drop an earlier insertion of §11
if '## 11. Build record (round 3)' in s:
    a=s.index('## 11. Build record (round 3)'); b=s.index('## Appendix A')
    s=s[:a]+s[b:]
sec=open('/tmp/design11_c.md').read()
# wave-5 table: replace old table by regenerated
a=sec.index('| seeded | first pass | reported now by |', sec.index('### 11.7'))
b=sec.index('\n\n',a)
sec=sec[:a]+open('/tmp/w5table.md').read()+sec[b:]
sec=sec.replace('@@W6TABLE@@',open('/tmp/w6table.md').read())
sec=sec.replace('@@W7TABLE@@',open('/tmp/w7table.md').read())
sec=sec.replace('@@W8TABLE@@',open('/tmp/w8table.md').read())
sec=sec.replace('**18 of 40** reported by the target property\'s check, @@W6OTHER@@ more\nonly under another property, @@W6MISSED@@ missed.','**17 of 40** reported by the target property\'s check, 7 more\nonly under another property, 16 missed.')
sec=sec.replace('**@@W6FINAL@@**','**40 of 40**')
sec=sec.replace('@@SELFTESTS@@',open('/tmp/selftests.md').read().strip())
assert '@@' not in sec, re.findall(r'@@\w+@@',sec)
s=s.replace('## Appendix A', sec.rstrip('\n')+'\n\n\n## Appendix A',1)
# head
rules=open('/verif/RULES.md').read()
per={}
for m in re.finditer(r'^  (C\d\d)\.\d+',rules,re.M): per[m.group(1)]=per.get(m.group(1),0)+1
total=sum(per.values())
perline=', '.join('%s %d'%(k,per[k]) for k in sorted(per))
old_head=s[s.index('Status: built'):s.index('Contents')]
new_head='''Status: built (three rounds). Sections 1–8 are the design as written before any
code existed, edited where the build deviated (each deviation is marked
"Built:"); §9–§11 are the build records of the three rounds. §9 is the first:
what exists, what the rules found on the pinned tree, which findings were
repaired, which alarms of my own machinery turned out to be false and how they
were corrected, and how the checks fare against reverted repairs, in-memory
mutants and changes seeded by independent agents. §11 is the latest: 39 more
genuine defects repaired, three recorded as known findings, six more waves of
independently seeded changes (320 seeded in all, 317 kept), five more
refactoring sets (192 refactorings in all); final numbers in §11.4. All 20
checks exit 0 on the committed trees (`/repo` = pinned snapshot + 80 `fix:`
commits; known findings D75, D76, D86, printed as KNOWN-FINDING).

'''
s=s.replace(old_head,new_head)
a=s.index('§5 lists each with its failing input and disposition. Built:')
b=s.index('## 1. What static analysis can and cannot settle here')
new0='''§5 lists each with its failing input and disposition. Built: every claimed
check exits 0 on the final tree: 80 defects were repaired by `fix:` commits
(round 1: D01–D22, D24–D31, D33–D37; round 2, §10: D08 and D38–D43; round 3,
§11: D23 (through D60), D32, D44–D51, D55–D74, D77, D78, D80–D85, D87–D89), and three
are recorded in `/verif/known-findings.txt` and printed as `KNOWN-FINDING`: D75
(C14: the JSON key listing of the maintenance API), D76 (C17, C03: an index file
copied between keys), D86 (C08, C09, C19: the reference list of a URI is
written back from a snapshot).
Rules per property as built (after round 3; `RULES.md` lists them): %s (%d rule
entries; shared rules are entered under every property they serve; several
entries carry more than one obligation). The table above is the design-time
view; the build records §9–§11 say what each round added and why.


''' % (perline,total)
s=s[:a]+new0+s[b:]
open(D,'w').write(s)
print('rules',total)
