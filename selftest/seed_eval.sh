#!/bin/sh
# Confirms one seeded change and runs the checks against it.
# usage: seed_eval.sh <seed-dir> <N> <prop> <out-dir>
#   <seed-dir>/changeN.diff demoN_test.go notesN.md ; results go to <out-dir> (patch.diff, demo_test.go, notes.md, eval.txt)
SEED="$1"; N="$2"; PROP="$3"; OUT="$4"
cd "$(dirname "$0")/.."
export PATH=/opt/veriftools/go1.26.8/bin:$PATH GOTOOLCHAIN=local GOFLAGS=-mod=mod GOPROXY=off GOSUMDB=off GOWORK=off
WT=$(mktemp -d /tmp/hcv-seed.XXXXXX)
rmdir "$WT"
git -C /repo worktree add -q --detach "$WT" HEAD || exit 2
mkdir -p "$OUT"
cp "$SEED/change$N.diff" "$OUT/patch.diff"; cp "$SEED/demo${N}_test.go" "$OUT/demo_test.go"; cp "$SEED/notes$N.md" "$OUT/notes.md" 2>/dev/null
DIR=$(head -1 "$SEED/demo${N}_test.go" | sed -n 's,^// dir: *,,p'); [ -z "$DIR" ] && DIR=.
E="$OUT/eval.txt"; : > "$E"
TESTS=$(sed -n 's/^func \(Test[A-Za-z0-9_]*\)(.*/\1/p' "$SEED/demo${N}_test.go" | tr '\n' '|' | sed 's/|$//')
cp "$SEED/demo${N}_test.go" "$WT/$DIR/zz_seed_demo_test.go"
if (cd "$WT/$DIR" && go test -count=1 -vet=off -run "^($TESTS)\$" . >/dev/null 2>&1); then echo "demo-without-change: PASS" >> "$E"; else echo "demo-without-change: FAIL (seed rejected)" >> "$E"; fi
if git -C "$WT" apply "$OUT/patch.diff" 2>>"$E"; then echo "patch: applies" >> "$E"; else echo "patch: DOES NOT APPLY" >> "$E"; fi
if (cd "$WT" && go build ./... >/dev/null 2>&1); then echo "build-with-change: OK" >> "$E"; else echo "build-with-change: FAILS" >> "$E"; fi
if (cd "$WT/$DIR" && go test -count=1 -vet=off -run "^($TESTS)\$" . >/dev/null 2>&1); then echo "demo-with-change: PASS (seed rejected: not demonstrated)" >> "$E"; else echo "demo-with-change: FAIL (as required)" >> "$E"; fi
rm -f "$WT/$DIR/zz_seed_demo_test.go"
./baseline.sh "$WT" | head -3 >> "$E"
for p in C01 C02 C03 C04 C05 C06 C07 C08 C09 C10 C11 C12 C13 C14 C15 C16 C17 C18 C19 C20; do
  res=$(./run.sh check -p $p -repo "$WT" -evidence "$WT/.ev.json" 2>&1)
  if printf "%s\n" "$res" | grep -q '^VIOLATION'; then
    echo "check $p: VIOLATION $(printf "%s\n" "$res" | grep -E '^(VIOLATED|UNDECIDED)' | grep -v 'C11.2 freshness-age-fabricated' | awk '{print $2}' | sort -u | tr '\n' ' ')" >> "$E"
  fi
done
grep -q "^check $PROP: VIOLATION" "$E" && echo "target-property $PROP: DETECTED" >> "$E" || echo "target-property $PROP: MISSED" >> "$E"
git -C /repo worktree remove --force "$WT"; git -C /repo worktree prune
cat "$E"
