package main

import (
	"os"

	"hcv/hcv"
)

func main() { os.Exit(hcv.Main(os.Args[1:])) }
