#!/bin/sh
# runs every property's quick check and prints one line each (plus violations)
cd "$(dirname "$0")"
for p in C01 C02 C03 C04 C05 C06 C07 C08 C09 C10 C11 C12 C13 C14 C15 C16 C17 C18 C19 C20; do
  ./run.sh check -p $p "$@" 2>&1 | grep -E '^(VIOLATED|UNDECIDED|KNOWN-FINDING|C[0-9]+ \[)'
done
