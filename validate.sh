#!/bin/sh
# validates MANIFEST.json and every evidence file against the schemas
cd "$(dirname "$0")"
python3-vt - <<'PY'
import json,glob,jsonschema,sys
ok=True
try:
    jsonschema.validate(json.load(open('MANIFEST.json')),json.load(open('/root/.vp/MANIFEST.schema.json'))); print('MANIFEST ok')
except Exception as e:
    print('MANIFEST INVALID',e); ok=False
es=json.load(open('/root/.vp/EVIDENCE.schema.json'))
for f in sorted(glob.glob('evidence/*.json')):
    try:
        jsonschema.validate(json.load(open(f)),es)
    except Exception as e:
        print('EVIDENCE INVALID',f,str(e)[:300]); ok=False
print('evidence files:',len(glob.glob('evidence/*.json')))
sys.exit(0 if ok else 1)
PY
