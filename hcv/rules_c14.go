package hcv

import (
	"fmt"
	"go/token"
	"go/types"
	"sort"
	"strings"

	"golang.org/x/tools/go/ssa"
)

func init() {
	register(&Property{
		ID:    "C14",
		Title: "Each backend behaves as an exact, byte-preserving map",
		Decides: "every access to a mutex-guarded map (memory backend, driver registry) happens with the sibling mutex held (write lock for writes) and every path leaves the " +
			"method unlocked; the bytes stored are a copy made inside Set and the bytes returned are a copy made inside Get; absent keys report driver.ErrNotExist in every " +
			"backend for Get and Delete; the maintenance API passes the path key through unchanged, writes the bytes it read and maps not-exist to 404; file-name encoder and " +
			"decoder use the same base64 alphabet; key listing filters on the decoded key.",
		NotDecided: "injectivity of the key-to-path mapping in general (decided: directory components carry a marker outside the file-name alphabet, the empty key has a name, single components are length-tested on the returned string); file-system path limits (PATH_MAX in the listing walk); reopen behaviour; the maintenance API's JSON rendering of keys that are not valid UTF-8.",
		Rules: []Rule{
			{ID: "C14.1", Desc: "lock discipline", Run: ruleC14_1, MinSites: 4},
			{ID: "C14.2", Desc: "copy-in / copy-out isolation", Run: ruleC14_2, MinSites: 2},
			{ID: "C14.3", Desc: "not-exist error agreement", Run: ruleC14_3, MinSites: 4},
			{ID: "C14.4", Desc: "maintenance API addresses the same keys and bytes", Run: ruleC14_4, MinSites: 3},
			{ID: "C14.5", Desc: "file-name codec agreement", Run: ruleC14_5, MinSites: 2},
			{ID: "C14.6", Desc: "prefix listing filters the decoded key", Run: ruleC14_6, MinSites: 1},
			{ID: "C14.9", Desc: "directory names of fragmented keys carry a marker outside the file-name alphabet (no key's file is another key's directory)", Run: ruleC14_9, MinSites: 1},
			{ID: "C14.8", Desc: "Set can create its temporary file for every key (its name does not extend the entry's file name)", Run: func(c *Ctx) { ruleC15_1(c); renameRule(c, "C15.1", "C14.8") }, MinSites: 1},
			{ID: "C14.7", Desc: "a file name returned as one path component is bounded by the file-name limit", Run: ruleC14_7, MinSites: 1},
			{ID: "C14.10", Desc: "every key has a file name: the namer returns a text derived from the key only where it was tested to be non-empty (the empty key gets a name of its own)", Run: ruleC14_10, MinSites: 1},
			{ID: "C14.11", Desc: "a Set or Delete that failed with a timeout does not change the map later", Run: func(c *Ctx) { ruleAbandonedNotPublished(c, "C14.11") }, MinSites: 1},
			{ID: "C14.12", Desc: "Delete removes only the key's file", Run: func(c *Ctx) { ruleDeleteOnlyTheKey(c, "C14.12") }, MinSites: 1},
			{ID: "C14.13", Desc: "the listing skips files only on kind, temporary prefix or decoded key", Run: func(c *Ctx) { ruleKeysWalkConditions(c, "C14.13") }, MinSites: 1},
			{ID: "C14.15", Desc: "keys listed by the maintenance API survive the JSON encoding", Run: func(c *Ctx) { ruleAPIListKeysUTF8(c, "C14.15") }, MinSites: 1},
			{ID: "C14.16", Desc: "the file namer encodes the key's own bytes", Run: func(c *Ctx) { ruleFileNameFromKeyBytes(c, "C14.16") }, MinSites: 1},
			{ID: "C14.17", Desc: "Set does not write into the caller's value buffer (the encryptor seals into a buffer of its own)", Run: func(c *Ctx) { ruleC17_3(c); renameRule(c, "C17.3", "C14.17") }, MinSites: 1},
			{ID: "C14.18", Desc: "the last fragment of an encoded key never carries the directory marker (keys whose encoding is a whole number of fragments)", Run: func(c *Ctx) { ruleMarkerStrictlyInside(c, "C14.18") }, MinSites: 1},
			{ID: "C14.19", Desc: "not-exist errors are recognised through errors.Is with the error first (wrapped and joined errors of the backends)", Run: func(c *Ctx) { ruleErrorsIsOrder(c, "C14.19") }, MinSites: 1},
			{ID: "C14.20", Desc: "no key's file name can be a temporary file's name", Run: func(c *Ctx) { ruleTempPrefixOutsideAlphabet(c, "C14.20") }, MinSites: 1},
			{ID: "C14.21", Desc: "keys of any length can be listed: the listing goes through the root handle like Set, Get and Delete", Run: func(c *Ctx) { ruleListingThroughRoot(c, "C14.21") }, MinSites: 1},
			{ID: "C14.22", Desc: "the walk callback of the listing returns fs.SkipDir for directories at most", Run: func(c *Ctx) { ruleWalkSkipsFilesWithNil(c, "C14.22") }, MinSites: 1},
			{ID: "C14.23", Desc: "values of any length come back from the encrypted backend (minimum ciphertext length from the AEAD)", Run: func(c *Ctx) { ruleCiphertextMinLength(c, "C14.23") }, MinSites: 1},
			{ID: "C14.24", Desc: "the repository's error sentinels are matched with errors.Is", Run: func(c *Ctx) { ruleSentinelsByErrorsIs(c, "C14.24") }, MinSites: 1},
			{ID: "C14.25", Desc: "the memory backend stores a copy of its own of every value", Run: func(c *Ctx) { ruleStoredValueIsFresh(c, "C14.25") }, MinSites: 1},
			{ID: "C14.26", Desc: "an absent key reports the not-exist error also with update_mtime (the read comes first)", Run: func(c *Ctx) { ruleReadComesFirstInGet(c, "C14.26") }, MinSites: 1},
			{ID: "C14.27", Desc: "the root handle is opened on the directory created for base directory and application name", Run: func(c *Ctx) { ruleRootIsTheCreatedDirectory(c, "C14.27") }, MinSites: 1},
			{ID: "C14.28", Desc: "the bytes written to an entry file derive from the value parameter of the writing function", Run: func(c *Ctx) { ruleWrittenBytesAreTheValue(c, "C14.28") }, MinSites: 1},
		},
	})
}

// guardedStructs: named struct types in repo packages that have a sync.Mutex/RWMutex field and at least one map field.
type guardedStruct struct {
	T      *types.Named
	Mu     int
	RW     bool
	Maps   []int
	Fields *types.Struct
}

func (c *Ctx) guardedStructs() []guardedStruct {
	var out []guardedStruct
	for _, pk := range c.P.Pkgs {
		if strings.HasSuffix(pk.PkgPath, "/internal/testutil") || strings.HasSuffix(pk.PkgPath, "/store/acceptance") {
			continue
		}
		sc := pk.Types.Scope()
		for _, name := range sc.Names() {
			tn, ok := sc.Lookup(name).(*types.TypeName)
			if !ok {
				continue
			}
			n := namedOf(tn.Type())
			if n == nil {
				continue
			}
			st, ok := n.Underlying().(*types.Struct)
			if !ok {
				continue
			}
			g := guardedStruct{T: n, Mu: -1, Fields: st}
			for i := 0; i < st.NumFields(); i++ {
				ft := st.Field(i).Type()
				if typeIs(ft, "sync", "Mutex") {
					g.Mu = i
				}
				if typeIs(ft, "sync", "RWMutex") {
					g.Mu, g.RW = i, true
				}
				if _, isMap := ft.Underlying().(*types.Map); isMap {
					g.Maps = append(g.Maps, i)
				}
			}
			if g.Mu >= 0 && len(g.Maps) > 0 {
				out = append(out, g)
			}
		}
	}
	return out
}

func ruleC14_1(c *Ctx) {
	gs := c.guardedStructs()
	if len(gs) == 0 {
		c.Undecided("C14.1", "vacuity", "mutex-guarded maps exist (memory backend, registry)", "none found")
		return
	}
	for _, g := range gs {
		isMapField := map[int]bool{}
		for _, m := range g.Maps {
			isMapField[m] = true
		}
		for _, fn := range c.P.RepoFuncs {
			if isTestOnly(c, fn) || len(fn.Blocks) == 0 {
				continue
			}
			// accesses to the guarded maps through a non-local base
			type acc struct {
				in    ssa.Instruction
				write bool
			}
			var accs []acc
			instrsOf(fn, func(in ssa.Instruction) {
				fa, ok := in.(*ssa.FieldAddr)
				if !ok || !isPtrToNamed(fa.X.Type(), g.T) || !isMapField[fa.Field] {
					return
				}
				if _, local := fa.X.(*ssa.Alloc); local {
					return // constructor initialising its own allocation
				}
				// the loaded map value's uses
				if refs := fa.Referrers(); refs != nil {
					for _, r := range *refs {
						switch u := r.(type) {
						case *ssa.Store:
							accs = append(accs, acc{u, true})
						case *ssa.UnOp:
							if rr := u.Referrers(); rr != nil {
								for _, use := range *rr {
									switch x := use.(type) {
									case *ssa.MapUpdate:
										accs = append(accs, acc{x, true})
									case *ssa.Lookup, *ssa.Range:
										accs = append(accs, acc{use, false})
									case ssa.CallInstruction:
										cc := x.Common()
										if b, ok := cc.Value.(*ssa.Builtin); ok && b.Name() == "delete" {
											accs = append(accs, acc{use, true})
										} else {
											accs = append(accs, acc{use, false})
										}
									case *ssa.DebugRef:
									default:
										accs = append(accs, acc{use, false})
									}
								}
							}
						}
					}
				}
			})
			if len(accs) == 0 {
				continue
			}
			states := lockStates(fn, g)
			key := fmt.Sprintf("lock type=%s fn=%s", g.T.Obj().Name(), c.P.ShortName(fn))
			desc := "every access to the guarded map happens with the sibling mutex held (write lock for writes) and the method returns unlocked"
			bad := ""
			for _, a := range accs {
				st := states.at[a.in]
				if a.write {
					if st != "W" {
						bad = fmt.Sprintf("%s: map write in lock state %q", c.P.InstrPos(a.in), st)
					}
				} else if st != "W" && st != "R" {
					bad = fmt.Sprintf("%s: map read in lock state %q", c.P.InstrPos(a.in), st)
				}
			}
			if bad == "" && states.leak != "" {
				bad = states.leak
			}
			if bad != "" {
				c.Fail("C14.1", key, desc, bad+"; concurrent RoundTrips race on the map", fmt.Sprintf("%d accesses", len(accs)))
			} else {
				c.Pass("C14.1", key, desc, fmt.Sprintf("%s: %d accesses", c.P.ShortName(fn), len(accs)))
			}
		}
	}
}

type lockResult struct {
	at   map[ssa.Instruction]string // lock state before each instruction: "U","R","W","?" (mixed)
	leak string
}

// lockStates: forward dataflow of the lock state of the receiver's mutex through fn.
func lockStates(fn *ssa.Function, g guardedStruct) lockResult {
	res := lockResult{at: map[ssa.Instruction]string{}}
	isMuCall := func(in ssa.Instruction) (string, bool) {
		cc := callOf(in)
		if cc == nil || cc.IsInvoke() {
			return "", false
		}
		sc := cc.StaticCallee()
		if sc == nil || sc.Signature.Recv() == nil || len(cc.Args) == 0 {
			return "", false
		}
		fa, ok := cc.Args[0].(*ssa.FieldAddr)
		if !ok || !isPtrToNamed(fa.X.Type(), g.T) || fa.Field != g.Mu {
			return "", false
		}
		return sc.Name(), true
	}
	join := func(a, b string) string {
		if a == "" {
			return b
		}
		if b == "" || a == b {
			return a
		}
		return "?"
	}
	in := map[int]string{0: "U"}
	out := map[int]string{}
	deferredUnlock := false
	instrsOf(fn, func(i ssa.Instruction) {
		if d, ok := i.(*ssa.Defer); ok {
			if name, ok := isMuCall(d); ok && (name == "Unlock" || name == "RUnlock") {
				deferredUnlock = true
			}
		}
	})
	for changed := true; changed; {
		changed = false
		for _, b := range fn.Blocks {
			cur := in[b.Index]
			if b.Index != 0 {
				cur = ""
				for _, pd := range b.Preds {
					cur = join(cur, out[pd.Index])
				}
			}
			if cur == "" {
				continue
			}
			for _, i := range b.Instrs {
				res.at[i] = cur
				if _, isDefer := i.(*ssa.Defer); isDefer {
					continue
				}
				if name, ok := isMuCall(i); ok {
					switch name {
					case "Lock":
						cur = "W"
					case "RLock":
						cur = "R"
					case "Unlock", "RUnlock":
						cur = "U"
					}
				}
				if r, ok := i.(*ssa.Return); ok && cur != "U" && !deferredUnlock {
					res.leak = fmt.Sprintf("return at line %d with the mutex still held (state %s) and no deferred unlock", fn.Prog.Fset.Position(r.Pos()).Line, cur)
				}
			}
			if out[b.Index] != cur {
				out[b.Index] = cur
				changed = true
			}
		}
	}
	return res
}

// connImpls: concrete driver.Conn implementations in the built-in backend packages.
func (c *Ctx) connImpls() []*types.Named {
	var out []*types.Named
	iface, _ := c.A.ConnT.Underlying().(*types.Interface)
	if iface == nil {
		return nil
	}
	for _, pk := range c.P.Pkgs {
		if pk.PkgPath != c.A.memcachePath && pk.PkgPath != c.A.fscachePath {
			continue
		}
		sc := pk.Types.Scope()
		for _, name := range sc.Names() {
			tn, ok := sc.Lookup(name).(*types.TypeName)
			if !ok {
				continue
			}
			n := namedOf(tn.Type())
			if n == nil {
				continue
			}
			if _, isStruct := n.Underlying().(*types.Struct); !isStruct {
				continue
			}
			if types.Implements(types.NewPointer(n), iface) {
				out = append(out, n)
			}
		}
	}
	sort.Slice(out, func(i, j int) bool { return out[i].Obj().Name() < out[j].Obj().Name() })
	return out
}

func (c *Ctx) methodOf(n *types.Named, name string) *ssa.Function {
	ms := c.P.SSA.MethodSets.MethodSet(types.NewPointer(n))
	sel := ms.Lookup(n.Obj().Pkg(), name)
	if sel == nil {
		return nil
	}
	return c.P.SSA.MethodValue(sel)
}

// sliceBacking: where the backing array of the slice value v may come from: "fresh" (allocated in the function:
// make, a clone, a conversion from string, or the growth of an append), "nil", or a description of a foreign origin
// (a parameter, a stored value, anything unrecognised). `append(dst, src...)` writes into dst's array when it fits, so
// its result shares dst's origins (never src's); `x[:0:0]` has no capacity and shares nothing.
func (c *Ctx) sliceBacking(v ssa.Value) []string {
	set := map[string]bool{}
	seen := map[ssa.Value]bool{}
	var rec func(v ssa.Value)
	rec = func(v ssa.Value) {
		if seen[v] {
			return
		}
		seen[v] = true
		switch x := v.(type) {
		case *ssa.MakeSlice:
			set["fresh"] = true
		case *ssa.Const:
			if x.Value == nil {
				set["nil"] = true
			} else {
				set["const"] = true
			}
		case *ssa.Convert:
			if isStringType(x.X.Type()) {
				set["fresh"] = true
			} else {
				rec(x.X)
			}
		case *ssa.ChangeType:
			rec(x.X)
		case *ssa.Slice:
			if k, ok := constInt(x.Max); ok && x.Max != nil && k == 0 {
				set["nil"] = true // zero capacity: shares no storage
				return
			}
			rec(x.X)
		case *ssa.Phi:
			for _, e := range x.Edges {
				rec(e)
			}
		case *ssa.Call:
			if b, ok := x.Call.Value.(*ssa.Builtin); ok && b.Name() == "append" {
				set["fresh"] = true // growth allocates
				rec(x.Call.Args[0])
				return
			}
			if callIsPkgFunc(&x.Call, "bytes", "Clone") || callIsPkgFunc(&x.Call, "slices", "Clone") {
				set["fresh"] = true
				return
			}
			// append-to-dst APIs: cipher.AEAD.Seal/Open(dst, ...) and slices.Grow(s, n) return dst's array or a fresh one
			if x.Call.IsInvoke() && (x.Call.Method.Name() == "Seal" || x.Call.Method.Name() == "Open") && len(x.Call.Args) == 4 {
				set["fresh"] = true
				rec(x.Call.Args[0])
				return
			}
			if sc := x.Call.StaticCallee(); sc != nil {
				n := sc.String()
				if o := sc.Origin(); o != nil {
					n = o.String()
				}
				if strings.HasPrefix(n, "slices.Grow") && len(x.Call.Args) == 2 {
					set["fresh"] = true
					rec(x.Call.Args[0])
					return
				}
			}
			if sc := x.Call.StaticCallee(); sc != nil && c.P.IsRepoFunc(sc) && len(sc.Blocks) > 0 {
				for _, b := range sc.Blocks {
					if r, ok := b.Instrs[len(b.Instrs)-1].(*ssa.Return); ok && len(r.Results) > 0 {
						rec(r.Results[0])
					}
				}
				return
			}
			set["call:"+x.String()] = true
		case *ssa.UnOp:
			if al, ok := x.X.(*ssa.Alloc); ok && x.Op == token.MUL {
				for _, st := range c.P.cellStores(al) {
					rec(st.Val)
				}
				return
			}
			set["load:"+x.String()] = true
		case *ssa.Extract:
			if lk, ok := x.Tuple.(*ssa.Lookup); ok {
				set["stored:"+lk.String()] = true
				return
			}
			set["extract:"+x.String()] = true
		case *ssa.Lookup:
			set["stored:"+x.String()] = true
		case *ssa.Parameter:
			set["param:"+x.Name()] = true
		default:
			set[fmt.Sprintf("%T:%s", v, v.String())] = true
		}
	}
	rec(v)
	return sortedKeys(set)
}

func ruleC14_2(c *Ctx) {
	impls := c.connImpls()
	n := 0
	for _, t := range impls {
		if t.Obj().Pkg().Path() != c.A.memcachePath {
			continue
		}
		set, get := c.methodOf(t, "Set"), c.methodOf(t, "Get")
		if set == nil || get == nil {
			continue
		}
		n++
		// Set: the value stored in the map is rooted at a make in the method
		okSet := true
		nSet := 0
		instrsOf(set, func(in ssa.Instruction) {
			mu, ok := in.(*ssa.MapUpdate)
			if !ok {
				return
			}
			nSet++
			for _, o := range c.sliceBacking(mu.Value) {
				if o != "fresh" {
					okSet = false
				}
			}
			// and it must be filled from the parameter by copy
		})
		copies := func(fn *ssa.Function) bool {
			for g := range c.P.StaticTree(fn) { // (the copy may sit in a helper such as `duplicate(b)`)
				if callsWhere(g, func(cc *ssa.CallCommon) bool {
					b, ok := cc.Value.(*ssa.Builtin)
					return ok && (b.Name() == "copy" || b.Name() == "append")
				}) || callsWhere(g, func(cc *ssa.CallCommon) bool {
					return callIsPkgFunc(cc, "bytes", "Clone") || callIsPkgFunc(cc, "slices", "Clone")
				}) {
					return true
				}
			}
			return false
		}
		desc := "Set stores a copy made inside the method, not the caller's buffer"
		if nSet == 0 {
			c.Undecided("C14.2", "copy-in type="+t.Obj().Name(), desc, "no map update in Set")
		} else if okSet && copies(set) {
			c.Pass("C14.2", "copy-in type="+t.Obj().Name(), desc, c.P.ShortName(set))
		} else {
			c.Fail("C14.2", "copy-in type="+t.Obj().Name(), desc, c.P.ShortName(set)+": the stored slice is (or aliases) the caller's buffer; mutating it after Set changes the stored value")
		}
		// Get: the returned slice is rooted at a make (or nil)
		okGet := true
		nRet := 0
		instrsOf(get, func(in ssa.Instruction) {
			r, ok := in.(*ssa.Return)
			if !ok || len(r.Results) != 2 {
				return
			}
			nRet++
			for _, o := range c.sliceBacking(r.Results[0]) {
				if o != "fresh" && o != "nil" {
					okGet = false
				}
			}
		})
		desc2 := "Get returns a copy made inside the method, not the stored slice"
		if nRet == 0 {
			c.Undecided("C14.2", "copy-out type="+t.Obj().Name(), desc2, "no return in Get")
		} else if okGet && copies(get) {
			c.Pass("C14.2", "copy-out type="+t.Obj().Name(), desc2, c.P.ShortName(get))
		} else {
			c.Fail("C14.2", "copy-out type="+t.Obj().Name(), desc2, c.P.ShortName(get)+": the returned slice aliases the stored value; the transport's in-place edits would corrupt the store")
		}
	}
	if n == 0 {
		c.Undecided("C14.2", "vacuity", "the memory backend exists", "no driver.Conn implementation in the memcache package")
	}
}

// referencesGlobal: fn's call tree loads the package-level variable pkg.name.
func (c *Ctx) referencesGlobal(fn *ssa.Function, pkg, name string) bool {
	hit := false
	for _, f := range c.reachableFrom(fn) {
		instrsOf(f, func(in ssa.Instruction) {
			for _, op := range in.Operands(nil) {
				if g, ok := (*op).(*ssa.Global); ok && g.Name() == name && g.Pkg.Pkg.Path() == pkg {
					hit = true
				}
			}
		})
	}
	return hit
}

func ruleC14_3(c *Ctx) {
	impls := c.connImpls()
	if len(impls) < 2 {
		c.Undecided("C14.3", "vacuity", "two built-in backends exist", fmt.Sprintf("found %d", len(impls)))
		return
	}
	for _, t := range impls {
		for _, m := range []string{"Get", "Delete"} {
			fn := c.methodOf(t, m)
			key := fmt.Sprintf("not-exist type=%s method=%s", t.Obj().Name(), m)
			desc := "an absent key is reported with an error built from driver.ErrNotExist"
			if fn == nil {
				c.Undecided("C14.3", key, desc, "method not found")
				continue
			}
			if !c.referencesGlobal(fn, c.A.driverPath, "ErrNotExist") {
				c.Fail("C14.3", key, desc, c.P.ShortName(fn)+": never refers to driver.ErrNotExist; the transport logs corruption and the maintenance API answers 500 for an absent key")
				continue
			}
			// the sentinel must be wrapped, not replaced: it reaches errors.Join / fmt.Errorf / a return
			c.Pass("C14.3", key, desc, c.P.ShortName(fn))
		}
		// the sentinel is produced only on the absent edge: every load of it is dominated by the absence test
		for _, m := range []string{"Get", "Delete"} {
			fn := c.methodOf(t, m)
			if fn == nil {
				continue
			}
			bad := ""
			nl := 0
			for _, f := range c.reachableFrom(fn) {
				instrsOf(f, func(in ssa.Instruction) {
					u, ok := in.(*ssa.UnOp)
					if !ok {
						return
					}
					g, ok := u.X.(*ssa.Global)
					if !ok || g.Name() != "ErrNotExist" || g.Pkg.Pkg.Path() != c.A.driverPath {
						return
					}
					nl++
					guardedAt := func(blk *ssa.BasicBlock) bool {
						for _, dc := range dominatingConds(blk) {
							// errors.Is(err, os.ErrNotExist) true edge, or the comma-ok of a map lookup false edge
							if call, ok := dc.cond.(*ssa.Call); ok && callIsPkgFunc(&call.Call, "errors", "Is") && dc.onTrue {
								return true
							}
							if ex, ok := dc.cond.(*ssa.Extract); ok && !dc.onTrue {
								if lk, ok := ex.Tuple.(*ssa.Lookup); ok && lk.CommaOk {
									return true
								}
							}
						}
						return false
					}
					guarded := guardedAt(u.Block())
					if !guarded && f != fn && f.Parent() == nil {
						// the error is built in a helper (`notExistError(key)`): every call of it in this method's tree
						// stands under the absence test
						inTree := map[*ssa.Function]bool{}
						for _, g := range c.reachableFrom(fn) {
							inTree[g] = true
						}
						sites, all := 0, true
						for _, cs := range c.P.Callers(f) {
							if !inTree[cs.Caller] {
								continue
							}
							sites++
							if !guardedAt(cs.Instr.Block()) {
								all = false
							}
						}
						guarded = sites > 0 && all
					}
					if !guarded {
						bad = c.P.InstrPos(in) + ": driver.ErrNotExist is produced outside the absence test (missing file / map miss)"
					}
				})
			}
			key := fmt.Sprintf("not-exist-only-when-absent type=%s method=%s", t.Obj().Name(), m)
			if bad != "" {
				c.Fail("C14.3", key, "the not-exist error is reported only for an absent key", bad+"; a present key (e.g. with an empty value) would be reported absent while listing and Delete still see it")
			} else if nl > 0 {
				c.Pass("C14.3", key, "the not-exist error is reported only for an absent key", fmt.Sprintf("%s: %d uses", c.P.ShortName(fn), nl))
			}
		}
		// file-system backend: the absent case is recognised through os.ErrNotExist / fs.ErrNotExist
		if t.Obj().Pkg().Path() == c.A.fscachePath {
			for _, m := range []string{"Get", "Delete"} {
				fn := c.methodOf(t, m)
				if fn == nil {
					continue
				}
				if c.referencesGlobal(fn, "os", "ErrNotExist") || c.referencesGlobal(fn, "io/fs", "ErrNotExist") {
					c.Pass("C14.3", fmt.Sprintf("fs-absent type=%s method=%s", t.Obj().Name(), m), "the file-system backend recognises a missing file as absent key", c.P.ShortName(fn))
				} else {
					c.Fail("C14.3", fmt.Sprintf("fs-absent type=%s method=%s", t.Obj().Name(), m), "the file-system backend recognises a missing file as absent key", c.P.ShortName(fn)+": no test against os.ErrNotExist")
				}
			}
		}
	}
}

func ruleC14_4(c *Ctx) {
	ep := c.P.Pkg("store/expapi")
	if ep == nil {
		c.Undecided("C14.4", "vacuity", "the maintenance API package exists", "store/expapi not loaded")
		return
	}
	var fns []*ssa.Function
	for _, fn := range c.P.RepoFuncs {
		if fn.Pkg == ep || (fn.Parent() != nil && fn.Parent().Pkg == ep) {
			fns = append(fns, fn)
		}
	}
	nGet, nDel := 0, 0
	for _, fn := range fns {
		instrsOf(fn, func(in ssa.Instruction) {
			cc := callOf(in)
			if cc == nil || !cc.IsInvoke() || !isNamed(cc.Value.Type(), c.A.ConnT) {
				return
			}
			if cc.Method.Name() != "Get" && cc.Method.Name() != "Delete" {
				return
			}
			where := c.P.ShortName(fn) + "@" + c.P.InstrPos(in)
			// key argument: PathValue unchanged
			okKey := true
			sawPath := false
			c.P.TraceBack(cc.Args[0], TraceOpts{ThroughOps: true, ThroughExtern: true, NoHeapFields: true}, func(v ssa.Value, _ []int) bool {
				switch y := v.(type) {
				case *ssa.Call:
					if callIsMethod(&y.Call, "net/http", "Request", "PathValue") {
						sawPath = true
						return false
					}
					if len(c.P.RepoCallees(y)) == 0 {
						okKey = false // transformed by a library call
					}
				case *ssa.Extract:
					if ec, ok := y.Tuple.(*ssa.Call); ok && len(c.P.RepoCallees(ec)) == 0 {
						okKey = false // result of a library call (unescape, trim, ...)
					}
				case *ssa.BinOp:
					okKey = false
				}
				return true
			})
			desc := "the maintenance API hands the path key to the backend unchanged"
			if okKey && sawPath {
				c.Pass("C14.4", "api-key "+cc.Method.Name()+" fn="+c.P.ShortName(fn), desc, where)
			} else {
				c.Fail("C14.4", "api-key "+cc.Method.Name()+" fn="+c.P.ShortName(fn), desc, where+": key is transformed or does not come from PathValue")
			}
			if cc.Method.Name() == "Get" {
				nGet++
				// bytes written are the bytes read
				call := in.(*ssa.Call)
				var data ssa.Value
				if refs := call.Referrers(); refs != nil {
					for _, r := range *refs {
						if ex, ok := r.(*ssa.Extract); ok && ex.Index == 0 {
							data = ex
						}
					}
				}
				wrote := false
				instrsOf(fn, func(i2 ssa.Instruction) {
					c2 := callOf(i2)
					if c2 != nil && c2.IsInvoke() && c2.Method.Name() == "Write" && len(c2.Args) == 1 && c.An.sameCanon(c2.Args[0], data) {
						wrote = true
					}
				})
				if wrote {
					c.Pass("C14.4", "api-bytes fn="+c.P.ShortName(fn), "the bytes written to the client are the bytes read from the backend", where)
				} else {
					c.Fail("C14.4", "api-bytes fn="+c.P.ShortName(fn), "the bytes written to the client are the bytes read from the backend", where+": the value read is not what is written")
				}
			} else {
				nDel++
			}
			// not-exist => 404
			is404 := false
			usesNotExist := false
			// the reply may be written by a helper shared by the handlers
			var scope []*ssa.Function
			for _, g := range c.reachableFrom(fn) {
				scope = append(scope, g)
			}
			for _, g := range scope {
				instrsOf(g, func(i2 ssa.Instruction) {
					c2 := callOf(i2)
					if c2 == nil {
						return
					}
					if callIsPkgFunc(c2, "net/http", "Error") && len(c2.Args) == 3 {
						if k, ok := constInt(c2.Args[2]); ok && k == 404 {
							is404 = true
						}
					}
					if callIsPkgFunc(c2, "errors", "Is") {
						for _, a := range c2.Args {
							if u, ok := a.(*ssa.UnOp); ok && u.Op == token.MUL {
								if g, ok := u.X.(*ssa.Global); ok && g.Name() == "ErrNotExist" {
									usesNotExist = true
								}
							}
						}
					}
				})
			}
			if is404 && usesNotExist {
				c.Pass("C14.4", "api-404 "+cc.Method.Name()+" fn="+c.P.ShortName(fn), "an absent key is answered 404", where)
			} else {
				c.Fail("C14.4", "api-404 "+cc.Method.Name()+" fn="+c.P.ShortName(fn), "an absent key is answered 404", where+fmt.Sprintf(": 404 written=%v, errors.Is(err, ErrNotExist)=%v", is404, usesNotExist))
			}
		})
	}
	if nGet == 0 || nDel == 0 {
		c.Undecided("C14.4", "vacuity-handlers", "retrieve and destroy handlers exist", fmt.Sprintf("Get sites=%d Delete sites=%d", nGet, nDel))
	}
}

func ruleC14_5(c *Ctx) {
	fp := c.P.Pkg("store/fscache")
	if fp == nil {
		c.Undecided("C14.5", "vacuity", "file-system backend loaded", "not loaded")
		return
	}
	enc := map[string][]string{}
	for _, fn := range c.P.RepoFuncs {
		if fn.Pkg != fp {
			continue
		}
		instrsOf(fn, func(in ssa.Instruction) {
			cc := callOf(in)
			if cc == nil || cc.IsInvoke() {
				return
			}
			sc := cc.StaticCallee()
			if sc == nil || !(sc.Name() == "EncodeToString" || sc.Name() == "DecodeString") || !isMethod(sc, "encoding/base64", "Encoding", sc.Name()) {
				return
			}
			// receiver: load of a base64 package variable
			name := "?"
			if u, ok := cc.Args[0].(*ssa.UnOp); ok {
				if g, ok := u.X.(*ssa.Global); ok {
					name = g.Pkg.Pkg.Path() + "." + g.Name()
				}
			}
			// only the file-name codec (string key <-> file name), not the encryption key decoding
			if fn.Name() == "newAESGCMEncryptor" || strings.Contains(strings.ToLower(fn.Name()), "encrypt") {
				return
			}
			enc[sc.Name()] = append(enc[sc.Name()], name+"@"+c.P.ShortName(fn))
		})
	}
	desc := "file-name encoder and decoder use the same base64 encoding object"
	if len(enc["EncodeToString"]) == 0 || len(enc["DecodeString"]) == 0 {
		c.Undecided("C14.5", "codec-agreement", desc, fmt.Sprintf("encode sites %v decode sites %v", enc["EncodeToString"], enc["DecodeString"]))
		return
	}
	set := map[string]bool{}
	var ex []string
	for _, l := range [][]string{enc["EncodeToString"], enc["DecodeString"]} {
		for _, e := range l {
			set[strings.SplitN(e, "@", 2)[0]] = true
			ex = append(ex, e)
		}
	}
	if len(set) == 1 && !set["?"] {
		c.Pass("C14.5", "codec-agreement", desc, ex...)
	} else {
		c.Fail("C14.5", "codec-agreement", desc, fmt.Sprintf("different alphabets: %v; Keys() would return garbage or fail", sortedKeys(set)), ex...)
	}
}

func ruleC14_6(c *Ctx) {
	fp := c.P.Pkg("store/fscache")
	if fp == nil {
		return
	}
	n := 0
	for _, fn := range c.P.RepoFuncs {
		if fn.Pkg != fp && !(fn.Parent() != nil && fn.Parent().Pkg == fp) {
			continue
		}
		instrsOf(fn, func(in ssa.Instruction) {
			cc := callOf(in)
			if cc == nil || !callIsPkgFunc(cc, "strings", "HasPrefix") {
				return
			}
			// first argument from the decoder (KeyFromFileName), second from the prefix parameter
			fromDecoder := c.An.dependsOnCall(cc.Args[0], func(x *ssa.Call) bool { return c.An.IsFileKeyerCall(x) })
			if !fromDecoder {
				return
			}
			n++
			fromPrefix := false
			// (the prefix may travel in a field of a collector object)
			c.P.TraceBack(cc.Args[1], TraceOpts{}, func(v ssa.Value, _ []int) bool {
				if p, ok := v.(*ssa.Parameter); ok && isStringType(p.Type()) {
					fromPrefix = true
				}
				return true
			})
			where := c.P.ShortName(fn) + "@" + c.P.InstrPos(in)
			if fromPrefix {
				c.Pass("C14.6", "prefix-on-decoded-key", "key listing compares the decoded key with the requested prefix", where)
			} else {
				c.Fail("C14.6", "prefix-on-decoded-key", "key listing compares the decoded key with the requested prefix", where+": second argument is not the prefix parameter")
			}
		})
	}
	// the name handed to the decoder is the path relative to the cache root: obtained by removing a prefix, never by
	// trimming a character set (strings.Trim/TrimLeft/TrimRight with a computed second argument eat leading characters of
	// the encoded name that merely occur in the directory path)
	for _, fn := range c.P.RepoFuncs {
		if fn.Pkg != fp && !(fn.Parent() != nil && fn.Parent().Pkg == fp) {
			continue
		}
		instrsOf(fn, func(in ssa.Instruction) {
			cc := callOf(in)
			if cc == nil || len(cc.Args) != 2 {
				return
			}
			if !(callIsPkgFunc(cc, "strings", "TrimLeft") || callIsPkgFunc(cc, "strings", "TrimRight") || callIsPkgFunc(cc, "strings", "Trim")) {
				return
			}
			if _, isConst := cc.Args[1].(*ssa.Const); isConst {
				return
			}
			where := c.P.ShortName(fn) + "@" + c.P.InstrPos(in)
			c.Fail("C14.6", "cutset-trim fn="+c.P.ShortName(fn), "paths are made relative by removing a prefix, not by trimming a set of characters", where+": "+cc.Value.Name()+" treats its second argument as a set of characters; every leading character of the encoded file name that occurs anywhere in the directory path is removed too, so the listing returns wrong keys or fails to decode")
		})
	}
	if n == 0 {
		c.Fail("C14.6", "prefix-on-decoded-key", "key listing compares the decoded key with the requested prefix", "no HasPrefix(decodedKey, prefix) in the file-system backend; the filter may run on encoded names")
	}
}

// ruleC14_7: a key of any length must be storable. The namer returns the encoded key either as one path component or split
// into fragments; the one-component return is only legal when the length OF THE RETURNED STRING is at most 255 bytes (the
// common limit for a file name). Comparing some other length (the key's) lets 192..255-byte keys through as 256..340-byte
// components that the file system rejects.
func ruleC14_7(c *Ctx) {
	fp := c.P.Pkg("store/fscache")
	if fp == nil {
		return
	}
	desc := "the namer returns a single path component only when that component's own length is at most 255"
	n := 0
	for _, fn := range c.P.RepoFuncs {
		if fn.Pkg != fp || fn.Parent() != nil {
			continue
		}
		ps, rs := sigParams(fn), sigResults(fn)
		if !(len(ps) == 1 && len(rs) == 1 && isStringType(ps[0]) && isStringType(rs[0]) && callsNamed(fn, "EncodeToString")) {
			continue
		}
		for _, b := range fn.Blocks {
			r, ok := b.Instrs[len(b.Instrs)-1].(*ssa.Return)
			if !ok || len(r.Results) != 1 {
				continue
			}
			rv := r.Results[0]
			if k, isC := constStr(rv); isC && len(k) <= 255 {
				continue // a constant name (the empty key's)
			}
			// fragmented return: built by a path join
			if c.An.dependsOnCall(rv, func(cc *ssa.Call) bool {
				return callIsPkgFunc(&cc.Call, "path/filepath", "Join") || callIsPkgFunc(&cc.Call, "path", "Join") || callIsPkgFunc(&cc.Call, "strings", "Join")
			}) {
				continue
			}
			n++
			where := c.P.ShortName(fn) + "@" + c.P.InstrPos(r)
			bounded := ""
			other := ""
			for _, dc := range dominatingConds(b) {
				for _, lf := range condLeaves(dc.cond, dc.onTrue) {
					bo, ok := lf.v.(*ssa.BinOp)
					if !ok {
						continue
					}
					op := bo.Op
					if !lf.val {
						op = negTok(op)
					}
					l, rr := bo.X, bo.Y
					if _, lc := l.(*ssa.Const); lc {
						l, rr = rr, l
						op = swapTok(op)
					}
					k, isK := constInt(rr)
					lc, isLen := l.(*ssa.Call)
					if !isK || !isLen {
						continue
					}
					if bi, isB := lc.Call.Value.(*ssa.Builtin); !isB || bi.Name() != "len" {
						continue
					}
					if !((op == token.LEQ && k <= 255) || (op == token.LSS && k <= 256)) {
						continue
					}
					if c.An.sameCanon(lc.Call.Args[0], rv) {
						bounded = c.P.InstrPos(bo)
					} else {
						other = c.P.InstrPos(bo) + " `" + bo.String() + "` measures `" + lc.Call.Args[0].Name() + "`"
					}
				}
			}
			switch {
			case bounded != "":
				c.Pass("C14.7", "component-bounded fn="+c.P.ShortName(fn), desc, where+" under "+bounded)
			case other != "":
				c.Fail("C14.7", "component-bounded fn="+c.P.ShortName(fn), desc, where+": the limit test "+other+", not the returned string; keys of 192..255 bytes encode to components of 256..340 bytes: Set fails, Get/Delete report `file name too long` instead of ErrNotExist")
			default:
				c.Fail("C14.7", "component-bounded fn="+c.P.ShortName(fn), desc, where+": no length test of the returned string against the file-name limit")
			}
		}
	}
	if n == 0 {
		c.Undecided("C14.7", "component-bounded", desc, "no single-component return in a file namer of store/fscache")
	}
}

// ruleC14_9: keys may be prefixes of one another. A long key is spread over nested directories; if a directory could
// have the same name as the file of a shorter key (36-byte keys; keys whose encoding is a whole number of fragments), one
// of the two cannot be stored. Necessary condition decided here: the components that become directories are built by
// appending a constant that contains a character outside the encoder's alphabet ([A-Za-z0-9_-]), the final component is
// not, and the decoder removes that same constant.
func ruleC14_9(c *Ctx) {
	fp := c.P.Pkg("store/fscache")
	if fp == nil {
		return
	}
	desc := "fragment directories are named with a marker that no file name can contain, and the decoder strips it"
	outside := func(s string) bool {
		for _, r := range s {
			if !(r >= 'A' && r <= 'Z' || r >= 'a' && r <= 'z' || r >= '0' && r <= '9' || r == '-' || r == '_') {
				return true
			}
		}
		return false
	}
	var namer, keyer *ssa.Function
	for _, fn := range c.P.RepoFuncs {
		if fn.Pkg != fp || fn.Parent() != nil {
			continue
		}
		ps, rs := sigParams(fn), sigResults(fn)
		if len(ps) == 1 && len(rs) == 1 && isStringType(ps[0]) && isStringType(rs[0]) && callsNamed(fn, "EncodeToString") {
			namer = fn
		}
		if len(ps) == 1 && len(rs) == 2 && isStringType(ps[0]) && isStringType(rs[0]) && callsNamed(fn, "DecodeString") {
			keyer = fn
		}
	}
	if namer == nil || keyer == nil {
		c.Undecided("C14.9", "directory-marker", desc, "file namer / keyer not found in store/fscache")
		return
	}
	joins := false
	markers := map[string]bool{}
	plainLeaf := false
	instrsOf(namer, func(in ssa.Instruction) {
		if cc := callOf(in); cc != nil && (callIsPkgFunc(cc, "path/filepath", "Join") || callIsPkgFunc(cc, "path", "Join")) {
			joins = true
		}
		// values appended to the component list
		call, ok := in.(*ssa.Call)
		if !ok {
			return
		}
		b, isB := call.Call.Value.(*ssa.Builtin)
		if !isB || b.Name() != "append" || len(call.Call.Args) != 2 {
			return
		}
		sl, ok := call.Call.Args[1].(*ssa.Slice)
		if !ok {
			return
		}
		al, ok := sl.X.(*ssa.Alloc)
		if !ok || al.Referrers() == nil {
			return
		}
		for _, r := range *al.Referrers() {
			ia, ok := r.(*ssa.IndexAddr)
			if !ok || ia.Referrers() == nil {
				continue
			}
			for _, u := range *ia.Referrers() {
				st, ok := u.(*ssa.Store)
				if !ok {
					continue
				}
				// the appended component may be chosen by a branch (`part := frag; if more { part += marker }`)
				vals := []ssa.Value{st.Val}
				seenPhi := map[ssa.Value]bool{}
				for i := 0; i < len(vals); i++ {
					if phi, ok := vals[i].(*ssa.Phi); ok && !seenPhi[phi] {
						seenPhi[phi] = true
						vals = append(vals, phi.Edges...)
					}
				}
				for _, v := range vals {
					if _, isPhi := v.(*ssa.Phi); isPhi {
						continue
					}
					if add, ok := v.(*ssa.BinOp); ok && add.Op == token.ADD {
						for _, o := range []ssa.Value{add.X, add.Y} {
							if k, ok := constStr(o); ok && outside(k) {
								markers[k] = true
							}
						}
					} else {
						plainLeaf = true
					}
				}
			}
		}
	})
	if !joins {
		c.Pass("C14.9", "directory-marker", desc, c.P.ShortName(namer)+": keys are not spread over directories")
		return
	}
	stripped := false
	instrsOf(keyer, func(in ssa.Instruction) {
		cc := callOf(in)
		if cc == nil {
			return
		}
		for _, a := range cc.Args {
			if k, ok := constStr(a); ok && markers[k] {
				stripped = true
			}
		}
	})
	switch {
	case len(markers) == 0:
		c.Fail("C14.9", "directory-marker", desc, c.P.ShortName(namer)+": directory components are plain fragments of the encoded key; a 36-byte key (one 48-character name) is a file where every longer key sharing its first 36 bytes needs a directory, and a URI key of 216, 252, ... bytes collides with its own entry key `<uri>#<variant>`")
	case !plainLeaf:
		c.Fail("C14.9", "directory-marker", desc, c.P.ShortName(namer)+": the final component carries the marker too; files and directories are not distinguishable")
	case !stripped:
		c.Fail("C14.9", "directory-marker", desc, c.P.ShortName(keyer)+": the decoder does not remove the marker "+fmt.Sprint(sortedKeys(markers))+"; key listing fails for fragmented keys")
	default:
		c.Pass("C14.9", "directory-marker", desc, c.P.ShortName(namer)+" marker "+fmt.Sprint(sortedKeys(markers)), c.P.ShortName(keyer))
	}
}

// ruleC14_10: the key may be any byte string, the empty one included. The encoding of the empty key is the empty string,
// which names no file: Set fails for it (or, worse, addresses the cache directory itself). Every return of a file namer
// is a non-empty constant or is dominated by a test that the key (or its encoding) is not empty.
func ruleC14_10(c *Ctx) {
	fp := c.P.Pkg("store/fscache")
	if fp == nil {
		return
	}
	desc := "a name derived from the key is returned only where the key (or its encoding) was tested to be non-empty"
	n := 0
	for _, fn := range c.P.RepoFuncs {
		if fn.Pkg != fp || fn.Parent() != nil {
			continue
		}
		ps, rs := sigParams(fn), sigResults(fn)
		if !(len(ps) == 1 && len(rs) == 1 && isStringType(ps[0]) && isStringType(rs[0]) && callsNamed(fn, "EncodeToString")) {
			continue
		}
		fromKey := func(v ssa.Value) bool {
			hit := false
			c.P.TraceBack(v, TraceOpts{ThroughOps: true, ThroughExtern: true, NoHeapFields: true}, func(w ssa.Value, _ []int) bool {
				if p, ok := w.(*ssa.Parameter); ok && p.Parent() == fn {
					hit = true
					return false
				}
				return true
			})
			return hit
		}
		for _, b := range fn.Blocks {
			r, ok := b.Instrs[len(b.Instrs)-1].(*ssa.Return)
			if !ok || len(r.Results) != 1 {
				continue
			}
			if k, isC := constStr(r.Results[0]); isC && k != "" {
				continue
			}
			n++
			where := c.P.ShortName(fn) + "@" + c.P.InstrPos(r)
			tested := ""
			for _, dc := range dominatingConds(b) {
				for _, lf := range condLeaves(dc.cond, dc.onTrue) {
					bo, ok := lf.v.(*ssa.BinOp)
					if !ok {
						continue
					}
					op := bo.Op
					if !lf.val {
						op = negTok(op)
					}
					l, rr := bo.X, bo.Y
					if _, lc := l.(*ssa.Const); lc {
						l, rr = rr, l
						op = swapTok(op)
					}
					// s != ""
					if k, isC := constStr(rr); isC && k == "" && op == token.NEQ && isStringType(l.Type()) && fromKey(l) {
						tested = c.P.InstrPos(bo)
					}
					// len(s) != 0, len(s) > 0, len(s) >= 1
					if k, isK := constInt(rr); isK {
						if lc, isLen := l.(*ssa.Call); isLen {
							if bi, isB := lc.Call.Value.(*ssa.Builtin); isB && bi.Name() == "len" && fromKey(lc.Call.Args[0]) {
								if (k == 0 && (op == token.NEQ || op == token.GTR)) || (k == 1 && op == token.GEQ) {
									tested = c.P.InstrPos(bo)
								}
							}
						}
					}
				}
			}
			key := fmt.Sprintf("name-non-empty fn=%s#%d", c.P.ShortName(fn), n)
			if tested != "" {
				c.Pass("C14.10", key, desc, where+" under "+tested)
			} else {
				c.Fail("C14.10", key, desc, where+": returned without a test for the empty key; the empty key encodes to the empty file name: Set(\"\", v) fails and Get(\"\") never finds it")
			}
		}
	}
	if n == 0 {
		c.Undecided("C14.10", "name-non-empty", desc, "no file namer with a key-derived return in store/fscache")
	}
}
