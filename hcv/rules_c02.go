package hcv

import (
	"golang.org/x/tools/go/ssa"
)

// IsSWRSpawn: a go statement whose target may reach the origin (background revalidation).
func (an *Analysis) IsSWRSpawn(in ssa.Instruction) bool {
	g, ok := in.(*ssa.Go)
	if !ok {
		return false
	}
	for _, c := range an.P.RepoCallees(g) {
		if an.MayUpstream(c, true) {
			return true
		}
	}
	return false
}

// hasSWRSpawn: fn contains a background-revalidation spawn (it is "the SWR function").
func (an *Analysis) hasSWRSpawn(fn *ssa.Function) bool {
	hit := false
	instrsOf(fn, func(in ssa.Instruction) {
		if an.IsSWRSpawn(in) {
			hit = true
		}
	})
	return hit
}

// IsUnvalidatedReuse: serve of a stored response or a background-revalidation spawn.
func (an *Analysis) IsUnvalidatedReuse(in ssa.Instruction) bool {
	return an.IsServeReturn(in) || an.IsSWRSpawn(in)
}

const not304 = "cmp:status==304"

func init() {
	register(&Property{
		ID:    "C02",
		Title: "Responses that require validation are never reused unvalidated",
		Decides: "under each of {stored unqualified no-cache}, {stale ∧ stored must-revalidate}, {request no-cache} no return of a stored response " +
			"outside the 304 branch and no stale-while-revalidate spawn is reachable from RoundTrip; the staleness flag tested with must-revalidate does not depend on max-stale; " +
			"validators are copied from the stored header onto a clone whose header map is a copy; every unvalidated return under qualified no-cache passes the field stripper; " +
			"in the validation handler a stored response is returned only under status==304 or the stale-if-error policy.",
		NotDecided:  "the numeric comparison of the age with a request max-age (only that the stale-while-revalidate branch is closed under it); textual value of validators; whether the origin answered truthfully.",
		Assumptions: []string{"R-REQ, R-FRESH, R-PURE (checked in C02.0)", "one stored entry per exchange: rs.* atoms of different functions refer to the same stored response (checked: single entry read site)"},
		Rules: []Rule{
			{ID: "C02.0", Desc: "shared premises", Run: func(c *Ctx) {
				ruleRREQ(c, "C02.0")
				ruleRFRESH(c, "C02.0")
				ruleRPURE(c, "C02.0")
				ruleOneEntry(c, "C02.0")
			}, MinSites: 4},
			{ID: "C02.1", Desc: "decision rows: no-cache / stale+must-revalidate / request no-cache forbid unvalidated reuse", Run: ruleC02_1, MinSites: 3},
			{ID: "C02.2", Desc: "max-stale does not override must-revalidate / no-cache", Run: ruleC02_2, MinSites: 1},
			{ID: "C02.3", Desc: "conditional request: validators copied onto a clone", Run: func(c *Ctx) { ruleC02_3(c); ruleValidatorGuards(c, "C02.3"); ruleClientValidatorsRemoved(c, "C02.3") }, MinSites: 3},
			{ID: "C02.4", Desc: "qualified no-cache fields stripped on every unvalidated return", Run: ruleC02_4, MinSites: 1},
			{ID: "C02.5", Desc: "validation handler returns the stored response only for 304 (or stale-if-error)", Run: ruleC02_5, MinSites: 1},
			{ID: "C02.8", Desc: "unqualified no-cache is not lost to a repeated or member-less qualified form", Run: func(c *Ctx) {
				ruleC12_11(c)
				ruleC12_12(c)
				renameRule(c, "C12.11", "C02.8")
				renameRule(c, "C12.12", "C02.8")
			}, MinSites: 2},
			{ID: "C02.7", Desc: "Cache-Control (request and stored response) is read through all of its field lines", Run: func(c *Ctx) { ruleRLIST(c, "C02.7", "Cache-Control") }, MinSites: 1},
			{ID: "C02.6", Desc: "a positive request max-age caps the lifetime on every path", Run: func(c *Ctx) { ruleRequestMaxAgeCaps(c, "C02.6") }, MinSites: 1},
			{ID: "C02.9", Desc: "the age of a freshened response counts from the 304 (stored Age dropped before, the 304's Age merged): a stale must-revalidate response is not served as fresh", Run: func(c *Ctx) { ruleMergeFilter(c, "C02.9") }, MinSites: 1},
			{ID: "C02.10", Desc: "directive names are case-folded on every path (Max-Age=0, No-Cache=\"x\")", Run: func(c *Ctx) { ruleC12_1(c); renameRule(c, "C12.1", "C02.10") }, MinSites: 1},
			{ID: "C02.11", Desc: "a quoted-pair stands for the escaped octet (max-age=\"\\0\", no-cache=\"Set\\-Cookie\")", Run: func(c *Ctx) { ruleQuotedPair(c, "C02.11") }, MinSites: 1},
			{ID: "C02.12", Desc: "fields named by a qualified no-cache are removed from the trailers as well (a field sent as a trailer is replayed as one)", Run: func(c *Ctx) { ruleNoCacheFieldsLeaveTrailers(c, "C02.12") }, MinSites: 1},
			{ID: "C02.13", Desc: "parsed directive maps are private to the exchange: never written after parsing, never handed out from a memo table (a request max-age=0 edited away stays away)", Run: func(c *Ctx) { ruleDirectiveMapsPrivate(c, "C02.13") }, MinSites: 2},
			{ID: "C02.14", Desc: "each stored validator is put on the validation request whatever the other one is", Run: func(c *Ctx) { ruleEachValidatorOnItsOwn(c, "C02.14") }, MinSites: 1},
			{ID: "C02.15", Desc: "a valid Date of the origin is kept (Expires minus Date is the origin's lifetime, also when its clock runs ahead)", Run: func(c *Ctx) { ruleDateRepair(c, "C02.15") }, MinSites: 1},
			{ID: "C02.16", Desc: "`Expires: 0` is an explicit expiry for a must-revalidate response (presence is not validity)", Run: func(c *Ctx) { ruleExpiresFoundIsPresence(c, "C02.16") }, MinSites: 1},
			{ID: "C02.17", Desc: "on the 304 branch the merge of the 304's fields precedes the write-back on every path", Run: func(c *Ctx) { ruleMergeBeforeWriteBack(c, "C02.17") }, MinSites: 1},
			{ID: "C02.18", Desc: "the revalidation context's request directives are the parser's result for the request (no reduced copy)", Run: func(c *Ctx) { ruleContextCarriesParsedDirectives(c, "C02.18") }, MinSites: 2},
		},
	})
}

func ruleC02_1(c *Ctx) {
	rows := []struct {
		name    string
		assume  map[string]bool
		witness string
	}{
		{"row=a-unqualified-no-cache", map[string]bool{"rs.no-cache.ok": true, "rs.no-cache.arg": false, not304: false},
			"stored `max-age=60, immutable, no-cache` (or no-cache + stale-if-error) is returned without validation"},
		{"row=b-stale-must-revalidate", map[string]bool{"fr.stale": true, "rs.must-revalidate": true, not304: false},
			"stale stored response carrying must-revalidate is returned without a 304 (e.g. through stale-if-error)"},
		{"row=c-request-no-cache", map[string]bool{"rq.no-cache": true, not304: false},
			"request `no-cache` (optionally with only-if-cached) against a stored `max-age=1, stale-while-revalidate=60` entry is answered from the store without validation"},
	}
	for _, r := range rows {
		c.ForbidOb("C02.1", r.name, r.assume, "UNVALIDATED-REUSE", c.An.IsUnvalidatedReuse, true, r.witness)
	}
	// a request max-age that the stored response exceeds: stale-while-revalidate must not answer (the plain serve is
	// excluded by the staleness flag, which C02.6 ties to the request's max-age)
	c.ForbidOb("C02.1", "row=d-request-max-age-exceeded", map[string]bool{"rq.max-age.ok": true, "rq.max-age.exceeded": true, "fr.stale": true, "rq.only-if-cached": false, not304: false},
		"SWR-SPAWN", c.An.IsSWRSpawn, true,
		"request `max-age=0` (or any max-age below the stored response's age) against a stored `max-age=60, stale-while-revalidate=600` entry is answered STALE without validation in the same exchange")
	// max-age=0 is exceeded by every stored response, whatever the freshness record says
	// (the stale-if-error return of the validation handler comes after the origin was contacted: C13 decides it)
	inHandler := map[*ssa.Function]bool{}
	if vh := c.A.F("validationHandler"); vh != nil {
		for _, g := range c.reachableFrom(vh) {
			inHandler[g] = true
		}
	}
	c.ForbidOb("C02.1", "row=e-request-max-age-zero", map[string]bool{"rq.max-age.ok": true, "rq.max-age.val==0": true, not304: false},
		"UNVALIDATED-REUSE", func(in ssa.Instruction) bool { return c.An.IsUnvalidatedReuse(in) && !inHandler[in.Parent()] }, true,
		"request `max-age=0` against a stored fresh (or immutable) response is answered from the store without contacting the origin")
}

// ruleOneEntry: exactly one entry-read site on the exchange, so rs.* atoms all concern one stored response.
func ruleOneEntry(c *Ctx, rule string) {
	if !c.Need(rule, "readEntry") {
		return
	}
	var sites []string
	// foreground only: a background revalidation may re-read the same entry for its private copy
	for fn := range c.A.ReachFg {
		instrsOf(fn, func(in ssa.Instruction) {
			if c.An.CallsRole(in, "readEntry") {
				sites = append(sites, c.P.ShortName(fn)+"@"+c.P.InstrPos(in))
			}
		})
	}
	if len(sites) != 1 {
		c.Fail(rule, "one-entry-read", "exactly one stored entry is read on the foreground path of an exchange", "entry read sites: "+joinStrs(sites), sites...)
		return
	}
	c.Pass(rule, "one-entry-read", "exactly one stored entry is read on the foreground path of an exchange", sites...)
}

func joinStrs(ss []string) string {
	out := ""
	for i, s := range ss {
		if i > 0 {
			out += ", "
		}
		out += s
	}
	return out
}
