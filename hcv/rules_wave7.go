package hcv

import (
	"fmt"
	"go/ast"
	"go/constant"
	"go/token"
	"go/types"
	"strings"

	"golang.org/x/tools/go/ssa"
)

// Rules added with the seventh independent seeding (wave 7).

func isHugeDurationConst(v ssa.Value) bool {
	k, ok := v.(*ssa.Const)
	if !ok || k.Value == nil || k.Value.Kind() != constant.Int {
		return false
	}
	i, exact := constant.Int64Val(k.Value)
	return exact && i >= 1<<62
}

// ruleMaxStaleLimited (C01.24): `max-stale` without an argument accepts any staleness, `max-stale=N` accepts N seconds -
// also for N = 0 and for an argument that does not decode. In the freshness function the unlimited tolerance is
// chosen only under a test that the raw argument is empty.
func ruleMaxStaleLimited(c *Ctx, rule string) {
	if !c.Need(rule, "freshness") {
		return
	}
	desc := "the unlimited max-stale tolerance is chosen only when the directive has no argument"
	fn := c.A.F("freshness")
	isMaxStaleRaw := func(v ssa.Value) bool {
		return c.An.dependsOnCall(v, func(cc *ssa.Call) bool { return c.An.isAccessorCall(cc, "rq", "max-stale") })
	}
	emptyTest := func(blk *ssa.BasicBlock) bool {
		for _, dc := range dominatingConds(blk) {
			for _, lf := range condLeaves(dc.cond, dc.onTrue) {
				bo, ok := lf.v.(*ssa.BinOp)
				if !ok || !isStringType(bo.X.Type()) {
					continue
				}
				wantTrue := bo.Op == token.EQL
				if bo.Op != token.EQL && bo.Op != token.NEQ {
					continue
				}
				for _, side := range [][2]ssa.Value{{bo.X, bo.Y}, {bo.Y, bo.X}} {
					if k, ok := constStr(side[1]); ok && k == "" && isMaxStaleRaw(side[0]) && lf.val == wantTrue {
						return true
					}
				}
				// len(raw) == 0
			}
		}
		return false
	}
	n := 0
	bad := ""
	instrsOf(fn, func(in ssa.Instruction) {
		switch x := in.(type) {
		case *ssa.Phi:
			rel := false
			for _, e := range x.Edges {
				if isMaxStaleRaw(e) {
					rel = true
				}
			}
			if !rel {
				return
			}
			for i, e := range x.Edges {
				if isHugeDurationConst(e) {
					n++
					if !emptyTest(x.Block().Preds[i]) && !emptyTestEdge(x.Block().Preds[i], x.Block(), isMaxStaleRaw) {
						bad = c.P.InstrPos(x)
					}
				}
			}
		case *ssa.Call:
			huge, rel := false, false
			args := append([]ssa.Value{}, x.Call.Args...)
			for _, a := range sprintfArgs(&x.Call) { // the elements of a variadic argument list (cmp.Or, min, max)
				if a != nil {
					args = append(args, a)
				}
			}
			for _, a := range args {
				if isHugeDurationConst(a) {
					huge = true
				}
				if isMaxStaleRaw(a) {
					rel = true
				}
			}
			if huge && rel {
				n++
				if !emptyTest(x.Block()) {
					bad = c.P.InstrPos(x)
				}
			}
		}
	})
	switch {
	case bad != "":
		c.Fail(rule, "max-stale-limited", desc, c.P.ShortName(fn)+"@"+bad+": the unlimited tolerance is also chosen for a directive that has an argument; `max-stale=0` (or `max-stale=abc`) is answered STALE from the store although the request permits no staleness")
	case n == 0:
		c.Pass(rule, "max-stale-limited", desc, c.P.ShortName(fn)+": no unlimited tolerance is merged with the directive's value")
	default:
		c.Pass(rule, "max-stale-limited", desc, fmt.Sprintf("%s: %d site(s)", c.P.ShortName(fn), n))
	}
}

// emptyTestEdge: the edge pred->blk is the true edge of `raw == ""` (or the false edge of `raw != ""`).
func emptyTestEdge(pred, blk *ssa.BasicBlock, isRaw func(ssa.Value) bool) bool {
	if len(pred.Instrs) == 0 {
		return false
	}
	iff, ok := pred.Instrs[len(pred.Instrs)-1].(*ssa.If)
	if !ok {
		return false
	}
	onTrue := pred.Succs[0] == blk
	for _, lf := range condLeaves(iff.Cond, onTrue) {
		bo, ok := lf.v.(*ssa.BinOp)
		if !ok || (bo.Op != token.EQL && bo.Op != token.NEQ) {
			continue
		}
		for _, side := range [][2]ssa.Value{{bo.X, bo.Y}, {bo.Y, bo.X}} {
			if k, ok := constStr(side[1]); ok && k == "" && isRaw(side[0]) && lf.val == (bo.Op == token.EQL) {
				return true
			}
		}
	}
	return false
}

// rulePortAsWritten (C03.13): the port that goes into the key is the port as it is written in the URI. A trimming or
// replacing call between the authority and the key (`TrimLeft(port, "0")`) turns `:0` into "no port".
func rulePortAsWritten(c *Ctx, rule string) {
	if !c.Need(rule, "urlKey") {
		return
	}
	desc := "no trimming or replacing call stands between the URI's port and the key"
	n := 0
	bad := ""
	for _, fn := range c.reachableFrom(c.A.F("urlKey")) {
		instrsOf(fn, func(in ssa.Instruction) {
			add, ok := in.(*ssa.BinOp)
			if !ok || add.Op != token.ADD || !isStringType(add.Type()) {
				return
			}
			inner, ok := add.X.(*ssa.BinOp)
			if !ok || inner.Op != token.ADD {
				return
			}
			if k, ok := constStr(inner.Y); !ok || k != ":" {
				return
			}
			n++
			c.P.TraceBack(add.Y, TraceOpts{ThroughOps: true, ThroughExtern: true, NoParams: true, NoHeapFields: true}, func(x ssa.Value, _ []int) bool {
				if call, ok := x.(*ssa.Call); ok {
					if sc := call.Call.StaticCallee(); sc != nil && sc.Pkg != nil && sc.Pkg.Pkg.Path() == "strings" {
						switch sc.Name() {
						case "Trim", "TrimLeft", "TrimRight", "TrimPrefix", "TrimSuffix", "TrimFunc", "TrimLeftFunc", "Replace", "ReplaceAll", "Map":
							bad = c.P.InstrPos(call)
						}
					}
				}
				return true
			})
		})
	}
	switch {
	case bad != "":
		c.Fail(rule, "port-as-written", desc, bad+": the port is edited before it goes into the key; `http://h:0/x` (the zeros trimmed away) gets the key of `http://h/x`")
	default:
		c.Pass(rule, "port-as-written", desc, fmt.Sprintf("%d port concatenation(s)", n))
	}
}

// ruleSplitPiecesAllUsed (C04.18): a value that is split without a limit (strings.Fields, strings.Split) has any number
// of pieces. A normaliser that then takes pieces by constant position only drops the rest of the value: two
// `Authorization: Digest ...` values that differ behind the second blank normalise to the same text.
func ruleSplitPiecesAllUsed(c *Ctx, rule string) {
	desc := "a value split without a limit is not reduced to pieces taken by constant position"
	ip := c.P.Pkg("internal")
	n := 0
	bad := ""
	for fn := range c.A.Reach {
		top := fn
		for top.Parent() != nil {
			top = top.Parent()
		}
		if top.Pkg != ip {
			continue
		}
		instrsOf(fn, func(in ssa.Instruction) {
			call, ok := in.(*ssa.Call)
			if !ok {
				return
			}
			cc := &call.Call
			unlimited := callIsPkgFunc(cc, "strings", "Fields") || callIsPkgFunc(cc, "strings", "Split") || callIsPkgFunc(cc, "strings", "SplitAfter") || callIsPkgFunc(cc, "strings", "FieldsFunc")
			if callIsPkgFunc(cc, "strings", "SplitN") || callIsPkgFunc(cc, "strings", "SplitAfterN") {
				if k, ok := constInt(cc.Args[2]); ok && k < 0 {
					unlimited = true
				}
			}
			if !unlimited {
				return
			}
			n++
			refs := call.Referrers()
			if refs == nil {
				return
			}
			constIdx, otherUse := false, false
			var visit func(v ssa.Value, depth int)
			visit = func(v ssa.Value, depth int) {
				rr := v.Referrers()
				if rr == nil || depth > 3 {
					return
				}
				for _, r := range *rr {
					switch u := r.(type) {
					case *ssa.IndexAddr:
						if _, ok := constInt(u.Index); ok {
							constIdx = true
						} else {
							otherUse = true
						}
					case *ssa.Index:
						if _, ok := constInt(u.Index); ok {
							constIdx = true
						} else {
							otherUse = true
						}
					case *ssa.Phi:
						visit(u, depth+1)
					case *ssa.Call:
						if b, ok := u.Call.Value.(*ssa.Builtin); ok && (b.Name() == "len" || b.Name() == "cap") {
							continue
						}
						otherUse = true
					case *ssa.DebugRef:
					default:
						otherUse = true
					}
				}
			}
			visit(call, 0)
			if constIdx && !otherUse {
				bad = c.P.ShortName(fn) + "@" + c.P.InstrPos(call)
			}
		})
	}
	switch {
	case bad != "":
		c.Fail(rule, "split-pieces-all-used", desc, bad+": the pieces are taken by constant position and the others are dropped; `Authorization: Digest realm=\"api\", username=\"alice\"` and `... username=\"bob\"` (they differ behind the second blank) normalise to the same value and share a variant")
	default:
		c.Pass(rule, "split-pieces-all-used", desc, fmt.Sprintf("%d unlimited split(s)", n))
	}
}

// variantIDFuncs: the function(s) that compute a response id from the URL key and the resolved values.
func (c *Ctx) variantIDFuncs() []*ssa.Function {
	var out []*ssa.Function
	seen := map[*ssa.Function]bool{}
	for _, fn := range c.P.RepoFuncs {
		if fn.Pkg == nil || fn.Pkg.Pkg.Path() != c.A.internalPath || fn.Parent() != nil || isTestOnly(c, fn) {
			continue
		}
		ps, rs := sigParams(fn), sigResults(fn)
		if fn.Signature.Recv() != nil || len(ps) != 2 || len(rs) != 1 || !isStringType(ps[0]) || !isStringType(rs[0]) || !isDirectiveMapType(ps[1]) {
			continue
		}
		if !seen[fn] {
			seen[fn] = true
			out = append(out, fn)
		}
	}
	return out
}

// ruleNoVaryIDOnlyWithoutVary (C04.19): the fixed id of "the response without a Vary field" is returned only for an empty
// map of resolved values. A map whose values are all empty (`Vary: Accept-Language` for a request without that field,
// `Vary: *`) is a variant of its own; under the fixed id two references would name one entry.
func ruleNoVaryIDOnlyWithoutVary(c *Ctx, rule string) {
	desc := "the id function decides between the fixed id and a hashed one on the number of nominated fields alone"
	n := 0
	bad := ""
	for _, fn := range c.variantIDFuncs() {
		if len(fn.Params) != 2 {
			continue
		}
		m := fn.Params[1]
		instrsOf(fn, func(in ssa.Instruction) {
			iff, ok := in.(*ssa.If)
			if !ok {
				return
			}
			n++
			// the condition may look at len(m) only: not at the keys or values
			readsContent := false
			c.P.TraceBack(iff.Cond, TraceOpts{ThroughOps: true, ThroughExtern: true, NoParams: true, NoHeapFields: true}, func(x ssa.Value, _ []int) bool {
				switch y := x.(type) {
				case *ssa.Lookup:
					if y.X == ssa.Value(m) {
						readsContent = true
					}
				case *ssa.Extract:
					if nx, ok := y.Tuple.(*ssa.Next); ok {
						if rg, ok := nx.Iter.(*ssa.Range); ok && rg.X == ssa.Value(m) && y.Index > 0 {
							readsContent = true
						}
					}
				}
				return true
			})
			if readsContent {
				bad = c.P.ShortName(fn) + "@" + c.P.InstrPos(iff)
			}
		})
	}
	switch {
	case n == 0:
		c.Pass(rule, "no-vary-id-by-count", desc, "the id function has no branch")
	case bad != "":
		c.Fail(rule, "no-vary-id-by-count", desc, bad+": a branch of the id function depends on the resolved values; a variant whose nominated fields are all absent (or `Vary: *`) gets the id of the response without Vary, two references name one entry and the one with nothing to compare serves it to every request")
	default:
		c.Pass(rule, "no-vary-id-by-count", desc, fmt.Sprintf("%d branch(es)", n))
	}
}

// ruleChunkedWhenTrailersOnly (C05.16): the entry writer switches the head copy to chunked framing so that trailers are
// written. That decision depends on the trailers and on the framing already present, not on the length: an HTTP/2
// response with a Content-Length and trailers would be written with Content-Length framing, without its trailers.
func ruleChunkedWhenTrailersOnly(c *Ctx, rule string) {
	if !c.Need(rule, "writeEntry") {
		return
	}
	desc := "the switch to chunked framing depends only on the trailers and on the transfer coding already present"
	n := 0
	bad := ""
	for _, fn := range c.reachableFrom(c.A.F("writeEntry")) {
		instrsOf(fn, func(in ssa.Instruction) {
			st, ok := in.(*ssa.Store)
			if !ok {
				return
			}
			fa, ok := st.Addr.(*ssa.FieldAddr)
			if !ok || !isHTTPResponsePtr(fa.X.Type()) || fieldName(fa.X.Type(), fa.Field) != "TransferEncoding" {
				return
			}
			n++
			for _, dc := range controlConds(in.Block()) {
				c.P.TraceBack(dc.cond, TraceOpts{ThroughOps: true, ThroughExtern: true, NoParams: true, NoHeapFields: true}, func(x ssa.Value, _ []int) bool {
					if u, ok := x.(*ssa.UnOp); ok && u.Op == token.MUL {
						if f2, ok := u.X.(*ssa.FieldAddr); ok && isHTTPResponsePtr(f2.X.Type()) {
							switch fieldName(f2.X.Type(), f2.Field) {
							case "Trailer", "TransferEncoding":
							default:
								bad = c.P.InstrPos(in) + " (reads " + fieldName(f2.X.Type(), f2.Field) + ")"
							}
							return false
						}
					}
					return true
				})
			}
		})
	}
	switch {
	case bad != "":
		c.Fail(rule, "chunked-when-trailers-only", desc, bad+": a response with a known length keeps its Content-Length framing; an HTTP/2 response with Content-Length and announced trailers is stored, and replayed, without its trailers")
	default:
		c.Pass(rule, "chunked-when-trailers-only", desc, fmt.Sprintf("%d framing store(s)", n))
	}
}

// ruleNoDeadErrorValues (C06.15 / C10.26): an error that a call returned into a variable is looked at before the variable
// is given another value. An error value with no use at all (`_, err = w.WriteTo(&buf)` over the error of the dump)
// is a lost failure: an entry is written for a response whose body could not be read.
func ruleNoDeadErrorValues(c *Ctx, rule string) {
	desc := "no error returned by a call is overwritten or dropped without having been looked at"
	n := 0
	bad := ""
	fns := map[*ssa.Function]bool{}
	for fn := range c.A.Reach {
		fns[fn] = true
	}
	for _, b := range c.backgroundFunctions() {
		for _, f := range c.reachableFrom(b) {
			fns[f] = true
		}
	}
	for fn := range fns {
		instrsOf(fn, func(in ssa.Instruction) {
			ex, ok := in.(*ssa.Extract)
			if !ok || !isErrorType(ex.Type()) {
				return
			}
			tcall, isCall := ex.Tuple.(*ssa.Call)
			if !isCall {
				return
			}
			if blankAssigned(fn, tcall, ex.Index) {
				return // `x, _ := f()`: dropped on purpose, in plain sight
			}
			n++
			used := false
			if rr := ex.Referrers(); rr != nil {
				for _, r := range *rr {
					if _, dbg := r.(*ssa.DebugRef); !dbg {
						used = true
					}
				}
			}
			if !used {
				bad = c.P.ShortName(fn) + "@" + c.P.InstrPos(ex)
				return
			}
			// stored into a local cell only, and the cell is overwritten before it is read
			if rr := ex.Referrers(); rr != nil && len(*rr) == 1 {
				if st, ok := (*rr)[0].(*ssa.Store); ok {
					if al, ok := st.Addr.(*ssa.Alloc); ok && !al.Heap {
						read := false
						if ar := al.Referrers(); ar != nil {
							for _, r := range *ar {
								if u, ok := r.(*ssa.UnOp); ok && u.Op == token.MUL && instrReaches(st, u) {
									read = true
								}
							}
						}
						if !read {
							bad = c.P.ShortName(fn) + "@" + c.P.InstrPos(ex)
						}
					}
				}
			}
		})
	}
	switch {
	case bad != "":
		c.Fail(rule, "no-dead-error-values", desc, bad+": the error of this call is never looked at (its variable is assigned again first); a response whose body fails while it is dumped gets an entry (the metadata line only) and an index write, and a good entry under the same key is overwritten by an unreadable one")
	default:
		c.Pass(rule, "no-dead-error-values", desc, fmt.Sprintf("%d error result(s)", n))
	}
}

// ruleSentinelsByErrorsIs (C07.14 / C14.22): the backends report "not there" by joining or wrapping driver.ErrNotExist. A
// sentinel of the repository is therefore never compared by identity (`err != driver.ErrNotExist`).
func ruleSentinelsByErrorsIs(c *Ctx, rule string) {
	desc := "the repository's error sentinels are matched with errors.Is, never compared by identity"
	n := 0
	bad := ""
	isRepoSentinel := func(v ssa.Value) bool {
		u, ok := v.(*ssa.UnOp)
		if !ok || u.Op != token.MUL {
			return false
		}
		g, ok := u.X.(*ssa.Global)
		if !ok || g.Pkg == nil || !isErrorType(u.Type()) {
			return false
		}
		return strings.HasPrefix(g.Pkg.Pkg.Path(), c.P.ModPath)
	}
	for _, fn := range c.P.RepoFuncs {
		if isTestOnly(c, fn) {
			continue
		}
		instrsOf(fn, func(in ssa.Instruction) {
			bo, ok := in.(*ssa.BinOp)
			if !ok || (bo.Op != token.EQL && bo.Op != token.NEQ) || !isErrorType(bo.X.Type()) {
				return
			}
			if isNilConst(bo.X) || isNilConst(bo.Y) {
				return
			}
			n++
			if isRepoSentinel(bo.X) || isRepoSentinel(bo.Y) {
				bad = c.P.ShortName(fn) + "@" + c.P.InstrPos(bo)
			}
		})
	}
	switch {
	case bad != "":
		c.Fail(rule, "sentinels-by-errors-is", desc, bad+": the backends join ErrNotExist with the system's error, so the identity test never matches; the invalidator takes an entry that is already gone for a failing store and skips the remaining variants and Location targets: after a PUT the `fr` variant is still a HIT")
	default:
		c.Pass(rule, "sentinels-by-errors-is", desc, fmt.Sprintf("%d comparison(s) of error values", n))
	}
}

// ruleLocationParsedAsReference (C07.15): Location and Content-Location carry URI references (RFC 9110 §10.2.2): relative
// paths, query-only references and fragments are legal. They are parsed with url.Parse and resolved against the
// request URI; url.ParseRequestURI accepts absolute URIs and absolute paths only.
func ruleLocationParsedAsReference(c *Ctx, rule string) {
	if !c.Need(rule, "invalidate") {
		return
	}
	desc := "Location / Content-Location values are parsed as URI references"
	n := 0
	bad := ""
	for _, fn := range c.reachableFrom(c.A.F("invalidate")) {
		instrsOf(fn, func(in ssa.Instruction) {
			cc := callOf(in)
			if cc == nil {
				return
			}
			if callIsPkgFunc(cc, "net/url", "Parse") {
				n++
			}
			if callIsPkgFunc(cc, "net/url", "ParseRequestURI") {
				n++
				bad = c.P.ShortName(fn) + "@" + c.P.InstrPos(in)
			}
		})
	}
	switch {
	case bad != "":
		c.Fail(rule, "location-parsed-as-reference", desc, bad+": url.ParseRequestURI rejects relative references; after `POST /orders/7/items` answered with `Location: summary` (or `../7`, `?page=1`) the stored response of that same-origin URI is still a HIT")
	case n == 0:
		c.Undecided(rule, "location-parsed-as-reference", desc, "the invalidator parses no URI")
	default:
		c.Pass(rule, "location-parsed-as-reference", desc, fmt.Sprintf("%d parse call(s)", n))
	}
}

// ruleEachValidatorOnItsOwn (C08.17 / C02.14): each stored validator is sent whenever it is present; whether
// If-Modified-Since is sent does not depend on the entity tag. (The background path compares both request fields with
// the entry it re-reads, C16.15: a validator that was not sent makes every background 304 look like one for a replaced
// entry.)
func ruleEachValidatorOnItsOwn(c *Ctx, rule string) {
	if !c.Need(rule, "cond") {
		return
	}
	fn := c.A.F("cond")
	desc := "a stored validator is put on the request whatever the other validator is"
	n := 0
	bad := ""
	for _, g := range c.reachableFrom(fn) {
		instrsOf(g, func(in ssa.Instruction) {
			cc := callOf(in)
			if cc == nil || !callIsMethod(cc, "net/http", "Header", "Set") {
				return
			}
			_, args := recvAndArgs(cc)
			k, ok := constStr(args[0])
			if !ok {
				return
			}
			var own string
			switch k {
			case "If-None-Match":
				own = "Etag"
			case "If-Modified-Since":
				own = "Last-Modified"
			default:
				return
			}
			n++
			for _, dc := range controlConds(in.Block()) {
				for _, lf := range condLeaves(dc.cond, dc.onTrue) {
					a, _, ok := c.An.AtomOf(lf.v)
					if !ok || !strings.HasPrefix(a.Key, "hdr.") || !strings.HasSuffix(a.Key, ".present") {
						continue
					}
					if !strings.Contains(strings.ToLower(a.Key), "."+strings.ToLower(own)+".") {
						bad = c.P.InstrPos(in) + " (" + k + " depends on " + a.Key + ")"
					}
				}
			}
		})
	}
	switch {
	case n == 0:
		c.Undecided(rule, "each-validator-on-its-own", desc, "no validator is set in "+c.P.ShortName(fn))
	case bad != "":
		c.Fail(rule, "each-validator-on-its-own", desc, bad+": for an entry with both validators only one is sent; the background path accepts a 304 only when both request fields equal the entry's validators, so every background 304 is dropped and the entry is never freshened (40 conditional requests for 40 stale hits)")
	default:
		c.Pass(rule, "each-validator-on-its-own", desc, fmt.Sprintf("%d Set call(s)", n))
	}
}

// ruleFilterLoopRunsToEnd (C08.18 / C19.16): the loop that drops the other references of the variant just written copies
// every other element: it has no way out but the end of the list (a `break` at the duplicate drops every reference
// behind it).
func ruleFilterLoopRunsToEnd(c *Ctx, rule string) {
	if !c.Need(rule, "storeResp") {
		return
	}
	sr := c.A.F("storeResp")
	desc := "the in-place filter of the reference list leaves its loop only at the end of the list"
	n := 0
	bad := ""
	for _, fn := range c.reachableFrom(sr) {
		if fn != sr && !lexicallyInside(fn, sr) && c.A.RefT != nil {
			// helpers that take the list as a parameter are examined too
			has := false
			for _, p := range fn.Params {
				if sl, ok := p.Type().Underlying().(*types.Slice); ok && isPtrToNamed(sl.Elem(), c.A.RefT) {
					has = true
				}
			}
			if !has {
				continue
			}
		}
		// an append of an existing element (a copy of a filter loop), inside a cycle
		instrsOf(fn, func(in ssa.Instruction) {
			call, ok := in.(*ssa.Call)
			if !ok {
				return
			}
			b, isB := call.Call.Value.(*ssa.Builtin)
			if !isB || b.Name() != "append" || !blockInCycle(call.Block()) || c.isNewRecordAppend(in) {
				return
			}
			if sl, ok := call.Type().Underlying().(*types.Slice); !ok || c.A.RefT == nil || !isPtrToNamed(sl.Elem(), c.A.RefT) {
				return
			}
			n++
			// every If inside the same cycle whose edge leaves the cycle must be the loop's own bound test
			for _, blk := range fn.Blocks {
				if len(blk.Instrs) == 0 || !blockInCycleWith(blk, call.Block()) {
					continue
				}
				iff, ok := blk.Instrs[len(blk.Instrs)-1].(*ssa.If)
				if !ok {
					continue
				}
				for _, s := range blk.Succs {
					if blockInCycleWith(s, call.Block()) || s == call.Block() {
						continue
					}
					// an exit: fine when the condition is an integer bound test or the end of a range
					okExit := false
					if bo, ok := iff.Cond.(*ssa.BinOp); ok && isBasicKind(bo.X.Type(), types.Int) {
						if _, isLen := bo.Y.(*ssa.Call); isLen {
							okExit = true
						}
						if _, isLen := bo.X.(*ssa.Call); isLen {
							okExit = true
						}
					}
					if ex, ok := iff.Cond.(*ssa.Extract); ok {
						if _, isNext := ex.Tuple.(*ssa.Next); isNext {
							okExit = true
						}
					}
					if !okExit {
						bad = c.P.ShortName(fn) + "@" + c.P.InstrPos(iff)
					}
				}
			}
		})
	}
	switch {
	case bad != "":
		c.Fail(rule, "filter-loop-runs-to-end", desc, bad+": the loop is left at the duplicate; every reference listed behind it is dropped from the list that is written back (variant C, stored and fresh, is a MISS after a validation of variant A whose reply changed its Vary)")
	case n == 0:
		c.Pass(rule, "filter-loop-runs-to-end", desc, "no in-place filter of the reference list")
	default:
		c.Pass(rule, "filter-loop-runs-to-end", desc, fmt.Sprintf("%d filter loop(s)", n))
	}
}

// ruleMinFreshAgainstLifetime (C09.22 / C01.25): min-fresh asks for a response that stays fresh for N more seconds. What is
// left is the freshness lifetime minus the age - the lifetime the function reports, whatever it was computed from
// (max-age, Expires, the heuristic), not the max-age directive's value.
func ruleMinFreshAgainstLifetime(c *Ctx, rule string) {
	if !c.Need(rule, "freshness") || c.A.FreshT == nil {
		return
	}
	fn := c.A.F("freshness")
	desc := "the remaining lifetime that min-fresh is compared with is computed from the reported freshness lifetime"
	lifeVals := map[ssa.Value]bool{}
	st, _ := c.A.FreshT.Underlying().(*types.Struct)
	instrsOf(fn, func(in ssa.Instruction) {
		s, ok := in.(*ssa.Store)
		if !ok {
			return
		}
		fa, ok := s.Addr.(*ssa.FieldAddr)
		if !ok || !isNamed(derefType(fa.X.Type()), c.A.FreshT) || st == nil {
			return
		}
		if typeIs(s.Val.Type(), "time", "Duration") && strings.Contains(strings.ToLower(st.Field(fa.Field).Name()), "life") {
			lifeVals[s.Val] = true
			if phi, ok := s.Val.(*ssa.Phi); ok {
				for _, e := range phi.Edges {
					lifeVals[e] = true
				}
			}
		}
	})
	n := 0
	bad := ""
	instrsOf(fn, func(in ssa.Instruction) {
		cmp, ok := in.(*ssa.BinOp)
		if !ok {
			return
		}
		switch cmp.Op {
		case token.LSS, token.LEQ, token.GTR, token.GEQ:
		default:
			return
		}
		for _, side := range [][2]ssa.Value{{cmp.X, cmp.Y}, {cmp.Y, cmp.X}} {
			if !c.An.dependsOnCall(side[1], func(cc *ssa.Call) bool { return c.An.isAccessorCall(cc, "rq", "min-fresh") }) {
				continue
			}
			sub, ok := side[0].(*ssa.BinOp)
			if !ok || sub.Op != token.SUB {
				continue
			}
			n++
			if !lifeVals[sub.X] {
				bad = c.P.InstrPos(cmp)
			}
		}
	})
	switch {
	case bad != "":
		c.Fail(rule, "min-fresh-against-lifetime", desc, c.P.ShortName(fn)+"@"+bad+": the remaining lifetime is taken from another value than the lifetime the function reports; with `min-fresh=10` a response that is fresh for an hour by its Expires field (or heuristically) is judged stale and fetched again")
	case n == 0:
		c.Pass(rule, "min-fresh-against-lifetime", desc, "no subtraction is compared with min-fresh")
	default:
		c.Pass(rule, "min-fresh-against-lifetime", desc, fmt.Sprintf("%d comparison(s)", n))
	}
}

// ruleListTrimOWS (C12.19): optional whitespace around a list member is SP and HTAB (RFC 9110 §5.6.3). The splitter trims
// both: with a cut set of " " only, `no-transform,\tmax-age=3600` yields the unknown directive "\tmax-age".
func ruleListTrimOWS(c *Ctx, rule string) {
	desc := "the list splitter trims SP and HTAB from its members"
	n := 0
	bad := ""
	for _, fn := range c.tokenizerTree() {
		instrsOf(fn, func(in ssa.Instruction) {
			cc := callOf(in)
			if cc == nil {
				return
			}
			if callIsPkgFunc(cc, "net/textproto", "TrimString") || callIsPkgFunc(cc, "strings", "TrimSpace") {
				n++
				return
			}
			if callIsPkgFunc(cc, "strings", "Trim") || callIsPkgFunc(cc, "strings", "TrimLeft") || callIsPkgFunc(cc, "strings", "TrimRight") {
				n++
				if k, ok := constStr(cc.Args[1]); ok && strings.Contains(k, " ") != strings.Contains(k, "\t") {
					bad = c.P.ShortName(fn) + "@" + c.P.InstrPos(in)
				}
			}
		})
	}
	switch {
	case bad != "":
		c.Fail(rule, "list-trim-ows", desc, bad+": only one of SP and HTAB is trimmed; `Cache-Control: no-transform,\\tmax-age=3600` is stored without a lifetime (the origin is contacted on every request) and `no-cache=\"Set-Cookie,\\tX-Token\"` replays X-Token from the store")
	case n == 0:
		c.Pass(rule, "list-trim-ows", desc, "the splitter calls no trimming function (it skips white space itself)")
	default:
		c.Pass(rule, "list-trim-ows", desc, fmt.Sprintf("%d trim call(s)", n))
	}
}

// ruleSIEBranchReturnsStored (C13.16): once the stale-if-error policy has said yes, the stored response is what the caller
// gets: every return the handler can reach from there returns it, with a nil error.
func ruleSIEBranchReturnsStored(c *Ctx, rule string) {
	if !c.Need(rule, "validationHandler", "siePolicy") {
		return
	}
	vh := c.A.F("validationHandler")
	desc := "every return behind a positive stale-if-error decision returns the stored response"
	n := 0
	bad := ""
	for _, blk := range vh.Blocks {
		if len(blk.Instrs) == 0 {
			continue
		}
		iff, ok := blk.Instrs[len(blk.Instrs)-1].(*ssa.If)
		if !ok {
			continue
		}
		// the decision: the policy call is the last conjunct of the condition (its true edge means "serve stale")
		isPolicy := false
		for _, lf := range condLeaves(iff.Cond, true) {
			if call, ok := lf.v.(*ssa.Call); ok && c.An.CallsRole(call, "siePolicy") && lf.val {
				isPolicy = true
			}
		}
		if call, ok := iff.Cond.(*ssa.Call); ok && c.An.CallsRole(call, "siePolicy") {
			isPolicy = true
		}
		if !isPolicy {
			continue
		}
		yes := blk.Succs[0]
		if len(yes.Preds) != 1 {
			continue
		}
		for _, b2 := range vh.Blocks {
			if !(b2 == yes || yes.Dominates(b2)) || len(b2.Instrs) == 0 {
				continue
			}
			ret, ok := b2.Instrs[len(b2.Instrs)-1].(*ssa.Return)
			if !ok {
				continue
			}
			n++
			if !c.An.IsServeReturn(ret) {
				bad = c.P.InstrPos(ret)
				continue
			}
			for i, rv := range ret.Results {
				if isErrorType(rv.Type()) && !isNilConst(c.An.RetVal(ret, i)) {
					bad = c.P.InstrPos(ret)
				}
			}
		}
	}
	switch {
	case n == 0:
		c.Undecided(rule, "sie-branch-returns-stored", desc, "no return behind the stale-if-error decision in "+c.P.ShortName(vh))
	case bad != "":
		c.Fail(rule, "sie-branch-returns-stored", desc, c.P.ShortName(vh)+"@"+bad+": behind the positive decision something else than the stored response can be returned; a 503 whose body ends before its announced length gives the caller `unexpected EOF` instead of the stored response, inside the window")
	default:
		c.Pass(rule, "sie-branch-returns-stored", desc, fmt.Sprintf("%d return(s)", n))
	}
}

// ruleSIEComparisonsInvolveWindow (C13.17): the policy compares the age with lifetime plus window. A comparison that involves
// the freshness record and constants only (`UsefulLife <= 0`) is a condition the property does not know: a response
// with a lifetime of zero has a window like any other.
func ruleSIEComparisonsInvolveWindow(c *Ctx, rule string) {
	if !c.Need(rule, "siePolicy") {
		return
	}
	top := c.A.F("siePolicy")
	desc := "every duration comparison of the stale-if-error policy involves a directive's window"
	n := 0
	bad := ""
	for _, fn := range c.reachableFrom(top) {
		if fn.Pkg != top.Pkg {
			continue
		}
		n2, bad2 := c.sieComparisonsIn(fn)
		n += n2
		if bad2 != "" {
			bad = bad2
		}
	}
	switch {
	case bad != "":
		c.Fail(rule, "sie-comparisons-involve-window", desc, bad+": a comparison of the freshness record with a constant decides the outcome; stored `max-age=0, stale-if-error=60` (lifetime zero) gets no window and the origin's 503 is returned although the staleness is far below 60 s")
	default:
		c.Pass(rule, "sie-comparisons-involve-window", desc, fmt.Sprintf("%s: %d comparison(s)", c.P.ShortName(top), n))
	}
}

// sieComparisonsIn examines one function of the policy's tree (it needs the freshness record as a parameter).
func (c *Ctx) sieComparisonsIn(fn *ssa.Function) (int, string) {
	var fresh *ssa.Parameter
	for _, p := range fn.Params {
		if c.A.FreshT != nil && isPtrToNamed(p.Type(), c.A.FreshT) {
			fresh = p
		}
	}
	onlyRecord := func(v ssa.Value) bool {
		only := true
		c.P.TraceBack(v, TraceOpts{ThroughOps: true, ThroughExtern: true, NoParams: true, NoHeapFields: true}, func(x ssa.Value, _ []int) bool {
			switch y := x.(type) {
			case *ssa.Const:
			case *ssa.Parameter:
				if y != fresh {
					only = false
				}
			case *ssa.Call:
				// a call on a directive (its value), i.e. anything that is not the clock or arithmetic on the record
				if sc := y.Call.StaticCallee(); sc != nil && c.P.IsRepoFunc(sc) {
					if _, isAcc := c.A.DirAcc[sc]; isAcc || (len(y.Call.Args) > 0 && !typeIs(y.Call.Args[0].Type(), "time", "Duration") && !typeIs(y.Call.Args[0].Type(), "time", "Time") && len(sigResults(sc)) == 2) {
						only = false
					}
				}
			case *ssa.Extract:
				if call, ok := y.Tuple.(*ssa.Call); ok {
					if sc := call.Call.StaticCallee(); sc != nil && c.P.IsRepoFunc(sc) && len(sigResults(sc)) == 2 {
						only = false // (value, valid) of a directive
					}
				}
			case *ssa.UnOp:
				if y.Op == token.MUL {
					if fa, ok := y.X.(*ssa.FieldAddr); ok {
						root := fa.X
						for {
							if u2, ok := root.(*ssa.UnOp); ok {
								if f2, ok := u2.X.(*ssa.FieldAddr); ok {
									root = f2.X
									continue
								}
							}
							if f2, ok := root.(*ssa.FieldAddr); ok {
								root = f2.X
								continue
							}
							break
						}
						if root != ssa.Value(fresh) {
							only = false
						}
						return false
					}
				}
			}
			return true
		})
		return only
	}
	n := 0
	bad := ""
	if fresh != nil {
		instrsOf(fn, func(in ssa.Instruction) {
			bo, ok := in.(*ssa.BinOp)
			if !ok || !typeIs(bo.X.Type(), "time", "Duration") {
				return
			}
			switch bo.Op {
			case token.LSS, token.LEQ, token.GTR, token.GEQ, token.EQL, token.NEQ:
			default:
				return
			}
			n++
			if onlyRecord(bo.X) && onlyRecord(bo.Y) {
				bad = c.P.ShortName(fn) + "@" + c.P.InstrPos(bo)
			}
		})
	}
	return n, bad
}

// ruleWalkSkipsFilesWithNil (C14.22): in a WalkDir callback fs.SkipDir returned for a *file* skips the rest of its directory.
// The key listing returns it (or fs.SkipAll) for directories at most.
func ruleWalkSkipsFilesWithNil(c *Ctx, rule string) {
	if c.P.Pkg("store/fscache") == nil {
		return
	}
	desc := "the listing's walk callback never returns fs.SkipDir / fs.SkipAll for a file"
	n := 0
	bad := ""
	for _, fn := range c.fsBackendFuncs() {
		var entry *ssa.Parameter
		for _, p := range fn.Params {
			if typeIs(p.Type(), "io/fs", "DirEntry") {
				entry = p
			}
		}
		if entry == nil {
			continue
		}
		n++
		instrsOf(fn, func(in ssa.Instruction) {
			ret, ok := in.(*ssa.Return)
			if !ok {
				return
			}
			for i := range ret.Results {
				rv := c.An.RetVal(ret, i)
				u, ok := rv.(*ssa.UnOp)
				if !ok || u.Op != token.MUL {
					continue
				}
				g, ok := u.X.(*ssa.Global)
				if !ok || !(g.Name() == "SkipDir" || g.Name() == "SkipAll") {
					continue
				}
				// allowed only under entry.IsDir() == true
				underDir := false
				for _, dc := range dominatingConds(ret.Block()) {
					for _, lf := range condLeaves(dc.cond, dc.onTrue) {
						if call, ok := lf.v.(*ssa.Call); ok && call.Call.IsInvoke() && call.Call.Method.Name() == "IsDir" && lf.val {
							underDir = true
						}
					}
				}
				if !underDir {
					bad = c.P.ShortName(fn) + "@" + c.P.InstrPos(ret)
				}
			}
		})
	}
	switch {
	case bad != "":
		c.Fail(rule, "walk-skips-files-with-nil", desc, bad+": for a file, fs.SkipDir ends the walk of the directory it is in; with one `.tmp-...` file left behind by a crashed writer (it sorts before nearly every entry) Keys returns none of the five live keys")
	case n == 0:
		c.Pass(rule, "walk-skips-files-with-nil", desc, "no walk callback in the file-system backend")
	default:
		c.Pass(rule, "walk-skips-files-with-nil", desc, fmt.Sprintf("%d walk callback(s)", n))
	}
}

// ruleCiphertextMinLength (C14.23 / C17.13): the shortest sealed value is nonce plus tag (the empty plaintext). The decryptor's
// length test is written in terms of the AEAD's own NonceSize (and Overhead); a larger constant (`aes.BlockSize`)
// rejects the values of 0 to 3 bytes that Set accepted.
func ruleCiphertextMinLength(c *Ctx, rule string) {
	if c.P.Pkg("store/fscache") == nil {
		return
	}
	desc := "the decryptor's minimum length is computed from the AEAD's NonceSize / Overhead alone"
	n := 0
	bad := ""
	for _, fn := range c.fsBackendFuncs() {
		opens := false
		instrsOf(fn, func(in ssa.Instruction) {
			if cc := callOf(in); cc != nil && cc.IsInvoke() && cc.Method.Name() == "Open" && len(cc.Args) == 4 {
				opens = true
			}
		})
		if !opens {
			continue
		}
		instrsOf(fn, func(in ssa.Instruction) {
			bo, ok := in.(*ssa.BinOp)
			if !ok || !isBasicKind(bo.X.Type(), types.Int) {
				return
			}
			switch bo.Op {
			case token.LSS, token.LEQ, token.GTR, token.GEQ:
			default:
				return
			}
			isLenOfParam := func(v ssa.Value) bool {
				call, ok := v.(*ssa.Call)
				if !ok {
					return false
				}
				b, ok := call.Call.Value.(*ssa.Builtin)
				if !ok || b.Name() != "len" {
					return false
				}
				_, isP := call.Call.Args[0].(*ssa.Parameter)
				return isP
			}
			var bound ssa.Value
			switch {
			case isLenOfParam(bo.X):
				bound = bo.Y
			case isLenOfParam(bo.Y):
				bound = bo.X
			default:
				return
			}
			n++
			c.P.TraceBack(bound, TraceOpts{ThroughOps: true, NoParams: true, NoHeapFields: true}, func(x ssa.Value, _ []int) bool {
				switch y := x.(type) {
				case *ssa.Const:
					if k, ok := constInt(y); ok && k != 0 {
						bad = c.P.ShortName(fn) + "@" + c.P.InstrPos(bo) + fmt.Sprintf(" (constant %d)", k)
					}
				case *ssa.Call:
					if y.Call.IsInvoke() && (y.Call.Method.Name() == "NonceSize" || y.Call.Method.Name() == "Overhead") {
						return false
					}
				}
				return true
			})
		})
	}
	switch {
	case bad != "":
		c.Fail(rule, "ciphertext-min-length", desc, bad+": the bound contains a constant that is not the AEAD's; with aes.BlockSize (16) in the place of the 12-byte nonce a stored value of 0 to 3 bytes fails on Get with `ciphertext too short` although Set succeeded")
	case n == 0:
		c.Pass(rule, "ciphertext-min-length", desc, "the decryptor tests no minimum length")
	default:
		c.Pass(rule, "ciphertext-min-length", desc, fmt.Sprintf("%d length test(s)", n))
	}
}

// ruleOptionReturnsConstructorError (C17.14): enabling encryption with an unusable key fails at open. The function that calls
// the encryptor's constructor hands the constructor's error on: the error value reaches a return (it is not only
// compared, with a shadowed variable returned in its place).
func ruleOptionReturnsConstructorError(c *Ctx, rule string) {
	if c.P.Pkg("store/fscache") == nil {
		return
	}
	desc := "the error of the encryptor's constructor reaches a return of the function that called it"
	n := 0
	bad := ""
	isCtor := func(f *ssa.Function) bool {
		if f == nil || !c.P.IsRepoFunc(f) {
			return false
		}
		rs := sigResults(f)
		if len(rs) != 2 || !isErrorType(rs[1]) {
			return false
		}
		hit := false
		instrsOf(f, func(in ssa.Instruction) {
			if cc := callOf(in); cc != nil && (callIsPkgFunc(cc, "crypto/cipher", "NewGCM") || callIsPkgFunc(cc, "crypto/aes", "NewCipher")) {
				hit = true
			}
		})
		return hit
	}
	for _, fn := range c.fsBackendFuncs() {
		instrsOf(fn, func(in ssa.Instruction) {
			call, ok := in.(*ssa.Call)
			if !ok || !isCtor(call.Call.StaticCallee()) {
				return
			}
			if len(sigResults(fn)) == 0 || !isErrorType(sigResults(fn)[len(sigResults(fn))-1]) {
				return
			}
			n++
			var errVal ssa.Value
			if rr := call.Referrers(); rr != nil {
				for _, r := range *rr {
					if ex, ok := r.(*ssa.Extract); ok && ex.Index == 1 {
						errVal = ex
					}
				}
			}
			if errVal == nil {
				bad = c.P.ShortName(fn) + "@" + c.P.InstrPos(call)
				return
			}
			reaches := false
			instrsOf(fn, func(i2 ssa.Instruction) {
				ret, ok := i2.(*ssa.Return)
				if !ok {
					return
				}
				for i, rv := range ret.Results {
					if !isErrorType(rv.Type()) {
						continue
					}
					v := c.An.RetVal(ret, i)
					c.P.TraceBack(v, TraceOpts{ThroughOps: true, ThroughExtern: true, NoParams: true, NoHeapFields: true}, func(x ssa.Value, _ []int) bool {
						if x == errVal {
							reaches = true
							return false
						}
						return true
					})
				}
			})
			if !reaches {
				bad = c.P.ShortName(fn) + "@" + c.P.InstrPos(call)
			}
		})
	}
	switch {
	case bad != "":
		c.Fail(rule, "option-returns-constructor-error", desc, bad+": the constructor's error is tested but never returned (a shadowed variable is); a key that is not base64url, or of 10/20/31/33 bytes, opens a cache that writes plaintext")
	case n == 0:
		c.Undecided(rule, "option-returns-constructor-error", desc, "no call of the encryptor's constructor from a function that returns an error")
	default:
		c.Pass(rule, "option-returns-constructor-error", desc, fmt.Sprintf("%d constructor call(s)", n))
	}
}

// ruleSearchCoversEveryUnusablePosition (C19.16): the storer looks for a reference that already describes the variant whenever
// the position it was given is not usable - negative, or beyond the list. With the upper bound missing a caller that
// passes len(list) for "nothing matched" appends one reference per request.
func ruleSearchCoversEveryUnusablePosition(c *Ctx, rule string) {
	if !c.Need(rule, "storeResp") {
		return
	}
	sr := c.A.F("storeResp")
	desc := "the search for an existing reference runs for a position beyond the list as well as for a negative one"
	var search ssa.Instruction
	instrsOf(sr, func(in ssa.Instruction) {
		if call, ok := in.(*ssa.Call); ok {
			if sc := call.Call.StaticCallee(); sc != nil {
				n := sc.String()
				if o := sc.Origin(); o != nil {
					n = o.String()
				}
				if strings.HasPrefix(n, "slices.IndexFunc") || strings.HasPrefix(n, "slices.ContainsFunc") {
					search = in
				}
			}
		}
	})
	if search == nil {
		c.Pass(rule, "search-covers-unusable-position", desc, "no library search call in the storer (C19.1 decides the de-duplication)")
		return
	}
	conds := controlConds(search.Block())
	if len(conds) == 0 {
		c.Pass(rule, "search-covers-unusable-position", desc, "the search is unconditional")
		return
	}
	// some predecessor edge into the search block tests the position against the length of the list
	upper := false
	for _, p := range search.Block().Preds {
		if len(p.Instrs) == 0 {
			continue
		}
		iff, ok := p.Instrs[len(p.Instrs)-1].(*ssa.If)
		if !ok {
			continue
		}
		c.P.TraceBack(iff.Cond, TraceOpts{ThroughOps: true, NoParams: true, NoHeapFields: true}, func(x ssa.Value, _ []int) bool {
			if call, ok := x.(*ssa.Call); ok {
				if b, ok := call.Call.Value.(*ssa.Builtin); ok && b.Name() == "len" {
					upper = true
				}
			}
			return true
		})
	}
	if upper {
		c.Pass(rule, "search-covers-unusable-position", desc, c.P.InstrPos(search))
	} else {
		c.Fail(rule, "search-covers-unusable-position", desc, c.P.InstrPos(search)+": the search runs for a negative position only; a miss against an existing list that is reported as position len(list) appends a reference on every request to a `Vary: *` resource (24 references after 24 requests)")
	}
}

// ruleMissPathGetsReadIndex (C19.17): whatever goes wrong after the list was read (an entry that cannot be decoded), the
// list that is handed on to the storing path is the list that was read: with nil in its place the list is restarted
// with one reference and the other variants' entries stay in the store unreferenced.
func ruleMissPathGetsReadIndex(c *Ctx, rule string) {
	if !c.Need(rule, "readIndex") || c.A.RefT == nil {
		return
	}
	root := c.A.Root
	desc := "every call that hands the reference list on passes the list that was read, never nil"
	n := 0
	bad := ""
	var read ssa.Instruction
	instrsOf(root, func(in ssa.Instruction) {
		if c.An.CallsRole(in, "readIndex") {
			read = in
		}
	})
	if read == nil {
		c.Pass(rule, "miss-path-gets-read-index", desc, "the list is not read in "+c.P.ShortName(root))
		return
	}
	instrsOf(root, func(in ssa.Instruction) {
		call, ok := in.(*ssa.Call)
		if !ok || in == read || len(c.P.RepoCallees(call)) == 0 || !instrDominates(read, in) {
			return
		}
		for _, a := range call.Call.Args {
			sl, ok := a.Type().Underlying().(*types.Slice)
			if !ok || !isPtrToNamed(sl.Elem(), c.A.RefT) {
				continue
			}
			n++
			// when the read failed or gave nothing there is no list to hand on: nil is wrong only where the read is
			// known to have succeeded (its error was tested nil / its length non-zero on the way here)
			succeeded, emptyKnown := false, false
			fromRead := func(v ssa.Value) bool {
				dep := false
				c.P.TraceBack(v, TraceOpts{ThroughOps: true, ThroughExtern: true, NoParams: true, NoHeapFields: true}, func(x ssa.Value, _ []int) bool {
					if ex, ok := x.(*ssa.Extract); ok {
						if ti, ok := ex.Tuple.(ssa.Instruction); ok && ti == read {
							dep = true
							return false
						}
					}
					return true
				})
				return dep
			}
			for _, dc := range controlConds(in.Block()) {
				for _, lf := range condLeaves(dc.cond, dc.onTrue) {
					bo, ok := lf.v.(*ssa.BinOp)
					if !ok || !(fromRead(bo.X) || fromRead(bo.Y)) {
						continue
					}
					switch {
					case (isNilConst(bo.X) || isNilConst(bo.Y)) && (bo.Op == token.NEQ && !lf.val || bo.Op == token.EQL && lf.val):
						succeeded = true // err == nil
					case !isBasicKind(bo.X.Type(), types.Int):
					case bo.Op == token.EQL && !lf.val, bo.Op == token.NEQ && lf.val, bo.Op == token.GTR && lf.val:
						succeeded = true // len(list) != 0
					case bo.Op == token.EQL && lf.val, bo.Op == token.NEQ && !lf.val, bo.Op == token.GTR && !lf.val:
						emptyKnown = true // len(list) == 0: nothing to hand on
					}
				}
			}
			if !succeeded || emptyKnown {
				continue
			}
			if k, ok := a.(*ssa.Const); ok && k.IsNil() {
				bad = c.P.InstrPos(in)
			}
			if phi, ok := a.(*ssa.Phi); ok {
				for _, e := range phi.Edges {
					if k, ok := e.(*ssa.Const); ok && k.IsNil() {
						bad = c.P.InstrPos(in)
					}
				}
			}
		}
	})
	switch {
	case bad != "":
		c.Fail(rule, "miss-path-gets-read-index", desc, c.P.ShortName(root)+"@"+bad+": nil is passed in the place of the list that was read; when one variant's entry cannot be decoded the list is rewritten with a single reference and the other variants' entries are never deleted (two keys survive a POST)")
	default:
		c.Pass(rule, "miss-path-gets-read-index", desc, fmt.Sprintf("%d call(s) passing the list", n))
	}
}

// ruleForegroundIgnoresCallerContext (C20.10): a stale response inside its window is returned at once, whatever the state
// of the caller's context. No foreground function of the hit path branches on the request context's Err or Done.
func ruleForegroundIgnoresCallerContext(c *Ctx, rule string) {
	ruleForegroundIgnoresCallerContextFrom(c, rule, c.hitHandler(), "the hit path returns the context's error before the stale-while-revalidate branch; a caller whose context is already cancelled gets `context canceled` instead of the stale response, and no background revalidation is started")
}

// ruleInvalidationIgnoresCallerContext (C07.16): what the cache does after the origin answered an unsafe request does not depend
// on the caller's context any more: the answer is handed back, so the invalidation happens.
func ruleInvalidationIgnoresCallerContext(c *Ctx, rule string) {
	ruleForegroundIgnoresCallerContextFrom(c, rule, c.A.Root, "a decision on the exchange depends on the caller's context being done; a POST whose context ends between the origin's answer and the bookkeeping returns its 2xx to the caller but deletes nothing, and the next GET is a HIT with the old content")
}

func ruleForegroundIgnoresCallerContextFrom(c *Ctx, rule string, hh *ssa.Function, witness string) {
	if hh == nil {
		return
	}
	desc := "no foreground decision depends on whether the caller's context is done"
	bg := map[*ssa.Function]bool{}
	for _, b := range c.backgroundFunctions() {
		for _, f := range c.reachableFrom(b) {
			bg[f] = true
		}
	}
	n := 0
	bad := ""
	for _, fn := range c.reachableFrom(hh) {
		if bg[fn] || !c.A.ReachFg[fn] || fn.Pkg == nil || fn.Pkg != hh.Pkg {
			continue
		}
		instrsOf(fn, func(in ssa.Instruction) {
			iff, ok := in.(*ssa.If)
			if !ok {
				return
			}
			n++
			if c.An.dependsOnCall(iff.Cond, func(cc *ssa.Call) bool {
				if !(cc.Call.IsInvoke() && (cc.Call.Method.Name() == "Err" || cc.Call.Method.Name() == "Done") && typeIs(cc.Call.Value.Type(), "context", "Context")) {
					return false
				}
				// the caller's context: the one the request carries (a store's own timeout context is another matter)
				return c.An.dependsOnCall(cc.Call.Value, func(rc *ssa.Call) bool { return callIsMethod(&rc.Call, "net/http", "Request", "Context") })
			}) {
				bad = c.P.ShortName(fn) + "@" + c.P.InstrPos(iff)
			}
		})
	}
	switch {
	case bad != "":
		c.Fail(rule, "foreground-ignores-caller-context", desc, bad+": "+witness)
	default:
		c.Pass(rule, "foreground-ignores-caller-context", desc, fmt.Sprintf("%d decision(s) in the foreground hit path", n))
	}
}


// blankAssigned: result idx of the call is assigned to the blank identifier in the source (go/ssa extracts it all the same).
func blankAssigned(fn *ssa.Function, call *ssa.Call, idx int) bool {
	syn := fn.Syntax()
	if syn == nil {
		return false
	}
	blank := false
	ast.Inspect(syn, func(n ast.Node) bool {
		as, ok := n.(*ast.AssignStmt)
		if !ok || len(as.Rhs) != 1 || idx >= len(as.Lhs) {
			return true
		}
		ce, ok := as.Rhs[0].(*ast.CallExpr)
		if !ok || ce.Lparen != call.Pos() {
			return true
		}
		if id, ok := as.Lhs[idx].(*ast.Ident); ok && id.Name == "_" {
			blank = true
		}
		return true
	})
	return blank
}
