package hcv

import (
	"fmt"
	"go/token"
	"go/types"
	"sort"
	"strings"

	"golang.org/x/tools/go/ssa"
)

func init() {
	register(&Property{
		ID:    "C10",
		Title: "The transport fails open: no panic, no hang, errors only from the origin",
		Decides: "a response obtained together with an error is dereferenced only where err==nil or resp!=nil is established; no pointer result is used after its error was " +
			"discarded; pointers decoded from store bytes are nil-filtered or nil-guarded; no explicit panic is reachable from RoundTrip; store read errors lead only to the miss path; " +
			"every error returned derives from the origin call (or the 504 constructor); no (nil,nil) return; logging code is effect-free; foreground waits are selects with a " +
			"timeout-derived context arm and buffered result channels.",
		NotDecided:  "panics or hangs inside the upstream transport, the standard library or third-party backends; slice-bound panics (cross-referenced only).",
		Assumptions: []string{"http.RoundTripper contract: a non-nil error comes with a nil response"},
		Rules: []Rule{
			{ID: "C10.1", Desc: "nil response discipline", Run: ruleC10_1, MinSites: 3},
			{ID: "C10.2", Desc: "discarded error then dereference", Run: ruleC10_2, MinSites: 1},
			{ID: "C10.3", Desc: "decoded nil elements", Run: ruleC10_3, MinSites: 1},
			{ID: "C10.4", Desc: "no explicit panic reachable from RoundTrip", Run: ruleC10_4, MinSites: 1},
			{ID: "C10.5", Desc: "store read error leads to the miss path only", Run: ruleC10_5, MinSites: 2},
			{ID: "C10.6", Desc: "error provenance", Run: ruleC10_6, MinSites: 3},
			{ID: "C10.7", Desc: "never (nil, nil)", Run: ruleC10_7, MinSites: 2},
			{ID: "C10.8", Desc: "logging is inert", Run: ruleC10_8, MinSites: 3},
			{ID: "C10.9", Desc: "bounded waits on the foreground path", Run: func(c *Ctx) { ruleBoundedWaits(c, "C10.9", true) }, MinSites: 3},
			{ID: "C10.13", Desc: "the cloned request's header map is non-nil before fields are set on it", Run: ruleC10_13, MinSites: 1},
			{ID: "C10.12", Desc: "string indexing at i+k is guarded by a length test that covers offset k", Run: ruleC10_12, MinSites: 1},
			{ID: "C10.11", Desc: "the entry reader never returns (nil entry, nil error); the entry handed to the validation handler is never nil", Run: ruleC10_11, MinSites: 2},
			{ID: "C10.10", Desc: "no mutex is left locked on any return (a failing store operation must not wedge the next RoundTrip)", Run: func(c *Ctx) { ruleC14_1(c); renameRule(c, "C14.1", "C10.10") }, MinSites: 4},
			{ID: "C10.14", Desc: "an entry found under another key than the one recorded in it is unreadable", Run: func(c *Ctx) { ruleEntryBelongsToKey(c, "C10.14") }, MinSites: 1},
			{ID: "C10.15", Desc: "a stored body that ends early makes the entry unreadable (read to its end while parsing)", Run: func(c *Ctx) { ruleStoredBodyComplete(c, "C10.15") }, MinSites: 1},
			{ID: "C10.16", Desc: "a nil header map of the upstream response is replaced before the cache writes fields into it", Run: func(c *Ctx) { ruleUpstreamHeaderRepaired(c, "C10.16") }, MinSites: 1},
			{ID: "C10.17", Desc: "a stale-if-error window too large to represent saturates (else the origin's error is returned although a stale response may be used)", Run: func(c *Ctx) { ruleSaturation(c, "C10.17") }, MinSites: 2},
			{ID: "C10.18", Desc: "collaborators are assigned before they are handed to other collaborators' constructors", Run: func(c *Ctx) { ruleCtorFieldsAssignedBeforeUse(c, "C10.18") }, MinSites: 1},
			{ID: "C10.19", Desc: "after a failed serialisation the client still gets the body that was read", Run: func(c *Ctx) { ruleBodyHandedBackLast(c, "C10.19") }, MinSites: 1},
			{ID: "C10.20", Desc: "every source of stale-if-error is consulted before the origin's failure is returned", Run: func(c *Ctx) { ruleC13_4(c); renameRule(c, "C13.4", "C10.20") }, MinSites: 1},
			{ID: "C10.21", Desc: "the origin's error response is closed when the stored one is served instead (no connection is left checked out)", Run: func(c *Ctx) { ruleSIEClosesOriginBody(c, "C10.21") }, MinSites: 1},
			{ID: "C10.22", Desc: "an entry whose recorded times cannot be read is unreadable", Run: func(c *Ctx) { ruleMetaTimesChecked(c, "C10.22") }, MinSites: 1},
			{ID: "C10.23", Desc: "fields are set only on request headers that cannot be nil", Run: func(c *Ctx) { ruleRequestHeaderWritesNonNil(c, "C10.23") }, MinSites: 1},
			{ID: "C10.24", Desc: "no nil dereference when the origin's response has no Body (closes are nil-guarded)", Run: func(c *Ctx) { ruleUpstreamBodyCloseGuarded(c, "C10.24") }, MinSites: 1},
			{ID: "C10.25", Desc: "the origin's own response reaches the client readable (its body is not closed on the way)", Run: func(c *Ctx) { ruleForwardedBodyNotClosed(c, "C10.25") }, MinSites: 1},
			{ID: "C10.26", Desc: "no error returned by a call is overwritten or dropped without having been looked at", Run: func(c *Ctx) { ruleNoDeadErrorValues(c, "C10.26") }, MinSites: 1},
			{ID: "C10.27", Desc: "a configured store timeout below the default is honoured (a blocked store operation fails open in time)", Run: func(c *Ctx) { ruleConfiguredTimeoutWins(c, "C10.27") }, MinSites: 1},
			{ID: "C10.28", Desc: "the index reader hands out no partially decoded list", Run: func(c *Ctx) { ruleIndexReaderReturnsNilOnError(c, "C10.28") }, MinSites: 1},
			{ID: "C10.29", Desc: "every revalidation context is built with the same fields (the background one carries the freshness record the failure path dereferences)", Run: func(c *Ctx) { ruleC08_4(c); renameRule(c, "C08.4", "C10.29") }, MinSites: 2},
			{ID: "C10.30", Desc: "the field list of a qualified no-cache and the flag that says it is qualified come from one decoding (a nil list is never ranged over)", Run: func(c *Ctx) { ruleC02_4(c); renameRule(c, "C02.4", "C10.30") }, MinSites: 1},
		},
	})
}

// respErrPairs finds (response value, error value) pairs in fn that stem from an origin call.
func (an *Analysis) respErrPairs(fn *ssa.Function) [][2]ssa.Value {
	var out [][2]ssa.Value
	// parameters
	var rp, ep ssa.Value
	for _, p := range fn.Params {
		if isHTTPResponsePtr(p.Type()) {
			rp = p
		}
		if isErrorType(p.Type()) {
			ep = p
		}
	}
	if rp != nil && ep != nil && an.ResponseKinds(rp)["upstream"] {
		out = append(out, [2]ssa.Value{rp, ep})
	}
	// tuple results of calls
	instrsOf(fn, func(in ssa.Instruction) {
		call, ok := in.(*ssa.Call)
		if !ok {
			return
		}
		tup, ok := call.Type().(*types.Tuple)
		if !ok {
			return
		}
		ri, ei := -1, -1
		for i := 0; i < tup.Len(); i++ {
			if isHTTPResponsePtr(tup.At(i).Type()) {
				ri = i
			}
			if isErrorType(tup.At(i).Type()) {
				ei = i
			}
		}
		if ri < 0 || ei < 0 {
			return
		}
		var rv, ev ssa.Value
		if refs := call.Referrers(); refs != nil {
			for _, r := range *refs {
				if ex, ok := r.(*ssa.Extract); ok {
					if ex.Index == ri {
						rv = ex
					}
					if ex.Index == ei {
						ev = ex
					}
				}
			}
		}
		if rv == nil {
			return
		}
		if !an.ResponseKinds(rv)["upstream"] {
			return
		}
		out = append(out, [2]ssa.Value{rv, ev})
	})
	return out
}

// sameCanon: two SSA values denote the same variable (after forwarding single-store cells and named-result cells).
func (an *Analysis) sameCanon(a, b ssa.Value) bool {
	if a == nil || b == nil {
		return false
	}
	if an.canon(a) == an.canon(b) {
		return true
	}
	// named result cell: loads of the cell vs the value stored into it
	cell := func(v ssa.Value) ssa.Value {
		if u, ok := v.(*ssa.UnOp); ok && u.Op == token.MUL {
			if al, ok := u.X.(*ssa.Alloc); ok {
				return al
			}
		}
		return nil
	}
	storedIn := func(v ssa.Value, al ssa.Value) bool {
		for _, st := range an.P.cellStores(al) {
			if st.Val == v || an.canon(st.Val) == an.canon(v) {
				return true
			}
		}
		return false
	}
	if ca := cell(a); ca != nil {
		if cb := cell(b); cb != nil && ca == cb {
			return true
		}
		if storedIn(b, ca) {
			return true
		}
	}
	if cb := cell(b); cb != nil && storedIn(a, cb) {
		return true
	}
	return false
}

func ruleC10_1(c *Ctx) {
	n := 0
	var fns []*ssa.Function
	for fn := range c.A.Reach {
		fns = append(fns, fn)
	}
	sort.Slice(fns, func(i, j int) bool { return FuncName(fns[i]) < FuncName(fns[j]) })
	for _, fn := range fns {
		for _, pair := range c.An.respErrPairs(fn) {
			rv, ev := pair[0], pair[1]
			n++
			where := fmt.Sprintf("%s: resp=%s err=%v", c.P.ShortName(fn), rv.Name(), nameOf(ev))
			assume := func(a *Atom) (bool, bool) {
				switch a.Key {
				case "nil:err":
					if ev != nil && c.An.sameCanon(a.Val, ev) {
						return false, true // err != nil
					}
				case "nil:resp":
					if c.An.sameCanon(a.Val, rv) {
						return true, true // resp == nil
					}
				}
				return false, false
			}
			pr := c.An.Prune(fn, assume)
			var bad ssa.Instruction
			pr.LiveInstrs(func(in ssa.Instruction) {
				if bad != nil {
					return
				}
				switch x := in.(type) {
				case *ssa.FieldAddr:
					if c.An.sameCanon(x.X, rv) {
						bad = in
					}
				case *ssa.Field:
					if c.An.sameCanon(x.X, rv) {
						bad = in
					}
				case ssa.CallInstruction:
					call := x.Common()
					if recv, _ := recvAndArgs(call); recv != nil && isHTTPResponsePtr(recv.Type()) && c.An.sameCanon(recv, rv) {
						bad = in
					}
				}
			})
			desc := "the origin response is dereferenced only where err==nil or resp!=nil holds"
			key := "nil-resp fn=" + c.P.ShortName(fn)
			if ev == nil {
				c.Pass("C10.1", key+" (error discarded)", desc, where)
				continue
			}
			if bad != nil {
				c.Fail("C10.1", key, desc, fmt.Sprintf("%s: `%s` is reachable with err != nil and resp == nil. Witness: the validation request of a stale entry fails with a network error => nil-pointer panic in RoundTrip",
					c.P.InstrPos(bad), bad.String()), where)
			} else {
				c.Pass("C10.1", key, desc, where)
			}
		}
	}
	if n == 0 {
		c.Undecided("C10.1", "vacuity", "origin (response, error) pairs exist", "none found")
	}
}

func nameOf(v ssa.Value) string {
	if v == nil {
		return "<discarded>"
	}
	return v.Name()
}

// nilGuarded: the use at block `at` of value v is dominated by a `v != nil` edge.
func (an *Analysis) nilGuarded(v ssa.Value, at *ssa.BasicBlock) bool {
	for _, dc := range dominatingConds(at) {
		b, ok := dc.cond.(*ssa.BinOp)
		if !ok || (b.Op != token.EQL && b.Op != token.NEQ) {
			continue
		}
		var other ssa.Value
		if isNilConst(b.Y) {
			other = b.X
		} else if isNilConst(b.X) {
			other = b.Y
		} else {
			continue
		}
		if !an.sameCanon(other, v) {
			continue
		}
		nonNil := (b.Op == token.NEQ) == dc.onTrue
		if nonNil {
			return true
		}
	}
	return false
}

func isPointerLike(t types.Type) bool {
	switch t.Underlying().(type) {
	case *types.Pointer:
		return true
	}
	return false
}

// derefsOf lists instructions in fn that dereference v (field access, method call with v as pointer receiver).
func (an *Analysis) derefsOf(fn *ssa.Function, v ssa.Value) []ssa.Instruction {
	var out []ssa.Instruction
	instrsOf(fn, func(in ssa.Instruction) {
		switch x := in.(type) {
		case *ssa.FieldAddr:
			if an.sameCanon(x.X, v) {
				out = append(out, in)
			}
		case *ssa.UnOp:
			if x.Op == token.MUL && an.canon(x.X) == an.canon(v) && x.X == v {
				out = append(out, in)
			}
		case ssa.CallInstruction:
			call := x.Common()
			if call.IsInvoke() {
				return
			}
			if sc := call.StaticCallee(); sc != nil && sc.Signature.Recv() != nil && len(call.Args) > 0 && an.sameCanon(call.Args[0], v) {
				if _, isPtr := sc.Signature.Recv().Type().Underlying().(*types.Pointer); isPtr {
					out = append(out, in)
				}
			}
		}
	})
	return out
}

func ruleC10_2(c *Ctx) {
	n := 0
	bad := 0
	var fns []*ssa.Function
	for fn := range c.A.Reach {
		fns = append(fns, fn)
	}
	sort.Slice(fns, func(i, j int) bool { return FuncName(fns[i]) < FuncName(fns[j]) })
	for _, fn := range fns {
		instrsOf(fn, func(in ssa.Instruction) {
			call, ok := in.(*ssa.Call)
			if !ok {
				return
			}
			tup, ok := call.Type().(*types.Tuple)
			if !ok || tup.Len() < 2 || !isErrorType(tup.At(tup.Len()-1).Type()) {
				return
			}
			var errUsed bool
			var ptrs []*ssa.Extract
			if refs := call.Referrers(); refs != nil {
				for _, r := range *refs {
					if ex, ok := r.(*ssa.Extract); ok {
						if ex.Index == tup.Len()-1 {
							if rr := ex.Referrers(); rr != nil {
								for _, u := range *rr {
									if _, dbg := u.(*ssa.DebugRef); !dbg {
										errUsed = true
									}
								}
							}
						} else if isPointerLike(ex.Type()) {
							ptrs = append(ptrs, ex)
						}
					}
				}
			}
			if errUsed || len(ptrs) == 0 {
				return
			}
			n++
			where := fmt.Sprintf("%s@%s `%s`", c.P.ShortName(fn), c.P.InstrPos(call), call.String())
			for _, pv := range ptrs {
				for _, d := range c.An.derefsOf(fn, pv) {
					if !c.An.nilGuarded(pv, d.Block()) {
						bad++
						c.Fail("C10.2", "discarded-error-then-deref fn="+c.P.ShortName(fn), "a pointer whose error was discarded is not dereferenced without a nil test",
							fmt.Sprintf("%s: error discarded, then %s `%s` dereferences the result. Witness: a request URL without scheme (&url.URL{Host:\"example.com\",Path:\"/\"}) makes url.Parse fail => nil-pointer panic instead of an error", where, c.P.InstrPos(d), d.String()), where)
						return
					}
				}
			}
		})
	}
	if bad == 0 {
		c.Pass("C10.2", "discarded-error-then-deref", "a pointer whose error was discarded is not dereferenced without a nil test", fmt.Sprintf("%d call sites with a discarded error and a pointer result examined", n), "functions scanned: "+fmt.Sprint(len(fns)))
	}
}

func ruleC10_3(c *Ctx) {
	if !c.Need("C10.3", "readIndex") || c.A.RefT == nil {
		return
	}
	ri := c.A.F("readIndex")
	// element type must be a pointer for the rule to matter
	rs := sigResults(ri)
	sl, _ := rs[0].Underlying().(*types.Slice)
	if sl == nil || !isPointerLike(sl.Elem()) {
		c.Pass("C10.3", "decoded-elements", "index elements are values, not pointers", c.P.ShortName(ri))
		return
	}
	// producer-side filter: a nil comparison on an element-typed value inside the decoder (or its closures / callees)
	producer := false
	seen := map[*ssa.Function]bool{}
	var scan func(f *ssa.Function)
	scan = func(f *ssa.Function) {
		if seen[f] || !c.P.IsRepoFunc(f) {
			return
		}
		seen[f] = true
		instrsOf(f, func(in ssa.Instruction) {
			if b, ok := in.(*ssa.BinOp); ok && (b.Op == token.EQL || b.Op == token.NEQ) {
				for _, pair := range [][2]ssa.Value{{b.X, b.Y}, {b.Y, b.X}} {
					if isNilConst(pair[1]) && isPtrToNamed(pair[0].Type(), c.A.RefT) {
						producer = true
					}
				}
			}
			if mc, ok := in.(*ssa.MakeClosure); ok {
				scan(mc.Fn.(*ssa.Function))
			}
			for _, op := range in.Operands(nil) {
				if af, ok := (*op).(*ssa.Function); ok {
					scan(af) // a function value handed on: a closure without captured variables, or a named predicate
				}
			}
			if ci, ok := in.(ssa.CallInstruction); ok {
				for _, cal := range c.P.RepoCallees(ci) {
					scan(cal)
				}
			}
		})
	}
	scan(ri)
	desc := "index elements decoded from store bytes are nil-filtered by the decoder, or every dereference on the exchange is nil-guarded"
	if producer {
		c.Pass("C10.3", "decoded-elements", desc, c.P.ShortName(ri)+": nil elements are tested in the decoder")
		return
	}
	// consumer side
	var unguarded []string
	nd := 0
	for fn := range c.A.Reach {
		instrsOf(fn, func(in ssa.Instruction) {
			fa, ok := in.(*ssa.FieldAddr)
			if !ok || !isPtrToNamed(fa.X.Type(), c.A.RefT) {
				return
			}
			// allocation sites (composite literals) are not decoded values
			if _, isAlloc := fa.X.(*ssa.Alloc); isAlloc {
				return
			}
			nd++
			if !c.An.nilGuarded(fa.X, fa.Block()) {
				unguarded = append(unguarded, c.P.ShortName(fn)+"@"+c.P.InstrPos(fa))
			}
		})
	}
	sort.Strings(unguarded)
	if len(unguarded) > 0 {
		c.Fail("C10.3", "decoded-elements", desc, fmt.Sprintf("the decoder %s does not filter nil elements and %d of %d dereferences are unguarded, e.g. %s. Witness: the store returns `[null]` for the index key => nil-pointer panic in the variant matcher",
			c.P.ShortName(ri), len(unguarded), nd, unguarded[0]), unguarded...)
		return
	}
	c.Pass("C10.3", "decoded-elements", desc, fmt.Sprintf("%d dereferences, all nil-guarded", nd))
}

func ruleC10_4(c *Ctx) {
	n := 0
	bad := 0
	for fn := range c.A.Reach {
		n++
		instrsOf(fn, func(in ssa.Instruction) {
			p, ok := in.(*ssa.Panic)
			if !ok {
				return
			}
			cm := p.Block().Comment
			if strings.HasPrefix(cm, "rangefunc.") || cm == "yield-invalid" || !p.Pos().IsValid() {
				return // synthetic: range-over-func protocol checks, "blocking select matched no case"
			}
			bad++
			c.Fail("C10.4", "panic fn="+c.P.ShortName(fn), "no explicit panic is reachable from RoundTrip", c.P.InstrPos(p)+": `"+p.String()+"`")
		})
	}
	if bad == 0 {
		c.Pass("C10.4", "no-panic", "no explicit panic is reachable from RoundTrip", fmt.Sprintf("%d functions scanned", n))
	}
}

func ruleC10_5(c *Ctx) {
	root := c.A.Root
	for _, role := range []string{"readIndex", "readEntry"} {
		if !c.Need("C10.5", role) {
			continue
		}
		// the error value of the read call in RoundTrip
		var errv ssa.Value
		var site ssa.Instruction
		instrsOf(root, func(in ssa.Instruction) {
			if c.An.CallsRole(in, role) {
				site = in
				if call, ok := in.(*ssa.Call); ok {
					if refs := call.Referrers(); refs != nil {
						for _, r := range *refs {
							if ex, ok := r.(*ssa.Extract); ok && isErrorType(ex.Type()) {
								errv = ex
							}
						}
					}
				}
			}
		})
		desc := "when the store read (" + role + ") fails, RoundTrip continues on the miss path only"
		if site == nil {
			c.Undecided("C10.5", "store-error-"+role, desc, "no call of "+role+" in RoundTrip")
			continue
		}
		if errv == nil {
			c.Fail("C10.5", "store-error-"+role, desc, c.P.InstrPos(site)+": the error of the store read is not examined")
			continue
		}
		pr := c.An.Prune(root, func(a *Atom) (bool, bool) {
			if a.Key == "nil:err" && c.An.sameCanon(a.Val, errv) {
				return false, true
			}
			return false, false
		})
		serveLive, missLive := false, false
		isServe := func(in ssa.Instruction) bool { return c.An.IsServeReturn(in) }
		pr.LiveInstrs(func(in ssa.Instruction) {
			ci, ok := in.(ssa.CallInstruction)
			if !ok || in == site {
				return
			}
			if in.Block() == site.Block() {
				// instructions before the read in the same block are not "after the failure"
				before := true
				for _, i2 := range in.Block().Instrs {
					if i2 == site {
						before = false
					}
					if i2 == in {
						break
					}
				}
				if before {
					return
				}
			}
			for _, cal := range c.P.RepoCallees(ci) {
				if c.An.May("SERVE", cal, isServe, false) && !c.An.MayUpstream(cal, false) {
					serveLive = true
				}
				if c.An.CallsRole(in, "readEntry") && role == "readIndex" {
					serveLive = true
				}
				if c.An.MayUpstream(cal, false) {
					missLive = true
				}
			}
		})
		// precise: the hit handler (may serve without upstream on some path) must be dead; identify it as a callee whose
		// May(SERVE) holds and which is only live when err==nil
		hitLive := false
		pr.LiveInstrs(func(in ssa.Instruction) {
			if ci, ok := in.(ssa.CallInstruction); ok {
				for _, cal := range c.P.RepoCallees(ci) {
					if c.An.May("SERVE", cal, isServe, false) {
						hitLive = true
					}
				}
			}
		})
		if hitLive || serveLive {
			c.Fail("C10.5", "store-error-"+role, desc, c.P.InstrPos(site)+": with the read error set, a call that can return a stored response stays reachable")
		} else if !missLive {
			c.Fail("C10.5", "store-error-"+role, desc, c.P.InstrPos(site)+": with the read error set, no path to the origin remains")
		} else {
			c.Pass("C10.5", "store-error-"+role, desc, c.P.ShortName(root)+"@"+c.P.InstrPos(site))
		}
	}
}

func (c *Ctx) outcomeFunctions() []*ssa.Function {
	var fns []*ssa.Function
	for fn := range c.A.ReachFg {
		rs := sigResults(fn)
		if len(rs) == 2 && isHTTPResponsePtr(rs[0]) && isErrorType(rs[1]) && len(fn.Blocks) > 0 && !isTestOnly(c, fn) {
			fns = append(fns, fn)
		}
	}
	sort.Slice(fns, func(i, j int) bool { return FuncName(fns[i]) < FuncName(fns[j]) })
	return fns
}

func ruleC10_6(c *Ctx) {
	n := 0
	bad := 0
	var sites []string
	for _, fn := range c.outcomeFunctions() {
		instrsOf(fn, func(in ssa.Instruction) {
			r, ok := in.(*ssa.Return)
			if !ok || len(r.Results) != 2 {
				return
			}
			ev := r.Results[1]
			if isNilConst(ev) {
				return
			}
			n++
			where := c.P.ShortName(fn) + "@" + c.P.InstrPos(in)
			sites = append(sites, where)
			for _, root := range c.P.Roots(ev, TraceOpts{}) {
				okRoot := false
				switch x := root.(type) {
				case *ssa.Const:
					okRoot = x.Value == nil
				case *ssa.Extract:
					if call, ok := x.Tuple.(*ssa.Call); ok {
						if c.An.IsUpstreamCall(&call.Call) {
							okRoot = true
						}
						if callIsPkgFunc(&call.Call, "net/http", "ReadResponse") && call.Parent() == c.A.F("synth504") {
							okRoot = true
						}
					}
				}
				if !okRoot {
					bad++
					c.Fail("C10.6", "error-provenance fn="+c.P.ShortName(fn), "every error returned by the exchange derives from the origin call",
						fmt.Sprintf("%s: returned error is rooted at %T `%s` in %s; a store or internal failure would surface to the client", where, root, root.String(), c.P.ShortName(parentOf(root))))
				}
			}
		})
	}
	if bad == 0 {
		c.Pass("C10.6", "error-provenance", "every error returned by the exchange derives from the origin call (or the constant-input 504 constructor)", sites...)
	}
}

func parentOf(v ssa.Value) *ssa.Function {
	if v == nil {
		return nil
	}
	return v.Parent()
}

func ruleC10_7(c *Ctx) {
	n := 0
	bad := 0
	var sites []string
	for _, fn := range c.outcomeFunctions() {
		instrsOf(fn, func(in ssa.Instruction) {
			r, ok := in.(*ssa.Return)
			if !ok || len(r.Results) != 2 || !isNilConst(r.Results[0]) {
				return
			}
			n++
			where := c.P.ShortName(fn) + "@" + c.P.InstrPos(in)
			sites = append(sites, where)
			ev := r.Results[1]
			if isNilConst(ev) {
				bad++
				c.Fail("C10.7", "nil-nil fn="+c.P.ShortName(fn), "no return of (nil response, nil error)", where+": literal `return nil, nil`")
				return
			}
			pr := c.An.Prune(fn, func(a *Atom) (bool, bool) {
				if a.Key == "nil:err" && c.An.sameCanon(a.Val, ev) {
					return true, true // err == nil
				}
				return false, false
			})
			if pr.LiveBlock[r.Block().Index] {
				bad++
				c.Fail("C10.7", "nil-nil fn="+c.P.ShortName(fn), "no return of (nil response, nil error)", where+": `return nil, err` is reachable with err == nil")
			}
		})
	}
	if bad == 0 {
		c.Pass("C10.7", "never-nil-nil", "a nil response is returned only on a path where the error is known to be non-nil", sites...)
	}
}

func ruleC10_8(c *Ctx) {
	// entry points: methods of the logger type called from the exchange, and every closure handed to them
	n := 0
	bad := 0
	var names []string
	for fn := range c.A.Reach {
		if fn.Signature.Recv() == nil {
			continue
		}
		rt := namedOf(derefType(fn.Signature.Recv().Type()))
		if rt == nil || rt.Obj().Pkg().Path() != c.A.internalPath || !isLoggerType(rt) {
			continue
		}
		n++
		names = append(names, c.P.ShortName(fn))
		if why := c.An.EffectFree(fn); why != "" {
			bad++
			c.Fail("C10.8", "logger-method "+c.P.ShortName(fn), "logging code writes nothing but its own allocations", why)
		}
	}
	// LogValue methods and lazily evaluated providers reachable from the exchange
	for _, fn := range c.P.RepoFuncs {
		if isTestOnly(c, fn) || len(fn.Blocks) == 0 || fn.Synthetic != "" {
			continue
		}
		if fn.Name() == "LogValue" && fn.Signature.Recv() != nil {
			n++
			names = append(names, c.P.ShortName(fn))
			if why := c.An.EffectFree(fn); why != "" {
				bad++
				c.Fail("C10.8", "log-value "+c.P.ShortName(fn), "log value builders write nothing but their own allocations", why)
			}
		}
	}
	// closures passed as MiscProvider at logger call sites
	for fn := range c.A.Reach {
		instrsOf(fn, func(in ssa.Instruction) {
			mc, ok := in.(*ssa.MakeClosure)
			if !ok {
				return
			}
			cf := mc.Fn.(*ssa.Function)
			rs := sigResults(cf)
			if len(rs) == 1 && typeIs(rs[0], c.A.internalPath, "Misc") {
				n++
				names = append(names, c.P.ShortName(cf))
				if why := c.An.EffectFree(cf); why != "" {
					bad++
					c.Fail("C10.8", "misc-closure "+c.P.ShortName(cf), "lazily evaluated log closures write nothing but their own allocations", why)
				}
			}
		})
	}
	sort.Strings(names)
	if n == 0 {
		c.Undecided("C10.8", "vacuity", "logger methods are reachable", "none found")
		return
	}
	if bad == 0 {
		c.Pass("C10.8", "logging-inert", "logger methods, log value builders and lazily evaluated closures are effect-free (E6)", names...)
	}
}

// ruleBoundedWaits (C10.9 / C20.5): blocking operations reachable from RoundTrip.
func ruleBoundedWaits(c *Ctx, rule string, foregroundOnly bool) {
	set := c.A.Reach
	if foregroundOnly {
		set = c.A.ReachFg
	}
	n := 0
	bad := 0
	var sites []string
	var fns []*ssa.Function
	inSet := map[*ssa.Function]bool{}
	for fn := range set {
		fns = append(fns, fn)
		inSet[fn] = true
	}
	// the producers spawned by foreground functions: their sends must fit the result channel
	spawned := map[*ssa.Function]bool{}
	for fn := range set {
		instrsOf(fn, func(in ssa.Instruction) {
			if g, ok := in.(*ssa.Go); ok {
				for _, cal := range c.P.RepoCallees(g) {
					if !inSet[cal] && !spawned[cal] && !c.An.MayUpstream(cal, true) {
						spawned[cal] = true
						fns = append(fns, cal)
					}
				}
			}
		})
	}
	sort.Slice(fns, func(i, j int) bool { return FuncName(fns[i]) < FuncName(fns[j]) })
	for _, fn := range fns {
		instrsOf(fn, func(in ssa.Instruction) {
			where := c.P.ShortName(fn) + "@" + c.P.InstrPos(in)
			switch x := in.(type) {
			case *ssa.UnOp:
				if x.Op == token.ARROW {
					sites = append(sites, where+" receive")
					n++
					bad++
					c.Fail(rule, "bare-receive fn="+c.P.ShortName(fn), "no unconditional channel receive on the RoundTrip path", where)
				}
			case *ssa.Send:
				sites = append(sites, where+" send")
				n++
				// sends must go to a buffered channel created in the enclosing function pair
				if !c.An.sendFitsCapacity(x) {
					bad++
					c.Fail(rule, "send-may-block fn="+c.P.ShortName(fn), "every send goes to a channel whose constant capacity covers the sends of any path", where)
				}
			case *ssa.Select:
				if !x.Blocking {
					return
				}
				sites = append(sites, where+" select")
				n++
				hasDone := false
				for _, st := range x.States {
					if st.Dir != types.RecvOnly {
						continue
					}
					if call, ok := st.Chan.(*ssa.Call); ok && call.Call.IsInvoke() && call.Call.Method.Name() == "Done" {
						if c.An.ctxHasTimeout(call.Call.Value) {
							hasDone = true
						}
					}
				}
				if !hasDone {
					bad++
					c.Fail(rule, "select-without-timeout fn="+c.P.ShortName(fn), "every blocking select has a ctx.Done() arm whose context derives from context.WithTimeout", where)
				}
			case ssa.CallInstruction:
				call := x.Common()
				if sc := call.StaticCallee(); sc != nil && isMethod(sc, "sync", "WaitGroup", "Wait") {
					n++
					bad++
					c.Fail(rule, "waitgroup-wait fn="+c.P.ShortName(fn), "no WaitGroup.Wait on the RoundTrip path", where)
				}
			}
		})
	}
	if bad == 0 {
		c.Pass(rule, "bounded-waits", "blocking operations on the RoundTrip path are selects with a timeout-derived ctx.Done() arm; sends fit their channel's capacity",
			append(sites, fmt.Sprintf("%d functions scanned", len(fns)))...)
	}
	if n == 0 {
		c.Undecided(rule, "vacuity-waits", "blocking operations exist on the path (file-system backend adapters)", "none found; are the built-in backends still reachable through driver.Conn?")
	}
}

// ctxHasTimeout: the context value derives from context.WithTimeout / WithDeadline with a duration that is not a
// possibly non-positive raw value (see C20.4 for defaulting).
func (an *Analysis) ctxHasTimeout(ctx ssa.Value) bool {
	ok := false
	an.P.TraceBack(ctx, TraceOpts{}, func(v ssa.Value, _ []int) bool {
		if ex, isEx := v.(*ssa.Extract); isEx {
			if call, isCall := ex.Tuple.(*ssa.Call); isCall && (callIsPkgFunc(&call.Call, "context", "WithTimeout") || callIsPkgFunc(&call.Call, "context", "WithDeadline")) {
				ok = true
				return false
			}
		}
		if call, isCall := v.(*ssa.Call); isCall && call.Call.IsInvoke() && call.Call.Method.Name() == "Context" {
			return false
		}
		if call, isCall := v.(*ssa.Call); isCall && callIsMethod(&call.Call, "net/http", "Request", "Context") {
			// request context: follow the request back to a WithContext(ctx)
			r, _ := recvAndArgs(&call.Call)
			an.P.TraceBack(r, TraceOpts{}, func(w ssa.Value, _ []int) bool {
				if wc, isC := w.(*ssa.Call); isC && callIsMethod(&wc.Call, "net/http", "Request", "WithContext") {
					_, args := recvAndArgs(&wc.Call)
					if len(args) > 0 && an.ctxHasTimeout(args[0]) {
						ok = true
					}
					return false
				}
				return true
			})
			return false
		}
		return true
	})
	return ok
}

// sendFitsCapacity: the channel of the send is made with a constant capacity >= the maximum number of sends on any path
// of the sending function.
func (an *Analysis) sendFitsCapacity(s *ssa.Send) bool {
	capv := int64(-1)
	an.P.TraceBack(s.Chan, TraceOpts{}, func(v ssa.Value, _ []int) bool {
		if mc, ok := v.(*ssa.MakeChan); ok {
			if k, ok := constInt(mc.Size); ok {
				if capv < 0 || k < capv {
					capv = k
				}
			} else {
				capv = 0
			}
			return false
		}
		return true
	})
	if capv < 1 {
		return false
	}
	// maximum number of sends on this channel on any path of the function (loop => unbounded)
	fn := s.Parent()
	maxSends := maxOnPath(fn, func(in ssa.Instruction) bool {
		x, ok := in.(*ssa.Send)
		return ok && sameChan(x.Chan, s.Chan)
	})
	return maxSends >= 0 && int64(maxSends) <= capv
}

func sameChan(a, b ssa.Value) bool {
	strip := func(v ssa.Value) ssa.Value {
		if u, ok := v.(*ssa.UnOp); ok && u.Op == token.MUL {
			return u.X
		}
		return v
	}
	return strip(a) == strip(b)
}

// maxOnPath: maximum number of instructions satisfying pred on any entry->exit path; -1 when a cycle contains one.
func maxOnPath(fn *ssa.Function, pred func(ssa.Instruction) bool) int {
	count := map[int]int{}
	for _, b := range fn.Blocks {
		for _, in := range b.Instrs {
			if pred(in) {
				count[b.Index]++
			}
		}
	}
	// detect cycles containing a counted block: simple DFS longest path with on-stack detection
	memo := map[int]int{}
	onStack := map[int]bool{}
	cyc := false
	var rec func(b *ssa.BasicBlock) int
	rec = func(b *ssa.BasicBlock) int {
		if v, ok := memo[b.Index]; ok {
			return v
		}
		if onStack[b.Index] {
			return 0
		}
		onStack[b.Index] = true
		best := 0
		for _, s := range b.Succs {
			if onStack[s.Index] {
				// back edge: if any block on the cycle counts, unbounded
				if cycleCounts(fn, s, b, count) {
					cyc = true
				}
				continue
			}
			if v := rec(s); v > best {
				best = v
			}
		}
		onStack[b.Index] = false
		memo[b.Index] = best + count[b.Index]
		return memo[b.Index]
	}
	if len(fn.Blocks) == 0 {
		return 0
	}
	r := rec(fn.Blocks[0])
	if cyc {
		return -1
	}
	return r
}

func cycleCounts(fn *ssa.Function, head, tail *ssa.BasicBlock, count map[int]int) bool {
	// blocks that can reach tail and are reachable from head
	fwd := map[int]bool{}
	wl := []*ssa.BasicBlock{head}
	for len(wl) > 0 {
		x := wl[len(wl)-1]
		wl = wl[:len(wl)-1]
		if fwd[x.Index] {
			continue
		}
		fwd[x.Index] = true
		wl = append(wl, x.Succs...)
	}
	bwd := map[int]bool{}
	wl = []*ssa.BasicBlock{tail}
	for len(wl) > 0 {
		x := wl[len(wl)-1]
		wl = wl[:len(wl)-1]
		if bwd[x.Index] {
			continue
		}
		bwd[x.Index] = true
		wl = append(wl, x.Preds...)
	}
	for i := range fwd {
		if bwd[i] && count[i] > 0 {
			return true
		}
	}
	return false
}

// isLoggerType: a struct whose only field is a log/slog.Handler (the cache's logger wrapper).
func isLoggerType(n *types.Named) bool {
	st, ok := n.Underlying().(*types.Struct)
	if !ok || st.NumFields() != 1 {
		return false
	}
	return typeIs(st.Field(0).Type(), "log/slog", "Handler")
}

// ruleC10_11: callers test only the error of the entry read and then dereference the entry; the validation handler
// dereferences the stored entry of its context on every branch (304 merge, replacement, stale-if-error).
//
//	(a) in the entry reader, a return whose entry is the nil constant is dead once the returned error is nil;
//	(b) at every call of the validation handler, the value placed in the context's entry field has no nil-constant source.
func ruleC10_11(c *Ctx) {
	if !c.Need("C10.11", "readEntry", "validationHandler") {
		return
	}
	re := c.A.F("readEntry")
	nRet := 0
	badRet := ""
	instrsOf(re, func(in ssa.Instruction) {
		r, ok := in.(*ssa.Return)
		if !ok || len(r.Results) != 2 || !isNilConst(r.Results[0]) {
			return
		}
		nRet++
		ev := r.Results[1]
		if isNilConst(ev) {
			badRet = c.P.InstrPos(in) + ": literal `return nil, nil`"
			return
		}
		if call, isCall := ev.(*ssa.Call); isCall && c.constructsError(call) {
			return // a freshly constructed error value
		}
		if mi, isMI := ev.(*ssa.MakeInterface); isMI {
			// a concrete error object boxed here: &T{...} or the result of a constructor that returns one
			if _, isAlloc := mi.X.(*ssa.Alloc); isAlloc {
				return
			}
			if call, isCall := mi.X.(*ssa.Call); isCall {
				if sc := call.Call.StaticCallee(); sc != nil && c.P.IsRepoFunc(sc) && len(sc.Blocks) > 0 {
					allAlloc, nr := true, 0
					for _, b := range sc.Blocks {
						if rr, isRet := b.Instrs[len(b.Instrs)-1].(*ssa.Return); isRet && len(rr.Results) == 1 {
							nr++
							if _, isAlloc := rr.Results[0].(*ssa.Alloc); !isAlloc {
								allAlloc = false
							}
						}
					}
					if allAlloc && nr > 0 {
						return
					}
				}
			}
		}
		pr := c.An.Prune(re, func(a *Atom) (bool, bool) {
			if a.Key == "nil:err" && c.An.sameCanon(a.Val, ev) {
				return true, true // the returned error is nil
			}
			return false, false
		})
		if pr.LiveBlock[r.Block().Index] {
			badRet = c.P.InstrPos(in) + ": `return nil, err` is reachable with err == nil"
		}
	})
	d1 := "the entry reader returns a nil entry only together with a non-nil error"
	if badRet != "" {
		c.Fail("C10.11", "entry-read-nil-nil", d1, badRet+"; RoundTrip checks only the error and hands the nil entry to the hit handler, which dereferences it: a store value of length 0 (a truncated file) panics in the caller's goroutine")
	} else {
		c.Pass("C10.11", "entry-read-nil-nil", d1, fmt.Sprintf("%s: %d returns of a nil entry, all under a non-nil error", c.P.ShortName(re), nRet))
	}
	// (b)
	if c.A.RevalCtxT == nil || c.A.EntryT == nil {
		return
	}
	st, ok := c.A.RevalCtxT.Underlying().(*types.Struct)
	if !ok {
		return
	}
	entryField := -1
	for i := 0; i < st.NumFields(); i++ {
		if isPtrToNamed(st.Field(i).Type(), c.A.EntryT) {
			entryField = i
		}
	}
	if entryField < 0 {
		c.Undecided("C10.11", "context-entry", "the revalidation context has a stored-entry field", "no *entry field in "+c.A.RevalCtxT.Obj().Name())
		return
	}
	n := 0
	for fn := range c.A.Reach {
		instrsOf(fn, func(in ssa.Instruction) {
			if !c.An.CallsRole(in, "validationHandler") || c.A.roleOf[fn] == "validationHandler" {
				return
			}
			_, args := recvAndArgs(callOf(in))
			var ctxArg ssa.Value
			for _, a := range args {
				if isNamed(a.Type(), c.A.RevalCtxT) {
					ctxArg = a
				}
			}
			if ctxArg == nil {
				return
			}
			n++
			where := c.P.ShortName(fn) + "@" + c.P.InstrPos(in)
			var srcs []string
			nilSrc := ""
			c.P.TraceBackPath(ctxArg, []int{entryField}, TraceOpts{NoParams: true, NoHeapFields: true}, func(v ssa.Value, path []int) bool {
				if len(path) > 0 {
					return true
				}
				switch y := v.(type) {
				case *ssa.Const:
					if y.Value == nil {
						nilSrc = c.P.InstrPos(in)
					}
					return false
				case *ssa.Extract:
					if _, isCall := y.Tuple.(*ssa.Call); isCall {
						// the result of a read: nil only together with an error (part (a)), which the caller tests (C10.5)
						srcs = append(srcs, "call result")
						return false
					}
					return true
				case *ssa.Call:
					srcs = append(srcs, "call result")
					return false
				case *ssa.Phi, *ssa.UnOp:
					return true
				}
				srcs = append(srcs, fmt.Sprintf("%T", v))
				return true
			})
			d2 := "the stored entry placed in the revalidation context is never the nil constant"
			if nilSrc != "" {
				c.Fail("C10.11", "context-entry fn="+c.P.ShortName(fn), d2, where+": on some path the context's entry is nil; the handler dereferences it in the stale-if-error and replacement branches (an origin answering 5xx to the background revalidation crashes the process)")
			} else {
				c.Pass("C10.11", "context-entry fn="+c.P.ShortName(fn), d2, where)
			}
		})
	}
	if n == 0 {
		c.Undecided("C10.11", "context-entry", "a call of the validation handler exists", "none reachable from RoundTrip")
	}
}

// constructsError: the call builds an error value (errors.New, fmt.Errorf, errors.Join of such, or a repo constructor all
// of whose returns box a concrete value): its result is never nil.
func (c *Ctx) constructsError(call *ssa.Call) bool {
	if callIsPkgFunc(&call.Call, "errors", "New") || callIsPkgFunc(&call.Call, "fmt", "Errorf") {
		return true
	}
	sc := call.Call.StaticCallee()
	if sc == nil || !c.P.IsRepoFunc(sc) || len(sc.Blocks) == 0 {
		return false
	}
	ok := true
	n := 0
	for _, b := range sc.Blocks {
		r, isRet := b.Instrs[len(b.Instrs)-1].(*ssa.Return)
		if !isRet || len(r.Results) != 1 {
			continue
		}
		n++
		switch x := r.Results[0].(type) {
		case *ssa.MakeInterface:
			if isNilConst(x.X) {
				ok = false
			}
		default:
			ok = false
		}
	}
	return ok && n > 0
}

// ruleC10_12: request-controlled strings (URL escapes, directive values) are scanned byte by byte; `s[i+k]` panics when
// i+k == len(s). For every string index expression of the form i+k (k a constant >= 0) on the exchange, some dominating
// decision must bound i+k' < len(s) with k' >= k (a `<=` test covers one less). Indexes that are not of this form (loop
// variables of a range, constants) are left to the other rules.
func ruleC10_12(c *Ctx) {
	desc := "every `s[i+k]` is dominated by a test that implies i+k < len(s)"
	n := 0
	var fns []*ssa.Function
	for fn := range c.A.Reach {
		fns = append(fns, fn)
	}
	sort.Slice(fns, func(i, j int) bool { return FuncName(fns[i]) < FuncName(fns[j]) })
	offsetOf := func(v ssa.Value) (base ssa.Value, k int64, ok bool) {
		if b, isB := v.(*ssa.BinOp); isB && b.Op == token.ADD {
			if kk, isK := constInt(b.Y); isK {
				return b.X, kk, true
			}
			if kk, isK := constInt(b.X); isK {
				return b.Y, kk, true
			}
		}
		return v, 0, true
	}
	for _, fn := range fns {
		instrsOf(fn, func(in ssa.Instruction) {
			// s[i] on a string is an Index instruction (a Lookup in older SSA forms)
			type strIndex struct {
				ssa.Value
				X, Index ssa.Value
				blk      *ssa.BasicBlock
			}
			var lk strIndex
			switch y := in.(type) {
			case *ssa.Index:
				lk = strIndex{y, y.X, y.Index, y.Block()}
			case *ssa.Lookup:
				lk = strIndex{y, y.X, y.Index, y.Block()}
			default:
				return
			}
			if !isStringType(lk.X.Type()) {
				return
			}
			base, k, _ := offsetOf(lk.Index)
			if _, isConst := base.(*ssa.Const); isConst {
				return
			}
			if k == 0 {
				return // plain s[i]: loop-bounded in this code base; not the pattern this rule is about
			}
			n++
			covered := int64(-1)
			for _, dc := range dominatingConds(lk.blk) {
				for _, lf := range condLeaves(dc.cond, dc.onTrue) {
					bo, ok := lf.v.(*ssa.BinOp)
					if !ok {
						continue
					}
					op := bo.Op
					if !lf.val {
						op = negTok(op)
					}
					l, r := bo.X, bo.Y
					// normalise to  <expr> OP len(s)
					isLen := func(v ssa.Value) bool {
						call, ok := v.(*ssa.Call)
						if !ok {
							return false
						}
						b, isB := call.Call.Value.(*ssa.Builtin)
						return isB && b.Name() == "len" && c.An.sameCanon(call.Call.Args[0], lk.X)
					}
					if isLen(l) {
						l, r = r, l
						op = swapTok(op)
					}
					if !isLen(r) {
						continue
					}
					b2, k2, _ := offsetOf(l)
					if !c.An.sameCanon(b2, base) && b2 != base {
						continue
					}
					switch op {
					case token.LSS:
						if k2 > covered {
							covered = k2
						}
					case token.LEQ:
						if k2-1 > covered {
							covered = k2 - 1
						}
					}
				}
			}
			where := c.P.ShortName(fn) + "@" + c.P.InstrPos(in)
			key := fmt.Sprintf("index-guarded fn=%s k=%d", c.P.ShortName(fn), k)
			if covered >= k {
				c.Pass("C10.12", key, desc, where)
			} else {
				c.Fail("C10.12", key, desc, fmt.Sprintf("%s: `%s` reads offset +%d but the dominating tests only cover +%d; a string ending just there (a URL query ending in `%%2`) panics in the caller's goroutine", where, lk.String(), k, covered))
			}
		})
	}
	if n == 0 {
		c.Pass("C10.12", "index-guarded", desc, "no constant-offset string indexing on the exchange")
	}
}

// ruleC10_13: http.Header.Clone of a nil header is nil, and setting a field on a nil map panics. The request clone made
// for the conditional request takes its header from Header.Clone(); it must replace a nil result by a fresh map (a
// store of `make(http.Header)` into the clone's Header field under a nil test), or copy the header in a way that always
// yields a map.
func ruleC10_13(c *Ctx) {
	if !c.Need("C10.13", "cloneReq") {
		return
	}
	fn := c.A.F("cloneReq")
	desc := "the clone's Header is a non-nil map whatever the caller's request carries"
	viaClone, fresh := false, false
	instrsOf(fn, func(in ssa.Instruction) {
		st, ok := in.(*ssa.Store)
		if !ok {
			return
		}
		fa, ok := st.Addr.(*ssa.FieldAddr)
		if !ok || !isHTTPRequestPtr(fa.X.Type()) || fieldName(fa.X.Type(), fa.Field) != "Header" {
			return
		}
		switch v := st.Val.(type) {
		case *ssa.Call:
			if callIsMethod(&v.Call, "net/http", "Header", "Clone") || callIsPkgFunc(&v.Call, "maps", "Clone") {
				viaClone = true
			}
		case *ssa.MakeMap:
			// the fresh map has to go into the clone, not into the request that was handed in
			if _, isParam := c.An.canon(fa.X).(*ssa.Parameter); !isParam {
				if _, isParam2 := fa.X.(*ssa.Parameter); !isParam2 {
					fresh = true
				}
			}
		}
	})
	// a clone made by http.Request.Clone has the same property (Header.Clone of nil is nil)
	instrsOf(fn, func(in ssa.Instruction) {
		if cc := callOf(in); cc != nil && callIsMethod(cc, "net/http", "Request", "Clone") {
			viaClone = true
		}
	})
	switch {
	case viaClone && !fresh:
		c.Fail("C10.13", "clone-header-non-nil", desc, c.P.ShortName(fn)+": the header comes from Clone(), which is nil for a nil header, and is never replaced by a fresh map; a request built with a nil Header panics (`assignment to entry in nil map`) as soon as the stored response needs validation")
	default:
		c.Pass("C10.13", "clone-header-non-nil", desc, c.P.ShortName(fn))
	}
}
