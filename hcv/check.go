package hcv

import (
	"crypto/sha1"
	"flag"
	"fmt"
	"os"
	"path/filepath"
	"runtime/debug"
	"sort"
	"strconv"
	"strings"
	"time"
)

// runProperty evaluates all rules of prop on one loaded program.
func runProperty(prop *Property, p *Prog, a *Anchors) (obs []*Obligation) {
	an := NewAnalysis(p, a)
	for _, r := range prop.Rules {
		c := &Ctx{P: p, A: a, An: an, Prop: prop.ID}
		func() {
			defer func() {
				if rec := recover(); rec != nil {
					c.Undecided(r.ID, "internal", "rule must run to completion", fmt.Sprintf("analysis panic: %v\n%s", rec, firstLines(string(debug.Stack()), 14)))
				}
			}()
			r.Run(c)
		}()
		sites := 0
		for _, o := range c.Obs {
			sites += max(1, len(o.Examined))
		}
		if sites < r.MinSites {
			c.Undecided(r.ID, "vacuity", "rule must examine its minimum number of sites",
				fmt.Sprintf("examined %d sites, confirmed minimum is %d: the rule no longer finds the constructs it was written for", sites, r.MinSites))
		}
		if len(c.Obs) == 0 {
			c.Undecided(r.ID, "vacuity", "rule must produce obligations", "no obligation generated")
		}
		for _, o := range c.Obs {
			o.Config = p.Cfg.String()
		}
		obs = append(obs, c.Obs...)
	}
	return obs
}

// chaRules: the forbid (may-reach safety) rules repeated on the CHA call graph in the thorough tier.
var chaRules = map[string]bool{"C01.2": true, "C02.1": true, "C03.3": true, "C06.5": true, "C11.4": true, "C13.3": true, "C18.1": true, "C18.2": true}

func firstLines(s string, n int) string {
	ls := strings.Split(s, "\n")
	if len(ls) > n {
		ls = ls[:n]
	}
	return strings.Join(ls, "\n")
}

// CheckMain implements `hcv check`.
func CheckMain(args []string) int {
	fs := flag.NewFlagSet("check", flag.ExitOnError)
	repo := fs.String("repo", "/repo", "repository root")
	propID := fs.String("p", "", "property id (C01..C20)")
	tier := fs.String("tier", "quick", "quick|thorough")
	evPath := fs.String("evidence", "", "evidence file (default evidence/<id>.json)")
	kfPath := fs.String("known", "known-findings.txt", "known findings file")
	verbose := fs.Bool("v", false, "print every obligation")
	_ = fs.Parse(args)
	if t := os.Getenv("VERIF_TIER"); t != "" && !flagSet(fs, "tier") {
		*tier = t
	}
	seed := 0
	if s := os.Getenv("VERIF_SEED"); s != "" {
		seed, _ = strconv.Atoi(s)
	}
	prop := registry[*propID]
	if prop == nil {
		fmt.Fprintf(os.Stderr, "unknown property %q; known: %v\n", *propID, PropertyIDs())
		return 2
	}
	if *evPath == "" {
		*evPath = filepath.Join("evidence", prop.ID+".json")
	}
	start := time.Now()
	res := &RunResult{Prop: prop, Extra: map[string]any{}}
	cmd := "./run.sh check " + strings.Join(args, " ")

	fatal := func(what string, err error) int {
		// an analysis that did not run decided nothing: report as violation with a replay file naming the cause
		o := &Obligation{Rule: prop.ID + ".0", Key: prop.ID + ".0 " + what, Desc: "analysis must run to completion", Status: Undecided, Detail: err.Error(), Nontrivial: true}
		res.Obs = append(res.Obs, o)
		res.Violations = append(res.Violations, o)
		path := writeReplay(prop.ID, o)
		fmt.Printf("UNDECIDED %s: %s\n", o.Key, o.Detail)
		fmt.Printf("VIOLATION property=%s replay=%s\n", prop.ID, path)
		_ = WriteEvidence(*evPath, res, *tier, seed, time.Since(start), cmd)
		return 1
	}

	known, err := LoadKnownFindings(*kfPath)
	if err != nil {
		return fatal("known-findings", err)
	}

	configs := []LoadConfig{{Repo: *repo}}
	if *tier == "thorough" {
		configs = append(configs,
			LoadConfig{Repo: *repo, UseCHA: true},
			LoadConfig{Repo: *repo, GOOS: "linux", GOARCH: "386"},
			LoadConfig{Repo: *repo, GOOS: "windows", GOARCH: "amd64"},
			LoadConfig{Repo: *repo, GOOS: "darwin", GOARCH: "arm64"},
			LoadConfig{Repo: *repo, Tags: []string{"httpcache_acceptance_benchmarks"}},
		)
	}
	seenOb := map[string]*Obligation{}
	for i, cfg := range configs {
		p, err := Load(cfg)
		if err != nil {
			return fatal("load "+cfg.String(), err)
		}
		if len(p.Pkgs) < 8 {
			return fatal("load "+cfg.String(), fmt.Errorf("only %d packages loaded, expected >= 8", len(p.Pkgs)))
		}
		a := ResolveAnchors(p)
		res.Configs = append(res.Configs, cfg.String())
		if i == 0 {
			res.Loaded = []string{fmt.Sprintf("packages=%d repo_functions=%d all_functions=%d callgraph_edges=%d reach_from_R=%d", len(p.Pkgs), len(p.RepoFuncs), len(p.AllFuncs), p.NEdges, len(a.Reach))}
			for _, pk := range p.Pkgs {
				res.Loaded = append(res.Loaded, pk.PkgPath)
			}
			res.Anchors = a.Log
		}
		if len(a.Unresolved) > 0 {
			return fatal("anchors "+cfg.String(), fmt.Errorf("ANCHOR-UNRESOLVED: %s", strings.Join(a.Unresolved, "; ")))
		}
		obs := runProperty(prop, p, a)
		if cfg.UseCHA {
			// CHA is a superset call graph; it is used only to re-run the may-reach safety (forbid) rules, so that a
			// VTA imprecision cannot hide an edge. Other rules are not meaningful on CHA (every implementation of every
			// interface, every function of a matching signature becomes a callee).
			var keep []*Obligation
			for _, o := range obs {
				if chaRules[o.Rule] {
					keep = append(keep, o)
				}
			}
			obs = keep
		}
		for _, o := range obs {
			if prev, ok := seenOb[o.Key]; ok {
				// keep the worst status across configurations
				if o.Status != Discharged && prev.Status == Discharged {
					*prev = *o
				}
				continue
			}
			seenOb[o.Key] = o
			res.Obs = append(res.Obs, o)
		}
		if i == 0 {
			ctl := runControls(prop.ID)
			res.Controls = ctl.Lines
			for _, o := range ctl.Failed {
				res.Obs = append(res.Obs, o)
			}
		}
		if i == 0 && *tier == "thorough" {
			res.Mutants = runOverlayMutants(prop, p, cfg, seed)
		}
	}

	// match known findings
	usedKF := map[int]bool{}
	for _, o := range res.Obs {
		if o.Status == Discharged {
			continue
		}
		matched := false
		if o.Status == Violated {
			for i, kf := range known {
				if kf.Open && kf.Prop == prop.ID && kf.Key == o.Key {
					o.Known = kf.Text
					usedKF[i] = true
					matched = true
					res.Known = append(res.Known, o)
					break
				}
			}
		}
		if !matched {
			res.Violations = append(res.Violations, o)
		}
	}

	// report
	counts := map[Status]int{}
	for _, o := range res.Obs {
		counts[o.Status]++
		if *verbose || o.Status != Discharged {
			fmt.Printf("%-10s %s\n", o.Status, o.Key)
			if o.Status != Discharged {
				fmt.Printf("           %s\n", strings.ReplaceAll(o.Detail, "\n", "\n           "))
			}
		}
	}
	for _, o := range res.Known {
		fmt.Printf("KNOWN-FINDING: property=%s %s [%s]\n", prop.ID, o.Known, o.Key)
	}
	for i, kf := range known {
		if kf.Open && kf.Prop == prop.ID && !usedKF[i] {
			fmt.Printf("NOTE: known finding no longer reproduced (repaired or moved): %s\n", kf.Key)
		}
	}
	rc := 0
	for _, o := range res.Violations {
		path := writeReplay(prop.ID, o)
		fmt.Printf("VIOLATION property=%s replay=%s\n", prop.ID, path)
		rc = 1
	}
	fmt.Printf("%s [%s] obligations=%d discharged=%d violated=%d undecided=%d known=%d configs=%d wall=%.1fs\n",
		prop.ID, *tier, len(res.Obs), counts[Discharged], counts[Violated], counts[Undecided], len(res.Known), len(res.Configs), time.Since(start).Seconds())
	if err := WriteEvidence(*evPath, res, *tier, seed, time.Since(start), cmd); err != nil {
		fmt.Fprintln(os.Stderr, "evidence:", err)
		return 1
	}
	return rc
}

func flagSet(fs *flag.FlagSet, name string) bool {
	set := false
	fs.Visit(func(f *flag.Flag) {
		if f.Name == name {
			set = true
		}
	})
	return set
}

func writeReplay(prop string, o *Obligation) string {
	h := sha1.Sum([]byte(o.Key))
	path := filepath.Join("evidence", "violations", fmt.Sprintf("%s-%x.json", prop, h[:5]))
	o.StatusStr = o.Status.String()
	_ = writeJSON(path, map[string]any{"property": prop, "obligation": o, "how_to_replay": "./run.sh explain " + path})
	abs, err := filepath.Abs(path)
	if err != nil {
		return path
	}
	return abs
}

// ExplainMain re-runs the property of a replay file and prints the named obligation.
func ExplainMain(args []string) int {
	if len(args) < 1 {
		fmt.Fprintln(os.Stderr, "usage: hcv explain <replay.json> [-repo /repo]")
		return 2
	}
	b, err := os.ReadFile(args[0])
	if err != nil {
		fmt.Fprintln(os.Stderr, err)
		return 1
	}
	fmt.Println(string(b))
	return 0
}

// ListMain prints the registered rules.
func ListMain() int {
	for _, id := range PropertyIDs() {
		p := registry[id]
		fmt.Printf("%s %s\n", p.ID, p.Title)
		rs := append([]Rule{}, p.Rules...)
		sort.Slice(rs, func(i, j int) bool { return rs[i].ID < rs[j].ID })
		for _, r := range rs {
			fmt.Printf("  %-8s %s\n", r.ID, r.Desc)
		}
	}
	return 0
}
