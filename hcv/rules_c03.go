package hcv

import (
	"fmt"
	"go/constant"
	"go/token"
	"go/types"
	"sort"
	"strings"

	"golang.org/x/tools/go/ssa"
)

func init() {
	register(&Property{
		ID:    "C03",
		Title: "A stored response is reused only for an equivalent URI and a plain GET",
		Decides: "the predicate deciding which percent-escapes are decoded is exactly the RFC 3986 unreserved set on 0..255; the cache key depends on scheme, host, " +
			"escaped path and raw query and never reads the fragment (nor URL.String/Redacted); the method/Range gate is false for non-GET and for Range and dominates every " +
			"store access; every key on the exchange comes from the one key function; default ports are http->80, https->443 and a port is elided only when equal to the " +
			"scheme's default; escapes are re-encoded with an upper-case alphabet.",
		NotDecided: "injectivity of the authority serialisation beyond the bracket rule C03.7 (a host whose IP-literal brackets were stripped is re-bracketed before it is joined with ':port'); dot-segment handling inside net/url (only that it is applied after the unreserved escapes were decoded: C07.9/C09.10).",
		Rules: []Rule{
			{ID: "C03.1", Desc: "unreserved set exact", Run: ruleC03_1, MinSites: 1},
			{ID: "C03.2", Desc: "key dependence: scheme, host, path, query; not fragment", Run: ruleC03_2, MinSites: 4},
			{ID: "C03.3", Desc: "method/Range gate", Run: func(c *Ctx) { ruleGate(c, "C03.3") }, MinSites: 3},
			{ID: "C03.4", Desc: "one key function for lookup, store and invalidation", Run: func(c *Ctx) { ruleOneKeyer(c, "C03.4") }, MinSites: 2},
			{ID: "C03.5", Desc: "default ports", Run: ruleC03_5, MinSites: 2},
			{ID: "C03.6", Desc: "upper-case hex alphabet", Run: ruleC03_6, MinSites: 1},
			{ID: "C03.7", Desc: "an IP-literal host keeps (or regains) its brackets before ':port' is appended", Run: func(c *Ctx) { ruleC03_7(c); ruleC03_7b(c) }, MinSites: 1},
			{ID: "C03.8", Desc: "the id under which a response is filed survives the JSON index (an id changed by the index names the entry of another URI)", Run: func(c *Ctx) { ruleIndexValuesUTF8Safe(c, "C03.8") }, MinSites: 1},
			{ID: "C03.9", Desc: "the file-system backend maps different keys to different files (the key's own bytes are encoded)", Run: func(c *Ctx) { ruleFileNameFromKeyBytes(c, "C03.9") }, MinSites: 1},
			{ID: "C03.10", Desc: "the background revalidation works on a deep copy of the caller's request (its URL included)", Run: func(c *Ctx) { ruleC20_6(c); renameRule(c, "C20.6", "C03.10") }, MinSites: 1},
			{ID: "C03.11", Desc: "a reference read from the index of a URI names an entry of that URI", Run: func(c *Ctx) { ruleIndexRefsBelongToKey(c, "C03.11") }, MinSites: 1},
			{ID: "C03.12", Desc: "a port is left out of the key only when it is the default of the URI's own scheme (http://h:443/ is not http://h/)", Run: func(c *Ctx) { rulePortDefaultByScheme(c, "C03.12") }, MinSites: 1},
			{ID: "C03.13", Desc: "the port enters the key as it is written (:0 is not \"no port\")", Run: func(c *Ctx) { rulePortAsWritten(c, "C03.13") }, MinSites: 1},
			{ID: "C03.14", Desc: "the host enters the key as it is written (a trailing dot is part of it)", Run: func(c *Ctx) { ruleHostAsWritten(c, "C03.14") }, MinSites: 1},
			{ID: "C03.15", Desc: "every index read and write reachable from RoundTrip uses the result of the URL key function as its key", Run: func(c *Ctx) { ruleIndexKeyIsURLKey(c, "C03.15") }, MinSites: 3},
			{ID: "C03.16", Desc: "the hex-digit test of the percent-encoding normaliser accepts exactly 0-9 A-F a-f", Run: func(c *Ctx) { ruleHexDigitSetExact(c, "C03.16") }, MinSites: 1},
			{ID: "C03.17", Desc: "a URL value built inside the key function carries scheme, host, path and query", Run: func(c *Ctx) { ruleKeyReferenceKeepsEveryComponent(c, "C03.17") }, MinSites: 1},
		},
	})
}

// reachableFrom lists repo functions reachable from fn through calls (closures included).
func (c *Ctx) reachableFrom(fn *ssa.Function) []*ssa.Function {
	seen := map[*ssa.Function]bool{}
	var out []*ssa.Function
	var rec func(f *ssa.Function)
	rec = func(f *ssa.Function) {
		if seen[f] || !c.P.IsRepoFunc(f) || len(f.Blocks) == 0 {
			return
		}
		seen[f] = true
		out = append(out, f)
		instrsOf(f, func(in ssa.Instruction) {
			if ci, ok := in.(ssa.CallInstruction); ok {
				for _, cal := range c.P.RepoCallees(ci) {
					rec(cal)
				}
			}
			if mc, ok := in.(*ssa.MakeClosure); ok {
				rec(mc.Fn.(*ssa.Function))
			}
			for _, op := range in.Operands(nil) {
				if af, ok := (*op).(*ssa.Function); ok && af.Parent() != nil {
					rec(af)
				}
			}
		})
	}
	rec(fn)
	sort.Slice(out, func(i, j int) bool { return FuncName(out[i]) < FuncName(out[j]) })
	return out
}

func ruleC03_1(c *Ctx) {
	if !c.Need("C03.1", "urlKey") {
		return
	}
	// the predicate: func(rune|byte) bool reachable from the key function mentioning '~'
	var pred *ssa.Function
	for _, fn := range c.reachableFrom(c.A.F("urlKey")) {
		ps, rs := sigParams(fn), sigResults(fn)
		if len(ps) == 1 && len(rs) == 1 && isBoolType(rs[0]) {
			if b, ok := ps[0].Underlying().(*types.Basic); ok && b.Info()&types.IsInteger != 0 {
				if intConstsIn(fn)['~'] {
					pred = fn
				}
			}
		}
	}
	desc := "the escapes that are decoded are exactly those of RFC 3986 unreserved characters (A-Z a-z 0-9 - . _ ~)"
	if pred == nil {
		c.Undecided("C03.1", "unreserved-table", desc, "no predicate over a character mentioning '~' is reachable from the key function")
		return
	}
	var wrong []string
	for b := int64(0); b <= 255; b++ {
		res, err := c.An.EvalPred(pred, []constant.Value{constant.MakeInt64(b)}, 0)
		if err != nil {
			msg := err.Error()
			if strings.Contains(msg, "unicode.") {
				c.Fail("C03.1", "unreserved-table", desc, c.P.ShortName(pred)+": "+msg+
					"; unicode.IsLetter/IsDigit accept Latin-1 letters (0xAA, 0xB5, 0xBA, 0xC0-0xFF except 0xD7/0xF7), so `%E9` is decoded to a raw byte and shares a key with a raw `é` query byte", c.P.ShortName(pred))
				return
			}
			c.Undecided("C03.1", "unreserved-table", desc, c.P.ShortName(pred)+": "+msg)
			return
		}
		got := constant.BoolVal(res[0])
		if got != oracleUnreserved(b) {
			wrong = append(wrong, fmt.Sprintf("0x%02X got=%v want=%v", b, got, oracleUnreserved(b)))
		}
	}
	if len(wrong) > 0 {
		c.Fail("C03.1", "unreserved-table", desc, c.P.ShortName(pred)+": differs from O-UNRES at "+strings.Join(wrong, ", "), c.P.ShortName(pred))
		return
	}
	c.Pass("C03.1", "unreserved-table", desc, c.P.ShortName(pred)+": 256 byte values evaluated")
}

func ruleC03_2(c *Ctx) {
	if !c.Need("C03.2", "urlKey") {
		return
	}
	uk := c.A.F("urlKey")
	fields := map[string]string{}
	methods := map[string]string{}
	for _, fn := range c.reachableFrom(uk) {
		instrsOf(fn, func(in ssa.Instruction) {
			if fa, ok := in.(*ssa.FieldAddr); ok && ptrTo(fa.X.Type(), "net/url", "URL") {
				// a member that is only written (a private copy of the URL being prepared) is not read
				onlyWritten := fa.Referrers() != nil && len(*fa.Referrers()) > 0
				if onlyWritten {
					for _, r := range *fa.Referrers() {
						if st, ok := r.(*ssa.Store); !ok || st.Addr != ssa.Value(fa) {
							onlyWritten = false
						}
					}
				}
				if !onlyWritten {
					fields[fieldName(fa.X.Type(), fa.Field)] = c.P.InstrPos(in)
				}
			}
			if call := callOf(in); call != nil && !call.IsInvoke() {
				if sc := call.StaticCallee(); sc != nil && sc.Signature.Recv() != nil && ptrTo(sc.Signature.Recv().Type(), "net/url", "URL") {
					methods[sc.Name()] = c.P.InstrPos(in)
				}
			}
		})
	}
	var ex []string
	for _, k := range sortedKeys(fields) {
		ex = append(ex, "field "+k+"@"+fields[k])
	}
	for _, k := range sortedKeys(methods) {
		ex = append(ex, "method "+k+"@"+methods[k])
	}
	// forbidden reads
	var bad []string
	for _, f := range []string{"Fragment", "RawFragment"} {
		if at, ok := fields[f]; ok {
			bad = append(bad, "reads URL."+f+" at "+at)
		}
	}
	for _, m := range []string{"String", "Redacted", "EscapedFragment", "RequestURI"} {
		if at, ok := methods[m]; ok && m != "RequestURI" {
			bad = append(bad, "calls URL."+m+"() at "+at)
		}
	}
	// lossy views of the URL: the decoded Path (`%3F`, `%25`, `%23` lose their escaping: /doc%3Fv=2 becomes /doc?v=2)
	var lossy []string
	if at, ok := fields["Path"]; ok {
		lossy = append(lossy, "reads the decoded URL.Path at "+at)
	}
	if len(lossy) > 0 {
		c.Fail("C03.2", "key-from-escaped-forms", "the key is built from the escaped path (EscapedPath / RawPath), never from the decoded Path", strings.Join(lossy, "; ")+": `/doc%3Fv=2` (no query) and `/doc?v=2` get one key, as do `/%2541` and `/A`", ex...)
	} else {
		c.Pass("C03.2", "key-from-escaped-forms", "the key is built from the escaped path (EscapedPath / RawPath), never from the decoded Path", ex...)
	}
	if len(bad) > 0 {
		c.Fail("C03.2", "key-ignores-fragment", "the key function never reads the fragment", strings.Join(bad, "; ")+": every `#anchor` becomes a different key", ex...)
	} else {
		c.Pass("C03.2", "key-ignores-fragment", "the key function never reads the fragment (no Fragment/RawFragment load, no URL.String/Redacted)", ex...)
	}
	// required dependences of the returned key
	ret := firstReturn(uk, 0)
	deps := map[string]bool{}
	var badRet []string
	nRet := 0
	prLive := c.An.Prune(uk, func(*Atom) (bool, bool) { return false, false })
	for _, b := range uk.Blocks {
		if !prLive.LiveBlock[b.Index] {
			continue
		}
		r, ok := b.Instrs[len(b.Instrs)-1].(*ssa.Return)
		if !ok || len(r.Results) != 1 {
			continue
		}
		if s, isC := constStr(r.Results[0]); isC {
			_ = s
			continue
		}
		own := map[string]bool{}
		c.P.TraceBack(r.Results[0], TraceOpts{ThroughOps: true, ThroughExtern: true, NoParams: true, NoHeapFields: true}, func(v ssa.Value, _ []int) bool {
			if in, ok := v.(ssa.Instruction); ok && in.Parent() == uk && in.Block() != nil && !prLive.LiveBlock[in.Block().Index] {
				return false // computed in dead code
			}
			switch y := v.(type) {
			case *ssa.FieldAddr:
				if ptrTo(y.X.Type(), "net/url", "URL") {
					own["field:"+fieldName(y.X.Type(), y.Field)] = true
				}
			case *ssa.UnOp:
				if fa, ok := y.X.(*ssa.FieldAddr); ok && ptrTo(fa.X.Type(), "net/url", "URL") {
					own["field:"+fieldName(fa.X.Type(), fa.Field)] = true
				}
			case *ssa.Call:
				if sc := y.Call.StaticCallee(); sc != nil && sc.Signature.Recv() != nil && ptrTo(sc.Signature.Recv().Type(), "net/url", "URL") {
					own["method:"+sc.Name()] = true
				}
			}
			return true
		})
		for k := range own {
			deps[k] = true
		}
		// every single returned key identifies the origin: it depends on scheme and authority, unless it is returned
		// only for a URL without authority (`Host == ""`: nothing an http transport can send)
		noAuthority := false
		for _, dc := range dominatingConds(b) {
			for _, lf := range condLeaves(dc.cond, dc.onTrue) {
				bo, ok := lf.v.(*ssa.BinOp)
				if !ok || (bo.Op != token.EQL && bo.Op != token.NEQ) {
					continue
				}
				isHost := func(v ssa.Value) bool {
					if u, ok := v.(*ssa.UnOp); ok {
						if fa, ok := u.X.(*ssa.FieldAddr); ok && ptrTo(fa.X.Type(), "net/url", "URL") && fieldName(fa.X.Type(), fa.Field) == "Host" {
							return true
						}
					}
					return false
				}
				isEmpty := func(v ssa.Value) bool { s, ok := constStr(v); return ok && s == "" }
				if (isHost(bo.X) && isEmpty(bo.Y) || isHost(bo.Y) && isEmpty(bo.X)) && (bo.Op == token.EQL) == lf.val {
					noAuthority = true
				}
			}
		}
		nRet++
		if !own["field:RawQuery"] && !own["method:Query"] {
			badRet = append(badRet, fmt.Sprintf("%s: this return's key does not depend on the query (depends on %v); the query is sent to the origin on this path too (URL.RequestURI appends it to an opaque target)", c.P.InstrPos(r), sortedKeys(own)))
		}
		if !noAuthority {
			hasScheme := own["field:Scheme"]
			hasHost := own["field:Host"] || own["method:Hostname"]
			if !hasScheme || !hasHost {
				badRet = append(badRet, fmt.Sprintf("%s: this return's key depends on %v only; requests to different hosts with the same opaque request-target share an entry", c.P.InstrPos(r), sortedKeys(own)))
			}
		}
	}
	// the raw query enters the key whenever it is non-empty: the only decisions in front of the concatenation are
	// emptiness tests of URL components (and the error test of the base URL parse)
	nq := 0
	for _, g := range c.reachableFrom(uk) {
		instrsOf(g, func(in ssa.Instruction) {
			add, ok := in.(*ssa.BinOp)
			if !ok || add.Op != token.ADD || !isStringType(add.Type()) {
				return
			}
			var isQuery func(v ssa.Value, depth int) bool
			isQuery = func(v ssa.Value, depth int) bool {
				hit := false
				c.P.TraceBack(v, TraceOpts{ThroughOps: true, ThroughExtern: true, NoParams: true, NoHeapFields: true}, func(y ssa.Value, _ []int) bool {
					if b, isAdd := y.(*ssa.BinOp); isAdd && b != add && b.Op == token.ADD {
						return false // an earlier concatenation: judged on its own
					}
					if call, isCall := y.(*ssa.Call); isCall && depth < 3 {
						// a normalising helper applied to the query: look at what is handed to it
						if sc := call.Call.StaticCallee(); sc != nil && c.P.IsRepoFunc(sc) {
							for _, a := range call.Call.Args {
								if isQuery(a, depth+1) {
									hit = true
								}
							}
							return false
						}
					}
					if fa, ok := y.(*ssa.FieldAddr); ok && ptrTo(fa.X.Type(), "net/url", "URL") && fieldName(fa.X.Type(), fa.Field) == "RawQuery" {
						hit = true
					}
					if u, ok := y.(*ssa.UnOp); ok {
						if fa, ok := u.X.(*ssa.FieldAddr); ok && ptrTo(fa.X.Type(), "net/url", "URL") && fieldName(fa.X.Type(), fa.Field) == "RawQuery" {
							hit = true
						}
					}
					return !hit
				})
				return hit
			}
			if !isQuery(add.X, 0) && !isQuery(add.Y, 0) {
				return
			}
			nq++
			for _, dc := range controlConds(add.Block()) {
				for _, lf := range condLeaves(dc.cond, dc.onTrue) {
					okLeaf := false
					if bo, ok := lf.v.(*ssa.BinOp); ok && (bo.Op == token.EQL || bo.Op == token.NEQ) {
						isEmpty := func(v ssa.Value) bool { s, ok := constStr(v); return ok && s == "" }
						isURLField := func(v ssa.Value) bool {
							if u, ok := v.(*ssa.UnOp); ok {
								if fa, ok := u.X.(*ssa.FieldAddr); ok && ptrTo(fa.X.Type(), "net/url", "URL") {
									return true
								}
							}
							return false
						}
						if isEmpty(bo.X) && isURLField(bo.Y) || isEmpty(bo.Y) && isURLField(bo.X) {
							okLeaf = true
						}
						if isNilConst(bo.X) || isNilConst(bo.Y) {
							okLeaf = true
						}
					}
					if !okLeaf {
						badRet = append(badRet, fmt.Sprintf("%s: the query is appended only under `%s` (%s); queries for which that test fails (e.g. `?a=1;b=2`, `?id=%%zz`) are dropped from the key and share the entry of the bare path", c.P.InstrPos(add), lf.v.String(), c.P.Pos(lf.v.Pos())))
					}
				}
			}
		})
	}
	if nq == 0 {
		badRet = append(badRet, c.P.ShortName(uk)+": no concatenation of the raw query into the key")
	}
	if len(badRet) > 0 {
		c.Fail("C03.2", "every-key-names-the-origin", "every returned key depends on scheme and authority (unless the URL has no authority), and the raw query is appended whenever it is non-empty", strings.Join(badRet, "; "))
	} else if nRet > 0 {
		c.Pass("C03.2", "every-key-names-the-origin", "every returned key depends on scheme and authority (unless the URL has no authority)", fmt.Sprintf("%s: %d returns", c.P.ShortName(uk), nRet))
	}
	_ = ret
	need := []struct {
		what string
		any  []string
	}{
		{"scheme", []string{"field:Scheme"}},
		{"host and port", []string{"field:Host", "method:Hostname", "method:Port"}},
		{"path", []string{"method:EscapedPath", "field:Path", "field:RawPath"}},
		{"query", []string{"field:RawQuery", "method:Query"}},
	}
	var dl []string
	for _, k := range sortedKeys(deps) {
		dl = append(dl, k)
	}
	for _, n := range need {
		ok := false
		for _, a := range n.any {
			if deps[a] {
				ok = true
			}
		}
		if ok {
			c.Pass("C03.2", "key-depends-on-"+strings.ReplaceAll(n.what, " ", "-"), "the key depends on the URL's "+n.what, dl...)
		} else {
			c.Fail("C03.2", "key-depends-on-"+strings.ReplaceAll(n.what, " ", "-"), "the key depends on the URL's "+n.what,
				c.P.ShortName(uk)+": returned key does not depend on any of "+strings.Join(n.any, ", ")+"; URIs differing only in their "+n.what+" share an entry", dl...)
		}
	}
}

// ruleOneKeyer (C03.4 / C07.6): every URL-key computation on the exchange resolves to the one key function, and every
// key handed to the store layer derives from it.
func ruleOneKeyer(c *Ctx, rule string) {
	if !c.Need(rule, "urlKey") {
		return
	}
	uk := c.A.F("urlKey")
	var sites []string
	bad := 0
	for fn := range c.A.Reach {
		instrsOf(fn, func(in ssa.Instruction) {
			call := callOf(in)
			if call == nil || !call.IsInvoke() || !isURLKeyerMethod(call) {
				return
			}
			ci := in.(ssa.CallInstruction)
			where := c.P.ShortName(fn) + "@" + c.P.InstrPos(in)
			sites = append(sites, where)
			for _, cal := range c.P.Callees(ci) {
				ok := cal == uk
				for _, t := range c.An.AdapterTargets(cal) {
					if t == uk {
						ok = true
					}
				}
				if !ok {
					bad++
					c.Fail(rule, "keyer-site fn="+c.P.ShortName(fn), "every URL-key computation uses the one key function", where+": resolves to "+c.P.ShortName(cal))
				}
			}
		})
	}
	sort.Strings(sites)
	if len(sites) < 2 {
		c.Undecided(rule, "keyer-sites", "key computations exist for lookup and invalidation", fmt.Sprintf("only %d URLKey call sites", len(sites)))
		return
	}
	if bad == 0 {
		c.Pass(rule, "one-keyer", "every URL-key computation on the exchange resolves to the one key function", sites...)
	}
	// keys reaching the index read / index write / delete of the index derive from a URLKey call
	for _, role := range []string{"readIndex", "writeIndex"} {
		for fn := range c.A.Reach {
			instrsOf(fn, func(in ssa.Instruction) {
				if !c.An.CallsRole(in, role) {
					return
				}
				_, args := recvAndArgs(callOf(in))
				if len(args) == 0 {
					return
				}
				ok := c.An.dependsOnCallFull(args[0], func(cc *ssa.Call) bool { return cc.Call.IsInvoke() && isURLKeyerMethod(&cc.Call) })
				where := c.P.ShortName(fn) + "@" + c.P.InstrPos(in)
				if ok {
					c.Pass(rule, "index-key-from-keyer "+role+" fn="+c.P.ShortName(fn), "the index key comes from the key function", where)
				} else {
					c.Fail(rule, "index-key-from-keyer "+role+" fn="+c.P.ShortName(fn), "the index key comes from the key function", where+": key argument does not derive from a URLKey call")
				}
			})
		}
	}
}

func ruleC03_5(c *Ctx) {
	if !c.Need("C03.5", "urlKey") {
		return
	}
	uk := c.A.F("urlKey")
	// default-port function: func(string) string mentioning "443"
	var dp *ssa.Function
	for _, fn := range c.reachableFrom(uk) {
		ps, rs := sigParams(fn), sigResults(fn)
		if len(ps) == 1 && len(rs) == 1 && isBasicKind(ps[0], types.String) && isBasicKind(rs[0], types.String) && stringConstsIn(fn)["443"] {
			dp = fn
		}
	}
	desc := "default ports are http->80 and https->443, nothing else"
	if dp == nil {
		c.Undecided("C03.5", "port-table", desc, "no func(string) string mentioning \"443\" reachable from the key function")
		return
	}
	got := map[string]string{}
	for _, s := range []string{"http", "https", "ftp", "ws", "", "HTTP"} {
		res, err := c.An.EvalPred(dp, []constant.Value{constant.MakeString(s)}, 0)
		if err != nil {
			c.Undecided("C03.5", "port-table", desc, err.Error())
			return
		}
		got[s] = constant.StringVal(res[0])
	}
	bad := ""
	for s, v := range got {
		want := oraclePort[s]
		if v != want {
			bad += fmt.Sprintf(" %q->%q (want %q)", s, v, want)
		}
	}
	if bad != "" {
		c.Fail("C03.5", "port-table", desc, c.P.ShortName(dp)+":"+bad, fmt.Sprint(got))
	} else {
		c.Pass("C03.5", "port-table", desc, c.P.ShortName(dp)+": "+fmt.Sprint(got))
	}
	// the port is elided only when it equals the default: the concatenation ":"+port is dominated by port != default
	var concat *ssa.BinOp
	for _, g := range c.reachableFrom(uk) { // the key function or a helper it delegates the authority to
		instrsOf(g, func(in ssa.Instruction) {
			if b, ok := in.(*ssa.BinOp); ok && b.Op == token.ADD {
				if s, ok := constStr(b.Y); ok && s == ":" {
					concat = b
				}
				if s, ok := constStr(b.X); ok && s == ":" {
					concat = b
				}
			}
		})
	}
	desc2 := "a port is appended unless it equals the scheme's default port"
	if concat == nil {
		c.Undecided("C03.5", "port-elision", desc2, "no `\":\" + port` concatenation in "+c.P.ShortName(uk))
		return
	}
	okGuard := false
	for _, dc := range dominatingConds(concat.Block()) {
		b, ok := dc.cond.(*ssa.BinOp)
		if !ok || (b.Op != token.NEQ && b.Op != token.EQL) {
			continue
		}
		neq := (b.Op == token.NEQ) == dc.onTrue
		if !neq {
			continue
		}
		fromDefault := func(v ssa.Value) bool {
			return c.An.dependsOnCall(v, func(cc *ssa.Call) bool { return cc.Call.StaticCallee() == dp })
		}
		if fromDefault(b.X) != fromDefault(b.Y) || (fromDefault(b.X) && fromDefault(b.Y)) {
			// one side is the default, the other the actual port (which may itself be defaulted when empty)
			okGuard = true
		}
	}
	if okGuard {
		c.Pass("C03.5", "port-elision", desc2, c.P.InstrPos(concat))
	} else {
		c.Fail("C03.5", "port-elision", desc2, c.P.InstrPos(concat)+": the port concatenation is not guarded by `port != default`; `:8080` and `:80` could collapse")
	}
}

func ruleC03_6(c *Ctx) {
	if !c.Need("C03.6", "urlKey") {
		return
	}
	var alph []string
	for _, fn := range c.reachableFrom(c.A.F("urlKey")) {
		for s := range stringConstsIn(fn) {
			if len(s) == 16 && strings.HasPrefix(s, "0123456789") {
				alph = append(alph, s+"@"+c.P.ShortName(fn))
			}
		}
	}
	desc := "percent-escapes are re-encoded with the upper-case hex alphabet"
	if len(alph) == 0 {
		c.Undecided("C03.6", "hex-alphabet", desc, "no 16-character hex alphabet constant reachable from the key function")
		return
	}
	for _, a := range alph {
		if !strings.HasPrefix(a, "0123456789ABCDEF") {
			c.Fail("C03.6", "hex-alphabet", desc, a+": `%2f` and `%2F` would produce different keys", alph...)
			return
		}
	}
	c.Pass("C03.6", "hex-alphabet", desc, alph...)
}

// isURLKeyerMethod: an interface method with the URL keyer's shape: func(*url.URL) string.
func isURLKeyerMethod(c *ssa.CallCommon) bool {
	if c == nil || !c.IsInvoke() {
		return false
	}
	sig, ok := c.Method.Type().(*types.Signature)
	if !ok || sig.Params().Len() != 1 || sig.Results().Len() != 1 {
		return false
	}
	return ptrTo(sig.Params().At(0).Type(), "net/url", "URL") && isStringType(sig.Results().At(0).Type())
}

// ruleC03_7: the key joins host and port with ':'. An IPv6 literal contains ':' itself, so the join is only decodable
// when the literal keeps its brackets. If a value that had the brackets removed (URL.Hostname, or a slice/trim guarded by a
// test for "[" / "]") flows into the key, some concatenation with a "[" constant must lie on the way to the result.
func ruleC03_7(c *Ctx) {
	if !c.Need("C03.7", "urlKey") {
		return
	}
	uk := c.A.F("urlKey")
	desc := "a host whose IP-literal brackets were removed is re-bracketed before it is joined with ':port' (http://[::1]:8080/ vs http://[::1:8080]/)"
	bracketConst := func(v ssa.Value) bool {
		s, ok := constStr(v)
		return ok && (strings.Contains(s, "[") || strings.Contains(s, "]"))
	}
	isBracketTest := func(v ssa.Value) bool {
		call, ok := v.(*ssa.Call)
		if !ok {
			return false
		}
		if callIsPkgFunc(&call.Call, "strings", "HasPrefix") || callIsPkgFunc(&call.Call, "strings", "HasSuffix") || callIsPkgFunc(&call.Call, "strings", "Contains") || callIsPkgFunc(&call.Call, "strings", "ContainsAny") || callIsPkgFunc(&call.Call, "strings", "IndexByte") {
			return len(call.Call.Args) == 2 && (bracketConst(call.Call.Args[1]) || isByteConst(call.Call.Args[1], '[') || isByteConst(call.Call.Args[1], ']'))
		}
		return false
	}
	var sources []string
	rebracket, colonJoin := false, false
	var rets []ssa.Value
	instrsOf(uk, func(in ssa.Instruction) {
		if r, ok := in.(*ssa.Return); ok && len(r.Results) > 0 {
			rets = append(rets, r.Results[0])
		}
	})
	// each returned key is judged on its own: a second way of building the key (opaque request targets) is not covered
	// by the re-bracketing of the first
	type perRet struct {
		sources          []string
		rebracket, colon bool
	}
	var verdicts []perRet
	for _, rv := range rets {
		sources, rebracket, colonJoin = nil, false, false
		c.P.TraceBack(rv, TraceOpts{ThroughOps: true, ThroughExtern: true, NoHeapFields: true}, func(x ssa.Value, _ []int) bool {
			switch y := x.(type) {
			case *ssa.Call:
				if callIsMethod(&y.Call, "net/url", "URL", "Hostname") {
					sources = append(sources, c.P.InstrPos(y)+": URL.Hostname()")
				}
				if callIsPkgFunc(&y.Call, "net", "JoinHostPort") {
					rebracket = true
				}
				for _, name := range []string{"Trim", "TrimPrefix", "TrimSuffix", "TrimLeft", "TrimRight"} {
					if callIsPkgFunc(&y.Call, "strings", name) && len(y.Call.Args) == 2 && bracketConst(y.Call.Args[1]) {
						sources = append(sources, c.P.InstrPos(y)+": strings."+name+" of a bracket")
					}
				}
			case *ssa.Slice:
				if !isStringType(y.X.Type()) {
					break
				}
				for _, dc := range dominatingConds(y.Block()) {
					for _, lf := range condLeaves(dc.cond, dc.onTrue) {
						v := lf.v
						if b, ok := v.(*ssa.BinOp); ok {
							// s[0] == '['
							if isByteConst(b.X, '[') || isByteConst(b.Y, '[') || isByteConst(b.X, ']') || isByteConst(b.Y, ']') {
								sources = append(sources, c.P.InstrPos(y)+": slice under a bracket test")
							}
							// IndexByte(...) != -1 etc.
							if isBracketTest(b.X) || isBracketTest(b.Y) {
								sources = append(sources, c.P.InstrPos(y)+": slice under a bracket test")
							}
						}
						if isBracketTest(v) && lf.val {
							sources = append(sources, c.P.InstrPos(y)+": slice under a bracket test")
						}
					}
				}
			case *ssa.BinOp:
				if y.Op == token.ADD {
					if bracketConst(y.X) || bracketConst(y.Y) {
						rebracket = true
					}
					for _, o := range []ssa.Value{y.X, y.Y} {
						if s, ok := constStr(o); ok && s == ":" {
							colonJoin = true
						}
					}
				}
			}
			return true
		})
		verdicts = append(verdicts, perRet{sources, rebracket, colonJoin})
	}
	// the verdict of the worst return
	sources, rebracket, colonJoin = nil, false, false
	for _, v := range verdicts {
		if v.colon && len(v.sources) > 0 && !v.rebracket {
			sources, rebracket, colonJoin = v.sources, false, true
			break
		}
		sources = append(sources, v.sources...)
		rebracket = rebracket || v.rebracket
		colonJoin = colonJoin || v.colon
	}
	sort.Strings(sources)
	sources = uniqStrings(sources)
	switch {
	case !colonJoin:
		c.Pass("C03.7", "authority-brackets", desc, c.P.ShortName(uk)+": the key does not join host and port with a \":\" constant (authority taken whole)")
	case len(sources) == 0:
		c.Pass("C03.7", "authority-brackets", desc, c.P.ShortName(uk)+": no bracket-stripped host value flows into the key")
	case rebracket:
		c.Pass("C03.7", "authority-brackets", desc, append([]string{c.P.ShortName(uk) + ": stripped host is re-bracketed"}, sources...)...)
	default:
		c.Fail("C03.7", "authority-brackets", desc, c.P.ShortName(uk)+": the bracket-stripped host ("+sources[0]+") is joined with \":\"+port and never re-bracketed; http://[::1]:8080/ and http://[::1:8080]/ share one key", sources...)
	}
}

// ruleC03_7b: apart from separating the port at the last ':' and taking an IP literal out of its brackets (put back,
// C03.7), no byte of the authority is dropped on the way into the key: every slice of a string derived from URL.Host
// in the key function's tree cuts at a position found by searching for ':' or at the constant bracket offsets.
func ruleC03_7b(c *Ctx) {
	if !c.Need("C03.7", "urlKey") {
		return
	}
	uk := c.A.F("urlKey")
	desc := "no part of the host is cut off on the way into the key (only the port is split off and brackets are re-added)"
	fromHost := func(v ssa.Value) bool {
		hit := false
		c.P.TraceBack(v, TraceOpts{ThroughOps: true, ThroughExtern: true, NoHeapFields: true}, func(y ssa.Value, _ []int) bool {
			if u, ok := y.(*ssa.UnOp); ok {
				if fa, ok := u.X.(*ssa.FieldAddr); ok && ptrTo(fa.X.Type(), "net/url", "URL") && fieldName(fa.X.Type(), fa.Field) == "Host" {
					hit = true
				}
			}
			return !hit
		})
		return hit
	}
	okIndex := func(v ssa.Value) bool {
		if v == nil {
			return true
		}
		if _, isC := v.(*ssa.Const); isC {
			return true
		}
		good := false
		bad := false
		c.P.TraceBack(v, TraceOpts{ThroughOps: true, NoParams: true, NoHeapFields: true}, func(y ssa.Value, _ []int) bool {
			call, ok := y.(*ssa.Call)
			if !ok {
				return true
			}
			if b, isB := call.Call.Value.(*ssa.Builtin); isB && b.Name() == "len" {
				good = true
				return false
			}
			for _, name := range []string{"LastIndexByte", "IndexByte", "LastIndex", "Index", "IndexRune"} {
				if callIsPkgFunc(&call.Call, "strings", name) && len(call.Call.Args) == 2 {
					if isByteConst(call.Call.Args[1], ':') {
						good = true
					} else if s, ok := constStr(call.Call.Args[1]); ok && s == ":" {
						good = true
					} else {
						bad = true
					}
					return false
				}
			}
			return true
		})
		return good && !bad
	}
	n := 0
	var badSites []string
	for _, g := range c.reachableFrom(uk) {
		instrsOf(g, func(in ssa.Instruction) {
			sl, ok := in.(*ssa.Slice)
			if !ok || !isStringType(sl.X.Type()) || !fromHost(sl.X) {
				return
			}
			n++
			if !okIndex(sl.Low) || !okIndex(sl.High) {
				badSites = append(badSites, c.P.InstrPos(sl)+" `"+sl.String()+"`")
			}
		})
	}
	sort.Strings(badSites)
	switch {
	case len(badSites) > 0:
		c.Fail("C03.7", "authority-bytes-kept", desc, strings.Join(badSites, "; ")+": the host is cut at a position that is neither the port separator nor a bracket offset; e.g. dropping an IPv6 zone makes http://[fe80::1%25lan0]/ and http://[fe80::1%25lan1]/ (different machines) share an entry", badSites...)
	default:
		c.Pass("C03.7", "authority-bytes-kept", desc, fmt.Sprintf("%d slices of the host, all at ':' or bracket offsets", n))
	}
}

func isByteConst(v ssa.Value, b byte) bool {
	k, ok := constInt(v)
	return ok && k == int64(b)
}

// ruleDotAfterDecode (C07.9 / C09.10; not C03: the defect never lets two different resources share an entry): RFC 3986 §6.2.2 equivalence takes percent-encoding normalisation and
// dot-segment removal together: "/a/%2e%2e/b" is "/b". The library's dot-segment remover (net/url's reference
// resolution, path.Clean, …) looks at the escaped path and knows only the literal "." and "..". Necessary condition
// decided here: in the key function's tree, the path handed to each dot-segment remover depends on the result of the
// percent normaliser (the function (string) string that consults the unreserved predicate). Otherwise `GET /a/%2e%2e/b`
// misses what `GET /b` stored, and an unsafe request to the one spelling leaves the other spelling's entry in place.
func ruleDotAfterDecode(c *Ctx, rule string) {
	if !c.Need(rule, "urlKey") {
		return
	}
	uk := c.A.F("urlKey")
	tree := c.reachableFrom(uk)
	desc := "the path given to the dot-segment remover has passed the percent normaliser"
	// the unreserved predicate and the normalisers that consult it
	var pred *ssa.Function
	for _, fn := range tree {
		ps, rs := sigParams(fn), sigResults(fn)
		if len(ps) == 1 && len(rs) == 1 && isBoolType(rs[0]) {
			if b, ok := ps[0].Underlying().(*types.Basic); ok && b.Info()&types.IsInteger != 0 && intConstsIn(fn)['~'] {
				pred = fn
			}
		}
	}
	if pred == nil {
		c.Undecided(rule, "dot-after-decode", desc, "no unreserved predicate below the key function")
		return
	}
	norm := map[*ssa.Function]bool{}
	for _, fn := range tree {
		ps, rs := sigParams(fn), sigResults(fn)
		if len(ps) == 1 && len(rs) == 1 && isStringType(ps[0]) && isStringType(rs[0]) {
			for _, g := range c.reachableFrom(fn) {
				if g == pred {
					norm[fn] = true
				}
			}
		}
	}
	if len(norm) == 0 {
		c.Undecided(rule, "dot-after-decode", desc, "no (string) string function below the key function consults "+c.P.ShortName(pred))
		return
	}
	isNorm := func(cc *ssa.Call) bool { sc := cc.Call.StaticCallee(); return sc != nil && norm[sc] }
	// does v (or, for a pointer to a local struct, anything stored into its members) depend on the normaliser?
	var fed func(v ssa.Value, depth int) bool
	fed = func(v ssa.Value, depth int) bool {
		if depth > 4 {
			return false
		}
		if c.An.dependsOnCallFull(v, isNorm) {
			return true
		}
		if u, ok := v.(*ssa.UnOp); ok && u.Op == token.MUL {
			if al, ok := u.X.(*ssa.Alloc); ok && fed(al, depth+1) {
				return true
			}
		}
		if call, ok := v.(*ssa.Call); ok {
			for _, cal := range c.P.RepoCallees(call) {
				for _, b := range cal.Blocks {
					if r, ok := b.Instrs[len(b.Instrs)-1].(*ssa.Return); ok && len(r.Results) > 0 && fed(c.An.RetVal(r, 0), depth+1) {
						return true
					}
				}
			}
		}
		if al, ok := v.(*ssa.Alloc); ok {
			// the whole value stored at once (the result of a helper that prepares the reference)
			for _, st := range c.P.cellStores(al) {
				if fed(st.Val, depth+1) {
					return true
				}
			}
			if refs := al.Referrers(); refs != nil {
				for _, r := range *refs {
					if fa, ok := r.(*ssa.FieldAddr); ok && fa.Referrers() != nil {
						for _, u := range *fa.Referrers() {
							if st, ok := u.(*ssa.Store); ok && st.Addr == fa && fed(st.Val, depth+1) {
								return true
							}
						}
					}
				}
			}
		}
		return false
	}
	n := 0
	for _, fn := range tree {
		instrsOf(fn, func(in ssa.Instruction) {
			cc := callOf(in)
			if cc == nil {
				return
			}
			var pathArgs []ssa.Value
			switch {
			case callIsMethod(cc, "net/url", "URL", "ResolveReference"):
				_, args := recvAndArgs(cc)
				pathArgs = args
			case callIsMethod(cc, "net/url", "URL", "JoinPath"):
				recv, args := recvAndArgs(cc)
				pathArgs = append([]ssa.Value{recv}, args...)
			case callIsPkgFunc(cc, "path", "Clean"), callIsPkgFunc(cc, "path", "Join"), callIsPkgFunc(cc, "path/filepath", "Clean"), callIsPkgFunc(cc, "net/url", "JoinPath"):
				pathArgs = cc.Args
			default:
				return
			}
			n++
			where := c.P.ShortName(fn) + "@" + c.P.InstrPos(in)
			ok := false
			for _, a := range pathArgs {
				if fed(a, 0) {
					ok = true
				}
			}
			// … and is applied whatever the host looks like: not under the success of a parse that can fail
			for _, dc := range controlConds(in.Block()) {
				for _, lf := range condLeaves(dc.cond, dc.onTrue) {
					if bo, isB := lf.v.(*ssa.BinOp); isB && (isNilConst(bo.X) || isNilConst(bo.Y)) {
						other := bo.X
						if isNilConst(bo.X) {
							other = bo.Y
						}
						if types.Identical(other.Type(), types.Universe.Lookup("error").Type()) {
							c.Fail(rule, fmt.Sprintf("dot-removal-unconditional fn=%s#%d", c.P.ShortName(fn), n), "dot segments are removed for every URL, not only when a parse of its printed form succeeds",
								where+": the remover runs only when `"+lf.v.String()+"` says a parse succeeded; for a host that does not survive printing and re-parsing (`[fe80::1%25eth0]`) `/a/../b` keeps its dots")
						}
					}
				}
			}
			key := fmt.Sprintf("dot-after-decode fn=%s#%d", c.P.ShortName(fn), n)
			if ok {
				c.Pass(rule, key, desc, where)
			} else {
				c.Fail(rule, key, desc, where+": dot segments are removed from the path as escaped by the client; `/a/%2e%2e/b` and `/%2e/b` keep their dots and get a key of their own, although they are `/b` under RFC 3986 §6.2.2 (a GET misses; an unsafe request to one spelling does not invalidate the other)")
			}
		})
	}
	if n == 0 {
		c.Undecided(rule, "dot-after-decode", desc, "no dot-segment remover (ResolveReference, JoinPath, path.Clean) below the key function")
	}
}
