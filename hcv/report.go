package hcv

import (
	"bufio"
	"encoding/json"
	"fmt"
	"os"
	"path/filepath"
	"sort"
	"strings"
	"time"
)

// Status of an obligation.
type Status int

const (
	Discharged Status = iota
	Violated
	Undecided
)

func (s Status) String() string {
	return [...]string{"discharged", "VIOLATED", "UNDECIDED"}[s]
}

// Obligation is one rule instance (DESIGN §3.5). Key is stable across line moves: rule + role + construct.
type Obligation struct {
	Rule       string   `json:"rule"`
	Key        string   `json:"key"`
	Desc       string   `json:"desc"`
	Status     Status   `json:"-"`
	StatusStr  string   `json:"status"`
	Detail     string   `json:"detail,omitempty"`
	Examined   []string `json:"examined,omitempty"` // sites / rows looked at
	Nontrivial bool     `json:"nontrivial"`
	Known      string   `json:"known_finding,omitempty"`
	Config     string   `json:"config,omitempty"`
}

// Ctx is handed to every rule.
type Ctx struct {
	P    *Prog
	A    *Anchors
	An   *Analysis
	Prop string
	Obs  []*Obligation
	// counters for evidence
	SitesExamined int
	Notes         []string
}

// Ob records an obligation result.
func (c *Ctx) Ob(rule, key, desc string, st Status, detail string, examined ...string) *Obligation {
	o := &Obligation{Rule: rule, Key: rule + " " + key, Desc: desc, Status: st, Detail: detail, Examined: examined, Nontrivial: len(examined) > 0 || st != Discharged}
	c.Obs = append(c.Obs, o)
	c.SitesExamined += len(examined)
	return o
}

func (c *Ctx) Pass(rule, key, desc string, examined ...string) *Obligation {
	return c.Ob(rule, key, desc, Discharged, "", examined...)
}
func (c *Ctx) Fail(rule, key, desc, detail string, examined ...string) *Obligation {
	return c.Ob(rule, key, desc, Violated, detail, examined...)
}
func (c *Ctx) Undecided(rule, key, desc, detail string, examined ...string) *Obligation {
	return c.Ob(rule, key, desc, Undecided, detail, examined...)
}

// Need fails the rule with an "anchor unresolved" obligation when fn is nil.
func (c *Ctx) Need(rule string, roles ...string) bool {
	ok := true
	for _, r := range roles {
		if c.A.F(r) == nil {
			c.Undecided(rule, "anchor="+r, "anchor must resolve", "ANCHOR-UNRESOLVED "+r)
			ok = false
		}
	}
	return ok
}

// Rule is one static rule of a property.
type Rule struct {
	ID   string
	Desc string
	Run  func(c *Ctx)
	// MinSites: the rule must examine at least this many sites (vacuity guard).
	MinSites int
}

// Property groups the rules of one property.
type Property struct {
	ID          string
	Title       string
	Rules       []Rule
	Decides     string // what the structural clauses decide
	NotDecided  string // what they do not
	Assumptions []string
}

var registry = map[string]*Property{}

func register(p *Property) { registry[p.ID] = p }

// PropertyIDs lists registered properties.
func PropertyIDs() []string {
	var ids []string
	for id := range registry {
		ids = append(ids, id)
	}
	sort.Strings(ids)
	return ids
}

// KnownFinding is one line of /verif/known-findings.txt.
type KnownFinding struct {
	Open bool
	Prop string
	Key  string // obligation key (open entries)
	Text string
}

// LoadKnownFindings parses the committed known-findings file. Format:
//
//	open:  property=C15 key=<obligation key> :: <what fails>
//	fixed: property=C01 <commit> <what failed>
func LoadKnownFindings(path string) ([]KnownFinding, error) {
	f, err := os.Open(path)
	if err != nil {
		if os.IsNotExist(err) {
			return nil, nil
		}
		return nil, err
	}
	defer f.Close()
	var out []KnownFinding
	sc := bufio.NewScanner(f)
	sc.Buffer(make([]byte, 1<<20), 1<<20)
	for sc.Scan() {
		line := strings.TrimSpace(sc.Text())
		if line == "" || strings.HasPrefix(line, "#") {
			continue
		}
		switch {
		case strings.HasPrefix(line, "open:"):
			rest := strings.TrimSpace(strings.TrimPrefix(line, "open:"))
			kf := KnownFinding{Open: true}
			head, text, _ := strings.Cut(rest, " :: ")
			kf.Text = strings.TrimSpace(text)
			if i := strings.Index(head, "key="); i >= 0 {
				kf.Key = strings.TrimSpace(head[i+4:])
				head = head[:i]
			}
			for _, f := range strings.Fields(head) {
				if strings.HasPrefix(f, "property=") {
					kf.Prop = strings.TrimPrefix(f, "property=")
				}
			}
			if kf.Prop == "" || kf.Key == "" {
				return nil, fmt.Errorf("malformed known-finding line: %q", line)
			}
			out = append(out, kf)
		case strings.HasPrefix(line, "fixed:"):
			rest := strings.TrimSpace(strings.TrimPrefix(line, "fixed:"))
			kf := KnownFinding{Open: false, Text: rest}
			for _, f := range strings.Fields(rest) {
				if strings.HasPrefix(f, "property=") {
					kf.Prop = strings.TrimPrefix(f, "property=")
				}
			}
			out = append(out, kf)
		default:
			return nil, fmt.Errorf("malformed known-findings line: %q", line)
		}
	}
	return out, sc.Err()
}

// Evidence mirrors EVIDENCE.schema.json.
type Evidence struct {
	PropertyID  string         `json:"property_id"`
	Tier        string         `json:"tier"`
	Seed        int            `json:"seed"`
	Level       string         `json:"level"`
	Coverage    map[string]any `json:"coverage"`
	Assumptions []string       `json:"assumptions"`
	WallS       float64        `json:"wall_s"`
	Violations  int            `json:"violations"`
}

// RunResult is the outcome of checking one property under one or more configurations.
type RunResult struct {
	Prop       *Property
	Obs        []*Obligation
	Violations []*Obligation // not covered by a known finding
	Known      []*Obligation
	Configs    []string
	Loaded     []string
	Anchors    []string
	Controls   []string
	Mutants    []string
	Extra      map[string]any
}

func writeJSON(path string, v any) error {
	if err := os.MkdirAll(filepath.Dir(path), 0o755); err != nil {
		return err
	}
	b, err := json.MarshalIndent(v, "", " ")
	if err != nil {
		return err
	}
	return os.WriteFile(path, append(b, '\n'), 0o644)
}

// WriteEvidence writes /verif/evidence/<id>.json.
func WriteEvidence(path string, r *RunResult, tier string, seed int, wall time.Duration, cmd string) error {
	total, disch, nontriv := 0, 0, 0
	seenKey := map[string]bool{}
	var samples []any
	perRule := map[string]map[string]int{}
	sites := 0
	for _, o := range r.Obs {
		total++
		o.StatusStr = o.Status.String()
		if o.Status == Discharged || o.Known != "" {
			disch++
		}
		if perRule[o.Rule] == nil {
			perRule[o.Rule] = map[string]int{}
		}
		perRule[o.Rule][o.StatusStr]++
		sites += len(o.Examined)
		if o.Nontrivial && !seenKey[o.Key] {
			seenKey[o.Key] = true
			nontriv++
		}
	}
	// samples: every violated/known obligation plus the first discharged obligation of each rule
	seenRule := map[string]bool{}
	for _, o := range r.Obs {
		if o.Status != Discharged {
			samples = append(samples, o)
		} else if !seenRule[o.Rule] && len(o.Examined) > 0 {
			seenRule[o.Rule] = true
			samples = append(samples, o)
		}
	}
	if len(samples) > 60 {
		samples = samples[:60]
	}
	if len(samples) == 0 {
		for _, o := range r.Obs {
			samples = append(samples, o)
			if len(samples) >= 5 {
				break
			}
		}
	}
	ev := Evidence{
		PropertyID: r.Prop.ID, Tier: tier, Seed: seed, Level: "other",
		Coverage: map[string]any{
			"explanation": "Static analysis (go/packages + go/ssa + VTA call graph) of /repo's current sources; nothing executed. Decided: " + r.Prop.Decides +
				" NOT decided: " + r.Prop.NotDecided,
			"obligations":         total,
			"discharged":          disch,
			"evaluations":         max(sites, total),
			"distinct_nontrivial": nontriv,
			"rule":                "one obligation per (rule, role, construct); non-trivial = the obligation examined at least one site/row of /repo or was violated; distinct by obligation key",
			"samples":             samples,
			"per_rule":            perRule,
			"configurations":      r.Configs,
			"loaded":              r.Loaded,
			"anchors":             r.Anchors,
			"controls":            r.Controls,
			"checker_cmd":         cmd,
			"trusted_base":        []string{"go/types, go/ssa, VTA call graph of golang.org/x/tools v0.50.0", "go1.26.8 standard library sources", "oracle tables transcribed from RFC 9110/9111/5861/3986 (hcv/oracle.go)"},
			"exhaustive":          false,
		},
		Assumptions: append([]string{
			"the call graph (VTA seeded by CHA, refined for function values that trace completely to closure creations) is complete: the repository uses no reflect/unsafe/linkname",
			"anchors (roles of functions and types) are resolved semantically on every run; an unresolved anchor or an unrecognised shape fails the check instead of passing",
			"non-test sources of the default build configuration (thorough adds GOARCH=386, windows, darwin, the benchmark build tag and a CHA call graph)",
		}, r.Prop.Assumptions...),
		WallS:      wall.Seconds(),
		Violations: len(r.Violations),
	}
	if len(r.Mutants) > 0 {
		ev.Coverage["overlay_mutants"] = r.Mutants
	}
	for k, v := range r.Extra {
		ev.Coverage[k] = v
	}
	return writeJSON(path, ev)
}
