package hcv

import (
	"fmt"
	"go/constant"
	"go/types"
	"sort"
	"strings"

	"golang.org/x/tools/go/ssa"
)

func init() {
	register(&Property{
		ID:    "C07",
		Title: "Successful unsafe requests invalidate what is stored for their target",
		Decides: "the method classifier maps every token outside the IANA safe set (unknown tokens included) to unsafe and only registered safe methods to safe; " +
			"the non-error window is exactly [200,400); on the bypass path a successful unsafe exchange must pass the invalidation call; the invalidator deletes every " +
			"referenced response id, the index key, and for Location/Content-Location (resolved against the request URL) the target's ids and key, all location deletes being " +
			"dead unless the same-origin test holds; the origin test depends on scheme, host and port of both URLs; one key function.",
		NotDecided: "that deletes succeed at the backend; variants stored concurrently with the invalidation.",
		Rules: []Rule{
			{ID: "C07.1", Desc: "method table: unsafe is the default", Run: ruleC07_1, MinSites: 1},
			{ID: "C07.2", Desc: "successful unsafe exchange must invalidate", Run: ruleC07_2, MinSites: 1},
			{ID: "C07.3", Desc: "status window [200,400)", Run: ruleC07_3, MinSites: 1},
			{ID: "C07.4", Desc: "delete every variant, the index, and same-origin Location targets", Run: ruleC07_4, MinSites: 4},
			{ID: "C07.5", Desc: "origin test: scheme, host, port", Run: ruleC07_5, MinSites: 1},
			{ID: "C07.6", Desc: "one key function", Run: func(c *Ctx) { ruleOneKeyer(c, "C07.6") }, MinSites: 2},
			{ID: "C07.8", Desc: "the set of keys already deleted is local to one invalidation", Run: ruleC07_8, MinSites: 1},
			{ID: "C07.7", Desc: "the location loop has no early exit", Run: func(c *Ctx) { ruleLocationLoopComplete(c, "C07.7") }, MinSites: 1},
			{ID: "C07.9", Desc: "an unsafe request whose target has percent-encoded dot segments invalidates the entry of the plain spelling (decode before dot-segment removal)", Run: func(c *Ctx) { ruleDotAfterDecode(c, "C07.9") }, MinSites: 1},
			{ID: "C07.10", Desc: "unreserved escapes are decoded by the predicate alone (equivalent spellings of the target share the key)", Run: func(c *Ctx) { ruleDecodeByPredicateOnly(c, "C07.10") }, MinSites: 1},
			{ID: "C07.11", Desc: "the background revalidation reads its copy of the entry after the origin answered (an invalidation in between is not undone)", Run: func(c *Ctx) { ruleBackgroundReadsAfterOrigin(c, "C07.11") }, MinSites: 1},
			{ID: "C07.12", Desc: "invalidation of a Location / Content-Location target deletes the entries its list names on every path", Run: func(c *Ctx) { ruleIndexDeleteAfterEntries(c, "C07.12") }, MinSites: 1},
			{ID: "C07.13", Desc: "invalidation visits every reference of the list (any variant)", Run: func(c *Ctx) { ruleRefEnumeratorVisitsAll(c, "C07.13") }, MinSites: 1},
			{ID: "C07.14", Desc: "a key that is already gone does not stop the invalidation (not-exist is recognised through errors.Is)", Run: func(c *Ctx) { ruleSentinelsByErrorsIs(c, "C07.14") }, MinSites: 1},
			{ID: "C07.15", Desc: "relative Location / Content-Location references are resolved (parsed as URI references)", Run: func(c *Ctx) { ruleLocationParsedAsReference(c, "C07.15") }, MinSites: 1},
			{ID: "C07.16", Desc: "the invalidation does not depend on the caller's context still being live", Run: func(c *Ctx) { ruleInvalidationIgnoresCallerContext(c, "C07.16") }, MinSites: 1},
			{ID: "C07.17", Desc: "another port of the host is another origin (the written port precedes the default)", Run: func(c *Ctx) { ruleWrittenPortBeforeDefault(c, "C07.17") }, MinSites: 1},
			{ID: "C07.18", Desc: "the key function does not read the userinfo of the URL (a target spelled with userinfo is the same target)", Run: func(c *Ctx) { ruleKeyIgnoresUserinfo(c, "C07.18") }, MinSites: 1},
			{ID: "C07.19", Desc: "Location values are resolved against the request URL (receiver: request URL, argument: parsed field value)", Run: func(c *Ctx) { ruleLocationResolvedAgainstRequestURL(c, "C07.19") }, MinSites: 1},
		},
	})
}

func ruleC07_1(c *Ctx) {
	if !c.Need("C07.1", "unsafe") {
		return
	}
	fn := c.A.F("unsafe")
	tab, err := c.An.StrTable(fn, append(append([]string{}, oracleSafe...), oracleUnsafeProbes...))
	desc := "a method is treated as safe only if it is registered as safe; every other token (unknown ones included) is unsafe"
	if err != nil {
		c.Undecided("C07.1", "method-table", desc, c.P.ShortName(fn)+": "+err.Error())
		return
	}
	safeSet := map[string]bool{}
	for _, s := range oracleSafe {
		safeSet[s] = true
	}
	var wrongSafe, rows []string
	for _, m := range sortedKeys(tab) {
		name := m
		if strings.Contains(m, "\x00") {
			name = "<any other token>"
		}
		rows = append(rows, fmt.Sprintf("%q->unsafe=%v", name, tab[m]))
		if !tab[m] && !safeSet[m] {
			wrongSafe = append(wrongSafe, name)
		}
	}
	if len(wrongSafe) > 0 {
		c.Fail("C07.1", "method-table", desc, fmt.Sprintf("%s classifies as safe: %v; a successful PROPPATCH / MKCOL / unknown-token request leaves the stored response in place", c.P.ShortName(fn), wrongSafe), rows...)
		return
	}
	c.Pass("C07.1", "method-table", desc, rows...)
}

func ruleC07_2(c *Ctx) {
	if !c.Need("C07.2", "invalidate", "unsafe", "nonError") {
		return
	}
	n := 0
	for fn := range c.A.Reach {
		// the bypass function: contains an origin call and evaluates the unsafe predicate
		hasUp, hasUnsafe := false, false
		instrsOf(fn, func(in ssa.Instruction) {
			if c.An.IsUpstreamSite(in) {
				hasUp = true
			}
			if c.An.CallsRole(in, "unsafe") {
				hasUnsafe = true
			}
		})
		if !hasUp || !hasUnsafe {
			continue
		}
		n++
		// all origin errors nil, unsafe, non-error status
		pr := c.An.Prune(fn, func(a *Atom) (bool, bool) {
			switch a.Key {
			case "pred:unsafe", "pred:nonError":
				return true, true
			case "nil:err":
				return true, true
			}
			return false, false
		})
		isOriginRet := func(in ssa.Instruction) bool {
			r, ok := in.(*ssa.Return)
			if !ok || len(r.Results) != 2 || isNilConst(r.Results[0]) || c.An.isRepoCallResult(r.Results[0]) {
				return false // error returns and delegated returns (the synthesised 504) are not origin answers
			}
			return c.An.ResponseKinds(r.Results[0])["upstream"]
		}
		r := c.An.MustPass(pr, isOriginRet, func(in ssa.Instruction) bool { return c.An.CallsRole(in, "invalidate") })
		desc := "on the bypass path, an unsafe method with a 2xx/3xx answer passes the invalidation call before returning"
		key := "must-invalidate fn=" + c.P.ShortName(fn)
		if r.Targets == 0 {
			c.Undecided("C07.2", key, desc, "no response return live under {unsafe, err==nil, nonError}")
		} else if !r.OK {
			c.Fail("C07.2", key, desc, c.P.InstrPos(r.Missing[0])+": return reachable without invalidation under {unsafe=T, err==nil, nonError=T}")
		} else {
			c.Pass("C07.2", key, desc, fmt.Sprintf("%s: %d returns", c.P.ShortName(fn), r.Targets))
		}
		// the invalidator gets the request URL, the response header, and the index of the target key
		instrsOf(fn, func(in ssa.Instruction) {
			if !c.An.CallsRole(in, "invalidate") {
				return
			}
			_, args := recvAndArgs(callOf(in))
			okURL, okHdr := false, false
			for _, a := range args {
				if ptrTo(a.Type(), "net/url", "URL") {
					// must be the request's URL
					if u, ok := a.(*ssa.UnOp); ok {
						if fa, ok := u.X.(*ssa.FieldAddr); ok && isHTTPRequestPtr(fa.X.Type()) {
							okURL = true
						}
					}
				}
				if isHTTPHeader(a.Type()) && c.An.HeaderClass(a) == "up" {
					okHdr = true
				}
			}
			if okURL && okHdr {
				c.Pass("C07.2", "invalidate-args fn="+c.P.ShortName(fn), "the invalidator receives the request URL and the origin response's header", c.P.InstrPos(in))
			} else {
				c.Fail("C07.2", "invalidate-args fn="+c.P.ShortName(fn), "the invalidator receives the request URL and the origin response's header",
					fmt.Sprintf("%s: request URL=%v, origin header=%v", c.P.InstrPos(in), okURL, okHdr))
			}
		})
	}
	if n == 0 {
		c.Undecided("C07.2", "vacuity", "a bypass function (origin call + unsafe classification) exists", "none found")
	}
}

func ruleC07_3(c *Ctx) {
	if !c.Need("C07.3", "nonError") {
		return
	}
	fn := c.A.F("nonError")
	tc, cells, err := c.An.IntTable(fn, 0, 999)
	desc := "the invalidating status window is exactly [200,400)"
	if err != nil {
		c.Undecided("C07.3", "status-window", desc, err.Error())
		return
	}
	bad := ""
	for _, k := range append(append([]int64{}, cells...), 100, 199, 200, 204, 301, 304, 399, 400, 404, 500) {
		want := k >= 200 && k < 400
		res, e := c.An.EvalPred(fn, []constant.Value{constant.MakeInt64(k)}, 0)
		if e != nil {
			c.Undecided("C07.3", "status-window", desc, e.Error())
			return
		}
		if got := constant.BoolVal(res[0]); got != want {
			bad = fmt.Sprintf("status %d -> %v, want %v", k, got, want)
		}
	}
	if bad != "" {
		c.Fail("C07.3", "status-window", desc, c.P.ShortName(fn)+": "+bad)
	} else {
		c.Pass("C07.3", "status-window", desc, fmt.Sprintf("%s: cells=%v true=%v", c.P.ShortName(fn), cells, tc))
	}
}

func ruleC07_4(c *Ctx) {
	if !c.Need("C07.4", "invalidate", "deleteKey", "readIndex", "sameOrigin") {
		return
	}
	inv := c.A.F("invalidate")
	tree := c.reachableFrom(inv)
	inTree := map[*ssa.Function]bool{}
	for _, f := range tree {
		inTree[f] = true
	}
	// classify the sources of every key reaching a delete
	type src struct{ param, refID, urlKey, locRefID, paramRefID bool }
	var got src
	var delSites []string
	for _, fn := range tree {
		instrsOf(fn, func(in ssa.Instruction) {
			if !c.An.CallsRole(in, "deleteKey") {
				return
			}
			_, args := recvAndArgs(callOf(in))
			if len(args) == 0 {
				return
			}
			delSites = append(delSites, c.P.ShortName(fn)+"@"+c.P.InstrPos(in))
			c.P.TraceBack(args[0], TraceOpts{ThroughOps: true, NoHeapFields: true}, func(v ssa.Value, _ []int) bool {
				switch y := v.(type) {
				case *ssa.Parameter:
					if y.Parent() == inv && isStringType(y.Type()) {
						got.param = true
						return false
					}
					if !inTree[y.Parent()] {
						return false
					}
				case *ssa.Call:
					if y.Call.IsInvoke() && isURLKeyerMethod(&y.Call) {
						got.urlKey = true
						return false
					}
				case *ssa.UnOp:
					if fa, ok := y.X.(*ssa.FieldAddr); ok && c.An.IsRefIDField(fa) {
						// which index does the ref come from: the invalidator's parameter, or an index read for the location target
						fromRead := c.An.dependsOnCallFull(fa.X, func(cc *ssa.Call) bool {
							for _, cal := range c.P.Callees(cc) {
								if cal == c.A.F("readIndex") && inTree[cc.Parent()] {
									return true
								}
							}
							return false
						})
						if fromRead {
							got.locRefID = true
						}
						fromParam := false
						c.P.TraceBack(fa.X, TraceOpts{ThroughOps: true, NoHeapFields: true}, func(w ssa.Value, _ []int) bool {
							if pp, ok := w.(*ssa.Parameter); ok && pp.Parent() == inv {
								if sl, ok := pp.Type().Underlying().(*types.Slice); ok && isPtrToNamed(sl.Elem(), c.A.RefT) {
									fromParam = true
								}
							}
							return !fromParam
						})
						if fromParam {
							got.paramRefID = true
						}
						got.refID = true
						return false
					}
				}
				return true
			})
		})
	}
	sort.Strings(delSites)
	check := func(ok bool, key, desc, witness string) {
		if ok {
			c.Pass("C07.4", key, desc, delSites...)
		} else {
			c.Fail("C07.4", key, desc, c.P.ShortName(inv)+": no delete receives such a key. "+witness, delSites...)
		}
	}
	check(got.refID && got.paramRefID, "delete-variants", "every response id referenced by the target's index reaches a delete", "Only some variants are evicted; another variant is served after a successful POST")
	check(got.param, "delete-index", "the target's index key reaches a delete", "The index survives and still references the deleted entries")
	check(got.urlKey, "delete-location-index", "the key of a Location/Content-Location target reaches a delete", "A same-origin Location target stays cached")
	check(got.locRefID, "delete-location-variants", "the variants of a Location/Content-Location target reach a delete", "Location target variants stay cached")
	// deletes of ids are not guarded by anything except the de-duplication set: each loop body deletes unconditionally
	// (structure: the body closure of the refs iteration calls the delete helper on every element)
	// header table
	hdrs := map[string]bool{}
	for _, fn := range tree {
		instrsOf(fn, func(in ssa.Instruction) {
			call := callOf(in)
			if call == nil || !callIsMethod(call, "net/http", "Header", "Get") && !callIsMethod(call, "net/http", "Header", "Values") {
				return
			}
			_, args := recvAndArgs(call)
			c.P.TraceBack(args[0], TraceOpts{ThroughOps: true}, func(v ssa.Value, _ []int) bool {
				if s, ok := constStr(v); ok {
					hdrs[s] = true
				}
				return true
			})
		})
	}
	var hl []string
	for k := range hdrs {
		hl = append(hl, k)
	}
	sort.Strings(hl)
	if hdrs["Location"] && hdrs["Content-Location"] {
		c.Pass("C07.4", "location-headers", "both Location and Content-Location are consulted", hl...)
	} else {
		c.Fail("C07.4", "location-headers", "both Location and Content-Location are consulted", fmt.Sprintf("header names consulted: %v", hl), hl...)
	}
	// resolution against the request URL
	resolved := false
	for _, fn := range tree {
		instrsOf(fn, func(in ssa.Instruction) {
			if call := callOf(in); call != nil && callIsMethod(call, "net/url", "URL", "ResolveReference") {
				resolved = true
			}
		})
	}
	if resolved {
		c.Pass("C07.4", "location-resolved", "the location value is resolved against the request URL", c.P.ShortName(inv))
	} else {
		c.Fail("C07.4", "location-resolved", "the location value is resolved against the request URL", "no ResolveReference call; a relative Location would never match")
	}
	// the index of a location target is read before its key is deleted (otherwise its variants are orphaned)
	for _, fn := range tree {
		var read ssa.Instruction
		var key ssa.Value
		instrsOf(fn, func(in ssa.Instruction) {
			if c.An.CallsRole(in, "readIndex") {
				read = in
				_, a := recvAndArgs(callOf(in))
				key = a[0]
			}
		})
		if read == nil {
			continue
		}
		bad := ""
		instrsOf(fn, func(in ssa.Instruction) {
			cc := callOf(in)
			if cc == nil || in == read {
				return
			}
			for _, a := range cc.Args {
				if c.An.sameCanon(a, key) && isStringType(a.Type()) && !cc.IsInvoke() || (cc.IsInvoke() && cc.Method.Name() == "Delete" && c.An.sameCanon(a, key)) {
					if instrDominates(in, read) {
						bad = c.P.InstrPos(in) + ": the key is passed to `" + in.String() + "` before the index stored under it is read"
					}
				}
			}
		})
		if bad != "" {
			c.Fail("C07.4", "location-read-before-delete fn="+c.P.ShortName(fn), "the target's index is read before its key is deleted", bad+"; the read then fails and the variants it referenced stay in the store")
		} else {
			c.Pass("C07.4", "location-read-before-delete fn="+c.P.ShortName(fn), "the target's index is read before its key is deleted", c.P.ShortName(fn)+"@"+c.P.InstrPos(read))
		}
	}
	// same-origin guard: under sameOrigin=F no location key computation and no index read is live
	for _, fn := range tree {
		uses := false
		instrsOf(fn, func(in ssa.Instruction) {
			if c.An.CallsRole(in, "sameOrigin") {
				uses = true
			}
		})
		if !uses {
			continue
		}
		pr := c.An.Prune(fn, AssumeKeys(map[string]bool{"pred:sameOrigin": false}))
		live := false
		pr.LiveInstrs(func(in ssa.Instruction) {
			call := callOf(in)
			if call != nil && call.IsInvoke() && isURLKeyerMethod(call) {
				live = true
			}
			if c.An.CallsRole(in, "readIndex") || c.An.CallsRole(in, "deleteKey") {
				live = true
			}
		})
		if live {
			c.Fail("C07.4", "cross-origin-guard fn="+c.P.ShortName(fn), "a Location of a different origin evicts nothing", c.P.ShortName(fn)+": key computation / index read / delete reachable under {sameOrigin=F}")
		} else {
			c.Pass("C07.4", "cross-origin-guard fn="+c.P.ShortName(fn), "a Location of a different origin evicts nothing", c.P.ShortName(fn))
		}
	}
}

func ruleC07_5(c *Ctx) {
	if !c.Need("C07.5", "sameOrigin") {
		return
	}
	fn := c.A.F("sameOrigin")
	deps := map[string]bool{}
	// what is read of each URL, in the predicate itself or in a helper the URL is handed to
	var collect func(f *ssa.Function, pp *ssa.Parameter, pi int, depth int)
	collect = func(f *ssa.Function, pp *ssa.Parameter, pi int, depth int) {
		if depth > 3 {
			return
		}
		instrsOf(f, func(in ssa.Instruction) {
			if fa, ok := in.(*ssa.FieldAddr); ok && fa.X == ssa.Value(pp) {
				deps[fmt.Sprintf("p%d.%s", pi, fieldName(pp.Type(), fa.Field))] = true
			}
			if call := callOf(in); call != nil {
				if sc := call.StaticCallee(); sc != nil {
					for ai, a := range call.Args {
						if a != ssa.Value(pp) {
							continue
						}
						if ai == 0 {
							deps[fmt.Sprintf("p%d.%s()", pi, sc.Name())] = true
						}
						if c.P.IsRepoFunc(sc) && len(sc.Blocks) > 0 && ai < len(sc.Params) {
							collect(sc, sc.Params[ai], pi, depth+1)
						}
					}
				}
			}
		})
	}
	for i, p := range fn.Params {
		collect(fn, p, i, 0)
	}
	var dl []string
	for k := range deps {
		dl = append(dl, k)
	}
	sort.Strings(dl)
	var missing []string
	for i := 0; i < 2; i++ {
		if !deps[fmt.Sprintf("p%d.Scheme", i)] {
			missing = append(missing, fmt.Sprintf("scheme of #%d", i))
		}
		if !deps[fmt.Sprintf("p%d.Hostname()", i)] && !deps[fmt.Sprintf("p%d.Host", i)] {
			missing = append(missing, fmt.Sprintf("host of #%d", i))
		}
		if !deps[fmt.Sprintf("p%d.Port()", i)] && !deps[fmt.Sprintf("p%d.Host", i)] {
			missing = append(missing, fmt.Sprintf("port of #%d", i))
		}
	}
	desc := "the same-origin test compares scheme, host and port of both URLs"
	if len(missing) > 0 {
		c.Fail("C07.5", "origin-test", desc, c.P.ShortName(fn)+": does not read "+strings.Join(missing, ", ")+"; e.g. ignoring the port lets :8080 evict :80", dl...)
		return
	}
	// the result is the conjunction of three comparisons: every return that is not false passes three compares
	ncmp := 0
	instrsOf(fn, func(in ssa.Instruction) {
		if call := callOf(in); call != nil && callIsPkgFunc(call, "strings", "EqualFold") {
			ncmp++
		}
		if b, ok := in.(*ssa.BinOp); ok && b.Op.String() == "==" {
			if _, isC := b.Y.(*ssa.Const); !isC {
				if _, isC2 := b.X.(*ssa.Const); !isC2 {
					ncmp++
				}
			}
		}
	})
	if ncmp < 3 {
		c.Fail("C07.5", "origin-test", desc, fmt.Sprintf("%s: only %d pairwise comparisons", c.P.ShortName(fn), ncmp), dl...)
		return
	}
	c.Pass("C07.5", "origin-test", desc, dl...)
}

// instrDominates: a is executed before b on every path that reaches b (same block: a earlier; else block dominance).
func instrDominates(a, b ssa.Instruction) bool {
	if a.Block() == b.Block() {
		for _, in := range a.Block().Instrs {
			if in == a {
				return true
			}
			if in == b {
				return false
			}
		}
		return false
	}
	return a.Block().Dominates(b.Block())
}

// ruleC07_8: the invalidator may skip a key it has already deleted *in this call*. If the set that records deleted keys
// outlives the call (a struct field, a package variable), a key deleted once is skipped for ever: after the URI was stored
// again a second unsafe request leaves it in place. Every map whose lookup guards a delete call in the invalidator's tree
// is created (make / literal) inside that tree.
func ruleC07_8(c *Ctx) {
	if !c.Need("C07.8", "invalidate", "deleteKey") {
		return
	}
	desc := "a lookup that lets the invalidator skip a delete consults a set created during the same call"
	n := 0
	bad := ""
	tree := c.reachableFrom(c.A.F("invalidate"))
	inTree := map[*ssa.Function]bool{}
	for _, fn := range tree {
		inTree[fn] = true
	}
	for _, fn := range tree {
		instrsOf(fn, func(in ssa.Instruction) {
			if !c.An.CallsRole(in, "deleteKey") {
				return
			}
			for _, dc := range dominatingConds(in.Block()) {
				for _, lf := range condLeaves(dc.cond, dc.onTrue) {
					ex, ok := lf.v.(*ssa.Extract)
					if !ok {
						continue
					}
					lk, ok := ex.Tuple.(*ssa.Lookup)
					if !ok || !lk.CommaOk {
						continue
					}
					n++
					c.P.TraceBack(lk.X, TraceOpts{NoHeapFields: true}, func(v ssa.Value, _ []int) bool {
						switch y := v.(type) {
						case *ssa.MakeMap:
							return false
						case *ssa.UnOp:
							switch base := y.X.(type) {
							case *ssa.FieldAddr:
								_, local := c.An.canon(base.X).(*ssa.Alloc)
								if !local {
									// a field of an object allocated during this invalidation (a per-call helper object
									// handed down to its methods) is as local as a variable
									perCall := true
									roots := c.P.Roots(base.X, TraceOpts{NoHeapFields: true})
									if len(roots) == 0 {
										perCall = false
									}
									for _, r := range roots {
										al, isAlloc := r.(*ssa.Alloc)
										if !isAlloc || !inTree[al.Parent()] {
											perCall = false
										}
									}
									local = perCall
								}
								if !local {
									bad = fmt.Sprintf("%s: the set consulted before the delete at %s is loaded from the field %s, which outlives the call", c.P.ShortName(fn), c.P.InstrPos(in), fieldName(base.X.Type(), base.Field))
									return false
								}
							case *ssa.Global:
								bad = fmt.Sprintf("%s: the set consulted before the delete at %s is the package variable %s", c.P.ShortName(fn), c.P.InstrPos(in), base.Name())
								return false
							}
						}
						return true
					})
				}
			}
		})
	}
	switch {
	case bad != "":
		c.Fail("C07.8", "dedup-set-local", desc, bad+"; after PUT /x, GET /x (stored again), PUT /x the stored response survives and is served as a HIT")
	case n == 0:
		c.Pass("C07.8", "dedup-set-local", desc, "no delete in the invalidator is guarded by a set lookup")
	default:
		c.Pass("C07.8", "dedup-set-local", desc, fmt.Sprintf("%d guarded delete site(s), set created in the call", n))
	}
}
