package hcv

import (
	"fmt"
	"go/types"
	"sort"
	"strings"

	"golang.org/x/tools/go/ssa"
)

func init() {
	register(&Property{
		ID:    "C08",
		Title: "Validation results are written back: 304 freshens, 200 replaces",
		Decides: "on the 304 branch (err==nil, GET, status==304) every return of the freshened stored response is preceded by an entry write (in the handler or its caller); " +
			"the entry written after a 304 takes its request/response times from the validation exchange; the 304 merge skips hop-by-hop fields and Content-Length; " +
			"every revalidation-context literal initialises the same field set (variant index and position included); the storing function replaces in place for an in-range " +
			"position, appends otherwise, and writes back the list it received.",
		NotDecided: "that later requests are actually served from the refreshed entry (composition of C09 with this); backend write success.",
		Rules: []Rule{
			{ID: "C08.1", Desc: "304 write-back", Run: ruleC08_1, MinSites: 1},
			{ID: "C08.2", Desc: "age restarts from the validation exchange", Run: ruleC08_2, MinSites: 1},
			{ID: "C08.3", Desc: "304 merge filter", Run: func(c *Ctx) { ruleMergeFilter(c, "C08.3") }, MinSites: 1},
			{ID: "C08.4", Desc: "revalidation contexts agree on fields", Run: ruleC08_4, MinSites: 2},
			{ID: "C08.5", Desc: "replace or append; list written back whole", Run: ruleC08_5, MinSites: 2},
			{ID: "C08.6", Desc: "append-or-replace is decided by the position alone", Run: func(c *Ctx) { ruleReplaceDecision(c, "C08.6") }, MinSites: 1},
			{ID: "C08.8", Desc: "a Date is supplied for every origin response, a 304 included (the freshened entry's age restarts from it)", Run: func(c *Ctx) { ruleDateRepair(c, "C08.8") }, MinSites: 1},
			{ID: "C08.9", Desc: "the variant list of a revalidation context is the list the matcher's position refers to", Run: ruleC08_9, MinSites: 1},
			{ID: "C08.7", Desc: "a validated 200 is storable whatever forced the validation (evaluator ignores request no-cache / max-age)", Run: func(c *Ctx) { ruleEvaluatorRequestDirectives(c, "C08.7") }, MinSites: 1},
			{ID: "C08.10", Desc: "a 304 freshens the stored response only when it answers the stored validators (no validator of the client reaches the origin)", Run: func(c *Ctx) { ruleClientValidatorsRemoved(c, "C08.10") }, MinSites: 1},
			{ID: "C08.11", Desc: "the matcher's position refers to the caller's list", Run: func(c *Ctx) { ruleMatcherIndexesCallersSlice(c, "C08.11") }, MinSites: 1},
			{ID: "C08.12", Desc: "the background reply is handled before the waiter (and with it the request context) is released", Run: func(c *Ctx) { ruleNoReleaseBeforeWriteBack(c, "C08.12") }, MinSites: 1},
			{ID: "C08.13", Desc: "a background 304 freshens only the response whose validators were sent (the entry may have been replaced meanwhile)", Run: func(c *Ctx) { ruleBackground304SelectsEntry(c, "C08.13") }, MinSites: 1},
			{ID: "C08.14", Desc: "other variants remain available: the reference list written back is the list in the store, not a snapshot", Run: func(c *Ctx) { ruleIndexUpdateAtomic(c, "C08.14") }, MinSites: 1},
			{ID: "C08.15", Desc: "a full cacheable reply to a validation request replaces the stored response whatever its status class", Run: func(c *Ctx) { ruleReplaceWheneverStorable(c, "C08.15") }, MinSites: 1},
			{ID: "C08.16", Desc: "the response a foreground 304 freshens is the one whose validators were sent", Run: func(c *Ctx) { ruleValidatedEntryIsSentEntry(c, "C08.16") }, MinSites: 1},
			{ID: "C08.17", Desc: "each stored validator is sent on its own account (a background 304 is recognised)", Run: func(c *Ctx) { ruleEachValidatorOnItsOwn(c, "C08.17") }, MinSites: 1},
			{ID: "C08.18", Desc: "other variants remain listed: the filter of the reference list runs to the end of the list", Run: func(c *Ctx) { ruleFilterLoopRunsToEnd(c, "C08.18") }, MinSites: 1},
			{ID: "C08.19", Desc: "the memory backend stores a copy of its own for every write-back (a shorter index does not keep the old tail)", Run: func(c *Ctx) { ruleStoredValueIsFresh(c, "C08.19") }, MinSites: 1},
			{ID: "C08.20", Desc: "the entry's request time is read from the clock in front of the origin call and its response time behind it, on every path into the entry", Run: func(c *Ctx) { ruleTimeRoles(c, "C08.20") }, MinSites: 2},
			{ID: "C08.21", Desc: "the background revalidation reads its copy of the entry after the origin answered (a representation stored in between is not overwritten by the late 304)", Run: func(c *Ctx) { ruleBackgroundReadsAfterOrigin(c, "C08.21") }, MinSites: 1},
			{ID: "C08.22", Desc: "on the 304 branch the merge of the 304's fields precedes the write-back on every path", Run: func(c *Ctx) { ruleMergeBeforeWriteBack(c, "C08.22") }, MinSites: 1},
			{ID: "C08.23", Desc: "every name put into the hop-by-hop set is in canonical form (the 304 merge looks fields up by their canonical names)", Run: func(c *Ctx) { ruleHopSetKeysCanonical(c, "C08.23") }, MinSites: 1},
		},
	})
}

// isEntryWriteLeading: the instruction writes an entry (directly or through a callee that must do so).
func (an *Analysis) isEntryWriteLeading(in ssa.Instruction) bool {
	if an.CallsRole(in, "writeEntry") {
		return true
	}
	call, ok := in.(*ssa.Call)
	if !ok {
		return false
	}
	cs := an.P.RepoCallees(call)
	if len(cs) == 0 {
		return false
	}
	for _, cal := range cs {
		if !an.Must("ENTRY-WRITE", cal, func(i2 ssa.Instruction) bool { return an.CallsRole(i2, "writeEntry") }) {
			return false
		}
	}
	return true
}

func ruleC08_1(c *Ctx) {
	if !c.Need("C08.1", "validationHandler", "writeEntry") {
		return
	}
	vh := c.A.F("validationHandler")
	// (no-store on the request or on the 304 forbids the write-back: C06.10)
	assume := map[string]bool{"nil:err": true, "cmp:method==GET": true, not304: true, "rq.no-store": false, "up.no-store": false}
	// collaborator nil-guards are constant when the field is written once in the constructor with a non-nil value
	as := func(a *Atom) (bool, bool) {
		if v, ok := assume[a.Key]; ok {
			return v, true
		}
		if strings.HasPrefix(a.Key, "nil:field:") {
			if c.An.collaboratorNonNil(a.Key) {
				return false, true // field == nil is false
			}
		}
		return false, false
	}
	pr := c.An.Prune(vh, as)
	r := c.An.MustPass(pr, c.An.IsServeReturn, c.An.KUnder("ENTRY-WRITE", "304-branch", as, func(in ssa.Instruction) bool { return c.An.CallsRole(in, "writeEntry") }))
	desc := "after a 304 the freshened stored response is written back to the store before it is returned"
	if r.Targets == 0 {
		c.Undecided("C08.1", "304-write-back", desc, "no return of the stored response under {err==nil, GET, status==304}")
		return
	}
	if r.OK {
		c.Pass("C08.1", "304-write-back", desc, fmt.Sprintf("%s: %d returns on the 304 branch", c.P.ShortName(vh), r.Targets))
		return
	}
	// accepted alternative: the caller writes the entry between the handler call and its own return
	okCaller := true
	nCallers := 0
	for fn := range c.A.Reach {
		instrsOf(fn, func(in ssa.Instruction) {
			if !c.An.CallsRole(in, "validationHandler") {
				return
			}
			nCallers++
			// after the call: every path to a return passes an entry write
			after := false
			found := false
			for _, i2 := range in.Block().Instrs {
				if i2 == in {
					after = true
					continue
				}
				if after && c.An.isEntryWriteLeading(i2) {
					found = true
				}
			}
			if !found {
				okCaller = false
			}
		})
	}
	if nCallers > 0 && okCaller {
		c.Pass("C08.1", "304-write-back", desc, "written by every caller after the handler returns")
		return
	}
	c.Fail("C08.1", "304-write-back", desc, c.P.InstrPos(r.Missing[0])+": the merged headers exist only in memory; the stored entry stays stale and every later request revalidates again",
		fmt.Sprintf("%s: %d returns on the 304 branch", c.P.ShortName(vh), r.Targets))
}

// collaboratorNonNil: "nil:field:T.f" where field f of struct T is stored exactly once in non-test code, in a constructor,
// with a value that is not the nil constant.
func (an *Analysis) collaboratorNonNil(key string) bool {
	tf := strings.TrimPrefix(key, "nil:field:")
	tn, fname, ok := strings.Cut(tf, ".")
	if !ok {
		return false
	}
	for _, pk := range an.P.Pkgs {
		obj := pk.Types.Scope().Lookup(tn)
		if obj == nil {
			continue
		}
		n := namedOf(obj.Type())
		if n == nil {
			continue
		}
		st, ok := n.Underlying().(*types.Struct)
		if !ok {
			continue
		}
		for i := 0; i < st.NumFields(); i++ {
			if st.Field(i).Name() != fname {
				continue
			}
			cnt := 0
			okAll := true
			for _, s := range an.P.StoresTo(n, i) {
				if isMockRecv(s.Parent()) {
					continue
				}
				cnt++
				if isNilConst(s.Val) {
					okAll = false
				}
				if _, isAlloc := s.Addr.(*ssa.FieldAddr).X.(*ssa.Alloc); !isAlloc {
					okAll = false
				}
			}
			return cnt >= 1 && okAll
		}
	}
	return false
}

func ruleC08_2(c *Ctx) {
	if !c.Need("C08.2", "validationHandler", "writeEntry") {
		return
	}
	vh := c.A.F("validationHandler")
	// find entry writes on the 304 branch and check the written entry's times depend on the context's Start/End
	assume := map[string]bool{"nil:err": true, "cmp:method==GET": true, not304: true}
	pr := c.An.Prune(vh, AssumeKeys(assume))
	n := 0
	pr.LiveInstrs(func(in ssa.Instruction) {
		if !c.An.CallsRole(in, "writeEntry") && !c.An.CallsRole(in, "storeResp") {
			return
		}
		n++
		_, args := recvAndArgs(callOf(in))
		timeDeps := 0
		for _, a := range args {
			// either time arguments (storing function) or an entry whose time fields were stored from the context
			if typeIs(a.Type(), "time", "Time") {
				if c.An.dependsOnCtxTimes(a, vh) {
					timeDeps++
				}
			}
			if isPtrToNamed(a.Type(), c.A.EntryT) {
				st := c.A.EntryT.Underlying().(*types.Struct)
				for i := 0; i < st.NumFields(); i++ {
					if !typeIs(st.Field(i).Type(), "time", "Time") {
						continue
					}
					// stores to this field in the handler on the live path
					pr.LiveInstrs(func(i2 ssa.Instruction) {
						if s, ok := i2.(*ssa.Store); ok {
							if fa, ok := s.Addr.(*ssa.FieldAddr); ok && isPtrToNamed(fa.X.Type(), c.A.EntryT) && fa.Field == i && c.An.dependsOnCtxTimes(s.Val, vh) {
								timeDeps++
							}
						}
					})
				}
			}
		}
		where := c.P.ShortName(vh) + "@" + c.P.InstrPos(in)
		desc := "the entry written after a 304 carries the request/response times of the validation exchange"
		if timeDeps >= 2 {
			c.Pass("C08.2", "304-times", desc, where)
		} else {
			c.Fail("C08.2", "304-times", desc, where+": the written entry keeps its old request/response times; its age does not restart from the 304 and it is stale again at once", where)
		}
	})
	if n == 0 {
		c.Pass("C08.2", "304-times (not applicable)", "no entry write on the 304 branch: decided by C08.1", "C08.1 reports the missing write-back")
	}
}

// dependsOnCtxTimes: v derives from a time field of the handler's context parameter.
func (an *Analysis) dependsOnCtxTimes(v ssa.Value, vh *ssa.Function) bool {
	hit := false
	an.P.TraceBack(v, TraceOpts{ThroughOps: true, NoParams: true, NoHeapFields: true}, func(x ssa.Value, _ []int) bool {
		if fa, ok := x.(*ssa.FieldAddr); ok && isPtrToNamed(fa.X.Type(), an.A.RevalCtxT) {
			if typeIs(derefType(fa.Type()), "time", "Time") {
				hit = true
			}
		}
		if u, ok := x.(*ssa.UnOp); ok {
			if fa, ok := u.X.(*ssa.FieldAddr); ok && isPtrToNamed(fa.X.Type(), an.A.RevalCtxT) && typeIs(u.Type(), "time", "Time") {
				hit = true
			}
		}
		return !hit
	})
	return hit
}

// ruleMergeFilter (C05.3 / C08.3): the 304 merge skips hop-by-hop fields and Content-Length.
func ruleMergeFilter(c *Ctx, rule string) {
	if !c.Need(rule, "merge304", "hopTable") {
		return
	}
	m := c.A.F("merge304")
	// the omitted set: result of the hop table, plus Content-Length added
	hasCL := false
	instrsOf(m, func(in ssa.Instruction) {
		if mu, ok := in.(*ssa.MapUpdate); ok {
			if s, ok := constStr(mu.Key); ok && s == "Content-Length" {
				hasCL = true
			}
		}
	})
	// nothing else is withheld from the merge: the only constant added to the omitted set is Content-Length (the Age of
	// a 304, for instance, is the only record of how old the freshened response already is)
	var extraOmitted []string
	instrsOf(m, func(in ssa.Instruction) {
		if mu, ok := in.(*ssa.MapUpdate); ok && !isHTTPHeader(mu.Map.Type()) {
			if s, ok := constStr(mu.Key); ok && !strings.EqualFold(s, "Content-Length") {
				extraOmitted = append(extraOmitted, s)
			}
		}
	})
	if len(extraOmitted) > 0 {
		c.Fail(rule, "merge-omits-only-framing", "besides hop-by-hop fields the 304 merge withholds only Content-Length", c.P.ShortName(m)+": also withholds "+strings.Join(extraOmitted, ", ")+"; e.g. a 304 carrying `Age: 100` freshens a `max-age=60` response whose age then restarts at 0, and it is served as a fresh HIT")
	} else {
		c.Pass(rule, "merge-omits-only-framing", "besides hop-by-hop fields the 304 merge withholds only Content-Length", c.P.ShortName(m))
	}
	// the Age of the replaced exchange is dropped from the target on every path (a 304 without Age leaves none; the
	// entry's timestamps restart at the validation, so the old Age would be counted on top of a fresh clock)
	{
		pr := c.An.Prune(m, nil)
		r := c.An.MustPass(pr, nil, func(in ssa.Instruction) bool {
			cc := callOf(in)
			if cc == nil {
				return false
			}
			var key ssa.Value
			switch {
			case callIsMethod(cc, "net/http", "Header", "Del"):
				_, a := recvAndArgs(cc)
				key = a[0]
			default:
				if b, ok := cc.Value.(*ssa.Builtin); ok && b.Name() == "delete" && len(cc.Args) == 2 && isHTTPHeader(cc.Args[0].Type()) {
					key = cc.Args[1]
				}
			}
			if key == nil {
				return false
			}
			k, ok := constStr(key)
			return ok && strings.EqualFold(k, "Age")
		})
		d := "the stored response's old Age is removed by the merge on every path, before any field of the 304 is copied"
		// ... and before the 304's fields are copied: a delete after the copy removes the 304's own Age as well
		late := ""
		if r.OK {
			var dels []ssa.Instruction
			instrsOf(m, func(in ssa.Instruction) {
				cc := callOf(in)
				if cc == nil {
					return
				}
				var key ssa.Value
				if callIsMethod(cc, "net/http", "Header", "Del") {
					_, a := recvAndArgs(cc)
					key = a[0]
				} else if b, ok := cc.Value.(*ssa.Builtin); ok && b.Name() == "delete" && len(cc.Args) == 2 && isHTTPHeader(cc.Args[0].Type()) {
					key = cc.Args[1]
				}
				if k, ok := constStr(key); key != nil && ok && strings.EqualFold(k, "Age") {
					dels = append(dels, in)
				}
			})
			instrsOf(m, func(in ssa.Instruction) {
				isWrite := false
				if mu, ok := in.(*ssa.MapUpdate); ok && isHTTPHeader(mu.Map.Type()) {
					isWrite = true
				}
				if cc := callOf(in); cc != nil && (callIsMethod(cc, "net/http", "Header", "Set") || callIsMethod(cc, "net/http", "Header", "Add")) {
					isWrite = true
				}
				if !isWrite {
					return
				}
				for _, dl := range dels {
					// the copy can be followed by the delete
					if dl.Block() == in.Block() && instrDominates(in, dl) || dl.Block() != in.Block() && reachableAvoiding(in.Block(), dl.Block(), nil) && !instrDominates(dl, in) {
						late = c.P.InstrPos(dl)
					}
				}
			})
		}
		if r.OK && late != "" {
			c.Fail(rule, "merge-drops-stored-age", d, late+": Age is deleted after fields of the 304 were copied: the 304's own Age (how old the freshened response already is) is lost, the age restarts at 0 and a stale must-revalidate response is served as a fresh HIT")
		} else if r.OK {
			c.Pass(rule, "merge-drops-stored-age", d, c.P.ShortName(m))
		} else {
			c.Fail(rule, "merge-drops-stored-age", d, c.P.ShortName(m)+": a return is reachable without deleting Age from the stored header; a response first received with `Age: 200, max-age=150` keeps Age 200 after every 304 and is revalidated on every request")
		}
	}
	// every header write in the merge is in a block dominated by a failed membership test on the omitted set
	var writes []ssa.Instruction
	instrsOf(m, func(in ssa.Instruction) {
		if mu, ok := in.(*ssa.MapUpdate); ok && isHTTPHeader(mu.Map.Type()) {
			writes = append(writes, in)
		}
		if call := callOf(in); call != nil && (callIsMethod(call, "net/http", "Header", "Set") || callIsMethod(call, "net/http", "Header", "Add")) {
			writes = append(writes, in)
		}
	})
	desc := "the 304 merge copies a field only if it is neither hop-by-hop nor Content-Length"
	if len(writes) == 0 {
		c.Undecided(rule, "merge-filter", desc, "no header write in "+c.P.ShortName(m))
		return
	}
	okAll := true
	for _, w := range writes {
		guarded := false
		for _, dc := range dominatingConds(w.Block()) {
			// cond is the comma-ok of a lookup in the omitted map
			ex, ok := dc.cond.(*ssa.Extract)
			if !ok || ex.Index != 1 {
				continue
			}
			lk, ok := ex.Tuple.(*ssa.Lookup)
			if !ok || !lk.CommaOk {
				continue
			}
			fromHop := c.An.dependsOnCall(lk.X, func(cc *ssa.Call) bool { return cc.Call.StaticCallee() == c.A.F("hopTable") })
			if fromHop && !dc.onTrue {
				guarded = true
			}
		}
		if !guarded {
			okAll = false
		}
	}
	if !okAll {
		c.Fail(rule, "merge-filter", desc, c.P.InstrPos(writes[0])+": a header write in the merge is not guarded by non-membership in the hop-by-hop set")
		return
	}
	// the hop-by-hop set (with the Connection-nominated fields) must be computed from the header that is being copied
	// FROM (the origin's 304), i.e. the same header the merge loop ranges over
	var rangedHdr ssa.Value
	instrsOf(m, func(in ssa.Instruction) {
		if rg, ok := in.(*ssa.Range); ok && isHTTPHeader(rg.X.Type()) {
			rangedHdr = rg.X
		}
	})
	srcOK := false
	instrsOf(m, func(in ssa.Instruction) {
		if cc := callOf(in); cc != nil && cc.StaticCallee() == c.A.F("hopTable") && rangedHdr != nil {
			if sameHeaderValue(cc.Args[0], rangedHdr) {
				srcOK = true
			}
		}
	})
	if !srcOK {
		c.Fail(rule, "merge-filter-source", "the omitted set is built from the header that is copied from", c.P.ShortName(m)+": the hop-by-hop set is not computed from the source header; fields nominated by the 304's own Connection field are merged into the stored response and replayed")
		return
	}
	if !hasCL {
		c.Fail(rule, "merge-filter-content-length", desc, c.P.ShortName(m)+": Content-Length is not added to the omitted set; a 304 carrying `Content-Length: 0` truncates the stored body on replay")
		return
	}
	c.Pass(rule, "merge-filter", desc, fmt.Sprintf("%s: %d header writes guarded; Content-Length omitted", c.P.ShortName(m), len(writes)))
	// each merged field is copied with all of its field lines: the written value is the source header's value list (the
	// ranged map value, a lookup or Values), never the single string of Header.Get / a Set of one value
	whole := true
	why := ""
	for _, w := range writes {
		switch x := w.(type) {
		case *ssa.MapUpdate:
			okSrc := false
			c.P.TraceBack(x.Value, TraceOpts{ThroughOps: true, ThroughExtern: true, NoParams: true, NoHeapFields: true}, func(v ssa.Value, _ []int) bool {
				switch y := v.(type) {
				case *ssa.Extract:
					if nx, ok := y.Tuple.(*ssa.Next); ok && y.Index == 2 {
						if rg, ok := nx.Iter.(*ssa.Range); ok && isHTTPHeader(rg.X.Type()) {
							okSrc = true
						}
					}
				case *ssa.Lookup:
					if isHTTPHeader(y.X.Type()) {
						okSrc = true
					}
				case *ssa.Call:
					if callIsMethod(&y.Call, "net/http", "Header", "Values") {
						okSrc = true
					}
					if callIsMethod(&y.Call, "net/http", "Header", "Get") {
						whole, why = false, c.P.InstrPos(y)+": the merged value comes from Header.Get (first field line only)"
					}
				}
				return true
			})
			if !okSrc {
				whole, why = false, c.P.InstrPos(w)+": the merged value is not the source field's value list"
			}
			// replaced, not extended: a value built by appending to something that is not empty keeps lines of the target
			var apps []ssa.Value
			seenV := map[ssa.Value]bool{}
			var walkV func(v ssa.Value)
			walkV = func(v ssa.Value) {
				if seenV[v] {
					return
				}
				seenV[v] = true
				switch y := v.(type) {
				case *ssa.Phi:
					for _, e := range y.Edges {
						walkV(e)
					}
				case *ssa.Call:
					if b, ok := y.Call.Value.(*ssa.Builtin); ok && b.Name() == "append" {
						apps = append(apps, y.Call.Args[0])
					}
				}
			}
			walkV(x.Value)
			for _, base := range apps {
				bk := c.sliceBacking(base)
				foreign := false
				for _, o := range bk {
					if o != "fresh" && o != "nil" && o != "const" {
						foreign = true
					}
				}
				if foreign {
					whole, why = false, c.P.InstrPos(w)+": the merged value is appended to an existing value list instead of replacing it"
				}
			}
		default:
			cc := callOf(w)
			if cc != nil && callIsMethod(cc, "net/http", "Header", "Set") {
				whole, why = false, c.P.InstrPos(w)+": Header.Set stores a single value; the other field lines of the 304's field are lost"
			}
			if cc != nil && callIsMethod(cc, "net/http", "Header", "Add") && !blockInCycle(w.Block()) {
				whole, why = false, c.P.InstrPos(w)+": a single Header.Add outside a loop over the values"
			}
		}
	}
	dw := "the 304 merge copies every field line of a merged field"
	if whole {
		c.Pass(rule, "merge-whole-field", dw, c.P.ShortName(m))
	} else {
		c.Fail(rule, "merge-whole-field", dw, why+"; a 304 carrying `Cache-Control: public` and `Cache-Control: max-age=300` on two lines freshens the stored response with the first line only")
	}
	// the merge target is the stored response, the source the origin's 304
	for fn := range c.A.Reach {
		instrsOf(fn, func(in ssa.Instruction) {
			call := callOf(in)
			if call == nil || call.StaticCallee() != m || len(call.Args) != 2 {
				return
			}
			ti := c.mergeTargetParam(m)
			if ti < 0 {
				c.Undecided(rule, "merge-direction fn="+c.P.ShortName(fn), "the merge writes the origin's fields into the stored response", c.P.InstrPos(in)+": the parameter the merge writes into was not recognised")
				return
			}
			tk, sk := c.responseKindsOfArg(call.Args[ti]), c.responseKindsOfArg(call.Args[1-ti])
			if tk["stored"] && sk["upstream"] && !tk["upstream"] && !sk["stored"] {
				c.Pass(rule, "merge-direction fn="+c.P.ShortName(fn), "the merge writes the origin's fields into the stored response", c.P.InstrPos(in))
			} else {
				c.Fail(rule, "merge-direction fn="+c.P.ShortName(fn), "the merge writes the origin's fields into the stored response", fmt.Sprintf("%s: target kinds %v, source kinds %v", c.P.InstrPos(in), keysOf(tk), keysOf(sk)))
			}
		})
	}
}

func keysOf(m map[string]bool) []string {
	var ks []string
	for k := range m {
		ks = append(ks, k)
	}
	sort.Strings(ks)
	return ks
}

func ruleC08_4(c *Ctx) {
	if c.A.RevalCtxT == nil {
		c.Undecided("C08.4", "anchor", "the revalidation context type is known", "not resolved")
		return
	}
	st, ok := c.A.RevalCtxT.Underlying().(*types.Struct)
	if !ok {
		return
	}
	type lit struct {
		where  string
		fields map[int]bool
		fn     *ssa.Function
	}
	var lits []lit
	for _, fn := range c.P.RepoFuncs {
		if isTestOnly(c, fn) {
			continue
		}
		instrsOf(fn, func(in ssa.Instruction) {
			al, ok := in.(*ssa.Alloc)
			if !ok || !isNamed(derefType(al.Type()), c.A.RevalCtxT) || al.Comment != "complit" {
				return
			}
			l := lit{where: c.P.ShortName(fn) + "@" + c.P.InstrPos(al), fields: map[int]bool{}, fn: fn}
			if refs := al.Referrers(); refs != nil {
				for _, r := range *refs {
					if fa, ok := r.(*ssa.FieldAddr); ok {
						if rr := fa.Referrers(); rr != nil {
							for _, u := range *rr {
								if s, ok := u.(*ssa.Store); ok && s.Addr == fa {
									l.fields[fa.Field] = true
								}
							}
						}
					}
				}
			}
			lits = append(lits, l)
		})
	}
	if len(lits) < 2 {
		c.Undecided("C08.4", "context-literals", "foreground and background revalidation contexts exist", fmt.Sprintf("found %d literals", len(lits)))
		return
	}
	union := map[int]bool{}
	for _, l := range lits {
		for f := range l.fields {
			union[f] = true
		}
	}
	for _, l := range lits {
		var missing []string
		for f := range union {
			if !l.fields[f] {
				missing = append(missing, st.Field(f).Name())
			}
		}
		sort.Strings(missing)
		desc := "every revalidation context carries the same fields (variant index and position included)"
		key := "context-literal fn=" + c.P.ShortName(l.fn)
		if len(missing) > 0 {
			c.Fail("C08.4", key, desc, l.where+": literal does not initialise "+strings.Join(missing, ", ")+
				"; a full reply to the background revalidation rewrites the index with a single entry and the other variants vanish", l.where)
		} else {
			c.Pass("C08.4", key, desc, l.where)
		}
	}
}

func ruleC08_5(c *Ctx) {
	if !c.Need("C08.5", "storeResp", "writeIndex") {
		return
	}
	sr := c.A.F("storeResp")
	var refsParam *ssa.Parameter
	for _, p := range sr.Params {
		if sl, ok := p.Type().Underlying().(*types.Slice); ok && isPtrToNamed(sl.Elem(), c.A.RefT) {
			refsParam = p
		}
	}
	if refsParam == nil {
		c.Undecided("C08.5", "refs-param", "the storing function receives the variant list", "no []*Ref parameter")
		return
	}
	hasAppend, hasIndexed := false, false
	instrsOf(sr, func(in ssa.Instruction) {
		if c.isNewRecordAppend(in) {
			hasAppend = true
		}
		if s, ok := in.(*ssa.Store); ok {
			if ia, ok := s.Addr.(*ssa.IndexAddr); ok {
				if sl, ok := ia.X.Type().Underlying().(*types.Slice); ok && isPtrToNamed(sl.Elem(), c.A.RefT) {
					hasIndexed = true
				}
			}
		}
	})
	desc := "an existing variant is replaced in place, a new one appended"
	if hasAppend && hasIndexed {
		c.Pass("C08.5", "replace-or-append", desc, c.P.ShortName(sr))
	} else {
		c.Fail("C08.5", "replace-or-append", desc, fmt.Sprintf("%s: append=%v indexed store=%v", c.P.ShortName(sr), hasAppend, hasIndexed))
	}
	// the list written derives from the list received
	instrsOf(sr, func(in ssa.Instruction) {
		if !c.An.CallsRole(in, "writeIndex") {
			return
		}
		_, args := recvAndArgs(callOf(in))
		ok := false
		for _, a := range args {
			if c.An.dependsOnValue(a, refsParam) {
				ok = true
			}
		}
		// on every live path with a non-nil received list, the written list is built from it (not from a fresh one)
		prNN := c.An.Prune(sr, func(at *Atom) (bool, bool) {
			if strings.HasPrefix(at.Key, "nil:") && at.Val == ssa.Value(refsParam) {
				return false, true // refs == nil is false
			}
			return false, false
		})
		for _, a := range args {
			if sl, isSl := a.Type().Underlying().(*types.Slice); !isSl || !isPtrToNamed(sl.Elem(), c.A.RefT) {
				continue
			}
			// the storage the written list is built on: look through re-slicing and append to the list they extend
			var bases []ssa.Value
			seenB := map[ssa.Value]bool{}
			var expand func(v ssa.Value)
			expand = func(v ssa.Value) {
				for _, leaf := range c.An.liveLeaves(prNN, v) {
					if seenB[leaf] {
						continue
					}
					seenB[leaf] = true
					switch x := leaf.(type) {
					case *ssa.Slice:
						expand(x.X)
					case *ssa.Call:
						if b, isB := x.Call.Value.(*ssa.Builtin); isB && b.Name() == "append" {
							expand(x.Call.Args[0])
							continue
						}
						bases = append(bases, leaf)
					default:
						bases = append(bases, leaf)
					}
				}
			}
			expand(a)
			for _, leaf := range bases {
				if !c.An.dependsOnValue(leaf, refsParam) {
					ok = false
				}
			}
		}
		d := "the index written back derives from the index received (other variants are kept)"
		if ok {
			c.Pass("C08.5", "index-written-whole", d, c.P.InstrPos(in))
		} else {
			c.Fail("C08.5", "index-written-whole", d, c.P.InstrPos(in)+": the written list does not depend on the received list; other variants are dropped")
		}
	})
	// callers pass the index read in this exchange and the matcher's position
	for _, site := range c.storeSites() {
		fn := site.Parent()
		_, args := recvAndArgs(callOf(site))
		var refsArg ssa.Value
		for _, a := range args {
			if sl, ok := a.Type().Underlying().(*types.Slice); ok && isPtrToNamed(sl.Elem(), c.A.RefT) {
				refsArg = a
			}
		}
		if refsArg == nil {
			continue
		}
		fromRead := c.An.dependsOnCallFull(refsArg, func(cc *ssa.Call) bool {
			for _, cal := range c.P.Callees(cc) {
				if cal == c.A.F("readIndex") {
					return true
				}
			}
			return false
		})
		d := "the variant list handed to the storing function is the index read in this exchange"
		if fromRead {
			c.Pass("C08.5", "store-gets-index fn="+c.P.ShortName(fn), d, c.P.InstrPos(site))
		} else {
			c.Fail("C08.5", "store-gets-index fn="+c.P.ShortName(fn), d, c.P.InstrPos(site)+": list argument never derives from the index read")
		}
	}
}

// sameHeaderValue: two header values are loads of the Header field of the same response value.
func sameHeaderValue(a, b ssa.Value) bool {
	base := func(v ssa.Value) ssa.Value {
		if u, ok := v.(*ssa.UnOp); ok {
			if fa, ok := u.X.(*ssa.FieldAddr); ok {
				return fa.X
			}
		}
		return v
	}
	return base(a) == base(b)
}

// ruleC08_9: the matcher sorts the list it is given in place and returns a position in that order. A revalidation
// context carries both the list and the position to the storer, which overwrites list[position]. The list of every
// context must therefore be the very list RoundTrip read and handed to the matcher: its only index-read source is the
// index read in RoundTrip. (A list read again later is in stored order; the position then names another variant, which
// is overwritten and lost.)
func ruleC08_9(c *Ctx) {
	if !c.Need("C08.9", "validationHandler", "readIndex") {
		return
	}
	if c.A.RevalCtxT == nil || c.A.RefT == nil {
		return
	}
	st, ok := c.A.RevalCtxT.Underlying().(*types.Struct)
	if !ok {
		return
	}
	refsField := -1
	for i := 0; i < st.NumFields(); i++ {
		if sl, ok := st.Field(i).Type().Underlying().(*types.Slice); ok && isPtrToNamed(sl.Elem(), c.A.RefT) {
			refsField = i
		}
	}
	desc := "the list in a revalidation context comes from the index read in RoundTrip (the one the matcher ordered)"
	if refsField < 0 {
		c.Undecided("C08.9", "context-list", desc, "no variant-list field in "+c.A.RevalCtxT.Obj().Name())
		return
	}
	n := 0
	for fn := range c.A.Reach {
		instrsOf(fn, func(in ssa.Instruction) {
			if !c.An.CallsRole(in, "validationHandler") || c.A.roleOf[fn] == "validationHandler" {
				return
			}
			_, args := recvAndArgs(callOf(in))
			var ctxArg ssa.Value
			for _, a := range args {
				if isNamed(a.Type(), c.A.RevalCtxT) {
					ctxArg = a
				}
			}
			if ctxArg == nil {
				return
			}
			n++
			where := c.P.ShortName(fn) + "@" + c.P.InstrPos(in)
			var foreign []string
			fromRoot := false
			c.P.TraceBackPath(ctxArg, []int{refsField}, TraceOpts{NoHeapFields: true}, func(v ssa.Value, path []int) bool {
				if len(path) > 0 {
					return true
				}
				ex, ok := v.(*ssa.Extract)
				if !ok {
					return true
				}
				call, ok := ex.Tuple.(*ssa.Call)
				if !ok || !c.An.CallsRole(call, "readIndex") {
					return true
				}
				if call.Parent() == c.A.Root {
					fromRoot = true
				} else {
					foreign = append(foreign, c.P.ShortName(call.Parent())+"@"+c.P.InstrPos(call))
				}
				return false
			})
			switch {
			case len(foreign) > 0:
				c.Fail("C08.9", "context-list fn="+c.P.ShortName(fn), desc, where+": the list may come from another index read ("+strings.Join(foreign, ", ")+") while the position still refers to the matcher's order; the validated response overwrites another variant's record, which is then fetched from the origin again")
			case !fromRoot:
				c.Undecided("C08.9", "context-list fn="+c.P.ShortName(fn), desc, where+": no index read found behind the context's list")
			default:
				c.Pass("C08.9", "context-list fn="+c.P.ShortName(fn), desc, where)
			}
		})
	}
	if n == 0 {
		c.Undecided("C08.9", "context-list", desc, "no call of the validation handler")
	}
}

// mergeTargetParam: the index (0 or 1) of the merge function's parameter whose header map it writes (a response, or a
// header map itself); -1 when neither or both are written.
func (c *Ctx) mergeTargetParam(m *ssa.Function) int {
	if len(m.Params) != 2 {
		return -1
	}
	written := map[int]bool{}
	owner := func(v ssa.Value) {
		c.P.TraceBack(v, TraceOpts{NoParams: true, NoHeapFields: true}, func(x ssa.Value, _ []int) bool {
			if p, ok := x.(*ssa.Parameter); ok && p.Parent() == m {
				written[paramIndex(m, p)] = true
				return false
			}
			if u, ok := x.(*ssa.UnOp); ok {
				if fa, ok := u.X.(*ssa.FieldAddr); ok && isHTTPResponsePtr(fa.X.Type()) {
					if p, ok := c.An.canon(fa.X).(*ssa.Parameter); ok && p.Parent() == m {
						written[paramIndex(m, p)] = true
					}
					return false
				}
			}
			return true
		})
	}
	for _, f := range c.reachableFrom(m) {
		if f != m && f.Parent() != m {
			continue
		}
		instrsOf(f, func(in ssa.Instruction) {
			switch x := in.(type) {
			case *ssa.MapUpdate:
				if isHTTPHeader(x.Map.Type()) {
					owner(x.Map)
				}
			default:
				if cc := callOf(in); cc != nil {
					for _, name := range []string{"Set", "Add", "Del"} {
						if callIsMethod(cc, "net/http", "Header", name) {
							recv, _ := recvAndArgs(cc)
							owner(recv)
						}
					}
				}
			}
		})
	}
	if len(written) != 1 {
		return -1
	}
	for i := range written {
		return i
	}
	return -1
}

// responseKindsOfArg: ResponseKinds of a response argument, or of the response whose Header field a header-map argument
// was loaded from.
func (c *Ctx) responseKindsOfArg(a ssa.Value) map[string]bool {
	if !isHTTPHeader(a.Type()) {
		return c.An.ResponseKinds(a)
	}
	out := map[string]bool{}
	c.P.TraceBack(a, TraceOpts{NoHeapFields: true}, func(x ssa.Value, _ []int) bool {
		if u, ok := x.(*ssa.UnOp); ok {
			if fa, ok := u.X.(*ssa.FieldAddr); ok && isHTTPResponsePtr(fa.X.Type()) && isHTTPHeader(u.Type()) {
				for k := range c.An.ResponseKinds(fa.X) {
					out[k] = true
				}
				return false
			}
		}
		return true
	})
	return out
}
