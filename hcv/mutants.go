package hcv

import (
	"fmt"
	"os"
	"path/filepath"
	"sort"
	"strings"
	"sync"
)

// Mutant is a seeded defect applied to /repo's *current* sources in memory (packages.Config.Overlay): nothing is written
// to disk and nothing is executed. A mutant names the rule (prefix) that is expected to report it.
type Mutant struct {
	Prop   string
	Name   string
	File   string      // path relative to the repo root
	Edits  [][2]string // {old, new}; old must occur exactly once
	Expect string      // rule id prefix expected to fire, e.g. "C01.3"
	Why    string
}

var mutants = []Mutant{
	// ---- C01
	{"C01", "stale-cmp-strict", "internal/freshness.go", [][2]string{{"isStale := currentAge.Value >= usefulLife", "isStale := currentAge.Value > usefulLife"}}, "C01.3", "served when age == lifetime"},
	{"C01", "drop-resident-time", "internal/freshness.go", [][2]string{{"residentTime := max(clock.Since(responseTime), 0)", "residentTime := time.Duration(0)"}}, "C01.4", "entries never age"},
	{"C01", "heuristic-20-percent", "internal/freshness.go", [][2]string{{"return (delta / 10).Truncate(time.Second)", "return (delta / 5).Truncate(time.Second)"}}, "C01.5", "heuristic lifetime doubled"},
	{"C01", "serve-without-freshness-test", "roundtripper.go", [][2]string{{"if !freshness.IsStale && !ccReq.NoCache() {", "if !ccReq.NoCache() {"}}, "C01.2", "stale response served as a hit"},
	{"C01", "swr-window-inclusive", "roundtripper.go", [][2]string{{"staleFor >= 0 && staleFor < swr", "staleFor >= 0 && staleFor <= swr"}}, "C01.2", "served at staleness == window"},
	{"C01", "fallback-on-zero-lifetime", "internal/freshness.go", [][2]string{{"if !resCC.MaxAgePresent() {", "if usefulLife == 0 {"}}, "C01.1", "max-age=0 gets a heuristic lifetime (D01)"},
	{"C01", "no-clamp-delta", "internal/ccdirectives.go", [][2]string{{"seconds = min(seconds, maxDeltaSeconds)\n", ""}}, "C01.6", "max-age wraps negative"},
	{"C01", "apparent-age-unclamped", "internal/freshness.go", [][2]string{{"apparentAge := max(responseTime.Sub(date), 0)", "apparentAge := responseTime.Sub(date)"}}, "C01.4", "skewed Date gives negative age"},
	// ---- C02
	{"C02", "request-no-cache-ignored", "roundtripper.go", [][2]string{{"needsValidation = ccReq.NoCache() || validateNow ||", "needsValidation = validateNow ||"}}, "C02.1", "request no-cache served from store (D03)"},
	{"C02", "clone-shares-header", "helpers.go", [][2]string{{"req2.Header = req.Header.Clone()", "req2.Header = req.Header"}}, "C02.3", "conditional headers written into the caller's header map"},
	{"C02", "swr-no-strip", "roundtripper.go", [][2]string{{"\tif noCacheQualified {\n\t\t// Qualified no-cache: the nominated fields must not be replayed without validation", "\tif false {\n\t\t// Qualified no-cache: the nominated fields must not be replayed without validation"}}, "C02.4", "no-cache=\"Set-Cookie\" replayed on the SWR path (D06)"},
	{"C02", "handler-serves-on-any-success", "internal/validationresponsehandler.go", [][2]string{{"resp.StatusCode == http.StatusNotModified {", "resp.StatusCode < 400 {"}}, "C02.5", "200 answered with the old body"},
	{"C02", "sie-ignores-must-revalidate", "internal/validationresponsehandler.go", [][2]string{{"if !storedCC.MustRevalidate() && !storedNoCache", "if !storedNoCache"}}, "C02.1", "stale-if-error overrides must-revalidate (D30)"},
	{"C02", "max-stale-overrides-must-revalidate", "internal/freshness.go", [][2]string{{"maxStale > 0 && !resCC.MustRevalidate() &&", "maxStale > 0 &&"}}, "C02.2", "D05"},
	{"C02", "validate-with-client-request", "roundtripper.go", [][2]string{{"revalidate:\n\treq = withConditionalHeaders(req, stored.Data.Header)\n", "revalidate:\n"}}, "C02.3", "validation request lacks validators"},
	// ---- C03
	{"C03", "gate-ignores-range", "internal/requestmethodchecker.go", [][2]string{{"return req.Method == http.MethodGet && req.Header.Get(\"Range\") == \"\"", "return req.Method == http.MethodGet"}}, "C03.3", "Range request served the full body"},
	{"C03", "key-drops-query", "internal/urlkeyer.go", [][2]string{{"if normalized.RawQuery != \"\" {", "if false && normalized.RawQuery != \"\" {"}}, "C03.2", "?a=1 and ?a=2 share an entry"},
	{"C03", "ip-literal-unbracketed", "internal/urlkeyer.go", [][2]string{{"\t\thostPort = \"[\" + hostPort + \"]\"\n", "\t\t_ = hostPort\n"}}, "C03.7", "[::1]:8080 vs [::1:8080]"},
	{"C03", "hex-lowercase", "internal/urlkeyer.go", [][2]string{{"\"0123456789ABCDEF\"", "\"0123456789abcdef\""}}, "C03.6", "%2f vs %2F"},
	{"C03", "https-default-80", "internal/helpers.go", [][2]string{{"return \"443\"", "return \"80\""}}, "C03.5", "https :80 collapses"},
	{"C03", "key-includes-fragment", "internal/urlkeyer.go", [][2]string{{"\treturn result\n}", "\treturn result + \"#\" + normalized.Fragment\n}"}}, "C03.2", "fragments split the cache"},
	{"C03", "unreserved-adds-plus", "internal/urlkeyer.go", [][2]string{{"r == '-' || r == '.' || r == '_' || r == '~'", "r == '-' || r == '.' || r == '_' || r == '~' || r == '+'"}}, "C03.1", "%2B decoded to +"},
	{"C03", "gate-admits-head", "internal/requestmethodchecker.go", [][2]string{{"req.Method == http.MethodGet &&", "(req.Method == http.MethodGet || req.Method == http.MethodHead) &&"}}, "C03.3", "HEAD served from GET entries"},
	// ---- C04
	{"C04", "match-without-normaliser", "internal/varymatcher.go", [][2]string{{"reqValue = vm.hvn.NormalizeHeaderValue(field, strings.Join(reqValues, \",\"))", "reqValue = strings.Join(reqValues, \",\")"}}, "C04.4", "store and match normalise differently"},
	{"C04", "vary-first-line", "internal/responsestorerer.go", [][2]string{{"vary := strings.Join(resp.Header.Values(\"Vary\"), \",\")", "vary := resp.Header.Get(\"Vary\")"}, {"\t\"slices\"\n\t\"strings\"\n\t\"time\"", "\t\"slices\"\n\t\"time\""}}, "C04.1", "D09"},
	{"C04", "hash-no-separator", "internal/normalization.go", [][2]string{{"\t\t_, _ = h.Write([]byte(k))\n\t\t_, _ = h.Write(sep)\n", "\t\t_, _ = h.Write([]byte(k))\n"}}, "C04.3", "D11"},
	{"C04", "star-whole-value-only", "internal/varymatcher.go", [][2]string{{"\t\tif field == \"*\" {\n\t\t\treturn false // a \"*\" member anywhere in the Vary list never matches (RFC 9111 §4.1)\n\t\t}\n", ""}}, "C04.2", "D10"},
	// ---- C05
	{"C05", "table-lacks-transfer-encoding", "internal/helpers.go", [][2]string{{"\t\t\"Transfer-Encoding\": {},\n", ""}}, "C05", "TE stored (anchor lost or table incomplete)"},
	{"C05", "table-lacks-keep-alive", "internal/helpers.go", [][2]string{{"\t\t\"Keep-Alive\":        {},\n", ""}}, "C05.1", "Keep-Alive stored"},
	{"C05", "no-strip-before-store", "internal/responsestorerer.go", [][2]string{{"\tremoveHopByHopHeaders(resp)\n", ""}}, "C05.2", "hop-by-hop fields stored"},
	{"C05", "dump-without-body", "internal/entry.go", [][2]string{{"respBytes, err := httputil.DumpResponse(&head, true)", "respBytes, err := httputil.DumpResponse(&head, false)"}}, "C05.4", "bodies not stored"},
	{"C05", "merge-copies-content-length", "internal/helpers.go", [][2]string{{"\tomitted[\"Content-Length\"] = struct{}{}\n", ""}}, "C05.3", "304 Content-Length truncates the body"},
	{"C05", "debug-header-leak", "roundtripper.go", [][2]string{{"\tinternal.CacheStatusMiss.ApplyTo(resp.Header)\n", "\tinternal.CacheStatusMiss.ApplyTo(resp.Header)\n\tresp.Header.Set(\"X-Debug-Key\", urlKey)\n"}}, "C05.5", "extra header on served responses"},
	{"C05", "status-before-store", "roundtripper.go", [][2]string{{"\tccResp := internal.ParseCCResponseDirectives(resp.Header)\n\t// A 304 on this path", "\tccResp := internal.ParseCCResponseDirectives(resp.Header)\n\tinternal.CacheStatusMiss.ApplyTo(resp.Header)\n\t// A 304 on this path"}}, "C05.6", "stored copies carry the cache status"},
	// ---- C06
	{"C06", "request-no-store-ignored", "internal/cacheabilityevaluator.go", [][2]string{{"if resCC.NoStore() || reqCC.NoStore() {", "if resCC.NoStore() {"}}, "C06.2", "answer to a no-store request stored"},
	{"C06", "store-without-evaluator", "roundtripper.go", [][2]string{{"if resp.StatusCode != http.StatusNotModified && r.ce.CanStoreResponse(resp, ccReq, ccResp) {", "if resp.StatusCode != http.StatusNotModified {"}}, "C06.6", "everything stored"},
	{"C06", "understood-206", "internal/cacheabilityevaluator.go", [][2]string{{"\t\thttp.StatusMovedPermanently,\n\t\thttp.StatusNotModified,\n\t\thttp.StatusNotFound,\n\t\thttp.StatusMethodNotAllowed,\n\t\thttp.StatusGone,\n\t\thttp.StatusRequestURITooLong,\n\t\thttp.StatusNotImplemented,\n\t\thttp.StatusPermanentRedirect:\n\t\treturn true\n\tdefault:", "\t\thttp.StatusPartialContent,\n\t\thttp.StatusMovedPermanently,\n\t\thttp.StatusNotModified,\n\t\thttp.StatusNotFound,\n\t\thttp.StatusMethodNotAllowed,\n\t\thttp.StatusGone,\n\t\thttp.StatusRequestURITooLong,\n\t\thttp.StatusNotImplemented,\n\t\thttp.StatusPermanentRedirect:\n\t\treturn true\n\tdefault:"}}, "C06.1", "206 stored"},
	{"C06", "store-304-on-miss", "roundtripper.go", [][2]string{{"if resp.StatusCode != http.StatusNotModified && r.ce.CanStoreResponse", "if r.ce.CanStoreResponse"}}, "C06.1", "D14"},
	{"C06", "index-despite-entry-error", "internal/responsestorerer.go", [][2]string{{"\tif err := r.cache.Set(responseID, respEntry); err != nil {\n\t\t// Do not reference an entry that could not be written (e.g. the body could not be read completely).\n\t\treturn err\n\t}\n", "\t_ = r.cache.Set(responseID, respEntry)\n"}}, "C06.7", "D15"},
	{"C06", "final-status-check-dropped", "internal/cacheabilityevaluator.go", [][2]string{{"if resp.StatusCode < 200 || resp.StatusCode == http.StatusProcessing || resp.StatusCode >= 600 {", "if resp.StatusCode >= 600 {"}}, "C06.1", "1xx stored"},
	// ---- C07
	{"C07", "window-2xx-only", "internal/helpers.go", [][2]string{{"status >= 200 && status < 400", "status >= 200 && status < 300"}}, "C07.3", "3xx do not invalidate"},
	{"C07", "invalidate-only-200", "roundtripper.go", [][2]string{{"if internal.IsNonErrorStatus(resp.StatusCode) {", "if resp.StatusCode == http.StatusOK {"}}, "C07.2", "201/204 do not invalidate"},
	{"C07", "index-not-deleted", "internal/cacheinvalidator.go", [][2]string{{"\tr.invalidateLocationHeaders(reqURL, respHeader, del)\n\tdel(key)\n", "\tr.invalidateLocationHeaders(reqURL, respHeader, del)\n"}}, "C07.4", "index survives"},
	{"C07", "cross-origin-eviction", "internal/cacheinvalidator.go", [][2]string{{"if sameOrigin(reqURL, locURL) {", "if locURL != nil {"}}, "C07.4", "Location of another origin evicts"},
	{"C07", "location-only", "internal/cacheinvalidator.go", [][2]string{{"[...]string{\"Location\", \"Content-Location\"}", "[...]string{\"Location\"}"}}, "C07.4", "Content-Location ignored"},
	{"C07", "patch-is-safe", "internal/helpers.go", [][2]string{{"\t\t\"PROPFIND\", \"REPORT\", \"SEARCH\", \"QUERY\", \"PRI\":", "\t\t\"PROPFIND\", \"REPORT\", \"SEARCH\", \"QUERY\", \"PRI\", http.MethodPatch:"}}, "C07.1", "PATCH does not invalidate"},
	{"C07", "origin-ignores-scheme", "internal/helpers.go", [][2]string{{"return strings.EqualFold(a.Scheme, b.Scheme) &&\n\t\tstrings.EqualFold(a.Hostname(), b.Hostname())", "return strings.EqualFold(a.Hostname(), b.Hostname())"}}, "C07.5", "http evicts https"},
	// ---- C08
	{"C08", "no-304-write-back", "internal/validationresponsehandler.go", [][2]string{{"\t\tif r.rs != nil && mayStore {\n\t\t\t// Write the freshened response back", "\t\tif false && mayStore {\n\t\t\t// Write the freshened response back"}}, "C08.1", "D17"},
	{"C08", "always-append", "internal/responsestorerer.go", [][2]string{{"refs[refIndex] = refEntry // Update existing response reference", "refs = append(refs, refEntry)"}}, "C08.5", "replaced variant stays listed"},
	{"C08", "write-back-old-times", "internal/validationresponsehandler.go", [][2]string{{"\t\t\t\tctx.Refs,\n\t\t\t\tctx.Start,\n\t\t\t\tctx.End,\n\t\t\t\tctx.RefIndex,\n\t\t\t)\n\t\t}", "\t\t\t\tctx.Refs,\n\t\t\t\tctx.Stored.RequestedAt,\n\t\t\t\tctx.Stored.ReceivedAt,\n\t\t\t\tctx.RefIndex,\n\t\t\t)\n\t\t}"}}, "C08.2", "age does not restart"},
	{"C08", "background-context-without-refs", "roundtripper.go", [][2]string{{"\t\t\tStored:    stored,\n\t\t\tRefs:      refs,\n\t\t\tRefIndex:  refIndex,\n\t\t\tFreshness: freshness,\n\t\t}\n\t\t//nolint:bodyclose", "\t\t\tStored:    stored,\n\t\t\tFreshness: freshness,\n\t\t}\n\t\t//nolint:bodyclose"}}, "C08.4", "D18"},
	{"C08", "index-rebuilt-from-scratch", "internal/responsestorerer.go", [][2]string{{"\tcase refs == nil:\n\t\trefs = make(ResponseRefs, 0, 1)", "\tcase refs == nil || refIndex < 0:\n\t\trefs = make(ResponseRefs, 0, 1)"}}, "C08.5", "other variants dropped on append"},
	// ---- C09
	{"C09", "extra-serve-condition", "roundtripper.go", [][2]string{{"if !freshness.IsStale && !ccReq.NoCache() {", "if !freshness.IsStale && !ccReq.NoCache() && ccResp.Public() {"}}, "C09.1", "fresh hits go to the origin"},
	{"C09", "index-records-other-id", "internal/responsestorerer.go", [][2]string{{"\t\tResponseID:   responseID,\n\t}", "\t\tResponseID:   urlKey,\n\t}"}}, "C09.4", "lookups never find the entry"},
	{"C09", "miss-does-not-store", "roundtripper.go", [][2]string{{"\t\t_ = r.rs.StoreResponse(req, resp, urlKey, refs, start, end, refIndex)\n", "\t\t_ = start\n\t\t_ = end\n"}}, "C09.1", "nothing is ever stored"},
	{"C09", "lookup-other-key", "roundtripper.go", [][2]string{{"r.cache.Get(refs[refIndex].ResponseID, req)", "r.cache.Get(urlKey, req)"}}, "C09.4", "entry read with the index key"},
	// ---- C10
	{"C10", "index-error-ignored", "roundtripper.go", [][2]string{{"if err != nil || len(refs) == 0 {", "if len(refs) == 0 {"}}, "C10.5", "store error not treated as miss"},
	{"C10", "nil-nil-return", "internal/validationresponsehandler.go", [][2]string{{"\tif err != nil {\n\t\treturn nil, err\n\t}\n\n\tif !ccRespOnce {", "\tif err != nil {\n\t\treturn nil, nil\n\t}\n\n\tif !ccRespOnce {"}}, "C10.7", "neither response nor error"},
	{"C10", "explicit-panic", "roundtripper.go", [][2]string{{"\tinternal.SetAgeHeader(stored.Data, r.clock, freshness.Age)\n\tmisc :=", "\tif freshness.Age == nil {\n\t\tpanic(\"no age\")\n\t}\n\tinternal.SetAgeHeader(stored.Data, r.clock, freshness.Age)\n\tmisc :="}}, "C10.4", "panic on the RoundTrip path"},
	{"C10", "store-error-surfaces", "roundtripper.go", [][2]string{{"\t\t_ = r.rs.StoreResponse(req, resp, urlKey, refs, start, end, refIndex)\n", "\t\tif serr := r.rs.StoreResponse(req, resp, urlKey, refs, start, end, refIndex); serr != nil {\n\t\t\treturn nil, serr\n\t\t}\n"}}, "C10.6", "store failure returned to the client"},
	{"C10", "nil-resp-deref", "internal/validationresponsehandler.go", [][2]string{{"\t\tif resp != nil {\n\t\t\t// A failed origin call returns no response (http.RoundTripper contract).\n\t\t\tccResp = ParseCCResponseDirectives(resp.Header)\n\t\t}", "\t\tccResp = ParseCCResponseDirectives(resp.Header)"}}, "C10.1", "D19"},
	{"C10", "unbuffered-result-channel", "store/fscache/fscache.go", [][2]string{{"\terrc := make(chan result, 1)\n\tgo func() {\n\t\tdefer close(errc)\n\t\tdata, err := c.get(key)", "\terrc := make(chan result)\n\tgo func() {\n\t\tdefer close(errc)\n\t\tdata, err := c.get(key)"}}, "C10.9", "goroutine blocks forever after a timeout"},
	{"C10", "log-mutates-response", "internal/log.go", [][2]string{{"func (m Misc) LogValue() slog.Value {\n\tattrs := make([]slog.Attr, 0, 5)", "func (m Misc) LogValue() slog.Value {\n\tif m.Stored != nil {\n\t\tm.Stored.Data.Header.Del(\"Set-Cookie\")\n\t}\n\tattrs := make([]slog.Attr, 0, 5)"}}, "C10.8", "debug level changes behaviour"},
	// ---- C11
	{"C11", "swr-no-age", "roundtripper.go", [][2]string{{"\tinternal.SetAgeHeader(stored.Data, r.clock, freshness.Age)\n\tinternal.CacheStatusStale.ApplyTo(stored.Data.Header)", "\tinternal.CacheStatusStale.ApplyTo(stored.Data.Header)"}}, "C11.1", "D22"},
	{"C11", "miss-marked-hit", "roundtripper.go", [][2]string{{"internal.CacheStatusMiss.ApplyTo(resp.Header)", "internal.CacheStatusHit.ApplyTo(resp.Header)"}}, "C11.3", "origin response marked HIT"},
	{"C11", "504-without-status", "helpers.go", [][2]string{{"\t_, _ = buf.WriteString(\n\t\tinternal.CacheStatusHeader + \": \" + internal.CacheStatusBypass.Value + \"\\r\\n\",\n\t)\n", ""}, {"\t\"net/http\"\n\n\t\"github.com/bartventer/httpcache/internal\"\n", "\t\"net/http\"\n"}}, "C11.6", "504 lacks the status field"},
	{"C11", "stale-marked-hit", "roundtripper.go", [][2]string{{"\tif freshness.IsStale || freshness.Age.Value >= freshness.UsefulLife {\n", "\tif false {\n"}}, "C11.4", "D24"},
	{"C11", "legacy-not-cleared", "internal/header.go", [][2]string{{"\t} else {\n\t\t// Not served from this cache: do not forward a marker set by an upstream cache.\n\t\theader.Del(FromCacheHeader)\n\t}", "\t}"}}, "C11.5", "D25"},
	{"C11", "age-without-resident-correction", "internal/helpers.go", [][2]string{{"adjusted := max(SaturatingAdd(age.Value, clock.Since(age.Timestamp)), 0)", "adjusted := max(age.Value, 0)"}}, "C11.2", "Age not advanced since computed"},
	{"C11", "revalidated-on-any", "internal/validationresponsehandler.go", [][2]string{{"\t\tCacheStatusMiss.ApplyTo(resp.Header)\n\t\tr.l.LogCacheMiss(req, ctx.URLKey, ctx.ToMisc(ccResp))", "\t\tCacheStatusRevalidated.ApplyTo(resp.Header)\n\t\tr.l.LogCacheMiss(req, ctx.URLKey, ctx.ToMisc(ccResp))"}}, "C11.3", "full reply marked REVALIDATED"},
	// ---- C12
	{"C12", "names-case-sensitive", "internal/ccdirectives.go", [][2]string{{"\t\t\tkey = strings.ToLower(key)\n", ""}}, "C12.1", "D26"},
	{"C12", "first-line-only", "internal/ccdirectives.go", [][2]string{{"func ParseCCResponseDirectives(header http.Header) CCResponseDirectives {\n\t// A list field may be split across several field lines (RFC 9110 §5.3).\n\tvalue := strings.Join(header.Values(\"Cache-Control\"), \",\")", "func ParseCCResponseDirectives(header http.Header) CCResponseDirectives {\n\tvalue := header.Get(\"Cache-Control\")"}}, "C12.2", "D27"},
	{"C12", "quoted-max-stale", "internal/ccdirectives.go", [][2]string{{"return RawDeltaSeconds(ParseQuotedString(v)), true", "return RawDeltaSeconds(v), true"}}, "C12.3", "max-stale=\"5\" ignored"},
	{"C12", "range-error-dropped", "internal/ccdirectives.go", [][2]string{{"\t\tif !errors.Is(err, strconv.ErrRange) {\n\t\t\treturn\n\t\t}\n\t\t// Too large to represent: use the greatest representable value (RFC 9111 §1.2.2).\n\t\tseconds = maxDeltaSeconds\n", "\t\treturn\n"}, {"import (\n\t\"errors\"\n", "import (\n"}}, "C12.4", "huge max-age treated as absent"},
	{"C12", "yield-untrimmed", "internal/helpers.go", [][2]string{{"\t\t\tcase c == ',' && !inQuotes:\n\t\t\t\tp := textproto.TrimString(part.String())", "\t\t\tcase c == ',' && !inQuotes:\n\t\t\t\tp := part.String()"}}, "C12.5", "whitespace around list elements kept"},
	{"C12", "request-own-tokenizer", "internal/ccdirectives.go", [][2]string{{"func ParseCCRequestDirectives(header http.Header) CCRequestDirectives {\n\t// A list field may be split across several field lines (RFC 9110 §5.3).\n\tvalue := strings.Join(header.Values(\"Cache-Control\"), \",\")\n\tif value == \"\" {\n\t\treturn nil\n\t}\n\treturn parseDirectives(value)", "func ParseCCRequestDirectives(header http.Header) CCRequestDirectives {\n\t// A list field may be split across several field lines (RFC 9110 §5.3).\n\tvalue := strings.Join(header.Values(\"Cache-Control\"), \",\")\n\tif value == \"\" {\n\t\treturn nil\n\t}\n\tm := map[string]string{}\n\tfor _, p := range strings.Split(value, \",\") {\n\t\tm[strings.TrimSpace(p)] = \"\"\n\t}\n\treturn m"}}, "C12", "request directives parsed differently"},
	// ---- C13
	{"C13", "sie-on-404", "internal/helpers.go", [][2]string{{"\t\thttp.StatusGatewayTimeout:\n\t\treturn true", "\t\thttp.StatusGatewayTimeout, http.StatusNotFound:\n\t\treturn true"}}, "C13.1", "404 triggers stale serving"},
	{"C13", "sie-ignores-stored-no-cache", "internal/validationresponsehandler.go", [][2]string{{"if !storedCC.MustRevalidate() && !storedNoCache && !ctx.CCReq.NoCache() &&", "if !storedCC.MustRevalidate() && !ctx.CCReq.NoCache() &&"}, {"_, storedNoCache := storedCC.NoCache()", "_, _ = storedCC.NoCache()"}}, "C13.3", "D30"},
	{"C13", "sie-for-any-method", "internal/validationresponsehandler.go", [][2]string{{"if (err != nil || isStaleErrorAllowed(resp.StatusCode)) && req.Method == http.MethodGet {", "if err != nil || isStaleErrorAllowed(resp.StatusCode) {"}}, "C13.3", "non-GET answered from store"},
	{"C13", "window-inclusive", "internal/cacheabilityevaluator.go", [][2]string{{"if age < SaturatingAdd(freshness.UsefulLife, dur) {", "if age <= SaturatingAdd(freshness.UsefulLife, dur) {"}}, "C13.4", "D31"},
	{"C13", "policy-from-error-reply", "internal/validationresponsehandler.go", [][2]string{{"r.siep.CanStaleOnError(ctx.Freshness, storedCC, ctx.CCReq) {", "r.siep.CanStaleOnError(ctx.Freshness, ccResp) {"}}, "C13.2", "D29"},
	{"C13", "sie-without-age", "internal/validationresponsehandler.go", [][2]string{{"\t\t\tSetAgeHeader(ctx.Stored.Data, r.clock, ctx.Freshness.Age)\n", ""}}, "C13.5", "stale-if-error response lacks Age"},
	{"C13", "sie-serves-when-denied", "internal/validationresponsehandler.go", [][2]string{{"r.siep.CanStaleOnError(ctx.Freshness, storedCC, ctx.CCReq) {", "(r.siep.CanStaleOnError(ctx.Freshness, storedCC, ctx.CCReq) || err != nil) {"}}, "C13.6", "served outside the window on network errors"},
	// ---- C14
	{"C14", "get-without-lock", "store/memcache/memcache.go", [][2]string{{"\tc.mu.RLock()\n\tdefer c.mu.RUnlock()\n\tval, ok := c.store[key]", "\tval, ok := c.store[key]"}}, "C14.1", "concurrent map read/write"},
	{"C14", "set-under-read-lock", "store/memcache/memcache.go", [][2]string{{"func (c *memCache) Set(key string, value []byte) error {\n\tc.mu.Lock()\n\tdefer c.mu.Unlock()", "func (c *memCache) Set(key string, value []byte) error {\n\tc.mu.RLock()\n\tdefer c.mu.RUnlock()"}}, "C14.1", "map write under read lock"},
	{"C14", "set-aliases-caller-buffer", "store/memcache/memcache.go", [][2]string{{"\tcp := make([]byte, len(value))\n\tcopy(cp, value)\n\tc.store[key] = cp", "\tc.store[key] = value"}}, "C14.2", "caller mutates the stored value"},
	{"C14", "get-returns-stored-slice", "store/memcache/memcache.go", [][2]string{{"\tcp := make([]byte, len(val))\n\tcopy(cp, val)\n\treturn cp, nil", "\treturn val, nil"}}, "C14.2", "caller mutates the stored value"},
	{"C14", "fs-delete-plain-error", "store/fscache/fscache.go", [][2]string{{"\t\t\terr = errors.Join(driver.ErrNotExist, err)\n", "\t\t\terr = fmt.Errorf(\"missing: %w\", err)\n"}}, "C14.3", "Delete of absent key not ErrNotExist"},
	{"C14", "registry-unlocked", "store/internal/registry/registry.go", [][2]string{{"func (dr *driverRegistry) RegisterDriver(name string, driver driver.Driver) {\n\tdr.mu.Lock()\n\tdefer dr.mu.Unlock()\n", "func (dr *driverRegistry) RegisterDriver(name string, driver driver.Driver) {\n"}}, "C14.1", "registry race"},
	{"C14", "keys-filter-on-file-name", "store/fscache/fscache.go", [][2]string{{"\t\tif strings.HasPrefix(key, prefix) {", "\t\tif strings.HasPrefix(d.Name(), prefix) {"}}, "C14.6", "prefix compared with the encoded name"},
	{"C14", "decoder-std-alphabet", "store/fscache/filenamer.go", [][2]string{{"decoded, err := base64.RawURLEncoding.DecodeString(encoded.String())", "decoded, err := base64.RawStdEncoding.DecodeString(encoded.String())"}}, "C14.5", "Keys() garbage"},
	{"C14", "api-lowercases-key", "store/expapi/expapi.go", [][2]string{{"func keyFromRequest(r *http.Request) string { return r.PathValue(\"key\") }", "func keyFromRequest(r *http.Request) string { return strings.ToLower(r.PathValue(\"key\")) }"}, {"import (\n\t\"encoding/json\"", "import (\n\t\"strings\"\n\t\"encoding/json\""}}, "C14.4", "API addresses another key"},
	// ---- C15
	{"C15", "write-in-place", "store/fscache/fscache.go", [][2]string{{"\tf, err := c.root.Create(tmp)\n", "\tf, err := c.root.Create(name)\n"}, {"\tif err := publish(func() error { return c.root.Rename(tmp, name) }); err != nil {\n\t\treturn fail(err)\n\t}\n", "\t_ = tmp\n"}}, "C15.1", "D33"},
	{"C15", "no-sync", "store/fscache/fscache.go", [][2]string{{"\tif err := f.Sync(); err != nil {\n\t\treturn fail(err)\n\t}\n", ""}}, "C15.1", "rename before data is durable"},
	{"C15", "no-rename", "store/fscache/fscache.go", [][2]string{{"\tif err := publish(func() error { return c.root.Rename(tmp, name) }); err != nil {\n\t\treturn fail(err)\n\t}\n", ""}}, "C15.1", "value never becomes visible"},
	// ---- C16
	{"C20", "swr-uses-caller-request", "roundtripper.go", [][2]string{{"req2 := req.Clone(req.Context())", "req2 := req"}}, "C20.6", "the goroutine works on the caller's request object"},
	{"C16", "transport-per-request-state", "roundtripper.go", [][2]string{{"\turlKey := r.uk.URLKey(req.URL)\n", "\turlKey := r.uk.URLKey(req.URL)\n\tr.swrTimeout += 0\n"}}, "C16.3", "transport field written per request"},
	{"C16", "lazy-init-without-once", "internal/normalization.go", [][2]string{{"\tnormalizationHeader.Do(func() {", "\tfunc() {"}, {"\t\t\tnormalizationHeader.byCaseInsensitive[field] = struct{}{}\n\t\t}\n\t})", "\t\t\tnormalizationHeader.byCaseInsensitive[field] = struct{}{}\n\t\t}\n\t}()"}}, "C16.4", "racy lazy initialisation"},
	{"C16", "background-shares-entry", "roundtripper.go", [][2]string{{"\t\tstored, err := r.cache.Get(storedID, req)\n\t\tif err != nil {\n\t\t\tif resp.Body != nil {\n\t\t\t\t_ = resp.Body.Close()\n\t\t\t}\n\t\t\terrc <- err\n\t\t\treturn\n\t\t}\n", "\t\tstored := shared\n"}, {"go r.backgroundRevalidate(req2, stored.ID, urlKey, freshness, ccReq, refs, refIndex)", "go r.backgroundRevalidate(req2, stored.ID, stored, urlKey, freshness, ccReq, refs, refIndex)"}, {"\treq *http.Request,\n\tstoredID string,\n\turlKey string,", "\treq *http.Request,\n\tstoredID string,\n\tshared *internal.Response,\n\turlKey string,"}}, "C16.1", "D34"},
	{"C16", "goroutine-result-in-shared-var", "store/fscache/fscache.go", [][2]string{{"\tgo func() {\n\t\tdefer close(errc)\n\t\terr := c.delete(key, gate.publish)\n\t\tif err != nil {\n\t\t\terrc <- &Error{\"Delete\", key, err}\n\t\t\treturn\n\t\t}\n\t\terrc <- nil\n\t}()\n", "\tvar last error\n\tgo func() {\n\t\tdefer close(errc)\n\t\terr := c.delete(key, gate.publish)\n\t\tlast = err\n\t\tif err != nil {\n\t\t\terrc <- &Error{\"Delete\", key, err}\n\t\t\treturn\n\t\t}\n\t\terrc <- nil\n\t}()\n\t_ = last\n"}}, "C16.6", "result handed over through a shared variable"},
	// ---- C17
	{"C17", "plaintext-on-encrypt-error", "store/fscache/fscache.go", [][2]string{{"\t\tvar err error\n\t\tentry, err = c.enc.Encrypt(entry)\n\t\tif err != nil {\n\t\t\treturn err\n\t\t}", "\t\tif enc, err := c.enc.Encrypt(entry); err == nil {\n\t\t\tentry = enc\n\t\t}"}}, "C17.1", "plaintext written when encryption fails"},
	{"C17", "serve-on-decrypt-error", "store/fscache/fscache.go", [][2]string{{"\t\tdata, err = c.enc.Decrypt(data)\n\t\tif err != nil {\n\t\t\treturn nil, err\n\t\t}", "\t\tif dec, derr := c.enc.Decrypt(data); derr == nil {\n\t\t\tdata = dec\n\t\t}"}}, "C17.2", "tampered file served"},
	{"C17", "empty-key-accepted", "store/fscache/fscache.go", [][2]string{{"\t\tif key == \"\" {\n\t\t\treturn errEncryptionEnabledWithoutKey\n\t\t}", "\t\tif key == \"\" {\n\t\t\treturn nil\n\t\t}"}}, "C17.5", "silently unencrypted"},
	{"C17", "option-error-ignored", "store/fscache/fscache.go", [][2]string{{"\t\tif err := opt.apply(c); err != nil {\n\t\t\treturn nil, err\n\t\t}", "\t\t_ = opt.apply(c)"}}, "C17.6", "Open succeeds without encryption"},
	{"C17", "seal-without-nonce-prefix", "store/fscache/encrypt.go", [][2]string{{"e.gcm.Seal(nonce, nonce, data, nil)", "e.gcm.Seal(nil, nonce, data, nil)"}}, "C17.3", "nonce lost"},
	{"C17", "constant-nonce", "store/fscache/encrypt.go", [][2]string{{"\tif _, err := io.ReadFull(e.r, nonce); err != nil {\n\t\treturn nil, err\n\t}\n", ""}}, "C17.4", "identical ciphertexts"},
	{"C17", "env-key-ignored", "store/fscache/fscache.go", [][2]string{{"key := cmp.Or(query.Get(\"encrypt_key\"), os.Getenv(\"FSCACHE_ENCRYPT_KEY\"))", "key := query.Get(\"encrypt_key\")"}}, "C17.5", "environment key not honoured"},
	// ---- C18
	{"C18", "bypass-forwards-only-if-cached", "roundtripper.go", [][2]string{{"\tif internal.ParseCCRequestDirectives(req.Header).OnlyIfCached() {\n\t\t// RFC 9111 §5.2.1.7: nothing is stored", "\tif false && internal.ParseCCRequestDirectives(req.Header).OnlyIfCached() {\n\t\t// RFC 9111 §5.2.1.7: nothing is stored"}}, "C18.1", "D35 (bypass path)"},
	{"C18", "miss-only-when-no-index", "roundtripper.go", [][2]string{{"\tif ccReq.OnlyIfCached() {\n\t\tr.logger.LogCacheMiss(", "\tif ccReq.OnlyIfCached() && refs == nil {\n\t\tr.logger.LogCacheMiss("}}, "C18.1", "other-variant-only state reaches the origin"},
	{"C18", "hit-validates-under-only-if-cached", "roundtripper.go", [][2]string{{"\t\tif needsValidation {\n\t\t\treturn make504Response(req)\n\t\t}", "\t\tif needsValidation {\n\t\t\tgoto revalidate\n\t\t}"}}, "C18.1", "D35 (hit path)"},
	// ---- C19
	{"C19", "replace-leaves-duplicates", "internal/responsestorerer.go", [][2]string{{"\t\t\tif i != refIndex && sameVariant(ref) {\n\t\t\t\tcontinue\n\t\t\t}\n", "\t\t\t_ = i\n"}}, "C19.1", "D43"},
	{"C19", "index-value-not-utf8-safe", "internal/normalization.go", [][2]string{{"return storableValue(normalizeFieldValue(field, value))", "return normalizeFieldValue(field, value)"}}, "C19.5", "D42"},
	{"C01", "age-sum-wraps", "internal/freshness.go", [][2]string{{"Value:     SaturatingAdd(correctedInitialAge, residentTime),", "Value:     correctedInitialAge + residentTime,"}}, "C01.10", "D39"},
	{"C13", "sie-window-wraps", "internal/cacheabilityevaluator.go", [][2]string{{"if age < SaturatingAdd(freshness.UsefulLife, dur) {", "if age < freshness.UsefulLife+dur {"}}, "C13.7", "D40"},
	{"C02", "swr-ignores-request-max-age", "roundtripper.go", [][2]string{{"if staleFor >= 0 && staleFor < swr && !exceedsReqMaxAge {", "if staleFor >= 0 && staleFor < swr {\n\t\t\t_ = exceedsReqMaxAge"}}, "C02.1", "D41"},
	{"C03", "opaque-key-without-origin", "internal/urlkeyer.go", [][2]string{{"return u.Scheme + \"://\" + strings.ToLower(u.Host) + \" \" + target", "return target"}}, "C03.2", "D38"},
	{"C19", "append-not-deduplicated", "internal/responsestorerer.go", [][2]string{{"\t\trefIndex = slices.IndexFunc(refs, sameVariant)\n", "\t\trefIndex = -1\n"}}, "C19.1", "D36"},
	{"C19", "variants-not-deleted", "internal/cacheinvalidator.go", [][2]string{{"\tfor h := range refs.ResponseIDs() {\n\t\tdel(h)\n\t}\n\tr.invalidateLocationHeaders", "\tr.invalidateLocationHeaders"}}, "C19.2", "orphaned entries"},
	// ---- C20
	{"C20", "swr-synchronous", "roundtripper.go", [][2]string{{"\tgo r.backgroundRevalidate(req2,", "\tr.backgroundRevalidate(req2,"}}, "C20", "caller waits for the origin"},
	{"C20", "no-timeout", "roundtripper.go", [][2]string{{"ctx, cancel := context.WithTimeout(context.WithoutCancel(req.Context()), r.swrTimeout)", "ctx, cancel := context.WithCancel(context.WithoutCancel(req.Context()))"}}, "C20.3", "background request never cancelled"},
	{"C20", "negative-timeout-kept", "roundtripper.go", [][2]string{{"rt.swrTimeout = cmp.Or(max(rt.swrTimeout, 0), DefaultSWRTimeout)", "rt.swrTimeout = cmp.Or(rt.swrTimeout, DefaultSWRTimeout)"}}, "C20.4", "negative timeout cancels immediately"},
	{"C20", "unbuffered-errc", "roundtripper.go", [][2]string{{"errc := make(chan error, 1)", "errc := make(chan error)"}}, "C20.5", "goroutine leak on timeout"},
	{"C20", "double-spawn", "roundtripper.go", [][2]string{{"\tgo r.backgroundRevalidate(req2, stored.ID, urlKey, freshness, ccReq, refs, refIndex)\n", "\tgo r.backgroundRevalidate(req2, stored.ID, urlKey, freshness, ccReq, refs, refIndex)\n\tgo r.backgroundRevalidate(req2, stored.ID, urlKey, freshness, ccReq, refs, refIndex)\n"}}, "C20.2", "two revalidations"},
	{"C20", "background-unconditional", "roundtripper.go", [][2]string{{"\treq2 = withConditionalHeaders(req2, stored.Data.Header)\n\t// Background revalidation", "\t// Background revalidation"}}, "C20.6", "unconditional background fetch"},
	{"C20", "request-without-timeout-context", "roundtripper.go", [][2]string{{"\treq = req.WithContext(ctx)\n\terrc := make(chan error, 1)", "\terrc := make(chan error, 1)"}}, "C20.3", "origin call not bound to the timeout"},
	// ---- reverts of the round-3 repairs (D32, D44-D60)
	{"C03", "opaque-key-drops-query", "internal/urlkeyer.go", [][2]string{{"\t\tif u.RawQuery != \"\" {\n\t\t\ttarget += \"?\" + u.RawQuery\n\t\t}\n", ""}}, "C03.2", "D44"},
	{"C14", "directories-without-marker", "store/fscache/filenamer.go", [][2]string{{"parts = append(parts, encoded[i:end]+dirMarker)", "parts = append(parts, encoded[i:end])"}}, "C14.9", "D32"},
	{"C14", "empty-key-without-name", "store/fscache/filenamer.go", [][2]string{{"\tif encoded == \"\" {\n\t\treturn dirMarker // the empty key still needs a file name\n\t}\n", ""}}, "C14", "D32 (empty key)"},
	{"C12", "empty-list-is-qualified", "internal/ccdirectives.go", [][2]string{{"\tmembers := TrimmedCSVSeq(string(s))\n\tfor range members {\n\t\treturn members, true\n\t}\n\treturn nil, false\n", "\tif len(s) == 0 {\n\t\treturn\n\t}\n\treturn TrimmedCSVSeq(string(s)), true\n"}}, "C12.12", "D45"},
	{"C12", "last-occurrence-wins", "internal/ccdirectives.go", [][2]string{{"\t\t\tcontinue\n\t\t}\n\t\tdirectives[name] = argument", "\t\t}\n\t\tdirectives[name] = argument"}}, "C12.11", "D46"},
	{"C12", "bare-form-does-not-win", "internal/ccdirectives.go", [][2]string{{"\t\t\tif argument == \"\" && (name == \"no-cache\" || name == \"private\") {\n\t\t\t\tdirectives[name] = \"\"\n\t\t\t}\n", ""}}, "C12", "D46 (bare form)"},
	{"C08", "merge-keeps-stored-age", "internal/helpers.go", [][2]string{{"\tstoredResp.Header.Del(\"Age\")\n", ""}}, "C08.3", "D47"},
	{"C01", "empty-expires-is-absent", "internal/entry.go", [][2]string{{"\tif _, found = r.Data.Header[\"Expires\"]; !found {\n\t\treturn\n\t}\n\texpiresStr := r.Data.Header.Get(\"Expires\")\n", "\texpiresStr := r.Data.Header.Get(\"Expires\")\n\tif expiresStr == \"\" {\n\t\treturn\n\t}\n\tfound = true\n"}}, "C01.14", "D48"},
	{"C11", "max-stale-served-as-hit", "roundtripper.go", [][2]string{{"\tif freshness.IsStale || freshness.Age.Value >= freshness.UsefulLife {\n", "\tif freshness.IsStale {\n"}}, "C11.4", "D49"},
	{"C09", "dump-live-response", "internal/entry.go", [][2]string{{"\thead.Close = false\n", ""}}, "C09.2", "D50"},
	{"C09", "dump-drops-trailers", "internal/entry.go", [][2]string{{"\tif len(head.Trailer) > 0 && len(head.TransferEncoding) == 0 {\n\t\thead.TransferEncoding = []string{\"chunked\"}\n\t}\n", ""}}, "C09.2", "D51"},
	{"C10", "clone-keeps-nil-header", "helpers.go", [][2]string{{"\tif req2.Header == nil {\n\t\treq2.Header = make(http.Header) // Clone of a nil header is nil; the caller sets fields on it\n\t}\n", ""}}, "C10.13", "D55"},
	{"C20", "background-inherits-cancellation", "roundtripper.go", [][2]string{{"context.WithTimeout(context.WithoutCancel(req.Context()), r.swrTimeout)", "context.WithTimeout(req.Context(), r.swrTimeout)"}}, "C20.3", "D56"},
	{"C09", "id-not-utf8-safe", "internal/normalization.go", [][2]string{{"\turlKey = storableValue(urlKey)\n", ""}}, "C09.6", "D57"},
	{"C17", "unknown-encrypt-value-means-off", "store/fscache/fscache.go", [][2]string{{"\tcase \"\", \"off\":\n\tdefault:\n\t\t// An unknown spelling (ON, true, ...) is a request for encryption that cannot be honoured.\n\t\treturn nil, fmt.Errorf(\"fscache: unknown value %q for the encrypt parameter\", encrypt)\n", "\tdefault:\n"}}, "C17.5", "D58"},
	{"C06", "no-store-304-written-back", "internal/validationresponsehandler.go", [][2]string{{"if r.rs != nil && mayStore {", "if r.rs != nil {\n\t\t\t_ = mayStore"}}, "C06.10", "D59"},
	{"C06", "no-store-304-request-only", "internal/validationresponsehandler.go", [][2]string{{"mayStore := !ctx.CCReq.NoStore() && !ParseCCResponseDirectives(resp.Header).NoStore()", "mayStore := !ctx.CCReq.NoStore()"}}, "C06.10", "D59 (response side)"},
	{"C11", "max-age-zero-reaches-calculator", "roundtripper.go", [][2]string{{"\t\tdelete(freshnessReq, \"max-age\")\n", ""}}, "C11.2", "D60"},
	{"C02", "max-age-zero-not-validated", "roundtripper.go", [][2]string{{"needsValidation = ccReq.NoCache() || validateNow ||", "needsValidation = ccReq.NoCache() ||"}}, "C02.1", "D60"},
	{"C02", "immutable-overrides-max-age-zero", "roundtripper.go", [][2]string{{"ccResp.Immutable() && !ccReq.NoCache() && !validateNow &&", "ccResp.Immutable() && !ccReq.NoCache() &&"}}, "C02.1", "D60"},
	// ---- reverts of the repairs D61-D73
	{"C07", "dots-removed-before-decoding", "internal/urlkeyer.go", [][2]string{{"normalized := base.ResolveReference(&ref)", "normalized := base.ResolveReference(u)"}}, "C07.9", "D61"},
	{"C09", "te-table-key-not-canonical", "internal/normalization.go", [][2]string{{"\t\t\t\"Te\", // canonical form", "\t\t\t\"TE\", // canonical form"}}, "C09.11", "D62"},
	{"C17", "entry-id-not-compared", "internal/responsecache.go", [][2]string{{"\tif entry.ID != responseKey {", "\tif false && entry.ID != responseKey {"}}, "C17.6", "D63"},
	{"C10", "stored-body-not-read", "internal/entry.go", [][2]string{{"\tbody, err := io.ReadAll(r.Body)\n\t_ = r.Body.Close()\n\tif err != nil {\n\t\treturn nil, errors.Join(errInvalidResponse, fmt.Errorf(\"incomplete body: %w\", err))\n\t}\n\tr.Body = io.NopCloser(bytes.NewReader(body))\n", ""}}, "C10.15", "D64"},
	{"C10", "stored-body-read-error-ignored", "internal/entry.go", [][2]string{{"\tif err != nil {\n\t\treturn nil, errors.Join(errInvalidResponse, fmt.Errorf(\"incomplete body: %w\", err))\n\t}\n\tr.Body = io.NopCloser", "\t_ = err\n\tr.Body = io.NopCloser"}}, "C10.15", "D64 (error dropped)"},
	{"C10", "nil-header-not-repaired", "roundtripper.go", [][2]string{{"\t\tensureHeader(resp)\n\t\t_ = internal.FixDateHeader(resp.Header, end)", "\t\t_ = internal.FixDateHeader(resp.Header, end)"}}, "C10.16", "D65"},
	{"C10", "nil-header-not-repaired-on-bypass", "roundtripper.go", [][2]string{{"\tensureHeader(resp)\n\tinternal.CacheStatusBypass.ApplyTo(resp.Header)", "\tinternal.CacheStatusBypass.ApplyTo(resp.Header)"}}, "C10.16", "D65 (unsafe path)"},
	{"C02", "client-validator-forwarded", "helpers.go", [][2]string{{"\treq2.Header.Del(\"If-None-Match\")\n\treq2.Header.Del(\"If-Modified-Since\")\n", ""}}, "C02.3", "D66"},
	{"C08", "client-etag-forwarded", "helpers.go", [][2]string{{"\treq2.Header.Del(\"If-None-Match\")\n", ""}}, "C08.10", "D66 (one field)"},
	{"C17", "repeated-encrypt-first-wins", "store/fscache/fscache.go", [][2]string{{"\tif len(query[\"encrypt\"]) > 1 {\n\t\treturn nil, fmt.Errorf(\"fscache: the encrypt parameter is given %d times\", len(query[\"encrypt\"]))\n\t}\n", ""}}, "C17.7", "D67"},
	{"C11", "age-field-whole", "internal/freshness.go", [][2]string{{"\tageField, _, _ := strings.Cut(h.Get(\"Age\"), \",\")\n\tif v, valid := RawDeltaSeconds(textproto.TrimString(ageField)).Value(); valid {", "\tif v, valid := RawDeltaSeconds(h.Get(\"Age\")).Value(); valid {"}, {"\t\"net/textproto\"\n", ""}, {"\t\"strings\"\n", ""}}, "C11.10", "D68"},
	{"C01", "invalid-max-age-means-none", "internal/freshness.go", [][2]string{{"\tif !resCC.MaxAgePresent() {", "\tif !hasMaxAge {"}}, "C01.17", "D69"},
	{"C01", "heuristic-rounded-to-nearest", "internal/freshness.go", [][2]string{{"return (delta / 10).Truncate(time.Second)", "return (delta / 10).Round(time.Second)"}}, "C01.18", "D70"},
	{"C12", "escape-anywhere", "internal/helpers.go", [][2]string{{"case c == '\\\\' && inQuotes:", "case c == '\\\\':"}}, "C12.13", "D71"},
	{"C20", "cancel-channel-kept", "roundtripper.go", [][2]string{{"\treq2.Cancel = nil //nolint:staticcheck // deprecated, but honoured by net/http transports\n", ""}}, "C20.3", "D72"},
	{"C05", "trailers-only-from-head-copy", "internal/entry.go", [][2]string{{"\tif err == nil && len(r.Data.Trailer) != len(head.Trailer) {\n\t\t// Trailer fields that were not announced appear on the response only while its body is\n\t\t// read, i.e. after the head was copied: write the message again with them.\n\t\thead.Trailer = r.Data.Trailer\n\t\tif len(head.TransferEncoding) == 0 {\n\t\t\thead.TransferEncoding = []string{\"chunked\"}\n\t\t}\n\t\trespBytes, err = httputil.DumpResponse(&head, true)\n\t}\n", ""}}, "C05.11", "D73"},
	{"C15", "timed-out-set-still-publishes", "store/fscache/fscache.go", [][2]string{{"\tif err := publish(func() error { return c.root.Rename(tmp, name) }); err != nil {", "\t_ = publish\n\tif err := c.root.Rename(tmp, name); err != nil {"}}, "C15.4", "D74"},
	{"C14", "timeout-does-not-abandon", "store/fscache/fscache.go", [][2]string{{"\tcase <-ctx.Done():\n\t\tgate.abandon()\n\t\treturn ctx.Err()\n\tcase err := <-errc:\n\t\treturn err\n\t}\n}\n\n// abandonGate", "\tcase <-ctx.Done():\n\t\treturn ctx.Err()\n\tcase err := <-errc:\n\t\treturn err\n\t}\n}\n\n// abandonGate"}}, "C14.11", "D74 (timeout branch)"},
	// ---- one-line forms of changes of the fourth independent seeding
	{"C01", "swr-window-from-resident-time", "roundtripper.go", [][2]string{{"age := internal.SaturatingAdd(freshness.Age.Value, r.clock.Since(freshness.Age.Timestamp))", "age := r.clock.Since(stored.ReceivedAt)"}}, "C01.20", "C01-7"},
	{"C02", "age-deleted-after-merge", "internal/helpers.go", [][2]string{{"\tstoredResp.Header.Del(\"Age\")\n\tfor hdr, val := range resp.Header {", "\tfor hdr, val := range resp.Header {"}, {"\t\tstoredResp.Header[hdr] = val\n\t}\n}", "\t\tstoredResp.Header[hdr] = val\n\t}\n\tstoredResp.Header.Del(\"Age\")\n}"}}, "C02.9", "C02-7"},
	{"C03", "opaque-authority-without-brackets", "internal/urlkeyer.go", [][2]string{{"return u.Scheme + \"://\" + strings.ToLower(u.Host) + \" \" + target", "return u.Scheme + \"://\" + strings.ToLower(u.Hostname()) + \":\" + u.Port() + \" \" + target"}}, "C03.7", "C03-8"},
	{"C07", "dot-escape-kept", "internal/urlkeyer.go", [][2]string{{"\t\t\tif isUnreserved(r) {", "\t\t\tif isUnreserved(r) && r != '.' {"}}, "C07.10", "C07-7"},
	{"C08", "matcher-ranks-a-copy", "internal/varymatcher.go", [][2]string{{"\tslices.SortFunc(entries, func(a, b *ResponseRef) int {", "\tentries = slices.Clone(entries)\n\tslices.SortFunc(entries, func(a, b *ResponseRef) int {"}}, "C08.11", "C08-7"},
	{"C09", "meta-line-split-on-white-space", "internal/entry.go", [][2]string{{"\tmetaLine = bytes.TrimSpace(metaLine)\n\tparts := bytes.Split(metaLine, []byte(\"\\t\"))", "\tparts := bytes.Fields(metaLine)"}}, "C09.14", "C09-8"},
	{"C12", "validate-now-from-raw-argument", "roundtripper.go", [][2]string{{"validateNow := hasReqMaxAge && reqMaxAge == 0", "validateNow := ccReq[\"max-age\"] == \"0\""}}, "C12.14", "C12-8"},
	{"C15", "get-reads-a-limited-view", "store/fscache/fscache.go", [][2]string{{"data, err := io.ReadAll(f)", "data, err := io.ReadAll(io.LimitReader(f, 32<<20))"}}, "C15.5", "C15-7"},
	{"C19", "variant-from-response-request", "roundtripper.go", [][2]string{{"_ = r.rs.StoreResponse(req, resp, urlKey, refs, start, end, refIndex)", "_ = r.rs.StoreResponse(cmp.Or(resp.Request, req), resp, urlKey, refs, start, end, refIndex)"}}, "C19.10", "C19-8"},
	// ---- reverts of the repairs D77-D81
	{"C10", "sie-leaves-origin-body-open", "internal/validationresponsehandler.go", [][2]string{{"\t\t\tif resp != nil && resp.Body != nil {\n\t\t\t\t// The origin's error response is not passed on: nobody else will close its body,\n\t\t\t\t// and an open body keeps its connection (and the connection's slot) occupied.\n\t\t\t\t_ = resp.Body.Close()\n\t\t\t}\n", ""}}, "C10.21", "D77"},
	{"C09", "dot-removal-behind-a-parse", "internal/urlkeyer.go", [][2]string{{"\tbase := &url.URL{Scheme: u.Scheme, Host: u.Host}\n\tnormalized := base.ResolveReference(&ref)\n", "\tnormalized := &ref\n\tif base, err := url.Parse(u.Scheme + \"://\" + u.Host); err == nil {\n\t\tnormalized = base.ResolveReference(&ref)\n\t}\n"}}, "C09.10", "D78"},
	{"C12", "plus-sign-accepted", "internal/ccdirectives.go", [][2]string{{"if len(r) == 0 || r[0] < '0' || r[0] > '9' {", "if len(r) == 0 || r[0] == '-' {"}}, "C12.18", "D80"},
	{"C10", "meta-times-unchecked", "internal/entry.go", [][2]string{{"\tif resp.ReceivedAt, timeErr = time.Parse(time.RFC3339Nano, string(parts[2])); timeErr != nil {\n\t\treturn nil, fmt.Errorf(\"%w: response time: %w\", errInvalidMetaLine, timeErr)\n\t}\n", "\tresp.ReceivedAt, _ = time.Parse(time.RFC3339Nano, string(parts[2]))\n"}}, "C10.22", "D81"},
	{"C01", "age-capped-at-2-31", "internal/freshness.go", [][2]string{{"\t\tageVal = v\n", "\t\tageVal = min(v, (1<<31)*time.Second)\n"}}, "C01.23", "D82"},
	{"C02", "trailers-not-stripped", "roundtripper.go", [][2]string{{"\t\t\tstored.Data.Header.Del(field)\n\t\t\tstored.Data.Trailer.Del(field) // a field sent as a trailer is replayed as one\n\t\t}\n\t}\n\tinternal.SetAgeHeader(stored.Data, r.clock, freshness.Age)\n\tmisc :=", "\t\t\tstored.Data.Header.Del(field)\n\t\t}\n\t}\n\tinternal.SetAgeHeader(stored.Data, r.clock, freshness.Age)\n\tmisc :="}}, "C02.12", "D83 (hit path)"},
	{"C02", "trailers-not-stripped-swr", "roundtripper.go", [][2]string{{"\t\t\tstored.Data.Trailer.Del(field) // a field sent as a trailer is replayed as one\n\t\t}\n\t}\n\tinternal.SetAgeHeader(stored.Data, r.clock, freshness.Age)\n\tinternal.CacheStatusStale", "\t\t}\n\t}\n\tinternal.SetAgeHeader(stored.Data, r.clock, freshness.Age)\n\tinternal.CacheStatusStale"}}, "C02.12", "D83 (stale-while-revalidate path)"},
	{"C11", "date-lost-to-strip", "internal/responsestorerer.go", [][2]string{{"\tFixDateHeader(resp.Header, respTime)\n", ""}}, "C11.15", "D84"},
	{"C09", "date-lost-to-strip", "internal/responsestorerer.go", [][2]string{{"\tFixDateHeader(resp.Header, respTime)\n", ""}}, "C09.17", "D84"},
	{"C16", "late-304-merged", "roundtripper.go", [][2]string{{"if resp.StatusCode == http.StatusNotModified && !sentValidatorsOf(req, stored.Data.Header) {", "if false {"}}, "C16.15", "D85"},
	{"C08", "late-304-compares-nothing", "helpers.go", [][2]string{{"\treturn req.Header.Get(\"If-None-Match\") == storedHdr.Get(\"ETag\") &&\n\t\treq.Header.Get(\"If-Modified-Since\") == storedHdr.Get(\"Last-Modified\")", "\treturn req != nil && storedHdr != nil"}}, "C08.13", "D85: the comparison replaced by a nil test"},
	{"C11", "age-last-member-wins", "internal/freshness.go", [][2]string{{"\tageField, _, _ := strings.Cut(h.Get(\"Age\"), \",\")\n\tif v, valid := RawDeltaSeconds(textproto.TrimString(ageField)).Value(); valid {", "\tvar ageField string\n\tfor member := range TrimmedCSVSeq(h.Get(\"Age\")) {\n\t\tageField = textproto.TrimString(strings.TrimSpace(member))\n\t}\n\tif v, valid := RawDeltaSeconds(ageField).Value(); valid {"}}, "C11.10", "wave 8: the loop over the Age members never stops"},
	{"C01", "date-decoder-length-gate", "internal/ccdirectives.go", [][2]string{{"func (r RawTime) Value() (t time.Time, valid bool) {\n\tif r == \"\" {", "func (r RawTime) Value() (t time.Time, valid bool) {\n\tif len(r) < len(http.TimeFormat) {"}}, "C01.25", "wave 8"},
	{"C01", "empty-argument-dropped", "internal/ccdirectives.go", [][2]string{{"\t\t\t\tvalue = textproto.TrimString(value)\n", "\t\t\t\tvalue = textproto.TrimString(value)\n\t\t\t\tif value == \"\" {\n\t\t\t\t\tcontinue\n\t\t\t\t}\n"}}, "C01.26", "wave 8"},
	{"C12", "empty-argument-dropped", "internal/ccdirectives.go", [][2]string{{"\t\t\t\tvalue = textproto.TrimString(value)\n", "\t\t\t\tvalue = textproto.TrimString(value)\n\t\t\t\tif value == \"\" {\n\t\t\t\t\tcontinue\n\t\t\t\t}\n"}}, "C12.20", "wave 8"},
	{"C02", "expires-found-is-valid", "internal/entry.go", [][2]string{{"\texpires, err := parseHTTPDateCompat(expiresStr)\n", "\tfound = valid\n\texpires, err := parseHTTPDateCompat(expiresStr)\n"}}, "C02.16", "wave 8"},
	{"C03", "trailing-dot-trimmed", "internal/helpers.go", [][2]string{{"\tif strings.HasPrefix(host, \"[\") && strings.HasSuffix(host, \"]\") {\n\t\thost = host[1 : len(host)-1]\n\t}\n", "\tif strings.HasPrefix(host, \"[\") && strings.HasSuffix(host, \"]\") {\n\t\thost = host[1 : len(host)-1]\n\t}\n\thost = strings.TrimSuffix(host, \".\")\n"}}, "C03.14", "wave 8"},
	{"C05", "merge-deletes-warning", "internal/helpers.go", [][2]string{{"\tstoredResp.Header.Del(\"Age\")\n", "\tstoredResp.Header.Del(\"Age\")\n\tstoredResp.Header.Del(\"Warning\")\n"}}, "C05.17", "wave 8"},
	{"C05", "end-to-end-field-in-hop-table", "internal/helpers.go", [][2]string{{"\t\t\"Proxy-Authorization\":       {},\n", "\t\t\"Proxy-Authorization\":       {},\n\t\t\"Authentication-Info\":       {},\n"}}, "C05.18", "wave 8"},
	{"C07", "invalidation-needs-live-context", "roundtripper.go", [][2]string{{"\tif internal.IsNonErrorStatus(resp.StatusCode) {\n\t\trefs, _ := r.cache.GetRefs(urlKey)", "\tif internal.IsNonErrorStatus(resp.StatusCode) && req.Context().Err() == nil {\n\t\trefs, _ := r.cache.GetRefs(urlKey)"}}, "C07.16", "wave 8"},
	{"C08", "memcache-overwrites-in-place", "store/memcache/memcache.go", [][2]string{{"\tcp := make([]byte, len(value))\n\tcopy(cp, value)\n\tc.store[key] = cp\n", "\tif old, ok := c.store[key]; ok && len(value) <= len(old) {\n\t\tcopy(old, value)\n\t\treturn nil\n\t}\n\tcp := make([]byte, len(value))\n\tcopy(cp, value)\n\tc.store[key] = cp\n"}}, "C08.19", "wave 8"},
	{"C14", "memcache-overwrites-in-place", "store/memcache/memcache.go", [][2]string{{"\tcp := make([]byte, len(value))\n\tcopy(cp, value)\n\tc.store[key] = cp\n", "\tif old, ok := c.store[key]; ok && len(value) <= len(old) {\n\t\tcopy(old, value)\n\t\treturn nil\n\t}\n\tcp := make([]byte, len(value))\n\tcopy(cp, value)\n\tc.store[key] = cp\n"}}, "C14.25", "wave 8"},
	{"C10", "timeout-only-raised", "store/fscache/fscache.go", [][2]string{{"\tc.timeout = cmp.Or(c.timeout, defaultTimeout)\n", "\tc.timeout = max(c.timeout, defaultTimeout)\n"}}, "C10.27", "wave 8"},
	{"C10", "partial-index-with-error", "internal/responsecache.go", [][2]string{{"\tif unmarshalErr := json.Unmarshal(data, &refs); unmarshalErr != nil {\n\t\treturn nil, newCacheError(", "\tif unmarshalErr := json.Unmarshal(data, &refs); unmarshalErr != nil {\n\t\treturn refs, newCacheError("}}, "C10.28", "wave 8"},
	{"C12", "overflow-capped-below-the-bound", "internal/ccdirectives.go", [][2]string{{"\t\tseconds = maxDeltaSeconds\n", "\t\tseconds = 1<<31 - 1\n"}}, "C12.21", "wave 8"},
	{"C12", "list-split-on-commas", "internal/normalization.go", [][2]string{{"\tparts := slices.Sorted(TrimmedCSVSeq(value))\n", "\tparts := strings.Split(value, \",\")\n\tslices.Sort(parts)\n"}}, "C12.22", "wave 8"},
	{"C15", "abandon-trylock", "store/fscache/fscache.go", [][2]string{{"func (g *abandonGate) abandon() {\n\tg.mu.Lock()\n", "func (g *abandonGate) abandon() {\n\tif !g.mu.TryLock() {\n\t\treturn\n\t}\n"}}, "C15.11", "wave 8"},
	{"C02", "strip-by-map-key-trailer-by-name", "roundtripper.go", [][2]string{{"\t\t\tstored.Data.Header.Del(field)\n\t\t\tstored.Data.Trailer.Del(field) // a field sent as a trailer is replayed as one\n\t\t}\n\t}\n\tinternal.SetAgeHeader(stored.Data, r.clock, freshness.Age)\n\tmisc :=", "\t\t\tdelete(stored.Data.Header, field)\n\t\t\tstored.Data.Trailer.Del(field) // a field sent as a trailer is replayed as one\n\t\t}\n\t}\n\tinternal.SetAgeHeader(stored.Data, r.clock, freshness.Age)\n\tmisc :="}}, "C02.4", "the header section is stripped by map key (as spelled) while the trailer is stripped canonically"},
	{"C12", "strip-by-map-key-trailer-by-name", "roundtripper.go", [][2]string{{"\t\t\tstored.Data.Header.Del(field)\n\t\t\tstored.Data.Trailer.Del(field) // a field sent as a trailer is replayed as one\n\t\t}\n\t}\n\tinternal.SetAgeHeader(stored.Data, r.clock, freshness.Age)\n\tmisc :=", "\t\t\tdelete(stored.Data.Header, field)\n\t\t\tstored.Data.Trailer.Del(field) // a field sent as a trailer is replayed as one\n\t\t}\n\t}\n\tinternal.SetAgeHeader(stored.Data, r.clock, freshness.Age)\n\tmisc :="}}, "C12.17", "the header section is stripped by map key (as spelled) while the trailer is stripped canonically"},
	{"C01", "max-stale-zero-is-unlimited", "internal/freshness.go", [][2]string{{"\t\tif reqMaxStaleStr == \"\" {\n\t\t\tmaxStale = maxDuration // accept any staleness\n\t\t} else if reqMaxStale, valid := reqMaxStaleStr.Value(); valid && reqMaxStale >= 0 {\n\t\t\tmaxStale = reqMaxStale\n\t\t}\n", "\t\treqMaxStale, _ := reqMaxStaleStr.Value()\n\t\tmaxStale = cmp.Or(max(reqMaxStale, 0), maxDuration)\n"}}, "C01.24", "wave 7"},
	{"C03", "port-zeros-trimmed", "internal/helpers.go", [][2]string{{"\t\thost, port = host[:colon], host[colon+1:]\n", "\t\thost, port = host[:colon], strings.TrimLeft(host[colon+1:], \"0\")\n"}}, "C03.13", "wave 7"},
	{"C04", "credentials-cut-at-second-blank", "internal/normalization.go", [][2]string{{"\t\tparts := strings.SplitN(value, \" \", 2)\n\t\tif len(parts) == 2 {", "\t\tparts := strings.Fields(value)\n\t\tif len(parts) >= 2 {"}}, "C04.18", "wave 7"},
	{"C04", "all-empty-values-get-the-fixed-id", "internal/normalization.go", [][2]string{{"\tif len(varyHeaders) == 0 {\n", "\tunvaried := true\n\tfor _, v := range varyHeaders {\n\t\tunvaried = unvaried && v == \"\"\n\t}\n\tif unvaried {\n"}}, "C04.19", "wave 7"},
	{"C05", "known-length-keeps-its-framing", "internal/entry.go", [][2]string{{"\tif len(head.Trailer) > 0 && len(head.TransferEncoding) == 0 {", "\tif len(head.Trailer) > 0 && head.ContentLength < 0 {"}}, "C05.16", "wave 7"},
	{"C07", "location-parsed-as-request-uri", "internal/cacheinvalidator.go", [][2]string{{"\t\tlocURL, err := url.Parse(loc)\n", "\t\tlocURL, err := url.ParseRequestURI(loc)\n"}}, "C07.15", "wave 7"},
	{"C08", "date-only-without-etag", "helpers.go", [][2]string{{"\t\treq2.Header.Set(\"If-None-Match\", etag)\n\t}\n\tif lastModified != \"\" {", "\t\treq2.Header.Set(\"If-None-Match\", etag)\n\t} else if lastModified != \"\" {"}}, "C08.17", "wave 7"},
	{"C08", "filter-stops-at-duplicate", "internal/responsestorerer.go", [][2]string{{"\t\t\tif i != refIndex && sameVariant(ref) {\n\t\t\t\tcontinue\n", "\t\t\tif i != refIndex && sameVariant(ref) {\n\t\t\t\tbreak\n"}}, "C08.18", "wave 7"},
	{"C19", "filter-stops-at-duplicate", "internal/responsestorerer.go", [][2]string{{"\t\t\tif i != refIndex && sameVariant(ref) {\n\t\t\t\tcontinue\n", "\t\t\tif i != refIndex && sameVariant(ref) {\n\t\t\t\tbreak\n"}}, "C19.18", "wave 7"},
	{"C09", "min-fresh-against-max-age", "internal/freshness.go", [][2]string{{"\t\t(usefulLife-currentAge.Value) < reqMinFresh {", "\t\t(maxAge-currentAge.Value) < reqMinFresh {"}}, "C09.22", "wave 7"},
	{"C12", "htab-not-trimmed", "internal/helpers.go", [][2]string{{"\t\"net/textproto\"\n", ""}, {"p := textproto.TrimString(part.String())\n\t\t\t\tif len(p) > 0 {\n\t\t\t\t\tif !yield(p)", "p := strings.Trim(part.String(), \" \")\n\t\t\t\tif len(p) > 0 {\n\t\t\t\t\tif !yield(p)"}, {"p := textproto.TrimString(part.String())\n\t\t\tif len(p) > 0 {\n\t\t\t\t_ = yield(p)", "p := strings.Trim(part.String(), \" \")\n\t\t\tif len(p) > 0 {\n\t\t\t\t_ = yield(p)"}}, "C12.19", "wave 7"},
	{"C13", "zero-lifetime-has-no-window", "internal/cacheabilityevaluator.go", [][2]string{{"\t\tage := SaturatingAdd(freshness.Age.Value, cce.clock.Since(freshness.Age.Timestamp))\n", "\t\tif freshness.UsefulLife <= 0 {\n\t\t\treturn false\n\t\t}\n\t\tage := SaturatingAdd(freshness.Age.Value, cce.clock.Since(freshness.Age.Timestamp))\n"}}, "C13.17", "wave 7"},
	{"C14", "skipdir-for-a-file", "store/fscache/fscache.go", [][2]string{{"\t\t\treturn nil // a value that is being written, or was left behind by a crash\n", "\t\t\treturn fs.SkipDir // a value that is being written, or was left behind by a crash\n"}}, "C14.22", "wave 7"},
	{"C14", "ciphertext-minimum-from-block-size", "store/fscache/encrypt.go", [][2]string{{"\tif len(data) < e.gcm.NonceSize() {", "\tif len(data) < aes.BlockSize+e.gcm.Overhead() {"}}, "C14.23", "wave 7"},
	{"C17", "ciphertext-minimum-from-block-size", "store/fscache/encrypt.go", [][2]string{{"\tif len(data) < e.gcm.NonceSize() {", "\tif len(data) < aes.BlockSize+e.gcm.Overhead() {"}}, "C17.13", "wave 7"},
	{"C17", "constructor-error-shadowed", "store/fscache/fscache.go", [][2]string{{"\t\tc.enc, err = newAESGCMEncryptor(rand.Reader, key)\n", "\t\tif enc, err := newAESGCMEncryptor(rand.Reader, key); err == nil {\n\t\t\tc.enc = enc\n\t\t}\n"}}, "C17.14", "wave 7"},
	{"C19", "search-for-negative-position-only", "internal/responsestorerer.go", [][2]string{{"\tif refIndex < 0 || refIndex >= len(refs) {\n\t\t// No usable position", "\tif refIndex < 0 {\n\t\t// No usable position"}}, "C19.16", "wave 7"},
	{"C19", "list-restarted-after-entry-fault", "roundtripper.go", [][2]string{{"\t\treturn r.handleCacheMiss(req, urlKey, refs, refIndex)\n", "\t\treturn r.handleCacheMiss(req, urlKey, nil, -1)\n"}}, "C19.17", "wave 7"},
	{"C20", "stale-answer-needs-live-context", "roundtripper.go", [][2]string{{"\tif swr, swrValid := ccResp.StaleWhileRevalidate(); freshness.IsStale && swrValid {", "\tif err := req.Context().Err(); err != nil {\n\t\treturn nil, err\n\t}\n\tif swr, swrValid := ccResp.StaleWhileRevalidate(); freshness.IsStale && swrValid {"}}, "C20.10", "wave 7"},
	{"C16", "validators-compared-weakly", "helpers.go", [][2]string{{"\treturn req.Header.Get(\"If-None-Match\") == storedHdr.Get(\"ETag\") &&", "\treturn string(bytes.TrimPrefix([]byte(req.Header.Get(\"If-None-Match\")), []byte(\"W/\"))) == string(bytes.TrimPrefix([]byte(storedHdr.Get(\"ETag\")), []byte(\"W/\"))) &&"}}, "C16.15", "wave 7"},
	{"C10", "fresh-map-into-the-callers-request", "helpers.go", [][2]string{{"\t\treq2.Header = make(http.Header) // Clone of a nil header is nil; the caller sets fields on it", "\t\treq.Header = make(http.Header) // Clone of a nil header is nil; the caller sets fields on it"}}, "C10.13", "wave 7"},
	{"C06", "dump-error-overwritten", "internal/entry.go", [][2]string{{"\tif err != nil {\n\t\treturn nil, fmt.Errorf(\"failed to marshal response: %w\", err)\n\t}\n\n\tvar buf bytes.Buffer\n", "\n\tvar buf bytes.Buffer\n"}}, "C06.15", "wave 7"},
	{"C10", "dropped-304-body-unguarded", "roundtripper.go", [][2]string{{"\t\t\tif resp.Body != nil { // a hand-written upstream may leave it nil\n\t\t\t\t_ = resp.Body.Close()\n\t\t\t}\n\t\t\terrc <- nil\n", "\t\t\t_ = resp.Body.Close()\n\t\t\terrc <- nil\n"}}, "C10.24", "D87"},
	{"C11", "store-times-swapped", "roundtripper.go", [][2]string{{"_ = r.rs.StoreResponse(req, resp, urlKey, refs, start, end, refIndex)", "_ = r.rs.StoreResponse(req, resp, urlKey, refs, end, start, refIndex)"}}, "C11.19", "round 4"},
	{"C09", "index-written-under-entry-id", "internal/responsestorerer.go", [][2]string{{"return r.cache.SetRefs(urlKey, refs)", "return r.cache.SetRefs(responseID, refs)"}}, "C09.26", "round 4"},
	{"C04", "vary-resolved-from-response", "internal/responsestorerer.go", [][2]string{{"r.vhn.NormalizeVaryHeader(vary, req.Header)", "r.vhn.NormalizeVaryHeader(vary, resp.Header)"}}, "C04.20", "round 4"},
	{"C04", "entry-read-at-position-zero", "roundtripper.go", [][2]string{{"r.cache.Get(refs[refIndex].ResponseID, req)", "r.cache.Get(refs[0].ResponseID, req)"}}, "C04.21", "round 4"},
	{"C02", "write-back-before-merge", "internal/validationresponsehandler.go", [][2]string{{"\t\tupdateStoredHeaders(ctx.Stored.Data, resp)\n", ""}, {"\t\tCacheStatusRevalidated.ApplyTo(ctx.Stored.Data.Header)\n", "\t\tupdateStoredHeaders(ctx.Stored.Data, resp)\n\t\tCacheStatusRevalidated.ApplyTo(ctx.Stored.Data.Header)\n"}}, "C02.17", "wave 9"},
	{"C13", "context-gets-freshness-copy", "roundtripper.go", [][2]string{{"\t\tCCReq:     ccReq,\n\t\tStored:    stored,\n\t\tRefs:      refs,\n\t\tRefIndex:  refIndex,\n\t\tFreshness: freshness,\n\t}\n\treturn r.vrh", "\t\tCCReq:     freshnessReq,\n\t\tStored:    stored,\n\t\tRefs:      refs,\n\t\tRefIndex:  refIndex,\n\t\tFreshness: freshness,\n\t}\n\treturn r.vrh"}, {"\t\tfreshnessReq = maps.Clone(ccReq)\n\t\tdelete(freshnessReq, \"max-age\")\n", "\t\tfreshnessReq = nil\n\t\t_ = maps.Clone(ccReq)\n"}}, "C13.20", "wave 9"},
	{"C07", "key-keeps-userinfo", "internal/urlkeyer.go", [][2]string{{"\t// RFC 3986 §6.2.3: Only include port if it is non-default for the scheme.\n", "\tif normalized.User != nil {\n\t\thostPort = normalized.User.String() + \"@\" + hostPort\n\t}\n"}}, "C07.18", "wave 9"},
	{"C19", "gate-refusal-nil", "store/fscache/fscache.go", [][2]string{{"\tif g.abandoned {\n\t\treturn context.DeadlineExceeded\n\t}\n\treturn step()", "\tif g.abandoned {\n\t\treturn nil\n\t}\n\treturn step()"}}, "C19.20", "wave 9"},
	{"C20", "late-background-response-left-open", "roundtripper.go", [][2]string{{"\t\t\tif resp.Body != nil { // a hand-written upstream may leave it nil\n\t\t\t\t_ = resp.Body.Close()\n\t\t\t}\n\t\t\terrc <- req.Context().Err()\n", "\t\t\terrc <- req.Context().Err()\n"}}, "C20.13", "D90"},
	{"C14", "root-opened-on-base", "store/fscache/fscache.go", [][2]string{{"\tc.base = filepath.Join(c.base, appname)\n\tif err := os.MkdirAll(c.base, 0o755); err != nil {", "\tdir := filepath.Join(c.base, appname)\n\tif err := os.MkdirAll(dir, 0o755); err != nil {"}}, "C14.27", "wave 9"},
	{"C07", "location-resolved-the-other-way", "internal/cacheinvalidator.go", [][2]string{{"locURL = reqURL.ResolveReference(locURL)", "locURL = locURL.ResolveReference(reqURL)"}}, "C07.19", "round 4"},
	{"C11", "meta-line-writes-one-time-twice", "internal/entry.go", [][2]string{{"\t\tr.RequestedAt.Format(time.RFC3339Nano),\n", "\t\tr.ReceivedAt.Format(time.RFC3339Nano),\n"}}, "C11.21", "round 4"},
	{"C09", "meta-line-read-from-other-column", "internal/entry.go", [][2]string{{"time.Parse(time.RFC3339Nano, string(parts[2]))", "time.Parse(time.RFC3339Nano, string(parts[1]))"}}, "C09.29", "round 4"},
	{"C14", "file-gets-the-key-bytes", "store/fscache/fscache.go", [][2]string{{"\tif _, err := f.Write(entry); err != nil {", "\tif _, err := f.Write([]byte(key)); err != nil {"}}, "C14.28", "round 4"},
	{"C04", "stored-value-recomputed-from-request", "internal/varymatcher.go", [][2]string{{"\t\tif reqValue != value {", "\t\tvalue = vm.hvn.NormalizeHeaderValue(field, reqValue)\n\t\tif reqValue != value {"}}, "C04.23", "round 4"},
	{"C14", "listing-by-path-name", "store/fscache/fscache.go", [][2]string{{"\tc.dw = dirWalkerFunc(func(dir string, fn fs.WalkDirFunc) error {\n\t\treturn fs.WalkDir(c.root.FS(), \".\", func(name string, d fs.DirEntry, err error) error {\n\t\t\treturn fn(filepath.Join(dir, filepath.FromSlash(name)), d, err)\n\t\t})\n\t})\n", "\tc.dw = dirWalkerFunc(filepath.WalkDir)\n"}}, "C14.21", "D88"},
	{"C19", "vary-name-as-sent", "internal/normalization.go", [][2]string{{"\t\t\tif !yield(storableValue(name), value) {", "\t\t\tif !yield(name, value) {"}}, "C19.15", "D89"},
	{"C02", "directive-map-edited-in-place", "roundtripper.go", [][2]string{{"\t\tfreshnessReq = maps.Clone(ccReq)\n", "\t\tfreshnessReq, _ = ccReq, maps.Clone(ccReq)\n"}}, "C02.13", "wave 6: the parser's map is edited"},
	{"C03", "port-default-of-fixed-scheme", "internal/urlkeyer.go", [][2]string{{"\tdefaultP := defaultPort(scheme)\n", "\tdefaultP := defaultPort(\"https\")\n"}}, "C03.12", "wave 6"},
	{"C04", "params-buffer-shared", "internal/normalization.go", [][2]string{{"outer:\n", "\tparams := make([]string, 0, 2)\nouter:\n"}, {"\t\tparams := make([]string, 0, 2)\n", "\t\tparams = params[:0]\n"}}, "C04.16", "wave 6: scratch slice shared between list members"},
	{"C09", "params-buffer-shared", "internal/normalization.go", [][2]string{{"outer:\n", "\tparams := make([]string, 0, 2)\nouter:\n"}, {"\t\tparams := make([]string, 0, 2)\n", "\t\tparams = params[:0]\n"}}, "C09.19", "wave 6: scratch slice shared between list members"},
	{"C04", "variant-unresolved-without-vary", "internal/responsestorerer.go", [][2]string{{"\tvaryResolved := maps.Collect(\n\t\tr.vhn.NormalizeVaryHeader(vary, req.Header),\n\t)\n", "\tvar varyResolved map[string]string\n\tif len(req.Header) > 0 {\n\t\tvaryResolved = maps.Collect(r.vhn.NormalizeVaryHeader(vary, req.Header))\n\t}\n"}}, "C04.17", "wave 6"},
	{"C05", "error-reply-closed-by-defer", "internal/validationresponsehandler.go", [][2]string{{"\t\t\tccResp = ParseCCResponseDirectives(resp.Header)\n\t\t}\n\t\tccRespOnce = true\n", "\t\t\tccResp = ParseCCResponseDirectives(resp.Header)\n\t\t\tdefer resp.Body.Close()\n\t\t}\n\t\tccRespOnce = true\n"}}, "C05.15", "wave 6"},
	{"C08", "error-reply-not-written-back", "internal/validationresponsehandler.go", [][2]string{{"\tcase r.ce.CanStoreResponse(resp, ctx.CCReq, ccResp):", "\tcase IsNonErrorStatus(resp.StatusCode) && r.ce.CanStoreResponse(resp, ctx.CCReq, ccResp):"}}, "C08.15", "wave 6"},
	{"C13", "sie-guard-reads-error-reply", "internal/validationresponsehandler.go", [][2]string{{"\t\tif !storedCC.MustRevalidate() && !storedNoCache && !ctx.CCReq.NoCache() &&", "\t\tif !ccResp.MaxAgePresent() && !storedCC.MustRevalidate() && !storedNoCache && !ctx.CCReq.NoCache() &&"}}, "C13.14", "wave 6"},
	{"C14", "marker-on-exact-multiple", "store/fscache/filenamer.go", [][2]string{{"\t\tif end < len(encoded) {", "\t\tif i+fragmentData <= len(encoded) {"}}, "C14.18", "wave 6"},
	{"C14", "errors-is-swapped", "store/expapi/expapi.go", [][2]string{{"\t\tif err := conn.Delete(key); err != nil {\n\t\t\tif errors.Is(err, driver.ErrNotExist) {", "\t\tif err := conn.Delete(key); err != nil {\n\t\t\tif errors.Is(driver.ErrNotExist, err) {"}}, "C14.19", "wave 6"},
	{"C15", "temp-prefix-in-alphabet", "store/fscache/fscache.go", [][2]string{{"const tmpPrefix = \".tmp-\"", "const tmpPrefix = \"_tmp-\""}}, "C15.8", "wave 6"},
	{"C15", "temp-name-parent-pid", "store/fscache/fscache.go", [][2]string{{"tmpPrefix, os.Getpid(), tmpSeq.Add(1)", "tmpPrefix, os.Getppid(), tmpSeq.Add(1)"}}, "C15.9", "wave 6"},
	{"C19", "enumerator-stops-at-empty-id", "internal/entry.go", [][2]string{{"\t\t\tif !yield(entry.ResponseID) {", "\t\t\tif entry.ResponseID == \"\" || !yield(entry.ResponseID) {"}}, "C19.14", "wave 6"},
	{"C07", "enumerator-stops-at-empty-id", "internal/entry.go", [][2]string{{"\t\t\tif !yield(entry.ResponseID) {", "\t\t\tif entry.ResponseID == \"\" || !yield(entry.ResponseID) {"}}, "C07.13", "wave 6"},
	{"C19", "location-index-deleted-unread", "internal/cacheinvalidator.go", [][2]string{{"\t\t\trefs, _ := r.cache.GetRefs(urlKey)\n\t\t\tfor h := range refs.ResponseIDs() {\n\t\t\t\tdeleteFn(h)\n\t\t\t}\n", "\t\t\tif locURL.Path != reqURL.Path {\n\t\t\t\trefs, _ := r.cache.GetRefs(urlKey)\n\t\t\t\tfor h := range refs.ResponseIDs() {\n\t\t\t\t\tdeleteFn(h)\n\t\t\t\t}\n\t\t\t}\n"}}, "C19.13", "wave 6"},
}

// MutantResult is one row of the kill matrix.
type MutantResult struct {
	M      Mutant
	Status string // KILLED / SURVIVED / NOT-APPLICABLE / DOES-NOT-TYPECHECK / KILLED-BY-OTHER
	By     []string
}

func applyMutant(repo string, m Mutant) (map[string][]byte, string) {
	path := filepath.Join(repo, m.File)
	b, err := os.ReadFile(path)
	if err != nil {
		return nil, "file missing"
	}
	s := string(b)
	for _, e := range m.Edits {
		if n := strings.Count(s, e[0]); n != 1 {
			return nil, fmt.Sprintf("pattern occurs %d times", n)
		}
		s = strings.Replace(s, e[0], e[1], 1)
	}
	abs, _ := filepath.Abs(path)
	return map[string][]byte{abs: []byte(s)}, ""
}

// RunMutants evaluates the mutants of prop ("" = all) against the rules of their property.
func RunMutants(repo, prop string, par int) []MutantResult {
	var sel []Mutant
	for _, m := range mutants {
		if prop == "" || m.Prop == prop {
			sel = append(sel, m)
		}
	}
	out := make([]MutantResult, len(sel))
	sem := make(chan struct{}, par)
	var wg sync.WaitGroup
	for i, m := range sel {
		wg.Add(1)
		go func(i int, m Mutant) {
			defer wg.Done()
			sem <- struct{}{}
			defer func() { <-sem }()
			res := MutantResult{M: m}
			defer func() {
				if r := recover(); r != nil {
					res.Status = "KILLED"
					res.By = []string{fmt.Sprintf("analysis panic: %v", r)}
				}
				out[i] = res
			}()
			ov, why := applyMutant(repo, m)
			if ov == nil {
				res.Status = "NOT-APPLICABLE"
				res.By = []string{why}
				return
			}
			p, err := Load(LoadConfig{Repo: repo, Overlay: ov})
			if err != nil {
				if strings.Contains(err.Error(), "type/load errors") {
					res.Status = "DOES-NOT-TYPECHECK"
					res.By = []string{err.Error()}
					return
				}
				res.Status = "LOAD-ERROR" // an environment problem, not a verdict on the mutant
				res.By = []string{"load: " + err.Error()}
				return
			}
			a := ResolveAnchors(p)
			if len(a.Unresolved) > 0 {
				res.Status = "KILLED"
				res.By = []string{"ANCHOR-UNRESOLVED " + strings.Join(a.Unresolved, "; ")}
				return
			}
			obs := runProperty(registry[m.Prop], p, a)
			fired := map[string]bool{}
			for _, o := range obs {
				if o.Status != Discharged && !isKnownKey(o.Key) {
					fired[o.Rule] = true
				}
			}
			var rules []string
			for r := range fired {
				rules = append(rules, r)
			}
			sort.Strings(rules)
			res.By = rules
			switch {
			case len(rules) == 0:
				res.Status = "SURVIVED"
			default:
				res.Status = "KILLED-BY-OTHER"
				for _, r := range rules {
					if strings.HasPrefix(r, m.Expect) {
						res.Status = "KILLED"
					}
				}
			}
		}(i, m)
	}
	wg.Wait()
	return out
}

var knownKeys map[string]bool

var knownKeysOnce sync.Once

func isKnownKey(k string) bool {
	knownKeysOnce.Do(func() {
		knownKeys = map[string]bool{}
		kfs, _ := LoadKnownFindings("known-findings.txt")
		for _, kf := range kfs {
			if kf.Open {
				knownKeys[kf.Key] = true
			}
		}
	})
	return knownKeys[k]
}

// MutantsMain implements `hcv mutants [-p Cxx]`: prints the kill matrix.
func MutantsMain(args []string) int {
	prop := ""
	repo := "/repo"
	for i := 0; i < len(args); i++ {
		switch args[i] {
		case "-p":
			i++
			prop = args[i]
		case "-repo":
			i++
			repo = args[i]
		}
	}
	if prop == "all" {
		prop = ""
	}
	res := RunMutants(repo, prop, 6)
	n := map[string]int{}
	for _, r := range res {
		n[r.Status]++
		fmt.Printf("%-18s %s/%-36s expect=%-6s by=%v\n", r.Status, r.M.Prop, r.M.Name, r.M.Expect, r.By)
	}
	fmt.Printf("mutants=%d %v\n", len(res), n)
	return 0
}
