package hcv

import (
	"go/constant"
	"go/token"
	"go/types"
	"sort"
	"strings"
	"sync"

	"golang.org/x/tools/go/ssa"
	"golang.org/x/tools/go/ssa/ssautil"
)

func constStr(v ssa.Value) (string, bool) {
	c, ok := v.(*ssa.Const)
	if !ok || c.Value == nil || c.Value.Kind() != constant.String {
		return "", false
	}
	return constant.StringVal(c.Value), true
}

func constInt(v ssa.Value) (int64, bool) {
	c, ok := v.(*ssa.Const)
	if !ok || c.Value == nil || c.Value.Kind() != constant.Int {
		return 0, false
	}
	i, exact := constant.Int64Val(c.Value)
	return i, exact
}

func constBool(v ssa.Value) (bool, bool) {
	c, ok := v.(*ssa.Const)
	if !ok || c.Value == nil || c.Value.Kind() != constant.Bool {
		return false, false
	}
	return constant.BoolVal(c.Value), true
}

func isNilConst(v ssa.Value) bool {
	c, ok := v.(*ssa.Const)
	return ok && c.Value == nil
}

// callOf returns the CallCommon of a Call/Go/Defer instruction (nil otherwise).
func callOf(in ssa.Instruction) *ssa.CallCommon {
	if ci, ok := in.(ssa.CallInstruction); ok {
		return ci.Common()
	}
	return nil
}

// isFuncNamed: static call of package-level function pkg.name.
func isPkgFunc(fn *ssa.Function, pkgPath, name string) bool {
	if fn == nil || fn.Signature.Recv() != nil {
		return false
	}
	o := fn
	if o.Origin() != nil {
		o = o.Origin()
	}
	return o.Pkg != nil && o.Pkg.Pkg.Path() == pkgPath && o.Name() == name
}

// isMethod: fn is method name on named type pkg.typ (value or pointer receiver).
func isMethod(fn *ssa.Function, pkgPath, typ, name string) bool {
	if fn == nil || fn.Signature.Recv() == nil || fn.Name() != name {
		return false
	}
	rt := derefType(fn.Signature.Recv().Type())
	return typeIs(rt, pkgPath, typ)
}

// callIsMethod: the call (static or invoke) targets method name of pkg.typ.
func callIsMethod(c *ssa.CallCommon, pkgPath, typ, name string) bool {
	if c == nil {
		return false
	}
	if c.IsInvoke() {
		if c.Method.Name() != name {
			return false
		}
		return typeIs(c.Value.Type(), pkgPath, typ)
	}
	return isMethod(c.StaticCallee(), pkgPath, typ, name)
}

func callIsPkgFunc(c *ssa.CallCommon, pkgPath, name string) bool {
	if c == nil || c.IsInvoke() {
		return false
	}
	return isPkgFunc(c.StaticCallee(), pkgPath, name)
}

// recvAndArgs splits a call into receiver (nil for plain functions) and arguments.
func recvAndArgs(c *ssa.CallCommon) (ssa.Value, []ssa.Value) {
	if c.IsInvoke() {
		return c.Value, c.Args
	}
	if sc := c.StaticCallee(); sc != nil && sc.Signature.Recv() != nil && len(c.Args) > 0 {
		return c.Args[0], c.Args[1:]
	}
	return nil, c.Args
}

// argForParam maps parameter index i of callee (fn.Params, receiver included) to the call's argument.
func argForParam(c *ssa.CallCommon, callee *ssa.Function, i int) ssa.Value {
	hasRecv := callee.Signature.Recv() != nil
	if c.IsInvoke() {
		if hasRecv {
			if i == 0 {
				return c.Value
			}
			i--
		}
		if i < len(c.Args) {
			return c.Args[i]
		}
		return nil
	}
	// static or dynamic function-value call
	if sc := c.StaticCallee(); sc != nil {
		if i < len(c.Args) {
			return c.Args[i]
		}
		return nil
	}
	// dynamic call through func value: callee may be a bound-method closure or plain closure
	if hasRecv && len(c.Args) == len(callee.Params)-1 {
		if i == 0 {
			return nil
		}
		return c.Args[i-1]
	}
	if i < len(c.Args) {
		return c.Args[i]
	}
	return nil
}

func paramIndex(fn *ssa.Function, p *ssa.Parameter) int {
	for i, q := range fn.Params {
		if q == p {
			return i
		}
	}
	return -1
}

// peel strips value-preserving wrappers.
func peel(v ssa.Value) ssa.Value {
	for {
		switch x := v.(type) {
		case *ssa.ChangeType:
			v = x.X
		case *ssa.ChangeInterface:
			v = x.X
		case *ssa.MakeInterface:
			v = x.X
		default:
			return v
		}
	}
}

// instrsOf iterates all instructions of fn.
func instrsOf(fn *ssa.Function, f func(ssa.Instruction)) {
	for _, b := range fn.Blocks {
		for _, in := range b.Instrs {
			f(in)
		}
	}
}

// allocStores: values stored directly into the cell `a` (an *ssa.Alloc), in its function and in closures capturing it.
func (p *Prog) cellStores(a ssa.Value) []*ssa.Store {
	var out []*ssa.Store
	refs := a.Referrers()
	if refs == nil {
		return nil
	}
	for _, r := range *refs {
		switch x := r.(type) {
		case *ssa.Store:
			if x.Addr == a {
				out = append(out, x)
			}
		case *ssa.MakeClosure:
			fn := x.Fn.(*ssa.Function)
			for i, b := range x.Bindings {
				if b == a && i < len(fn.FreeVars) {
					out = append(out, p.cellStores(fn.FreeVars[i])...)
				}
			}
		}
	}
	return out
}

// freeVarBindings returns the values bound to free variable fv at every MakeClosure of its function.
func (p *Prog) freeVarBindings(fv *ssa.FreeVar) []ssa.Value {
	fn := fv.Parent()
	idx := -1
	for i, f := range fn.FreeVars {
		if f == fv {
			idx = i
		}
	}
	if idx < 0 || fn.Parent() == nil {
		return nil
	}
	var out []ssa.Value
	var scan func(f *ssa.Function)
	scan = func(f *ssa.Function) {
		instrsOf(f, func(in ssa.Instruction) {
			if mc, ok := in.(*ssa.MakeClosure); ok && mc.Fn == fn && idx < len(mc.Bindings) {
				out = append(out, mc.Bindings[idx])
			}
		})
		for _, af := range f.AnonFuncs {
			if af != fn {
				scan(af)
			}
		}
	}
	scan(fn.Parent())
	return out
}

func sortedKeys[V any](m map[string]V) []string {
	ks := make([]string, 0, len(m))
	for k := range m {
		ks = append(ks, k)
	}
	sort.Strings(ks)
	return ks
}

// stringConstsIn collects string constants appearing as operands in fn.
func stringConstsIn(fn *ssa.Function) map[string]bool {
	out := map[string]bool{}
	instrsOf(fn, func(in ssa.Instruction) {
		for _, op := range in.Operands(nil) {
			if s, ok := constStr(*op); ok {
				out[s] = true
			}
		}
	})
	for _, k := range constMapKeysIn(fn) {
		if k.Kind() == constant.String {
			out[constant.StringVal(k)] = true
		}
	}
	return out
}

func intConstsIn(fn *ssa.Function) map[int64]bool {
	out := map[int64]bool{}
	instrsOf(fn, func(in ssa.Instruction) {
		for _, op := range in.Operands(nil) {
			if c, ok := (*op).(*ssa.Const); ok && c.Value != nil && c.Value.Kind() == constant.Int {
				if b, ok := c.Type().Underlying().(*types.Basic); ok && b.Info()&types.IsInteger != 0 {
					if i, ok := constInt(c); ok {
						out[i] = true
					}
				}
			}
		}
	})
	for _, k := range constMapKeysIn(fn) {
		if k.Kind() == constant.Int {
			if i, ok := constant.Int64Val(k); ok {
				out[i] = true
			}
		}
	}
	return out
}

func isBoolType(t types.Type) bool {
	b, ok := t.Underlying().(*types.Basic)
	return ok && b.Kind() == types.Bool
}

func isErrorType(t types.Type) bool {
	return types.Identical(t, types.Universe.Lookup("error").Type())
}

func isStringType(t types.Type) bool {
	b, ok := t.Underlying().(*types.Basic)
	return ok && b.Info()&types.IsString != 0
}

func isHTTPResponsePtr(t types.Type) bool { return ptrTo(t, "net/http", "Response") }
func isHTTPRequestPtr(t types.Type) bool  { return ptrTo(t, "net/http", "Request") }
func isHTTPHeader(t types.Type) bool      { return typeIs(t, "net/http", "Header") }

func negTok(t token.Token) token.Token {
	switch t {
	case token.EQL:
		return token.NEQ
	case token.NEQ:
		return token.EQL
	case token.LSS:
		return token.GEQ
	case token.GEQ:
		return token.LSS
	case token.GTR:
		return token.LEQ
	case token.LEQ:
		return token.GTR
	}
	return t
}

// swapTok mirrors a comparison when operands are exchanged.
func swapTok(t token.Token) token.Token {
	switch t {
	case token.LSS:
		return token.GTR
	case token.GTR:
		return token.LSS
	case token.LEQ:
		return token.GEQ
	case token.GEQ:
		return token.LEQ
	}
	return t
}

func trimMod(p *Prog, s string) string {
	s = strings.ReplaceAll(s, p.ModPath+"/", "")
	s = strings.ReplaceAll(s, p.ModPath, "httpcache")
	return s
}

func uniqStrings(in []string) []string {
	var out []string
	for i, s := range in {
		if i == 0 || s != in[i-1] {
			out = append(out, s)
		}
	}
	return out
}

// ---- constant map literals held in unexported package-level variables (read-only lookup tables)

type constMap struct {
	g      *ssa.Global
	keys   []constant.Value
	vals   map[string][]constant.Value // key (ExactString) -> the value, or the struct value's fields in order
	zero   []constant.Value            // the zero value (per field); nil entries for fields without a scalar zero
	fields int                         // 0: scalar values; n>0: struct values with n fields
	set    bool                        // map[K]struct{}
}

var constMapCache sync.Map // *ssa.Global -> *constMap (nil when the variable is not a constant table)
var pkgFuncsCache sync.Map // *ssa.Package -> []*ssa.Function

func pkgFunctions(pkg *ssa.Package) []*ssa.Function {
	if v, ok := pkgFuncsCache.Load(pkg); ok {
		return v.([]*ssa.Function)
	}
	var out []*ssa.Function
	for fn := range ssautil.AllFunctions(pkg.Prog) {
		if fn.Package() == pkg || fn.Parent() != nil && fn.Parent().Package() == pkg {
			out = append(out, fn)
		}
	}
	pkgFuncsCache.Store(pkg, out)
	return out
}

func zeroConst(t types.Type) constant.Value {
	b, ok := t.Underlying().(*types.Basic)
	if !ok {
		return nil
	}
	switch {
	case b.Info()&types.IsBoolean != 0:
		return constant.MakeBool(false)
	case b.Info()&types.IsInteger != 0:
		return constant.MakeInt64(0)
	case b.Info()&types.IsString != 0:
		return constant.MakeString("")
	}
	return nil
}

func constOrZero(v ssa.Value) constant.Value {
	c, ok := v.(*ssa.Const)
	if !ok {
		return nil
	}
	if c.Value == nil {
		return zeroConst(c.Type())
	}
	return c.Value
}

// constMapOf: g is an unexported package-level map assigned once, in the package initialiser, from a map literal
// with constant keys and constant (scalar or flat struct) values, and never updated, deleted from or passed on.
func constMapOf(g *ssa.Global) *constMap {
	if v, ok := constMapCache.Load(g); ok {
		cm, _ := v.(*constMap)
		return cm
	}
	cm := buildConstMap(g)
	if cm == nil {
		constMapCache.Store(g, (*constMap)(nil))
	} else {
		constMapCache.Store(g, cm)
	}
	return cm
}

func buildConstMap(g *ssa.Global) *constMap {
	if g.Pkg == nil || g.Object() == nil || g.Object().Exported() {
		return nil
	}
	mt, ok := derefType(g.Type()).Underlying().(*types.Map)
	if !ok {
		return nil
	}
	cm := &constMap{g: g, vals: map[string][]constant.Value{}}
	if st, ok := mt.Elem().Underlying().(*types.Struct); ok && st.NumFields() == 0 {
		cm.set = true // map[K]struct{}: only membership matters
	} else if ok {
		cm.fields = st.NumFields()
		for i := 0; i < st.NumFields(); i++ {
			cm.zero = append(cm.zero, zeroConst(st.Field(i).Type()))
		}
	} else {
		z := zeroConst(mt.Elem())
		if z == nil {
			return nil
		}
		cm.zero = []constant.Value{z}
	}
	init := g.Pkg.Func("init")
	if init == nil {
		return nil
	}
	var mm *ssa.MakeMap
	for _, fn := range pkgFunctions(g.Pkg) {
		bad := false
		instrsOf(fn, func(in ssa.Instruction) {
			switch x := in.(type) {
			case *ssa.Store:
				if x.Addr == ssa.Value(g) {
					m, ok := x.Val.(*ssa.MakeMap)
					if fn != init || !ok || mm != nil {
						bad = true
						return
					}
					mm = m
				}
			case *ssa.UnOp:
				if x.X != ssa.Value(g) {
					return
				}
				if refs := x.Referrers(); refs != nil {
					for _, r := range *refs {
						switch y := r.(type) {
						case *ssa.Lookup:
							if y.X != ssa.Value(x) {
								bad = true
							}
						case *ssa.Range, *ssa.DebugRef:
						case *ssa.Call:
							if b, ok := y.Call.Value.(*ssa.Builtin); !ok || b.Name() != "len" {
								bad = true
							}
						default:
							bad = true
						}
					}
				}
			default:
				// the address of the variable itself must not be taken
				for _, op := range in.Operands(nil) {
					if *op == ssa.Value(g) {
						bad = true
					}
				}
			}
		})
		if bad {
			return nil
		}
	}
	if mm == nil || mm.Referrers() == nil {
		return nil
	}
	for _, r := range *mm.Referrers() {
		switch x := r.(type) {
		case *ssa.Store:
			if x.Val != ssa.Value(mm) || x.Addr != ssa.Value(g) {
				return nil
			}
		case *ssa.DebugRef:
		case *ssa.MapUpdate:
			if x.Map != ssa.Value(mm) {
				return nil
			}
			k := constOrZero(x.Key)
			if k == nil {
				return nil
			}
			var val []constant.Value
			if cm.set {
				val = []constant.Value{}
			} else if cm.fields == 0 {
				v := constOrZero(x.Value)
				if v == nil {
					return nil
				}
				val = []constant.Value{v}
			} else {
				ld, ok := x.Value.(*ssa.UnOp)
				if !ok {
					return nil
				}
				al, ok := ld.X.(*ssa.Alloc)
				if !ok || al.Referrers() == nil {
					return nil
				}
				val = append([]constant.Value(nil), cm.zero...)
				for _, ar := range *al.Referrers() {
					switch fa := ar.(type) {
					case *ssa.FieldAddr:
						if fa.Referrers() == nil {
							return nil
						}
						for _, u := range *fa.Referrers() {
							st, ok := u.(*ssa.Store)
							if !ok || st.Addr != ssa.Value(fa) {
								if _, isDbg := u.(*ssa.DebugRef); isDbg {
									continue
								}
								return nil
							}
							v := constOrZero(st.Val)
							if v == nil {
								return nil
							}
							val[fa.Field] = v
						}
					case *ssa.UnOp, *ssa.DebugRef:
					default:
						return nil
					}
				}
			}
			cm.keys = append(cm.keys, k)
			cm.vals[k.ExactString()] = val
		default:
			return nil
		}
	}
	if len(cm.keys) == 0 {
		return nil
	}
	return cm
}

// constMapLookup: v is `m[k]` (or a component of it) on a constant table; returns the table and the lookup.
func constMapLookup(v ssa.Value) (*constMap, *ssa.Lookup) {
	lk, ok := v.(*ssa.Lookup)
	if !ok {
		return nil, nil
	}
	ld, ok := lk.X.(*ssa.UnOp)
	if !ok {
		return nil, nil
	}
	g, ok := ld.X.(*ssa.Global)
	if !ok {
		return nil, nil
	}
	cm := constMapOf(g)
	if cm == nil {
		return nil, nil
	}
	return cm, lk
}

// constMapKeysIn: the keys of the constant tables looked up in fn.
func constMapKeysIn(fn *ssa.Function) []constant.Value {
	var out []constant.Value
	instrsOf(fn, func(in ssa.Instruction) {
		if v, ok := in.(ssa.Value); ok {
			if cm, _ := constMapLookup(v); cm != nil {
				out = append(out, cm.keys...)
			}
		}
	})
	return out
}

// globalMapLiteralKeys: the constant string keys of the map literal a package-level variable is initialised with
// (whatever happens to the map afterwards).
func globalMapLiteralKeys(g *ssa.Global) []string {
	if g.Pkg == nil {
		return nil
	}
	init := g.Pkg.Func("init")
	if init == nil {
		return nil
	}
	var out []string
	instrsOf(init, func(in ssa.Instruction) {
		st, ok := in.(*ssa.Store)
		if !ok || st.Addr != ssa.Value(g) {
			return
		}
		mm, ok := st.Val.(*ssa.MakeMap)
		if !ok || mm.Referrers() == nil {
			return
		}
		for _, r := range *mm.Referrers() {
			if mu, ok := r.(*ssa.MapUpdate); ok && mu.Map == ssa.Value(mm) {
				if k, ok := constStr(mu.Key); ok {
					out = append(out, k)
				}
			}
		}
	})
	return out
}

// globalMapsLoadedIn: package-level map variables read in fn.
func globalMapsLoadedIn(fn *ssa.Function) []*ssa.Global {
	var out []*ssa.Global
	instrsOf(fn, func(in ssa.Instruction) {
		if u, ok := in.(*ssa.UnOp); ok {
			if g, ok := u.X.(*ssa.Global); ok {
				if _, isMap := derefType(g.Type()).Underlying().(*types.Map); isMap {
					out = append(out, g)
				}
			}
		}
	})
	return out
}
