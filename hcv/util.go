package hcv

import (
	"go/constant"
	"go/token"
	"go/types"
	"sort"
	"strings"

	"golang.org/x/tools/go/ssa"
)

func constStr(v ssa.Value) (string, bool) {
	c, ok := v.(*ssa.Const)
	if !ok || c.Value == nil || c.Value.Kind() != constant.String {
		return "", false
	}
	return constant.StringVal(c.Value), true
}

func constInt(v ssa.Value) (int64, bool) {
	c, ok := v.(*ssa.Const)
	if !ok || c.Value == nil || c.Value.Kind() != constant.Int {
		return 0, false
	}
	i, exact := constant.Int64Val(c.Value)
	return i, exact
}

func constBool(v ssa.Value) (bool, bool) {
	c, ok := v.(*ssa.Const)
	if !ok || c.Value == nil || c.Value.Kind() != constant.Bool {
		return false, false
	}
	return constant.BoolVal(c.Value), true
}

func isNilConst(v ssa.Value) bool {
	c, ok := v.(*ssa.Const)
	return ok && c.Value == nil
}

// callOf returns the CallCommon of a Call/Go/Defer instruction (nil otherwise).
func callOf(in ssa.Instruction) *ssa.CallCommon {
	if ci, ok := in.(ssa.CallInstruction); ok {
		return ci.Common()
	}
	return nil
}

// isFuncNamed: static call of package-level function pkg.name.
func isPkgFunc(fn *ssa.Function, pkgPath, name string) bool {
	if fn == nil || fn.Signature.Recv() != nil {
		return false
	}
	o := fn
	if o.Origin() != nil {
		o = o.Origin()
	}
	return o.Pkg != nil && o.Pkg.Pkg.Path() == pkgPath && o.Name() == name
}

// isMethod: fn is method name on named type pkg.typ (value or pointer receiver).
func isMethod(fn *ssa.Function, pkgPath, typ, name string) bool {
	if fn == nil || fn.Signature.Recv() == nil || fn.Name() != name {
		return false
	}
	rt := derefType(fn.Signature.Recv().Type())
	return typeIs(rt, pkgPath, typ)
}

// callIsMethod: the call (static or invoke) targets method name of pkg.typ.
func callIsMethod(c *ssa.CallCommon, pkgPath, typ, name string) bool {
	if c == nil {
		return false
	}
	if c.IsInvoke() {
		if c.Method.Name() != name {
			return false
		}
		return typeIs(c.Value.Type(), pkgPath, typ)
	}
	return isMethod(c.StaticCallee(), pkgPath, typ, name)
}

func callIsPkgFunc(c *ssa.CallCommon, pkgPath, name string) bool {
	if c == nil || c.IsInvoke() {
		return false
	}
	return isPkgFunc(c.StaticCallee(), pkgPath, name)
}

// recvAndArgs splits a call into receiver (nil for plain functions) and arguments.
func recvAndArgs(c *ssa.CallCommon) (ssa.Value, []ssa.Value) {
	if c.IsInvoke() {
		return c.Value, c.Args
	}
	if sc := c.StaticCallee(); sc != nil && sc.Signature.Recv() != nil && len(c.Args) > 0 {
		return c.Args[0], c.Args[1:]
	}
	return nil, c.Args
}

// argForParam maps parameter index i of callee (fn.Params, receiver included) to the call's argument.
func argForParam(c *ssa.CallCommon, callee *ssa.Function, i int) ssa.Value {
	hasRecv := callee.Signature.Recv() != nil
	if c.IsInvoke() {
		if hasRecv {
			if i == 0 {
				return c.Value
			}
			i--
		}
		if i < len(c.Args) {
			return c.Args[i]
		}
		return nil
	}
	// static or dynamic function-value call
	if sc := c.StaticCallee(); sc != nil {
		if i < len(c.Args) {
			return c.Args[i]
		}
		return nil
	}
	// dynamic call through func value: callee may be a bound-method closure or plain closure
	if hasRecv && len(c.Args) == len(callee.Params)-1 {
		if i == 0 {
			return nil
		}
		return c.Args[i-1]
	}
	if i < len(c.Args) {
		return c.Args[i]
	}
	return nil
}

func paramIndex(fn *ssa.Function, p *ssa.Parameter) int {
	for i, q := range fn.Params {
		if q == p {
			return i
		}
	}
	return -1
}

// peel strips value-preserving wrappers.
func peel(v ssa.Value) ssa.Value {
	for {
		switch x := v.(type) {
		case *ssa.ChangeType:
			v = x.X
		case *ssa.ChangeInterface:
			v = x.X
		case *ssa.MakeInterface:
			v = x.X
		default:
			return v
		}
	}
}

// instrsOf iterates all instructions of fn.
func instrsOf(fn *ssa.Function, f func(ssa.Instruction)) {
	for _, b := range fn.Blocks {
		for _, in := range b.Instrs {
			f(in)
		}
	}
}

// allocStores: values stored directly into the cell `a` (an *ssa.Alloc), in its function and in closures capturing it.
func (p *Prog) cellStores(a ssa.Value) []*ssa.Store {
	var out []*ssa.Store
	refs := a.Referrers()
	if refs == nil {
		return nil
	}
	for _, r := range *refs {
		switch x := r.(type) {
		case *ssa.Store:
			if x.Addr == a {
				out = append(out, x)
			}
		case *ssa.MakeClosure:
			fn := x.Fn.(*ssa.Function)
			for i, b := range x.Bindings {
				if b == a && i < len(fn.FreeVars) {
					out = append(out, p.cellStores(fn.FreeVars[i])...)
				}
			}
		}
	}
	return out
}

// freeVarBindings returns the values bound to free variable fv at every MakeClosure of its function.
func (p *Prog) freeVarBindings(fv *ssa.FreeVar) []ssa.Value {
	fn := fv.Parent()
	idx := -1
	for i, f := range fn.FreeVars {
		if f == fv {
			idx = i
		}
	}
	if idx < 0 || fn.Parent() == nil {
		return nil
	}
	var out []ssa.Value
	var scan func(f *ssa.Function)
	scan = func(f *ssa.Function) {
		instrsOf(f, func(in ssa.Instruction) {
			if mc, ok := in.(*ssa.MakeClosure); ok && mc.Fn == fn && idx < len(mc.Bindings) {
				out = append(out, mc.Bindings[idx])
			}
		})
		for _, af := range f.AnonFuncs {
			if af != fn {
				scan(af)
			}
		}
	}
	scan(fn.Parent())
	return out
}

func sortedKeys[V any](m map[string]V) []string {
	ks := make([]string, 0, len(m))
	for k := range m {
		ks = append(ks, k)
	}
	sort.Strings(ks)
	return ks
}

// stringConstsIn collects string constants appearing as operands in fn.
func stringConstsIn(fn *ssa.Function) map[string]bool {
	out := map[string]bool{}
	instrsOf(fn, func(in ssa.Instruction) {
		for _, op := range in.Operands(nil) {
			if s, ok := constStr(*op); ok {
				out[s] = true
			}
		}
	})
	return out
}

func intConstsIn(fn *ssa.Function) map[int64]bool {
	out := map[int64]bool{}
	instrsOf(fn, func(in ssa.Instruction) {
		for _, op := range in.Operands(nil) {
			if c, ok := (*op).(*ssa.Const); ok && c.Value != nil && c.Value.Kind() == constant.Int {
				if b, ok := c.Type().Underlying().(*types.Basic); ok && b.Info()&types.IsInteger != 0 {
					if i, ok := constInt(c); ok {
						out[i] = true
					}
				}
			}
		}
	})
	return out
}

func isBoolType(t types.Type) bool {
	b, ok := t.Underlying().(*types.Basic)
	return ok && b.Kind() == types.Bool
}

func isErrorType(t types.Type) bool {
	return types.Identical(t, types.Universe.Lookup("error").Type())
}

func isStringType(t types.Type) bool {
	b, ok := t.Underlying().(*types.Basic)
	return ok && b.Info()&types.IsString != 0
}

func isHTTPResponsePtr(t types.Type) bool { return ptrTo(t, "net/http", "Response") }
func isHTTPRequestPtr(t types.Type) bool  { return ptrTo(t, "net/http", "Request") }
func isHTTPHeader(t types.Type) bool      { return typeIs(t, "net/http", "Header") }

func negTok(t token.Token) token.Token {
	switch t {
	case token.EQL:
		return token.NEQ
	case token.NEQ:
		return token.EQL
	case token.LSS:
		return token.GEQ
	case token.GEQ:
		return token.LSS
	case token.GTR:
		return token.LEQ
	case token.LEQ:
		return token.GTR
	}
	return t
}

// swapTok mirrors a comparison when operands are exchanged.
func swapTok(t token.Token) token.Token {
	switch t {
	case token.LSS:
		return token.GTR
	case token.GTR:
		return token.LSS
	case token.LEQ:
		return token.GEQ
	case token.GEQ:
		return token.LEQ
	}
	return t
}

func trimMod(p *Prog, s string) string {
	s = strings.ReplaceAll(s, p.ModPath+"/", "")
	s = strings.ReplaceAll(s, p.ModPath, "httpcache")
	return s
}
