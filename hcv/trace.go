package hcv

import (
	"fmt"
	"go/types"
	"strings"

	"golang.org/x/tools/go/ssa"
)

// TraceOpts tunes the backward value tracer.
type TraceOpts struct {
	// ThroughExtern: descend through the arguments of calls to non-repo functions (result depends on all args).
	ThroughExtern bool
	// ThroughOps: descend through BinOp/UnOp(non-load)/Convert/Slice/Index/Lookup operands (data dependence, not identity).
	ThroughOps bool
	// NoParams: do not cross from a parameter to the callers' arguments.
	NoParams bool
	// NoHeapFields: do not use the flow-insensitive (type,field) store summary for non-local bases.
	NoHeapFields bool
	// MaxNodes bounds the walk (0 = 20000).
	MaxNodes int
}

// TraceVisit is called for every (value, pending field path) reached; return false to stop descending below it.
type TraceVisit func(v ssa.Value, path []int) bool

// TraceBack walks backwards from v over value-preserving edges (E5 of DESIGN.md):
// phi, conversions, tuple extraction, repo calls (to their return operands), parameters (to callers' arguments),
// closure free variables (to bindings), loads (to the stores that may feed them; local cells flow-sensitively
// approximated by "all stores to the cell", heap fields by all stores to (type,field) in the repo).
// `path` is the list of struct fields still to be selected from the value.
func (p *Prog) TraceBack(start ssa.Value, opts TraceOpts, visit TraceVisit) (truncated bool) {
	return p.TraceBackPath(start, nil, opts, visit)
}

// TraceBackPath is TraceBack starting with a pending field selection (trace field `path` of the struct value start).
func (p *Prog) TraceBackPath(start ssa.Value, startPath []int, opts TraceOpts, visit TraceVisit) (truncated bool) {
	type item struct {
		v    ssa.Value
		path string
	}
	max := opts.MaxNodes
	if max == 0 {
		max = 20000
	}
	seen := map[item]bool{}
	type work struct {
		v    ssa.Value
		path []int
	}
	var wl []work
	push := func(v ssa.Value, path []int) {
		if v == nil {
			return
		}
		if len(path) > 5 {
			path = path[:5]
		}
		k := item{v, pathKey(path)}
		if seen[k] {
			return
		}
		seen[k] = true
		wl = append(wl, work{v, path})
	}
	push(start, startPath)
	n := 0
	for len(wl) > 0 {
		w := wl[len(wl)-1]
		wl = wl[:len(wl)-1]
		n++
		if n > max {
			return true
		}
		if !visit(w.v, w.path) {
			continue
		}
		switch x := w.v.(type) {
		case *ssa.Phi:
			for _, e := range x.Edges {
				push(e, w.path)
			}
		case *ssa.ChangeType:
			push(x.X, w.path)
		case *ssa.ChangeInterface:
			push(x.X, w.path)
		case *ssa.MakeInterface:
			push(x.X, w.path)
		case *ssa.TypeAssert:
			push(x.X, w.path)
		case *ssa.Convert:
			if opts.ThroughOps || types.Identical(x.X.Type().Underlying(), x.Type().Underlying()) || isStringType(x.Type()) && isStringType(x.X.Type()) {
				push(x.X, w.path)
			}
		case *ssa.Field:
			push(x.X, append([]int{x.Field}, w.path...))
		case *ssa.Extract:
			if _, isCall := x.Tuple.(*ssa.Call); !isCall {
				// comma-ok lookup / type assertion / map iteration: the component depends on the tuple's operands
				if opts.ThroughOps {
					push(x.Tuple, nil)
				}
				break
			}
			p.traceCallResult(x.Tuple, x.Index, w.path, opts, push)
		case *ssa.Call:
			p.traceCallResult(x, 0, w.path, opts, push)
		case *ssa.Parameter:
			if opts.NoParams {
				break
			}
			fn := x.Parent()
			idx := paramIndex(fn, x)
			for _, cs := range p.Callers(fn) {
				if a := argForParam(cs.Instr.Common(), fn, idx); a != nil {
					push(a, w.path)
				}
			}
			// bound-method closures / wrappers: receiver of a bound method comes from MakeClosure bindings
		case *ssa.FreeVar:
			for _, b := range p.freeVarBindings(x) {
				push(b, w.path)
			}
		case *ssa.UnOp:
			if x.Op.String() != "*" {
				if opts.ThroughOps {
					push(x.X, nil)
				}
				break
			}
			p.traceLoad(x.X, w.path, opts, push)
		case *ssa.BinOp:
			if opts.ThroughOps {
				push(x.X, nil)
				push(x.Y, nil)
			}
		case *ssa.Slice:
			if opts.ThroughOps {
				push(x.X, nil)
			}
		case *ssa.Index:
			if opts.ThroughOps {
				push(x.X, nil)
			}
		case *ssa.Alloc:
			// a local object filled through library methods (strings.Builder, bytes.Buffer, hash): what is written into
			// it flows out of it
			if opts.ThroughOps {
				// a pointer to a local array/struct depends on what was stored into it
				p.traceLoad(x, nil, opts, push)
				if refs := x.Referrers(); refs != nil {
					for _, r := range *refs {
						if fa, ok := r.(*ssa.FieldAddr); ok && fa.X == x {
							if rr := fa.Referrers(); rr != nil {
								for _, u := range *rr {
									if st, ok := u.(*ssa.Store); ok && st.Addr == fa {
										push(st.Val, nil)
									}
								}
							}
						}
					}
				}
			}
			if opts.ThroughOps && opts.ThroughExtern {
				if refs := x.Referrers(); refs != nil {
					for _, r := range *refs {
						ci, ok := r.(ssa.CallInstruction)
						if !ok {
							continue
						}
						cc := ci.Common()
						if cc.IsInvoke() || len(cc.Args) < 2 || cc.Args[0] != x {
							continue
						}
						if sc := cc.StaticCallee(); sc != nil && !p.IsRepoFunc(sc) {
							for _, a := range cc.Args[1:] {
								push(a, nil)
							}
						}
					}
				}
			}
		case *ssa.Next:
			if opts.ThroughOps {
				push(x.Iter, nil)
			}
		case *ssa.Range:
			if opts.ThroughOps {
				push(x.X, nil)
			}
		case *ssa.Lookup:
			if opts.ThroughOps {
				push(x.X, nil)
				push(x.Index, nil)
			}
		case *ssa.MakeClosure:
			// a function value depends on what it captures
			if opts.ThroughOps {
				for _, b := range x.Bindings {
					if al, ok := b.(*ssa.Alloc); ok {
						for _, st := range p.cellStores(al) {
							push(st.Val, nil)
						}
						continue
					}
					push(b, nil)
				}
			}
		}
	}
	return false
}

func pathKey(path []int) string {
	if len(path) == 0 {
		return ""
	}
	var sb strings.Builder
	for _, f := range path {
		fmt.Fprintf(&sb, ".%d", f)
	}
	return sb.String()
}

func (p *Prog) traceCallResult(call ssa.Value, idx int, path []int, opts TraceOpts, push func(ssa.Value, []int)) {
	c, ok := call.(*ssa.Call)
	if !ok {
		return
	}
	callees := p.RepoCallees(c)
	for _, f := range callees {
		if len(f.Blocks) == 0 {
			continue
		}
		for _, b := range f.Blocks {
			if r, ok := b.Instrs[len(b.Instrs)-1].(*ssa.Return); ok && idx < len(r.Results) {
				push(r.Results[idx], path)
			}
		}
	}
	if (len(callees) == 0 || opts.NoParams && opts.ThroughOps) && opts.ThroughExtern {
		if c.Call.IsInvoke() {
			push(c.Call.Value, nil)
		} else if _, isFn := c.Call.Value.(*ssa.Function); !isFn {
			if _, isB := c.Call.Value.(*ssa.Builtin); !isB {
				push(c.Call.Value, nil)
			}
		}
		for _, a := range c.Call.Args {
			push(a, nil)
		}
	}
}

// traceLoad handles `*addr` with a pending field path.
func (p *Prog) traceLoad(addr ssa.Value, path []int, opts TraceOpts, push func(ssa.Value, []int)) {
	switch a := addr.(type) {
	case *ssa.Alloc:
		for _, st := range p.cellStores(a) {
			push(st.Val, path)
		}
		// field-wise initialisation of a struct cell: select by the head of the path
		if len(path) > 0 {
			p.fieldStoresOfBase(a, path[0], func(v ssa.Value) { push(v, path[1:]) })
		}
		// element-wise initialisation of an array cell (composite literal): any element may be read
		if refs := a.Referrers(); refs != nil {
			for _, r := range *refs {
				if ia, ok := r.(*ssa.IndexAddr); ok && ia.X == a {
					if rr := ia.Referrers(); rr != nil {
						for _, u := range *rr {
							if st, ok := u.(*ssa.Store); ok && st.Addr == ia {
								push(st.Val, path)
							}
						}
					}
				}
			}
		}
	case *ssa.FieldAddr:
		full := append([]int{a.Field}, path...)
		base := a.X
		if opts.ThroughOps {
			push(base, nil) // the loaded value depends on which object is read
		}
		if fv, ok := base.(*ssa.FreeVar); ok {
			for _, b := range p.freeVarBindings(fv) {
				p.traceLoad(&ssa.FieldAddr{X: b, Field: a.Field}, path, opts, push)
			}
			return
		}
		if al, ok := base.(*ssa.Alloc); ok {
			// local struct: whole-value stores and field stores
			for _, st := range p.cellStores(al) {
				push(st.Val, full)
			}
			p.fieldStoresOfBase(al, a.Field, func(v ssa.Value) { push(v, path) })
			return
		}
		if opts.NoHeapFields {
			return
		}
		nt := namedOf(derefType(base.Type()))
		if nt == nil {
			return
		}
		for _, st := range p.StoresTo(nt, a.Field) {
			push(st.Val, path)
		}
		// whole-struct stores through pointers of that type (rare): *p = T{...} handled by composite literal field stores
	case *ssa.IndexAddr:
		if opts.ThroughOps {
			push(a.X, nil)
			push(a.Index, nil)
		}
		// element of a local array/slice backing store (variadic packing): all element stores to the same base
		if refs := a.X.Referrers(); refs != nil {
			for _, r := range *refs {
				if ia, ok := r.(*ssa.IndexAddr); ok {
					if rr := ia.Referrers(); rr != nil {
						for _, u := range *rr {
							if st, ok := u.(*ssa.Store); ok && st.Addr == ia {
								push(st.Val, path)
							}
						}
					}
				}
			}
		}
	case *ssa.Global:
		for _, f := range p.RepoFuncs {
			instrsOf(f, func(in ssa.Instruction) {
				if st, ok := in.(*ssa.Store); ok && st.Addr == a {
					push(st.Val, path)
				}
			})
		}
		if len(path) > 0 {
			for _, f := range p.RepoFuncs {
				instrsOf(f, func(in ssa.Instruction) {
					if st, ok := in.(*ssa.Store); ok {
						if fa, ok := st.Addr.(*ssa.FieldAddr); ok && fa.X == a && fa.Field == path[0] {
							push(st.Val, path[1:])
						}
					}
				})
			}
		}
	case *ssa.FreeVar:
		for _, b := range p.freeVarBindings(a) {
			p.traceLoad(b, path, opts, push)
		}
	case *ssa.Phi:
		for _, e := range a.Edges {
			p.traceLoad(e, path, opts, push)
		}
	}
}

// fieldStoresOfBase: values stored to &base.field where base is a local cell.
func (p *Prog) fieldStoresOfBase(base ssa.Value, field int, f func(ssa.Value)) {
	refs := base.Referrers()
	if refs == nil {
		return
	}
	for _, r := range *refs {
		switch x := r.(type) {
		case *ssa.FieldAddr:
			if x.X != base || x.Field != field {
				continue
			}
			if rr := x.Referrers(); rr != nil {
				for _, u := range *rr {
					if st, ok := u.(*ssa.Store); ok && st.Addr == x {
						f(st.Val)
					}
				}
			}
		case *ssa.MakeClosure:
			fn := x.Fn.(*ssa.Function)
			for i, b := range x.Bindings {
				if b == base && i < len(fn.FreeVars) {
					p.fieldStoresOfBase(fn.FreeVars[i], field, f)
				}
			}
		}
	}
}

// Roots collects the leaves of a backward trace (values the tracer could not descend below).
func (p *Prog) Roots(v ssa.Value, opts TraceOpts) []ssa.Value {
	var out []ssa.Value
	seen := map[ssa.Value]bool{}
	p.TraceBack(v, opts, func(x ssa.Value, _ []int) bool {
		switch y := x.(type) {
		case *ssa.Phi, *ssa.ChangeType, *ssa.ChangeInterface, *ssa.MakeInterface, *ssa.TypeAssert, *ssa.Field, *ssa.FreeVar:
			return true
		case *ssa.Parameter:
			if !opts.NoParams && len(p.Callers(y.Parent())) > 0 {
				return true
			}
		case *ssa.Extract:
			if c, ok := y.Tuple.(*ssa.Call); ok && len(p.RepoCallees(c)) > 0 {
				return true
			}
		case *ssa.Call:
			if len(p.RepoCallees(y)) > 0 {
				return true
			}
		case *ssa.UnOp:
			if y.Op.String() == "*" {
				// a load: keep as root only if nothing feeds it
				fed := false
				p.traceLoad(y.X, nil, opts, func(ssa.Value, []int) { fed = true })
				if fed {
					return true
				}
			}
		}
		if !seen[x] {
			seen[x] = true
			out = append(out, x)
		}
		return true
	})
	return out
}
