package hcv

import (
	"fmt"
	"go/token"
	"sort"
	"strings"

	"golang.org/x/tools/go/ssa"
)

func init() {
	register(&Property{
		ID:    "C11",
		Title: "Age and cache-status fields on responses tell the truth",
		Decides: "every return of a stored response outside the 304 branch passes Age generation; the age handed to Age generation (and stored in the freshness record) " +
			"is the result of the RFC current-age function; each return path applies exactly one status of the right class (from-store: HIT/STALE/REVALIDATED on the stored " +
			"header, origin: MISS/BYPASS on the origin header); REVALIDATED only under status==304; HIT unreachable when the staleness flag is set; the legacy marker is " +
			"written or cleared on every path; the synthesised 504 carries BYPASS and no legacy marker; Set (not Add) is used.",
		NotDecided:  "numeric Age (+-1 s); whether the status text is the right one among the from-store statuses when several conditions hold at once.",
		Assumptions: []string{"R-FRESH (checked)", "status variables are written only in the package initialiser (checked under C16.4)"},
		Rules: []Rule{
			{ID: "C11.0", Desc: "shared premises", Run: func(c *Ctx) { ruleRFRESH(c, "C11.0") }, MinSites: 1},
			{ID: "C11.1", Desc: "Age generated on every unvalidated serve", Run: ruleC11_1, MinSites: 2},
			{ID: "C11.2", Desc: "Age provenance: RFC current age", Run: func(c *Ctx) { ruleC11_2(c); ruleResidentTime(c, "C11.2") }, MinSites: 2},
			{ID: "C11.3", Desc: "status class per return, exactly one status", Run: ruleC11_3, MinSites: 5},
			{ID: "C11.4", Desc: "HIT means fresh", Run: ruleC11_4, MinSites: 1},
			{ID: "C11.5", Desc: "legacy marker written or cleared on every path", Run: ruleC11_5, MinSites: 1},
			{ID: "C11.6", Desc: "synthesised 504 carries BYPASS, no legacy marker", Run: ruleC11_6, MinSites: 1},
			{ID: "C11.7", Desc: "single-valued: Set, not Add", Run: ruleC11_7, MinSites: 2},
			{ID: "C11.8", Desc: "the status is applied after every other header write of the exchange", Run: ruleC11_8, MinSites: 3},
			{ID: "C11.9", Desc: "a missing or invalid Date is repaired for every origin response, with the UTC time (the Age emitted later is computed from it)", Run: func(c *Ctx) { ruleDateRepair(c, "C11.9") }, MinSites: 1},
			{ID: "C11.10", Desc: "the Age value is the first member of the field", Run: func(c *Ctx) { ruleAgeFirstMember(c, "C11.10") }, MinSites: 1},
			{ID: "C11.11", Desc: "an Age too large to represent saturates instead of being dropped", Run: func(c *Ctx) { ruleSaturation(c, "C11.11") }, MinSites: 2},
			{ID: "C11.12", Desc: "header dates are decoded leniently everywhere (an obsolete-format Date is not a missing Date)", Run: func(c *Ctx) { ruleDatesThroughTheDecoder(c, "C11.12") }, MinSites: 1},
			{ID: "C11.13", Desc: "the 304 merge carries the 304's Age (only framing fields are withheld)", Run: func(c *Ctx) { ruleMergeFilter(c, "C11.13") }, MinSites: 1},
			{ID: "C11.14", Desc: "the times an age is computed from are read with their errors checked", Run: func(c *Ctx) { ruleMetaTimesChecked(c, "C11.14") }, MinSites: 1},
			{ID: "C11.15", Desc: "the Date an age is computed from survives the hop-by-hop strip (`Connection: Date`)", Run: func(c *Ctx) { ruleDateSurvivesStrip(c, "C11.15") }, MinSites: 1},
			{ID: "C11.16", Desc: "the hop-by-hop set used for one response is not the shared table (`Connection: Age` of one response does not take the Age out of later ones)", Run: func(c *Ctx) { ruleHopTablePerResponse(c, "C11.16") }, MinSites: 1},
			{ID: "C11.17", Desc: "the cache's own Age and status fields are written after the origin-named fields were stripped", Run: func(c *Ctx) { ruleOwnFieldsSetLast(c, "C11.17") }, MinSites: 1},
			{ID: "C11.18", Desc: "after a 304 the Age counts from the validation exchange (the write-back carries its times)", Run: func(c *Ctx) { ruleC08_2(c); renameRule(c, "C08.2", "C11.18") }, MinSites: 1},
			{ID: "C11.19", Desc: "the entry's request time is read from the clock in front of the origin call and its response time behind it, on every path into the entry", Run: func(c *Ctx) { ruleTimeRoles(c, "C11.19") }, MinSites: 2},
			{ID: "C11.20", Desc: "the difference added to the Age field's value is the response delay: both operands are the entry's own times", Run: func(c *Ctx) { ruleResponseDelayFromEntryTimes(c, "C11.20") }, MinSites: 1},
			{ID: "C11.21", Desc: "every field of the entry's meta line is read from the column it is written to (request and response time survive the store in their roles)", Run: func(c *Ctx) { ruleMetaLineColumns(c, "C11.21") }, MinSites: 1},
		},
	})
}

func (c *Ctx) functionsWithServeReturn() []*ssa.Function {
	var out []*ssa.Function
	for fn := range c.A.Reach {
		has := false
		instrsOf(fn, func(in ssa.Instruction) {
			if c.An.IsServeReturn(in) {
				has = true
			}
		})
		if has {
			out = append(out, fn)
		}
	}
	sort.Slice(out, func(i, j int) bool { return FuncName(out[i]) < FuncName(out[j]) })
	return out
}

func ruleC11_1(c *Ctx) {
	if !c.Need("C11.1", "ageSet") {
		return
	}
	asAge := AssumeKeys(map[string]bool{not304: false})
	isAge := c.An.KUnder("AGE-SET", "not304", asAge, func(in ssa.Instruction) bool {
		if !c.An.CallsRole(in, "ageSet") {
			return false
		}
		// the response given to Age generation must be a stored response
		_, args := recvAndArgs(callOf(in))
		if len(args) == 0 {
			return false
		}
		k := c.An.ResponseKinds(args[0])
		return k["stored"]
	})
	n := 0
	for _, fn := range c.functionsWithServeReturn() {
		pr := c.An.Prune(fn, AssumeKeys(map[string]bool{not304: false}))
		r := c.An.MustPass(pr, c.An.IsServeReturn, isAge)
		if r.Targets == 0 {
			continue
		}
		n++
		desc := "every return of a stored response that was not validated in this exchange passes Age generation on the stored response"
		key := "age-before-serve fn=" + c.P.ShortName(fn)
		if r.OK {
			c.Pass("C11.1", key, desc, fmt.Sprintf("%s: %d returns", c.P.ShortName(fn), r.Targets))
		} else {
			c.Fail("C11.1", key, desc, c.P.InstrPos(r.Missing[0])+": the stored response is returned without regenerating Age; the origin's original Age value (or none) is forwarded",
				fmt.Sprintf("%s: %d returns", c.P.ShortName(fn), r.Targets))
		}
	}
	if n == 0 {
		c.Undecided("C11.1", "vacuity", "an unvalidated serve return exists", "none found")
	}
}

// underKey renders the recognised decisions that dominate block b ("atom=T,atom=F", sorted).
func (c *Ctx) underKey(b *ssa.BasicBlock) string {
	var ks []string
	for _, dc := range dominatingConds(b) {
		for _, lf := range condLeaves(dc.cond, dc.onTrue) {
			if a, neg, ok := c.An.AtomOf(lf.v); ok {
				ks = append(ks, fmt.Sprintf("%s=%s", a.Key, tf(lf.val != neg)))
			}
		}
	}
	sort.Strings(ks)
	ks = uniqStrings(ks)
	if len(ks) == 0 {
		return "always"
	}
	return strings.Join(ks, ",")
}

type condLeaf struct {
	v   ssa.Value
	val bool
}

// condLeaves splits a short-circuit condition known to be `want` into the leaves whose value is thereby known:
// a phi of `a && b` that is true makes both true; `a || b` that is false makes both false.
func condLeaves(v ssa.Value, want bool) []condLeaf {
	if u, ok := v.(*ssa.UnOp); ok && u.Op == token.NOT {
		return condLeaves(u.X, !want)
	}
	phi, ok := v.(*ssa.Phi)
	if !ok {
		return []condLeaf{{v, want}}
	}
	// `a && b`: edges are false constants except the last (b); `a || b`: true constants except the last
	var consts []bool
	var last ssa.Value
	for _, e := range phi.Edges {
		if k, ok := e.(*ssa.Const); ok {
			if b, ok := constBool(k); ok {
				consts = append(consts, b)
				continue
			}
		}
		if last != nil {
			return nil
		}
		last = e
	}
	if last == nil || len(consts) == 0 {
		return nil
	}
	for _, b := range consts {
		if b != consts[0] {
			return nil
		}
	}
	if consts[0] == want {
		return nil // the constant edges already give the wanted value: nothing known about the leaves
	}
	// want differs from the short-circuit constant: the phi took its last edge, and every earlier condition let it
	out := condLeaves(last, want)
	blk := phi.Block()
	for i, e := range phi.Edges {
		if _, ok := e.(*ssa.Const); !ok {
			continue
		}
		pred := blk.Preds[i]
		if iff, ok := pred.Instrs[len(pred.Instrs)-1].(*ssa.If); ok {
			// the short-circuit edge was not taken: the condition had the opposite outcome
			taken := pred.Succs[0] == blk
			out = append(out, condLeaves(iff.Cond, !taken)...)
		}
	}
	return out
}

func tf(b bool) string {
	if b {
		return "T"
	}
	return "F"
}

func ruleC11_2(c *Ctx) {
	if !c.Need("C11.2", "ageSet", "currentAge", "freshness") {
		return
	}
	ca := c.A.F("currentAge")
	// (a) every store to Freshness.Age is the current-age function's result
	stores := c.P.StoresTo(c.A.FreshT, c.A.FreshAge)
	n := 0
	for _, st := range stores {
		if isTestOnly(c, st.Parent()) {
			continue
		}
		n++
		where := c.P.ShortName(st.Parent()) + "@" + c.P.InstrPos(st)
		okAll := true
		why := ""
		for _, r := range c.P.Roots(st.Val, TraceOpts{NoParams: true}) {
			call, isCall := r.(*ssa.Call)
			if isCall && call.Call.StaticCallee() == ca {
				continue
			}
			okAll = false
			why = fmt.Sprintf("value rooted at %T `%s`", r, r.String())
		}
		// Roots descends into repo callee returns; the current-age call is a repo call, so test directly as well
		if call, ok := st.Val.(*ssa.Call); ok && call.Call.StaticCallee() == ca {
			okAll, why = true, ""
		}
		desc := "the age recorded in the freshness record is the RFC 9111 §4.2.3 current age"
		if okAll {
			c.Pass("C11.2", "freshness-age-store "+c.P.ShortName(st.Parent())+"#"+fmt.Sprint(n), desc, where)
		} else {
			// keyed by the role of the function and the decision that leads to the store, not by its name or position
			in := c.A.roleOf[st.Parent()]
			if in == "" {
				in = c.P.ShortName(st.Parent())
			}
			// the store is harmless when no caller on the exchange can hand over a request in the state that leads to it
			excl, exwhy, sites := c.requestStateExcluded(st.Parent(), c.underLeaves(st.Block()))
			if exwhy != "" {
				why += "; the state is not excluded by the callers: " + exwhy
			}
			if excl {
				c.Pass("C11.2", "freshness-age-unreachable in="+in+" under="+c.underKey(st.Block()),
					"a made-up age is stored only for a request state that no call site on the exchange can hand over", append([]string{where}, sites...)...)
				continue
			}
			c.Fail("C11.2", "freshness-age-fabricated in="+in+" under="+c.underKey(st.Block()), desc,
				where+": "+why+". Witness: request `max-age=0, only-if-cached` (or SWR / stale-if-error with request max-age=0) emits `Age: 0` for an old entry", where)
		}
	}
	if n == 0 {
		c.Undecided("C11.2", "vacuity", "the freshness record's age is stored somewhere", "no store to Freshness.Age")
	}
	// (b) the age argument of every Age-generation call is a load of Freshness.Age (or the current-age result)
	m := 0
	for fn := range c.A.Reach {
		instrsOf(fn, func(in ssa.Instruction) {
			if !c.An.CallsRole(in, "ageSet") {
				return
			}
			m++
			_, args := recvAndArgs(callOf(in))
			var ageArg ssa.Value
			for _, a := range args {
				if isPtrToNamed(a.Type(), c.A.AgeT) {
					ageArg = a
				}
			}
			where := c.P.ShortName(fn) + "@" + c.P.InstrPos(in)
			if ageArg == nil {
				c.Undecided("C11.2", "age-arg fn="+c.P.ShortName(fn), "Age generation takes an age", where+": no *Age argument")
				return
			}
			ok := false
			c.P.TraceBack(ageArg, TraceOpts{NoHeapFields: true}, func(v ssa.Value, _ []int) bool {
				if u, isU := v.(*ssa.UnOp); isU {
					if fa, isFA := u.X.(*ssa.FieldAddr); isFA && isPtrToNamed(fa.X.Type(), c.A.FreshT) && fa.Field == c.A.FreshAge {
						ok = true
						return false
					}
				}
				if call, isC := v.(*ssa.Call); isC && call.Call.StaticCallee() == ca {
					ok = true
					return false
				}
				return true
			})
			desc := "the age handed to Age generation is the freshness record's age"
			if ok {
				c.Pass("C11.2", "age-arg fn="+c.P.ShortName(fn), desc, where)
			} else {
				c.Fail("C11.2", "age-arg fn="+c.P.ShortName(fn), desc, where+": age argument does not come from the freshness record")
			}
		})
	}
	if m == 0 {
		c.Undecided("C11.2", "vacuity-calls", "an Age generation call exists", "none reachable from RoundTrip")
	}
	ruleAgeEmission(c, "C11.2")
}

// ruleAgeEmission (C11.2 / C13.8): Age generation itself: value = age.Value + clock.Since(age.Timestamp), clamped at 0,
// via Header.Set("Age"). The stale-if-error path emits the Age only after the failed validation attempt, so dropping
// the elapsed time under-reports the age by the whole duration of that attempt.
func ruleAgeEmission(c *Ctx, rule string) {
	if !c.Need(rule, "ageSet") {
		return
	}
	as := c.A.F("ageSet")
	deps := map[string]bool{}
	instrsOf(as, func(in ssa.Instruction) {
		call := callOf(in)
		if call == nil || !callIsMethod(call, "net/http", "Header", "Set") {
			return
		}
		_, args := recvAndArgs(call)
		c.P.TraceBack(args[1], TraceOpts{ThroughOps: true, ThroughExtern: true, NoParams: true, NoHeapFields: true}, func(v ssa.Value, _ []int) bool {
			switch y := v.(type) {
			case *ssa.Call:
				if y.Call.IsInvoke() && y.Call.Method.Name() == "Since" || callIsPkgFunc(&y.Call, "time", "Since") {
					deps["since"] = true
				}
				if b, ok := y.Call.Value.(*ssa.Builtin); ok && b.Name() == "max" {
					deps["max"] = true
				}
			case *ssa.FieldAddr:
				deps["field:"+fieldName(y.X.Type(), y.Field)] = true
			case *ssa.UnOp:
				if fa, ok := y.X.(*ssa.FieldAddr); ok {
					deps["field:"+fieldName(fa.X.Type(), fa.Field)] = true
				}
			}
			return true
		})
	})
	var ks []string
	for k := range deps {
		ks = append(ks, k)
	}
	sort.Strings(ks)
	desc := "the emitted Age is the recorded age plus the time since it was computed, clamped at 0"
	if deps["since"] && deps["max"] && len(ks) >= 4 {
		c.Pass(rule, "age-emission", desc, c.P.ShortName(as)+": "+strings.Join(ks, ","))
	} else {
		c.Fail(rule, "age-emission", desc, c.P.ShortName(as)+": emitted value depends only on "+strings.Join(ks, ","))
	}
}

// statusSeqs: forward dataflow of the sequences of statuses applied on paths to each instruction (capped length 3).
func (an *Analysis) statusSeqs(pr *Pruned, target ssa.Instruction) map[string]bool {
	fn := pr.Fn
	type set = map[string]bool
	in := map[int]set{0: {"": true}}
	out := map[int]set{}
	apply := func(s set, st string) set {
		r := set{}
		for k := range s {
			parts := []string{}
			if k != "" {
				parts = strings.Split(k, ",")
			}
			if len(parts) < 3 {
				parts = append(parts, st)
			}
			r[strings.Join(parts, ",")] = true
		}
		return r
	}
	var atTarget set
	for changed := true; changed; {
		changed = false
		for _, b := range fn.Blocks {
			if !pr.LiveBlock[b.Index] {
				continue
			}
			cur := set{}
			if b.Index == 0 {
				cur[""] = true
			}
			for _, pd := range b.Preds {
				if pr.LiveBlock[pd.Index] && pr.EdgeLive(pd, b) {
					for k := range out[pd.Index] {
						cur[k] = true
					}
				}
			}
			in[b.Index] = cur
			for _, ins := range b.Instrs {
				if ins == target {
					atTarget = set{}
					for k := range cur {
						atTarget[k] = true
					}
				}
				if an.CallsRole(ins, "statusApply") {
					v, _, ok := an.StatusOfCall(callOf(ins))
					if !ok {
						v = "?"
					}
					cur = apply(cur, v)
				} else if call, ok := ins.(*ssa.Call); ok {
					// a helper (not itself an outcome function) that applies statuses on all its paths
					for _, cal := range an.P.RepoCallees(call) {
						if isOutcomeFunc(cal) || len(cal.Blocks) == 0 || an.A.roleOf[cal] != "" {
							continue
						}
						for _, v := range an.statusesAlwaysApplied(cal, 0) {
							cur = apply(cur, v)
						}
					}
				}
			}
			if len(cur) != len(out[b.Index]) {
				out[b.Index] = cur
				changed = true
			} else {
				for k := range cur {
					if !out[b.Index][k] {
						out[b.Index] = cur
						changed = true
						break
					}
				}
			}
		}
	}
	return atTarget
}

func ruleC11_3(c *Ctx) {
	if !c.Need("C11.3", "statusApply") {
		return
	}
	n := 0
	var fns []*ssa.Function
	for fn := range c.A.Reach {
		rs := sigResults(fn)
		if len(rs) == 2 && isHTTPResponsePtr(rs[0]) && isErrorType(rs[1]) && len(fn.Blocks) > 0 && !isTestOnly(c, fn) {
			fns = append(fns, fn)
		}
	}
	sort.Slice(fns, func(i, j int) bool { return FuncName(fns[i]) < FuncName(fns[j]) })
	for _, fn := range fns {
		if fn == c.A.F("synth504") {
			continue
		}
		if c.An.AdapterTargets(fn) != nil {
			continue
		}
		pr := c.An.Prune(fn, nil)
		ri := 0
		instrsOf(fn, func(in ssa.Instruction) {
			r, ok := in.(*ssa.Return)
			if !ok || len(r.Results) != 2 {
				return
			}
			ri++
			kind := ""
			switch {
			case isNilConst(r.Results[0]):
				kind = "error"
			case c.An.isRepoCallResult(r.Results[0]):
				kind = "callee"
			case c.An.IsServeReturn(in):
				kind = "serve"
			default:
				ks := c.An.ResponseKinds(r.Results[0])
				switch {
				case ks["upstream"] && !ks["stored"]:
					kind = "origin"
				case ks["stored"] && !ks["upstream"] && !ks["synth"]:
					kind = "serve" // handed back by a helper
				default:
					kind = "other"
				}
			}
			seqs := c.An.statusSeqs(pr, in)
			var sl []string
			for k := range seqs {
				sl = append(sl, "["+k+"]")
			}
			sort.Strings(sl)
			where := fmt.Sprintf("%s@%s kind=%s statuses=%v", c.P.ShortName(fn), c.P.InstrPos(in), kind, sl)
			key := fmt.Sprintf("status-at-return fn=%s kind=%s", c.P.ShortName(fn), kind)
			desc := "each return applies exactly one status of the class matching what is returned"
			n++
			bad := ""
			for k := range seqs {
				switch kind {
				case "serve":
					if !(k == "HIT" || k == "STALE" || k == "REVALIDATED") {
						bad = "a stored response is returned with status sequence [" + k + "]"
					}
				case "origin":
					if !(k == "MISS" || k == "BYPASS") {
						bad = "an origin response is returned with status sequence [" + k + "]"
					}
				case "callee":
					if k != "" {
						bad = "a status is applied before delegating to a callee that applies its own: [" + k + "]"
					}
				case "other":
					bad = "returned response of unknown provenance"
				}
			}
			if bad != "" {
				c.Fail("C11.3", key, desc, where+": "+bad, where)
			} else {
				c.Pass("C11.3", key+"#"+fmt.Sprint(ri), desc, where)
			}
		})
	}
	if n == 0 {
		c.Undecided("C11.3", "vacuity", "returns exist", "none")
	}
	// header class: from-store statuses go on the stored header, origin statuses on the origin header
	for fn := range c.A.Reach {
		instrsOf(fn, func(in ssa.Instruction) {
			if !c.An.CallsRole(in, "statusApply") {
				return
			}
			call := callOf(in)
			v, legacy, ok := c.An.StatusOfCall(call)
			where := fmt.Sprintf("%s@%s status=%s", c.P.ShortName(fn), c.P.InstrPos(in), v)
			if !ok {
				c.Undecided("C11.3", "status-const fn="+c.P.ShortName(fn), "the applied status is a constant", where)
				return
			}
			fromStore, known := oracleStatus[v]
			if !known {
				c.Fail("C11.3", "status-known fn="+c.P.ShortName(fn)+" v="+v, "the status is one of HIT, STALE, REVALIDATED, MISS, BYPASS", where)
				return
			}
			if fromStore != (legacy == "1") || (!fromStore && legacy != "") {
				c.Fail("C11.3", "status-legacy v="+v, "the legacy marker is '1' exactly for from-store statuses", where+" legacy="+legacy)
				return
			}
			cls := c.An.HeaderClass(call.Args[1])
			want := "up"
			if fromStore {
				want = "rs"
			}
			if cls != want {
				c.Fail("C11.3", "status-header-class fn="+c.P.ShortName(fn)+" v="+v, "from-store statuses are applied to the stored response, origin statuses to the origin response", where+": header class "+cls+", want "+want)
				return
			}
			c.Pass("C11.3", "status-site fn="+c.P.ShortName(fn)+" v="+v, "status constant, legacy marker and target header agree", where)
		})
	}
	// REVALIDATED only after a 304: under status != 304 no site applying REVALIDATED is reachable from RoundTrip
	// (interprocedural: the guard may sit in the caller of the function that applies the status)
	nRev := 0
	for fn := range c.A.Reach {
		instrsOf(fn, func(in ssa.Instruction) {
			if c.An.CallsRole(in, "statusApply") {
				if v, _, _ := c.An.StatusOfCall(callOf(in)); v == "REVALIDATED" {
					nRev++
				}
			}
		})
	}
	if nRev == 0 {
		return
	}
	c.ForbidOb("C11.3", "revalidated-needs-304", map[string]bool{not304: false}, "REVALIDATED-STATUS", func(in ssa.Instruction) bool {
		if !c.An.CallsRole(in, "statusApply") {
			return false
		}
		v, _, _ := c.An.StatusOfCall(callOf(in))
		return v == "REVALIDATED"
	}, true, "the origin answers 200 (or 500) to the validation and the response handed back is marked REVALIDATED")
}

func ruleC11_4(c *Ctx) {
	if !c.Need("C11.4", "statusApply") {
		return
	}
	isHit := func(in ssa.Instruction) bool {
		if !c.An.CallsRole(in, "statusApply") {
			return false
		}
		v, _, _ := c.An.StatusOfCall(callOf(in))
		return v == "HIT"
	}
	c.ForbidOb("C11.4", "row=stale-not-HIT", map[string]bool{"fr.stale": true}, "STATUS-HIT", isHit, false,
		"a stale entry served under only-if-cached is marked HIT although the status table says STALE")
	// the staleness flag is relaxed under the request's max-stale; a response whose age has reached its lifetime is
	// still served "while stale"
	c.ForbidOb("C11.4", "row=past-lifetime-not-HIT", map[string]bool{"fr.age>=life": true}, "STATUS-HIT", isHit, false,
		"a response 50 s past its lifetime served under `max-stale=1000` is marked HIT")
}

func ruleC11_5(c *Ctx) {
	if !c.Need("C11.5", "statusApply") {
		return
	}
	fn := c.A.F("statusApply")
	// the legacy key: a header key written in this function other than the main status header
	keys := map[string]bool{}
	instrsOf(fn, func(in ssa.Instruction) {
		if call := callOf(in); call != nil && (callIsMethod(call, "net/http", "Header", "Set") || callIsMethod(call, "net/http", "Header", "Del")) {
			_, args := recvAndArgs(call)
			if s, ok := constStr(args[0]); ok {
				keys[s] = true
			}
		}
	})
	legacy := ""
	for k := range keys {
		if !strings.EqualFold(k, "X-Httpcache-Status") {
			legacy = k
		}
	}
	if legacy == "" {
		c.Pass("C11.5", "no-legacy-marker", "no legacy marker is emitted at all", c.P.ShortName(fn))
		return
	}
	pr := c.An.Prune(fn, nil)
	r := c.An.MustPass(pr, nil, func(in ssa.Instruction) bool {
		call := callOf(in)
		if call == nil || !(callIsMethod(call, "net/http", "Header", "Set") || callIsMethod(call, "net/http", "Header", "Del")) {
			return false
		}
		_, args := recvAndArgs(call)
		s, ok := constStr(args[0])
		return ok && s == legacy
	})
	desc := "on every path of the status-applying method the legacy marker " + legacy + " is either set or deleted"
	if r.OK {
		c.Pass("C11.5", "legacy-cleared", desc, c.P.ShortName(fn))
	} else {
		c.Fail("C11.5", "legacy-cleared", desc, c.P.InstrPos(r.Missing[0])+": a return is reachable without touching "+legacy+
			"; an origin that itself sends `"+legacy+": 1` keeps it on a MISS/BYPASS response", c.P.ShortName(fn))
	}
}

func ruleC11_6(c *Ctx) {
	if !c.Need("C11.6", "synth504") {
		return
	}
	fn := c.A.F("synth504")
	var consts []string
	mentionsBypass := false
	instrsOf(fn, func(in ssa.Instruction) {
		for _, op := range in.Operands(nil) {
			if s, ok := constStr(*op); ok {
				consts = append(consts, s)
			}
			if u, ok := (*op).(*ssa.UnOp); ok {
				if fa, ok := u.X.(*ssa.FieldAddr); ok {
					if g, ok := fa.X.(*ssa.Global); ok {
						var v string
						c.P.traceLoad(g, []int{fa.Field}, TraceOpts{}, func(x ssa.Value, path []int) {
							c.P.TraceBackPath(x, path, TraceOpts{NoParams: true}, func(y ssa.Value, p2 []int) bool {
								if s, ok := constStr(y); ok && len(p2) == 0 {
									v = s
								}
								return true
							})
						})
						if v == "BYPASS" {
							mentionsBypass = true
						}
						consts = append(consts, "<"+g.Name()+"."+fieldName(g.Type(), fa.Field)+"="+v+">")
					}
				}
			}
		}
	})
	all := strings.Join(consts, "|")
	desc := "the synthesised response is a 504 carrying the BYPASS status and no from-cache marker"
	var bad []string
	if !strings.Contains(all, " 504 ") {
		bad = append(bad, "status line is not 504")
	}
	if !strings.Contains(strings.ToLower(all), "x-httpcache-status") || !(mentionsBypass || strings.Contains(all, "BYPASS")) {
		bad = append(bad, "does not carry X-Httpcache-Status: BYPASS")
	}
	if strings.Contains(strings.ToLower(all), "x-from-cache") {
		bad = append(bad, "carries the from-cache marker")
	}
	if len(bad) > 0 {
		c.Fail("C11.6", "synth-504", desc, c.P.ShortName(fn)+": "+strings.Join(bad, "; "), all)
	} else {
		c.Pass("C11.6", "synth-504", desc, all)
	}
}

func ruleC11_7(c *Ctx) {
	n := 0
	bad := 0
	for fn := range c.A.Reach {
		instrsOf(fn, func(in ssa.Instruction) {
			call := callOf(in)
			if call == nil {
				return
			}
			if callIsMethod(call, "net/http", "Header", "Add") {
				r, args := recvAndArgs(call)
				cls := c.An.HeaderClass(r)
				if cls == "rs" || cls == "up" {
					k, _ := constStr(args[0])
					bad++
					c.Fail("C11.7", "header-add fn="+c.P.ShortName(fn), "the cache writes response fields with Set, never Add", c.P.InstrPos(in)+": Header.Add("+k+") on a response header")
				}
			}
			if callIsMethod(call, "net/http", "Header", "Set") {
				r, _ := recvAndArgs(call)
				if cls := c.An.HeaderClass(r); cls == "rs" || cls == "up" {
					n++
				}
			}
		})
	}
	if bad == 0 {
		c.Pass("C11.7", "set-not-add", "the cache writes response fields with Set, never Add", fmt.Sprintf("%d Header.Set sites on response headers", n), "no Header.Add on a response header")
	}
}

// ruleC11_8: once the cache status was applied to a header, nothing else writes that header before the return
// (a later merge of origin fields could overwrite the status; a later store would persist it).
func ruleC11_8(c *Ctx) {
	n := 0
	for fn := range c.A.Reach {
		instrsOf(fn, func(in ssa.Instruction) {
			if !c.An.CallsRole(in, "statusApply") || fn == c.A.F("statusApply") {
				return
			}
			n++
			call := callOf(in)
			cls := c.An.HeaderClass(call.Args[1])
			where := c.P.ShortName(fn) + "@" + c.P.InstrPos(in)
			bad := ""
			instrsOf(fn, func(i2 ssa.Instruction) {
				if i2 == in || !instrReaches(in, i2) || instrReaches(i2, in) && i2.Block() != in.Block() {
					return
				}
				c2 := callOf(i2)
				if c2 == nil {
					return
				}
				mut := ""
				switch {
				case c2.StaticCallee() == c.A.F("merge304"):
					mut = "304 merge"
				case c.An.CallsRole(i2, "storeResp"):
					mut = "store"
				case c2.StaticCallee() == c.A.F("stripHop"):
					mut = "hop-by-hop strip"
				case callIsMethod(c2, "net/http", "Header", "Set") || callIsMethod(c2, "net/http", "Header", "Add") || callIsMethod(c2, "net/http", "Header", "Del"):
					r, _ := recvAndArgs(c2)
					if c.An.HeaderClass(r) == cls {
						mut = "header write"
					}
				}
				if mut != "" {
					bad = fmt.Sprintf("%s: %s at %s follows the status application", where, mut, c.P.InstrPos(i2))
				}
			})
			desc := "nothing writes the response header (or stores the response) after the cache status was applied"
			if bad != "" {
				c.Fail("C11.8", "status-last fn="+c.P.ShortName(fn), desc, bad+"; a 304 that itself carries X-Httpcache-Status overwrites REVALIDATED, or the stored copy carries the cache's status")
			} else {
				c.Pass("C11.8", "status-last fn="+c.P.ShortName(fn), desc, where)
			}
		})
	}
	if n == 0 {
		c.Undecided("C11.8", "vacuity", "status application sites exist", "none")
	}
}

// statusesAlwaysApplied: the sequence of statuses a helper applies when it applies the same sequence on every path.
func (an *Analysis) statusesAlwaysApplied(fn *ssa.Function, depth int) (res []string) {
	if depth > 3 || len(fn.Blocks) == 0 {
		return nil
	}
	if an.statusMemo == nil {
		an.statusMemo = map[*ssa.Function][]string{}
	}
	if v, ok := an.statusMemo[fn]; ok {
		return v
	}
	an.statusMemo[fn] = nil
	defer func() { an.statusMemo[fn] = res }()
	// only helpers that can apply a status at all
	if !an.May("STATUS-APPLY", fn, func(in ssa.Instruction) bool { return an.CallsRole(in, "statusApply") }, false) {
		return nil
	}
	pr := an.Prune(fn, nil)
	var seq map[string]bool
	first := true
	okSame := true
	instrsOf(fn, func(in ssa.Instruction) {
		if _, isRet := in.(*ssa.Return); !isRet {
			return
		}
		s := an.statusSeqs(pr, in)
		if first {
			seq, first = s, false
			return
		}
		if len(s) != len(seq) {
			okSame = false
		}
		for k := range s {
			if !seq[k] {
				okSame = false
			}
		}
	})
	if !okSame || len(seq) != 1 {
		return nil
	}
	for k := range seq {
		if k == "" {
			return nil
		}
		return strings.Split(k, ",")
	}
	return nil
}
