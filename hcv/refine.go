package hcv

import (
	"go/types"
	"sort"
	"strings"

	"golang.org/x/tools/go/ssa"
)

// Call-graph refinement for function values (DESIGN A.3): VTA resolves a call through a func-typed value to every
// closure of that type in the program, so `yield(x)` inside one iterator appears to call the loop bodies of unrelated
// iterators. Where a called function value can be traced back completely to closure creations, the traced set is used
// instead; where it cannot, the VTA answer stands (never fewer edges than what the trace proves complete).

type refined struct {
	done    bool
	callees map[ssa.CallInstruction][]*ssa.Function
}

// funcValueRoots traces a function value to the closures/functions it may denote. complete=false when some root is
// not a closure creation or function constant.
func (p *Prog) funcValueRoots(v ssa.Value, yieldArgs map[*ssa.Function][]ssa.Value) (fns []*ssa.Function, complete bool) {
	complete = true
	seen := map[*ssa.Function]bool{}
	p.TraceBack(v, TraceOpts{NoHeapFields: true}, func(x ssa.Value, _ []int) bool {
		switch y := x.(type) {
		case *ssa.MakeClosure:
			if f, ok := y.Fn.(*ssa.Function); ok && !seen[f] {
				seen[f] = true
				fns = append(fns, f)
			}
			return false
		case *ssa.Function:
			if !seen[y] {
				seen[y] = true
				fns = append(fns, y)
			}
			return false
		case *ssa.Parameter:
			// a func-typed parameter (yield) of a closure, or of a function/method all of whose call sites are known:
			// use the structurally collected arguments when available
			_, isSig := y.Type().Underlying().(*types.Signature)
			_, known := yieldArgs[y.Parent()]
			if isSig && (y.Parent().Parent() != nil || known) {
				if yieldArgs == nil {
					complete = false
					return false
				}
				args, ok := yieldArgs[y.Parent()]
				if !ok {
					complete = false
					return false
				}
				idx := paramIndex(y.Parent(), y)
				_ = idx
				for _, a := range args {
					// (the argument may itself be the func-typed parameter of a wrapper whose callers are known)
					var inner map[*ssa.Function][]ssa.Value
					if prm, isPrm := a.(*ssa.Parameter); isPrm && prm.Parent() != y.Parent() {
						if _, ok := yieldArgs[prm.Parent()]; ok {
							inner = yieldArgs
						}
					}
					fs, c := p.funcValueRoots(a, inner)
					if !c {
						complete = false
					}
					for _, f := range fs {
						if !seen[f] {
							seen[f] = true
							fns = append(fns, f)
						}
					}
				}
				return false
			}
			if len(p.Callers(y.Parent())) == 0 {
				complete = false
			}
		case *ssa.Const:
			// nil func
		case *ssa.Phi, *ssa.ChangeType, *ssa.MakeInterface, *ssa.ChangeInterface, *ssa.TypeAssert, *ssa.Extract, *ssa.Call, *ssa.FreeVar, *ssa.Field:
		case *ssa.UnOp:
			// load: fine when fed by stores (handled by the tracer); a heap field without visible stores is incomplete
			if fa, ok := y.X.(*ssa.FieldAddr); ok {
				if _, local := fa.X.(*ssa.Alloc); !local {
					complete = false
				}
			}
		default:
			complete = false
		}
		return true
	})
	sort.Slice(fns, func(i, j int) bool { return FuncName(fns[i]) < FuncName(fns[j]) })
	return fns, complete
}

func isDynamicFuncCall(c *ssa.CallCommon) bool {
	if c.IsInvoke() || c.StaticCallee() != nil {
		return false
	}
	if _, isB := c.Value.(*ssa.Builtin); isB {
		return false
	}
	return true
}

func (p *Prog) refine() *refined {
	if p.ref != nil && p.ref.done {
		return p.ref
	}
	r := &refined{callees: map[ssa.CallInstruction][]*ssa.Function{}}
	p.ref = r
	r.done = false
	// phase A: calls of values that trace completely to closures without crossing a closure's func-typed parameter
	type site struct {
		ci ssa.CallInstruction
		fn *ssa.Function
	}
	var sites []site
	for _, fn := range p.RepoFuncs {
		instrsOf(fn, func(in ssa.Instruction) {
			if ci, ok := in.(ssa.CallInstruction); ok && isDynamicFuncCall(ci.Common()) {
				sites = append(sites, site{ci, fn})
			}
		})
	}
	phaseA := map[ssa.CallInstruction][]*ssa.Function{}
	for _, s := range sites {
		fns, complete := p.funcValueRoots(s.ci.Common().Value, nil)
		if complete && len(fns) > 0 {
			phaseA[s.ci] = fns
		}
	}
	// the yield functions a closure G may receive: the func-typed arguments at every repo site that VTA (an
	// over-approximation) lists as a possible caller of G. Which iterator a site really calls may be imprecise; what it
	// passes is visible at the site. G is resolvable when the arguments of all those sites trace completely to closures.
	yieldArgs := map[*ssa.Function][]ssa.Value{}
	callersOK := map[*ssa.Function]bool{}
	argsOf := map[*ssa.Function][]ssa.Value{}
	for _, s := range sites {
		callees := p.vtaCallees(s.ci)
		if fns, ok := phaseA[s.ci]; ok {
			callees = fns // the site's callee set is known exactly
		}
		for _, g := range callees {
			if _, ok := callersOK[g]; !ok {
				callersOK[g] = true
			}
			for _, a := range s.ci.Common().Args {
				if _, isSig := a.Type().Underlying().(*types.Signature); !isSig {
					continue
				}
				if _, complete := p.funcValueRoots(a, nil); !complete {
					callersOK[g] = false
					continue
				}
				argsOf[g] = append(argsOf[g], a)
			}
		}
	}
	for g, ok := range callersOK {
		if ok {
			yieldArgs[g] = argsOf[g]
		}
	}
	// functions and methods that take a function value and are only ever called statically (an iterator written as a
	// method, reached through its bound-method wrapper): their call sites are the static calls
	staticArgs := map[*ssa.Function][]ssa.Value{}
	addressTaken := map[*ssa.Function]bool{}
	for _, fn := range p.RepoFuncs {
		instrsOf(fn, func(in ssa.Instruction) {
			var callee *ssa.Function
			if ci, ok := in.(ssa.CallInstruction); ok {
				callee = ci.Common().StaticCallee()
				if callee != nil && p.IsRepoFunc(callee) {
					for _, a := range ci.Common().Args {
						if _, isSig := a.Type().Underlying().(*types.Signature); isSig {
							staticArgs[callee] = append(staticArgs[callee], a)
						}
					}
				}
			}
			for _, op := range in.Operands(nil) {
				if f, ok := (*op).(*ssa.Function); ok && f != nil {
					if ci, isCall := in.(ssa.CallInstruction); isCall && ci.Common().Value == ssa.Value(f) {
						continue
					}
					if _, isMC := in.(*ssa.MakeClosure); isMC {
						continue
					}
					addressTaken[f] = true
				}
			}
		})
	}
	for g, args := range staticArgs {
		if addressTaken[g] || g.Parent() != nil {
			continue
		}
		if _, dyn := yieldArgs[g]; dyn {
			continue
		}
		// every call-graph edge into g is one of the static calls
		onlyStatic := true
		if n := p.VTA.Nodes[g]; n != nil {
			for _, e := range n.In {
				if e.Site == nil || e.Site.Common().StaticCallee() != g {
					onlyStatic = false
				}
			}
		}
		if onlyStatic {
			yieldArgs[g] = args
		}
	}
	// an iterator closure that no repo site calls (it is only handed to library code such as maps.Collect) receives only
	// yield functions created outside the repository: its yield calls have no repo callee. VTA over-approximates the
	// callers, so "no repo caller in VTA" is safe to rely on.
	for _, g := range p.RepoFuncs {
		if _, have := yieldArgs[g]; have || len(g.Blocks) == 0 {
			continue
		}
		hasFuncParam := false
		for _, prm := range g.Params {
			if _, isSig := prm.Type().Underlying().(*types.Signature); isSig {
				hasFuncParam = true
			}
		}
		if !hasFuncParam || (g.Parent() == nil && !strings.HasSuffix(g.Name(), "$bound")) {
			continue // (the wrapper of a bound method value - `pairs{...}.each` handed out as an iterator - counts as a closure)
		}
		n := p.VTA.Nodes[g]
		if n == nil {
			continue
		}
		repoCaller := false
		for _, e := range n.In {
			if p.IsRepoFunc(e.Caller.Func) {
				repoCaller = true
			}
		}
		if !repoCaller {
			yieldArgs[g] = nil
		}
	}
	// a closure that is also called from non-repo code (slices.Sorted(seq), maps.Collect(seq)) receives foreign yield
	// functions too; those are not repo functions, so the repo-callee set stays exact.
	// phase B: all dynamic sites again, now allowed to resolve yield parameters structurally
	for _, s := range sites {
		if fns, ok := phaseA[s.ci]; ok {
			r.callees[s.ci] = fns
			continue
		}
		fns, complete := p.funcValueRoots(s.ci.Common().Value, yieldArgs)
		if complete {
			r.callees[s.ci] = fns
		}
	}
	r.done = true
	p.callersOf = nil // callers index depends on the refined edges
	return r
}

// vtaCallees: the unrefined call-graph answer.
func (p *Prog) vtaCallees(in ssa.CallInstruction) []*ssa.Function {
	fn := in.Parent()
	n := p.CG.Nodes[fn]
	if n == nil {
		return nil
	}
	var out []*ssa.Function
	seen := map[*ssa.Function]bool{}
	for _, e := range n.Out {
		if e.Site == in && !seen[e.Callee.Func] {
			seen[e.Callee.Func] = true
			if p.Cfg.UseCHA && p.neverAllocatedRecv(e.Callee.Func) {
				continue // CHA adds every implementation; a type that is never allocated in the loaded code has no values
			}
			out = append(out, e.Callee.Func)
		}
	}
	sort.Slice(out, func(i, j int) bool { return FuncName(out[i]) < FuncName(out[j]) })
	return out
}

// neverAllocatedRecv: fn is a method of a repo struct type for which the loaded (non-test) program contains no
// allocation, composite literal or conversion producing a value: no receiver can exist at run time.
func (p *Prog) neverAllocatedRecv(fn *ssa.Function) bool {
	if fn == nil || fn.Signature.Recv() == nil || !p.IsRepoFunc(fn) {
		return false
	}
	n := namedOf(derefType(fn.Signature.Recv().Type()))
	if n == nil {
		return false
	}
	if _, isStruct := n.Underlying().(*types.Struct); !isStruct {
		return false
	}
	if p.noAlloc == nil {
		p.noAlloc = map[*types.Named]bool{}
		alloc := map[*types.Named]bool{}
		for f := range p.AllFuncs {
			instrsOf(f, func(in ssa.Instruction) {
				switch x := in.(type) {
				case *ssa.Alloc:
					if t := namedOf(derefType(x.Type())); t != nil {
						alloc[t.Origin()] = true
					}
				case *ssa.MakeInterface:
					if t := namedOf(derefType(x.X.Type())); t != nil {
						if _, isPtr := x.X.Type().Underlying().(*types.Pointer); !isPtr {
							alloc[t.Origin()] = true
						}
					}
				}
			})
		}
		for _, pk := range p.Pkgs {
			sc := pk.Types.Scope()
			for _, name := range sc.Names() {
				if tn, ok := sc.Lookup(name).(*types.TypeName); ok {
					if t := namedOf(tn.Type()); t != nil {
						if _, isStruct := t.Underlying().(*types.Struct); isStruct && !alloc[t.Origin()] {
							// package-level variables of the type also create values
							hasGlobal := false
							for _, n2 := range sc.Names() {
								if v, ok := sc.Lookup(n2).(*types.Var); ok && namedOf(derefType(v.Type())) == t {
									hasGlobal = true
								}
							}
							if !hasGlobal {
								p.noAlloc[t.Origin()] = true
							}
						}
					}
				}
			}
		}
	}
	return p.noAlloc[n.Origin()]
}
