package hcv

import (
	"fmt"
	"go/constant"
	"go/token"
	"os"
	"sort"
	"strings"

	"golang.org/x/tools/go/ssa"
)

// Pruned is a function's CFG with the edges contradicting an assumption removed (E3).
type Pruned struct {
	Fn        *ssa.Function
	LiveBlock map[int]bool
	liveEdge  map[[2]int]bool
	Used      map[string]bool // atoms that actually pruned an edge
}

// Prune deletes every CFG edge whose condition is an assumed atom with the contradicting polarity and
// computes the blocks reachable from entry. Unknown conditions keep both edges (over-approximation).
func (an *Analysis) Prune(fn *ssa.Function, assume Assume) *Pruned {
	return an.PruneForced(fn, assume, nil)
}

// PruneForced is Prune with a case split on control flow: force maps a block index to the index of the only
// predecessor edge through which that block may be entered, so that all phis of the block take their value from that
// edge (correlated phis such as `v` and `vIsSet` are then evaluated consistently).
func (an *Analysis) PruneForced(fn *ssa.Function, assume Assume, force map[int]int) *Pruned {
	pr := &Pruned{Fn: fn, LiveBlock: map[int]bool{}, liveEdge: map[[2]int]bool{}, Used: map[string]bool{}}
	if assume == nil && force != nil {
		assume = func(*Atom) (bool, bool) { return false, false }
	}
	if len(fn.Blocks) == 0 {
		return pr
	}
	// Optimistic sparse conditional propagation: edges are dead until proven live; a condition that compares a phi of
	// (so far live) identical constants with a constant is folded. Live sets only grow, folded conditions can only
	// become unknown, so the iteration is monotone and ends at a sound over-approximation of the reachable edges.
	succLive := func(b *ssa.BasicBlock) []*ssa.BasicBlock {
		if len(b.Instrs) == 0 {
			return b.Succs
		}
		if iff, ok := b.Instrs[len(b.Instrs)-1].(*ssa.If); ok && assume != nil {
			if truth, ok := an.BoolUnder(pr, assume, iff.Cond, 0); ok {
				if truth {
					return b.Succs[:1]
				}
				return b.Succs[1:2]
			}
		}
		return b.Succs
	}
	pr.LiveBlock[0] = true
	for changed := true; changed; {
		changed = false
		for _, b := range fn.Blocks {
			if !pr.LiveBlock[b.Index] {
				continue
			}
			for _, s := range succLive(b) {
				if pi, ok := force[s.Index]; ok && (pi >= len(s.Preds) || s.Preds[pi] != b) {
					continue // the block may be entered through the forced edge only
				}
				e := [2]int{b.Index, s.Index}
				if !pr.liveEdge[e] {
					pr.liveEdge[e] = true
					changed = true
				}
				if !pr.LiveBlock[s.Index] {
					pr.LiveBlock[s.Index] = true
					changed = true
				}
			}
		}
	}
	// recover block (deferred-function recovery) is reachable whenever the function is
	if fn.Recover != nil {
		pr.LiveBlock[fn.Recover.Index] = true
	}
	return pr
}

// liveConst: v is a constant, or a phi whose currently live incomings are all the same constant.
func (pr *Pruned) liveConst(v ssa.Value, depth int) (*ssa.Const, bool) {
	if depth > 4 {
		return nil, false
	}
	switch x := v.(type) {
	case *ssa.Const:
		return x, x.Value != nil
	case *ssa.Phi:
		var got *ssa.Const
		n := 0
		for i, pred := range x.Block().Preds {
			if !(pr.LiveBlock[pred.Index] && pr.liveEdge[[2]int{pred.Index, x.Block().Index}]) {
				continue
			}
			c, ok := pr.liveConst(x.Edges[i], depth+1)
			if !ok {
				return nil, false
			}
			if got != nil && !constantEqual(got, c) {
				return nil, false
			}
			got = c
			n++
		}
		return got, n > 0
	}
	return nil, false
}

func constantEqual(a, b *ssa.Const) bool {
	if a.Value == nil || b.Value == nil {
		return a.Value == nil && b.Value == nil
	}
	return constant.Compare(a.Value, token.EQL, b.Value)
}

// foldCond folds `x op c` (and !cond) when both sides are live constants.
func (pr *Pruned) foldCond(v ssa.Value, depth int) (bool, bool) {
	switch x := v.(type) {
	case *ssa.UnOp:
		if x.Op == token.NOT {
			t, ok := pr.foldCond(x.X, depth+1)
			return !t, ok
		}
	case *ssa.BinOp:
		switch x.Op {
		case token.EQL, token.NEQ, token.LSS, token.LEQ, token.GTR, token.GEQ:
			l, ok1 := pr.liveConst(x.X, 0)
			r, ok2 := pr.liveConst(x.Y, 0)
			if ok1 && ok2 && l.Value.Kind() == r.Value.Kind() {
				return constant.Compare(l.Value, x.Op, r.Value), true
			}
		}
	case *ssa.Phi:
		if c, ok := pr.liveConst(x, depth); ok && c.Value.Kind() == constant.Bool {
			return constant.BoolVal(c.Value), true
		}
	}
	return false, false
}

func (pr *Pruned) EdgeLive(from, to *ssa.BasicBlock) bool {
	return pr.liveEdge[[2]int{from.Index, to.Index}]
}

// LiveInstrs iterates the instructions of live blocks.
func (pr *Pruned) LiveInstrs(f func(in ssa.Instruction)) {
	for _, b := range pr.Fn.Blocks {
		if !pr.LiveBlock[b.Index] {
			continue
		}
		for _, in := range b.Instrs {
			f(in)
		}
	}
}

// LivePhiEdges returns the incoming values of phi that are still live.
func (pr *Pruned) LivePhiEdges(phi *ssa.Phi) []ssa.Value {
	var out []ssa.Value
	b := phi.Block()
	for i, pred := range b.Preds {
		if pr.LiveBlock[pred.Index] && pr.EdgeLive(pred, b) {
			out = append(out, phi.Edges[i])
		}
	}
	return out
}

// SiteHit is a site found by interprocedural pruned reachability, with the call chain that leads to it.
type SiteHit struct {
	Kind  string
	Instr ssa.Instruction
	Fn    *ssa.Function
	Chain []ssa.Instruction // call sites from the root to Fn
	ViaGo bool
}

func (an *Analysis) describeChain(h SiteHit) string {
	var parts []string
	for _, c := range h.Chain {
		parts = append(parts, fmt.Sprintf("%s@%s", an.P.ShortName(c.Parent()), an.P.InstrPos(c)))
	}
	parts = append(parts, fmt.Sprintf("%s@%s", an.P.ShortName(h.Fn), an.P.InstrPos(h.Instr)))
	return strings.Join(parts, " -> ")
}

// ReachOpts configures Reach.
type ReachOpts struct {
	FollowGo    bool // descend into spawned functions
	OnlyFg      bool
	Classify    func(fn *ssa.Function, in ssa.Instruction) string // "" = not a site
	StopAt      func(callee *ssa.Function) bool                   // do not descend into these callees
	CalleeGuard func(call ssa.CallInstruction, callee *ssa.Function) bool
}

// Reach performs pruned interprocedural reachability from root under an exchange-global assumption:
// every function reached through a live call site is itself pruned under the same assumption.
func (an *Analysis) Reach(root *ssa.Function, assume Assume, opts ReachOpts) (hits []SiteHit, visited map[*ssa.Function]*Pruned) {
	type node struct {
		fn    *ssa.Function
		chain []ssa.Instruction
		viaGo bool
	}
	visited = map[*ssa.Function]*Pruned{}
	wl := []node{{root, nil, false}}
	for len(wl) > 0 {
		n := wl[0]
		wl = wl[1:]
		if _, ok := visited[n.fn]; ok {
			continue
		}
		pr := an.Prune(n.fn, assume)
		visited[n.fn] = pr
		pr.LiveInstrs(func(in ssa.Instruction) {
			if opts.Classify != nil {
				if k := opts.Classify(n.fn, in); k != "" {
					hits = append(hits, SiteHit{Kind: k, Instr: in, Fn: n.fn, Chain: n.chain, ViaGo: n.viaGo})
				}
			}
			ci, ok := in.(ssa.CallInstruction)
			if !ok {
				return
			}
			_, isGo := in.(*ssa.Go)
			if isGo && !opts.FollowGo {
				return
			}
			for _, callee := range an.P.RepoCallees(ci) {
				if len(callee.Blocks) == 0 {
					continue
				}
				if opts.StopAt != nil && opts.StopAt(callee) {
					continue
				}
				if _, ok := visited[callee]; ok {
					continue
				}
				chain := append(append([]ssa.Instruction{}, n.chain...), in)
				wl = append(wl, node{callee, chain, n.viaGo || isGo})
			}
		})
	}
	sort.SliceStable(hits, func(i, j int) bool { return len(hits[i].Chain) < len(hits[j].Chain) })
	return hits, visited
}

// MustPassResult reports the returns reachable without passing a K instruction.
type MustPassResult struct {
	OK      bool
	Missing []ssa.Instruction // target instructions reachable with no K before them
	Targets int
}

// MustPass checks that every live path from entry to each target instruction passes an instruction for which isK holds.
// targets==nil means: every Return. Forward one-bit dataflow ("no K seen yet"), meet = OR; terminates on loops.
func (an *Analysis) MustPass(pr *Pruned, isTarget func(in ssa.Instruction) bool, isK func(in ssa.Instruction) bool) MustPassResult {
	fn := pr.Fn
	res := MustPassResult{OK: true}
	if len(fn.Blocks) == 0 {
		return res
	}
	if isTarget == nil {
		isTarget = func(in ssa.Instruction) bool { _, ok := in.(*ssa.Return); return ok }
	}
	inNoK := map[int]bool{0: true}
	changed := true
	outNoK := map[int]bool{}
	for changed {
		changed = false
		for _, b := range fn.Blocks {
			if !pr.LiveBlock[b.Index] {
				continue
			}
			cur := inNoK[b.Index]
			if b.Index != 0 {
				cur = false
				for _, pd := range b.Preds {
					if pr.LiveBlock[pd.Index] && pr.EdgeLive(pd, b) && outNoK[pd.Index] {
						cur = true
					}
				}
			}
			for _, in := range b.Instrs {
				if isK(in) {
					cur = false
				}
			}
			if outNoK[b.Index] != cur {
				outNoK[b.Index] = cur
				changed = true
			}
			inNoK[b.Index] = cur
		}
	}
	// second pass: find targets reached with noK
	for _, b := range fn.Blocks {
		if !pr.LiveBlock[b.Index] {
			continue
		}
		cur := b.Index == 0
		if b.Index != 0 {
			for _, pd := range b.Preds {
				if pr.LiveBlock[pd.Index] && pr.EdgeLive(pd, b) && outNoK[pd.Index] {
					cur = true
				}
			}
		}
		for _, in := range b.Instrs {
			if isK(in) {
				cur = false
			}
			if isTarget(in) {
				res.Targets++
				if cur {
					res.OK = false
					res.Missing = append(res.Missing, in)
				}
			}
		}
	}
	return res
}

// May reports whether fn may (on some path, through foreground calls only unless viaGo) execute a site of the kind
// recognised by isSite. Summaries over all valuations (no assumption).
func (an *Analysis) May(kind string, fn *ssa.Function, isSite func(in ssa.Instruction) bool, followGo bool) bool {
	key := kind
	if followGo {
		key += "+go"
	}
	m := an.maySum[key]
	if m == nil {
		m = map[*ssa.Function]int8{}
		an.maySum[key] = m
	}
	var rec func(f *ssa.Function) bool
	rec = func(f *ssa.Function) bool {
		if v, ok := m[f]; ok {
			return v == 1
		}
		m[f] = 0
		hit := false
		instrsOf(f, func(in ssa.Instruction) {
			if hit {
				return
			}
			if isSite(in) {
				hit = true
				return
			}
			ci, ok := in.(ssa.CallInstruction)
			if !ok {
				return
			}
			if _, isGo := in.(*ssa.Go); isGo && !followGo {
				return
			}
			for _, c := range an.P.RepoCallees(ci) {
				if rec(c) {
					hit = true
					return
				}
			}
		})
		if hit {
			m[f] = 1
		}
		return hit
	}
	return rec(fn)
}

// Must reports whether every entry->return path of fn passes a K site (directly or through a callee with Must).
func (an *Analysis) Must(kind string, fn *ssa.Function, isSite func(in ssa.Instruction) bool) bool {
	m := an.mustSum[kind]
	if m == nil {
		m = map[*ssa.Function]int8{}
		an.mustSum[kind] = m
	}
	var rec func(f *ssa.Function) bool
	rec = func(f *ssa.Function) bool {
		if v, ok := m[f]; ok {
			return v == 1
		}
		m[f] = 0
		if len(f.Blocks) == 0 {
			return false
		}
		pr := an.Prune(f, nil)
		r := an.MustPass(pr, nil, func(in ssa.Instruction) bool {
			if isSite(in) {
				return true
			}
			if c, ok := in.(*ssa.Call); ok {
				cs := an.P.RepoCallees(c)
				if len(cs) == 0 {
					return false
				}
				for _, cal := range cs {
					if !rec(cal) {
						return false
					}
				}
				return true
			}
			return false
		})
		if r.OK && r.Targets > 0 {
			m[f] = 1
			return true
		}
		return false
	}
	return rec(fn)
}

// BoolUnder evaluates a boolean SSA value under an assumption on a pruned CFG: constants, assumed atoms, negations and
// phis whose live incomings all evaluate to the same truth value. known=false when it cannot be decided.
func (an *Analysis) BoolUnder(pr *Pruned, assume Assume, v ssa.Value, depth int) (val bool, known bool) {
	if depth > 6 {
		return false, false
	}
	if b, ok := constBool(v); ok {
		return b, true
	}
	if phi, ok := v.(*ssa.Phi); ok {
		edges := pr.LivePhiEdges(phi)
		if len(edges) == 0 {
			return false, false
		}
		first := true
		var acc bool
		for _, e := range edges {
			b, k := an.BoolUnder(pr, assume, e, depth+1)
			if !k {
				return false, false
			}
			if first {
				acc, first = b, false
			} else if acc != b {
				return false, false
			}
		}
		return acc, true
	}
	if assume != nil {
		if a, neg, ok := an.AtomOf(v); ok {
			if val, known := assume(a); known {
				pr.Used[a.Key] = true
				return val != neg, true
			}
		}
	}
	if u, ok := v.(*ssa.UnOp); ok && u.Op == token.NOT {
		if b, k := an.BoolUnder(pr, assume, u.X, depth+1); k {
			return !b, true
		}
	}
	if t, ok := pr.foldCond(v, 0); ok {
		return t, true
	}
	// a comparison with the result of a local helper whose live returns, under the assumption, all give one constant
	// (`maxStale := acceptedStaleness(reqCC)` is 0 without the directive)
	if bo, ok := v.(*ssa.BinOp); ok && assume != nil && depth < 4 {
		switch bo.Op {
		case token.EQL, token.NEQ, token.LSS, token.LEQ, token.GTR, token.GEQ:
			l, ok1 := an.constUnder(pr, assume, bo.X)
			r, ok2 := an.constUnder(pr, assume, bo.Y)
			if ok1 && ok2 && l.Value != nil && r.Value != nil && l.Value.Kind() == r.Value.Kind() {
				return constant.Compare(l.Value, bo.Op, r.Value), true
			}
		}
	}
	// a local boolean helper (`withinWindow(…)`, `needsValidation(…)`): its value under the assumption is the common
	// value of its live returns, the helper pruned under the same assumption (its parameters inherit the atoms of the
	// arguments, see AtomOf)
	if call, ok := v.(*ssa.Call); ok && assume != nil && depth < 4 {
		if sc := call.Call.StaticCallee(); sc != nil && an.P.IsRepoFunc(sc) && len(sc.Blocks) > 0 && sc.Signature.Results().Len() == 1 && isBoolType(sc.Signature.Results().At(0).Type()) {
			if an.helperDepth < 3 {
				an.helperDepth++
				sub := an.Prune(sc, assume)
				an.helperDepth--
				var acc, have, mixed bool
				for _, b := range sc.Blocks {
					if !sub.LiveBlock[b.Index] {
						continue
					}
					r, ok := b.Instrs[len(b.Instrs)-1].(*ssa.Return)
					if !ok || len(r.Results) != 1 {
						continue
					}
					bv, k := an.BoolUnder(sub, assume, an.RetVal(r, 0), depth+1)
					if os.Getenv("HCV_DEBUG") != "" {
						fmt.Fprintf(os.Stderr, "helper %s ret %v -> %v %v\n", sc.Name(), an.RetVal(r, 0), bv, k)
						if phi, ok := an.RetVal(r, 0).(*ssa.Phi); ok {
							for _, e := range sub.LivePhiEdges(phi) {
								b2, k2 := an.BoolUnder(sub, assume, e, depth+2)
								a, neg, okA := an.AtomOf(e)
								fmt.Fprintf(os.Stderr, "   edge %v -> %v %v atom=%v %v %v\n", e, b2, k2, a, neg, okA)
								if u, ok := e.(*ssa.UnOp); ok {
									if p2, ok := u.X.(*ssa.Phi); ok {
										for _, e2 := range sub.LivePhiEdges(p2) {
											a, neg, okA := an.AtomOf(e2)
											fmt.Fprintf(os.Stderr, "      inner %v atom=%v %v %v\n", e2, a, neg, okA)
										}
									}
								}
							}
						}
					}
					if !k {
						mixed = true
						break
					}
					if have && acc != bv {
						mixed = true
						break
					}
					acc, have = bv, true
				}
				if have && !mixed {
					for k := range sub.Used {
						pr.Used[k] = true
					}
					return acc, true
				}
			}
		}
	}
	return false, false
}

// MustUnder is Must with the callee pruned under the same assumption (atoms of callees are exchange-global or
// inherited through parameters, see AtomOf); id names the assumption for memoisation.
func (an *Analysis) MustUnder(kind, id string, fn *ssa.Function, assume Assume, isSite func(in ssa.Instruction) bool) bool {
	key := kind + "|" + id
	m := an.mustSum[key]
	if m == nil {
		m = map[*ssa.Function]int8{}
		an.mustSum[key] = m
	}
	var rec func(f *ssa.Function) bool
	rec = func(f *ssa.Function) bool {
		if v, ok := m[f]; ok {
			return v == 1
		}
		m[f] = 0
		if len(f.Blocks) == 0 {
			return false
		}
		pr := an.Prune(f, assume)
		r := an.MustPass(pr, nil, func(in ssa.Instruction) bool {
			if isSite(in) {
				return true
			}
			if c, ok := in.(*ssa.Call); ok {
				cs := an.P.RepoCallees(c)
				if len(cs) == 0 {
					return false
				}
				for _, cal := range cs {
					if !rec(cal) {
						return false
					}
				}
				return true
			}
			return false
		})
		if r.OK && r.Targets > 0 {
			m[f] = 1
			return true
		}
		return false
	}
	return rec(fn)
}

// KUnder builds the "is K" predicate for MustPass: a direct site, or a call whose every callee must pass K under the
// same assumption.
func (an *Analysis) KUnder(kind, id string, assume Assume, isSite func(in ssa.Instruction) bool) func(in ssa.Instruction) bool {
	return func(in ssa.Instruction) bool {
		if isSite(in) {
			return true
		}
		c, ok := in.(*ssa.Call)
		if !ok {
			return false
		}
		cs := an.P.RepoCallees(c)
		if len(cs) == 0 {
			return false
		}
		for _, cal := range cs {
			if !an.MustUnder(kind, id, cal, assume, isSite) {
				return false
			}
		}
		return true
	}
}


// constUnder: v is a live constant in pr, or the result of a local helper all of whose live returns (the helper pruned
// under the same assumption) give the same constant.
func (an *Analysis) constUnder(pr *Pruned, assume Assume, v ssa.Value) (*ssa.Const, bool) {
	if c, ok := pr.liveConst(v, 0); ok {
		return c, true
	}
	call, ok := v.(*ssa.Call)
	if !ok || an.helperDepth >= 3 {
		return nil, false
	}
	sc := call.Call.StaticCallee()
	if sc == nil || !an.P.IsRepoFunc(sc) || len(sc.Blocks) == 0 || sc.Signature.Results().Len() != 1 {
		return nil, false
	}
	an.helperDepth++
	sub := an.Prune(sc, assume)
	an.helperDepth--
	var got *ssa.Const
	for _, b := range sc.Blocks {
		if !sub.LiveBlock[b.Index] || len(b.Instrs) == 0 {
			continue
		}
		r, ok := b.Instrs[len(b.Instrs)-1].(*ssa.Return)
		if !ok || len(r.Results) != 1 {
			continue
		}
		c, ok := sub.liveConst(an.RetVal(r, 0), 0)
		if !ok {
			return nil, false
		}
		if got != nil && !constantEqual(got, c) {
			return nil, false
		}
		got = c
	}
	if got == nil {
		return nil, false
	}
	for k := range sub.Used {
		pr.Used[k] = true
	}
	return got, true
}
