package hcv

import (
	"fmt"

	"golang.org/x/tools/go/ssa"
)

func init() {
	register(&Property{
		ID:    "C18",
		Title: "only-if-cached never touches the network",
		Decides: "in no function reachable from RoundTrip (goroutines included) is an origin call site reachable on a path consistent with " +
			"the request's only-if-cached accessor being true; under that valuation every return hands out a stored response or the synthesised 504.",
		NotDecided: "that the accessor reflects the header for every spelling (C12; only the all-field-lines part is repeated here as C18.3), behaviour of a caller-supplied upstream.",
		Assumptions: []string{
			"call graph (VTA seeded by CHA; thorough repeats on CHA) is complete: repo uses no reflect/unsafe (checked)",
			"directive accessors are effect-free (checked) so two evaluations agree",
			"all request-directive maps on the exchange are parsed from RoundTrip's req (checked, R-REQ)",
		},
		Rules: []Rule{
			{ID: "C18.0", Desc: "R-REQ / R-PURE / no reflection (shared premises)", Run: func(c *Ctx) {
				ruleRREQ(c, "C18.0")
				ruleRPURE(c, "C18.0")
				ruleNOREFLECT(c, "C18.0")
			}, MinSites: 3},
			{ID: "C18.1", Desc: "under rq.only-if-cached=T no upstream call and no spawn reaching one", Run: ruleC18_1, MinSites: 1},
			{ID: "C18.2", Desc: "under rq.only-if-cached=T every outcome is a stored response or the synthesised 504", Run: ruleC18_2, MinSites: 1},
			{ID: "C18.4", Desc: "the directive list is tokenised to its end (an empty element does not hide a later only-if-cached)", Run: func(c *Ctx) { ruleC12_5(c); renameRule(c, "C12.5", "C18.4") }, MinSites: 1},
			{ID: "C18.3", Desc: "the request's Cache-Control is read through all of its field lines (only-if-cached on a second line counts)", Run: func(c *Ctx) { ruleRLIST(c, "C18.3", "Cache-Control") }, MinSites: 1},
			{ID: "C18.5", Desc: "directive names are case-folded for every letter (ONLY-IF-CACHED)", Run: func(c *Ctx) { ruleC12_1(c); renameRule(c, "C12.1", "C18.5") }, MinSites: 1},
			{ID: "C18.6", Desc: "under only-if-cached a stored response that needs validation is not served (the decision rows of C02.1)", Run: func(c *Ctx) { ruleC02_1(c); renameRule(c, "C02.1", "C18.6") }, MinSites: 3},
			{ID: "C18.7", Desc: "the directive collector visits every pair (only-if-cached behind a repeated directive)", Run: func(c *Ctx) { ruleCollectorVisitsEveryPair(c, "C18.7") }, MinSites: 1},
			{ID: "C18.8", Desc: "only-if-cached is not hidden by the escape handling of the list splitter (ext=\"C:\\\\\", only-if-cached)", Run: func(c *Ctx) { ruleC12_7(c); renameRule(c, "C12.7", "C18.8"); ruleEscapeOnlyInQuotes(c, "C18.8") }, MinSites: 1},
			{ID: "C18.9", Desc: "the entry judged under only-if-cached is the entry that matched (the matcher ranks the caller's list)", Run: func(c *Ctx) { ruleMatcherIndexesCallersSlice(c, "C18.9") }, MinSites: 1},
			{ID: "C18.10", Desc: "fields named by a qualified no-cache are stripped by their canonical names on the only-if-cached answer", Run: func(c *Ctx) { ruleC02_4(c); renameRule(c, "C02.4", "C18.10") }, MinSites: 1},
			{ID: "C18.11", Desc: "an entry whose body ends early is not what only-if-cached may answer with", Run: func(c *Ctx) { ruleStoredBodyComplete(c, "C18.11") }, MinSites: 1},
			{ID: "C18.12", Desc: "a `*` member of the Vary list reaches the index (such a response is never selected without validation, so only-if-cached answers 504)", Run: func(c *Ctx) { ruleC04_8(c); renameRule(c, "C04.8", "C18.12") }, MinSites: 1},
		},
	})
}

func ruleC18_1(c *Ctx) {
	// vacuity: an upstream site must exist at all
	n := 0
	for fn := range c.A.Reach {
		instrsOf(fn, func(in ssa.Instruction) {
			if c.An.IsUpstreamSite(in) {
				n++
			}
		})
	}
	if n == 0 {
		c.Undecided("C18.1", "vacuity", "an origin call site exists", "no invoke of http.RoundTripper.RoundTrip is reachable from RoundTrip")
		return
	}
	c.ForbidOb("C18.1", "row=only-if-cached", map[string]bool{"rq.only-if-cached": true}, "UPSTREAM", c.An.IsUpstreamSite, true,
		"a request carrying only-if-cached (with a stale must-revalidate / no-cache entry stored, or with a non-GET method or a Range field) reaches the origin")
}

// ruleC18_2: under the assumption, every function that parses the request directives returns only stored responses,
// the synthesised 504, or what its (already checked) callees return; never an upstream response.
func ruleC18_2(c *Ctx) {
	if !c.Need("C18.2", "synth504") {
		return
	}
	isOriginReturn := func(in ssa.Instruction) bool {
		r, ok := in.(*ssa.Return)
		if !ok || len(r.Results) != 2 || !isHTTPResponsePtr(r.Results[0].Type()) {
			return false
		}
		// direct: the operand is the result of an upstream call (possibly via roundTripTimed)
		if c.An.isRepoCallResult(r.Results[0]) {
			return false // judged at the callee's own returns
		}
		return c.An.ResponseKinds(r.Results[0])["upstream"]
	}
	res := c.ForbidOb("C18.2", "row=only-if-cached", map[string]bool{"rq.only-if-cached": true}, "ORIGIN-RETURN", isOriginReturn, false,
		"an only-if-cached request is answered with an origin response")
	_ = res
	// the synthesised 504 must be reachable under the assumption (liveness of the fallback)
	reach := c.An.Forbid(c.A.Root, map[string]bool{"rq.only-if-cached": true}, "SYNTH", func(in ssa.Instruction) bool { return c.An.CallsRole(in, "synth504") }, false)
	if len(reach.Findings) == 0 {
		c.Fail("C18.2", "synth-reachable", "the synthesised 504 is reachable under only-if-cached", "no call of the 504 constructor is reachable under {rq.only-if-cached=T}")
	} else {
		c.Pass("C18.2", "synth-reachable", "the synthesised 504 is reachable under only-if-cached", fmt.Sprintf("%s@%s", c.P.ShortName(reach.Findings[0].Fn), c.P.InstrPos(reach.Findings[0].Instr)))
	}
}
