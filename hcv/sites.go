package hcv

import (
	"fmt"
	"go/token"
	"sort"
	"strings"

	"golang.org/x/tools/go/ssa"
)

// isEntryDataLoad: v is a load of the *http.Response field of a stored entry (E.Data).
func (an *Analysis) isEntryDataLoad(v ssa.Value) (*ssa.FieldAddr, bool) {
	v = an.canon(v)
	u, ok := v.(*ssa.UnOp)
	if !ok || u.Op != token.MUL {
		return nil, false
	}
	fa, ok := u.X.(*ssa.FieldAddr)
	if !ok || !isPtrToNamed(fa.X.Type(), an.A.EntryT) || fa.Field != an.A.EntryData {
		return nil, false
	}
	return fa, true
}

// isOutcomeFunc: a function with the RoundTripper result shape (*http.Response, error).
func isOutcomeFunc(fn *ssa.Function) bool {
	rs := sigResults(fn)
	return len(rs) == 2 && isHTTPResponsePtr(rs[0]) && isErrorType(rs[1])
}

// IsServeReturn: a return, in a function with the RoundTripper result shape, whose response operand is a stored
// entry's response (loaded directly or handed back by a helper that is not itself such a function), and only that.
// Returns that delegate to another outcome function are judged at that function's own returns.
func (an *Analysis) IsServeReturn(in ssa.Instruction) bool {
	r, ok := in.(*ssa.Return)
	if !ok || len(r.Results) != 2 || !isHTTPResponsePtr(r.Results[0].Type()) || !isOutcomeFunc(in.Parent()) {
		return false
	}
	if isNilConst(r.Results[0]) || an.isRepoCallResult(r.Results[0]) {
		return false
	}
	if _, ok := an.isEntryDataLoad(r.Results[0]); ok {
		return true
	}
	k := an.ResponseKinds(r.Results[0])
	return k["stored"] && !k["upstream"] && !k["synth"]
}

// IsUpstreamSite: the instruction is an origin call.
func (an *Analysis) IsUpstreamSite(in ssa.Instruction) bool {
	return an.IsUpstreamCall(callOf(in))
}

// CallsRole: the call instruction may call the function resolved for role (directly or through a forwarding adapter).
func (an *Analysis) CallsRole(in ssa.Instruction, role string) bool {
	ci, ok := in.(ssa.CallInstruction)
	if !ok {
		return false
	}
	target := an.A.F(role)
	if target == nil {
		return false
	}
	if an.A.roleOf[in.Parent()] == role && in.Parent() != target {
		return false // the call inside a forwarder of the role is part of the role, not a use of it
	}
	for _, c := range an.P.Callees(ci) {
		if c == target || an.A.roleOf[c] == role {
			return true
		}
		for _, t := range an.AdapterTargets(c) {
			if t == target || an.A.roleOf[t] == role {
				return true
			}
		}
	}
	return false
}

// MayUpstream: fn may reach an origin call (following go statements too when followGo).
func (an *Analysis) MayUpstream(fn *ssa.Function, followGo bool) bool {
	return an.May("UPSTREAM", fn, an.IsUpstreamSite, followGo)
}

// LeadsTo reports whether instruction `in` is a site accepted by isSite or a call/go/defer into a repo function that may
// reach one; the returned label names the callee (or the site kind).
func (an *Analysis) LeadsTo(kind string, in ssa.Instruction, isSite func(ssa.Instruction) bool, followGo bool) (string, bool) {
	if isSite(in) {
		return kind, true
	}
	ci, ok := in.(ssa.CallInstruction)
	if !ok {
		return "", false
	}
	_, isGo := in.(*ssa.Go)
	if isGo && !followGo {
		return "", false
	}
	for _, c := range an.P.RepoCallees(ci) {
		if an.May(kind, c, isSite, followGo) {
			lbl := "call:" + an.P.ShortName(c)
			if isGo {
				lbl = "go:" + an.P.ShortName(c)
			}
			return lbl, true
		}
	}
	return "", false
}

// ForbidFinding is one construct that keeps a forbidden site reachable under an assumption.
type ForbidFinding struct {
	Fn     *ssa.Function
	Instr  ssa.Instruction
	Label  string
	Direct bool
	Leaf   string // a concrete forbidden site reached through Instr
}

// ForbidResult summarises a forbid obligation.
type ForbidResult struct {
	Findings  []ForbidFinding
	Visited   []string
	Deciders  []string // functions whose CFG was pruned by an assumed atom
	UsedAtoms map[string]bool
}

// Forbid checks that, under the exchange-global assumption, no site accepted by isSite is reachable from root.
// A finding is reported at the "decision frontier": in every function that evaluates an assumed atom and still has a
// live instruction leading to a forbidden site, and at a direct site reached by a chain on which no function evaluates
// any assumed atom.
func (an *Analysis) Forbid(root *ssa.Function, assume map[string]bool, kind string, isSite func(ssa.Instruction) bool, followGo bool) ForbidResult {
	as := AssumeKeys(closeImplications(assume))
	res := ForbidResult{UsedAtoms: map[string]bool{}}
	// 1. functions reachable under the assumption, each pruned under it
	pruned := map[*ssa.Function]*Pruned{}
	var order []*ssa.Function
	calleesOf := func(in ssa.Instruction) []*ssa.Function {
		ci, ok := in.(ssa.CallInstruction)
		if !ok {
			return nil
		}
		if _, isGo := in.(*ssa.Go); isGo && !followGo {
			return nil
		}
		var out []*ssa.Function
		for _, c := range an.P.RepoCallees(ci) {
			if len(c.Blocks) > 0 {
				out = append(out, c)
			}
		}
		return out
	}
	wl := []*ssa.Function{root}
	for len(wl) > 0 {
		fn := wl[0]
		wl = wl[1:]
		if _, ok := pruned[fn]; ok {
			continue
		}
		pr := an.Prune(fn, as)
		pruned[fn] = pr
		order = append(order, fn)
		for k := range pr.Used {
			res.UsedAtoms[k] = true
		}
		pr.LiveInstrs(func(in ssa.Instruction) {
			wl = append(wl, calleesOf(in)...)
		})
	}
	// 2. which of them can reach a forbidden site under the assumption (fixpoint)
	can := map[*ssa.Function]bool{}
	for changed := true; changed; {
		changed = false
		for _, fn := range order {
			if can[fn] {
				continue
			}
			hit := false
			pruned[fn].LiveInstrs(func(in ssa.Instruction) {
				if hit {
					return
				}
				if isSite(in) {
					hit = true
					return
				}
				for _, c := range calleesOf(in) {
					if can[c] {
						hit = true
						return
					}
				}
			})
			if hit {
				can[fn] = true
				changed = true
			}
		}
	}
	// 3. decision frontier: the root-most function on each call chain that evaluates an assumed atom and still has a
	// live instruction leading to a forbidden site; or a direct site reached by a chain without any such function.
	seen := map[*ssa.Function]bool{}
	reported := map[string]bool{}
	swl := []*ssa.Function{root}
	for len(swl) > 0 {
		fn := swl[0]
		swl = swl[1:]
		if seen[fn] {
			continue
		}
		seen[fn] = true
		pr := pruned[fn]
		uses := len(pr.Used) > 0
		pr.LiveInstrs(func(in ssa.Instruction) {
			direct := isSite(in)
			lbl := kind
			leads := direct
			_, isGo := in.(*ssa.Go)
			for _, c := range calleesOf(in) {
				if can[c] && !leads {
					leads = true
					lbl = "call:" + an.P.ShortName(c)
					if isGo {
						lbl = "go:" + an.P.ShortName(c)
					}
				}
				if !uses {
					swl = append(swl, c) // below a decider nothing more is reported
				}
			}
			if leads && (uses || direct) {
				key := an.P.ShortName(fn) + "|" + lbl
				if !reported[key] {
					reported[key] = true
					ff := ForbidFinding{Fn: fn, Instr: in, Label: lbl, Direct: direct}
					if !direct {
						ff.Leaf = an.leafSite(in, pruned, can, calleesOf, isSite)
					}
					res.Findings = append(res.Findings, ff)
				}
			}
		})
	}
	vis := map[string]bool{}
	for fn, pr := range pruned {
		vis[an.P.ShortName(fn)] = true
		if len(pr.Used) > 0 {
			res.Deciders = append(res.Deciders, an.P.ShortName(fn))
		}
	}
	res.Visited = sortedKeys(vis)
	sort.Strings(res.Deciders)
	sort.Slice(res.Findings, func(i, j int) bool {
		a, b := res.Findings[i], res.Findings[j]
		if an.P.ShortName(a.Fn) != an.P.ShortName(b.Fn) {
			return an.P.ShortName(a.Fn) < an.P.ShortName(b.Fn)
		}
		return a.Label < b.Label
	})
	return res
}

// ForbidOb runs Forbid and records obligations: one pass obligation for the row, or one violation per finding.
func (c *Ctx) ForbidOb(rule, rowName string, assume map[string]bool, kind string, isSite func(ssa.Instruction) bool, followGo bool, witness string) ForbidResult {
	res := c.An.Forbid(c.A.Root, assume, kind, isSite, followGo)
	desc := fmt.Sprintf("under %s no %s site is reachable from RoundTrip", assumeString(assume), kind)
	// the assumed atoms must occur in the code (otherwise the row is vacuous)
	var missing []string
	for k := range assume {
		if !res.UsedAtoms[k] {
			missing = append(missing, k)
		}
	}
	sort.Strings(missing)
	examined := []string{fmt.Sprintf("functions visited under the assumption: %d", len(res.Visited)), "decision functions (pruned by an assumed atom): " + strings.Join(res.Deciders, ", ")}
	if len(res.Findings) == 0 {
		if len(res.Deciders) == 0 {
			c.Undecided(rule, rowName, desc, "no function reachable from RoundTrip evaluates any of the assumed atoms "+assumeString(assume)+"; the row would pass vacuously")
			return res
		}
		c.Pass(rule, rowName, desc, examined...)
		return res
	}
	for _, f := range res.Findings {
		c.Fail(rule, fmt.Sprintf("%s fn=%s reaches=%s", rowName, c.P.ShortName(f.Fn), f.Label), desc,
			fmt.Sprintf("%s: under %s the instruction %q stays reachable and leads to a %s site%s. Witness: %s",
				c.P.InstrPos(f.Instr), assumeString(assume), f.Instr.String(), kind, leafText(f.Leaf), witness), examined...)
	}
	_ = missing
	return res
}

// isRepoCallResult: v is (an extract of) the result of a call to a repo function with a body.
func (an *Analysis) isRepoCallResult(v ssa.Value) bool {
	v = an.canon(v)
	if ex, ok := v.(*ssa.Extract); ok {
		v = ex.Tuple
	}
	c, ok := v.(*ssa.Call)
	if !ok {
		return false
	}
	for _, f := range an.P.RepoCallees(c) {
		rs := sigResults(f)
		if len(f.Blocks) > 0 && len(rs) == 2 && isHTTPResponsePtr(rs[0]) && isErrorType(rs[1]) {
			return true
		}
	}
	return false
}

// leafSite finds one concrete forbidden site reachable from the call instruction `in` under the assumption.
func (an *Analysis) leafSite(in ssa.Instruction, pruned map[*ssa.Function]*Pruned, can map[*ssa.Function]bool,
	calleesOf func(ssa.Instruction) []*ssa.Function, isSite func(ssa.Instruction) bool) string {
	seen := map[*ssa.Function]bool{}
	var rec func(fn *ssa.Function) string
	rec = func(fn *ssa.Function) string {
		if seen[fn] || !can[fn] || pruned[fn] == nil {
			return ""
		}
		seen[fn] = true
		out := ""
		pruned[fn].LiveInstrs(func(i2 ssa.Instruction) {
			if out != "" {
				return
			}
			if isSite(i2) {
				out = fmt.Sprintf("%s@%s `%s`", an.P.ShortName(fn), an.P.InstrPos(i2), i2.String())
				return
			}
			for _, c := range calleesOf(i2) {
				if s := rec(c); s != "" {
					out = s
					return
				}
			}
		})
		return out
	}
	for _, c := range calleesOf(in) {
		if s := rec(c); s != "" {
			return s
		}
	}
	return ""
}

func leafText(l string) string {
	if l == "" {
		return ""
	}
	return " (" + l + ")"
}

// StatusOfCall resolves the cache status applied by a call of the status-applying method: (value, legacy, ok).
// The receiver is a load of a package-level CacheStatus variable whose fields are set in the package initialiser,
// or a composite literal with constant fields.
func (an *Analysis) StatusOfCall(c *ssa.CallCommon) (string, string, bool) {
	if c == nil || len(c.Args) == 0 {
		return "", "", false
	}
	recv := c.Args[0]
	var vals [2]string
	var got [2]bool
	for i := 0; i < 2; i++ {
		n := 0
		an.P.TraceBackPath(recv, []int{i}, TraceOpts{NoParams: true}, func(v ssa.Value, path []int) bool {
			if k, ok := v.(*ssa.Const); ok && len(path) == 0 {
				if s, ok := constStr(k); ok {
					if n > 0 && vals[i] != s {
						got[i] = false
						vals[i] = "<ambiguous>"
						n++
						return true
					}
					vals[i] = s
					got[i] = true
					n++
				}
			}
			return true
		})
	}
	return vals[0], vals[1], got[0]
}

// RetVal resolves operand i of a return: with defers present the compiler spills results into cells
// (`*t0 = v; rundefers; t = *t0; return t`); the value stored last in the return's block is the operand.
func (an *Analysis) RetVal(r *ssa.Return, i int) ssa.Value {
	v := r.Results[i]
	u, ok := v.(*ssa.UnOp)
	if !ok || u.Op != token.MUL {
		return v
	}
	al, ok := u.X.(*ssa.Alloc)
	if !ok {
		return v
	}
	blk := r.Block()
	var last ssa.Value
	for _, in := range blk.Instrs {
		if in == ssa.Instruction(u) {
			break
		}
		if st, ok := in.(*ssa.Store); ok && st.Addr == al {
			last = st.Val
		}
	}
	if last != nil {
		return last
	}
	return v
}

// IsURLKeyCall: an interface call that resolves (directly or through a forwarding adapter) to the URL key function.
func (an *Analysis) IsURLKeyCall(c *ssa.CallCommon, in ssa.Instruction) bool {
	if c == nil || !c.IsInvoke() {
		return false
	}
	return an.CallsRole(in, "urlKey")
}

// invokeResolvesTo: the interface call's callees (through adapters) include a repo function satisfying pred.
func (an *Analysis) invokeResolvesTo(in ssa.Instruction, pred func(*ssa.Function) bool) bool {
	ci, ok := in.(ssa.CallInstruction)
	if !ok || !ci.Common().IsInvoke() {
		return false
	}
	for _, cal := range an.P.Callees(ci) {
		if pred(cal) {
			return true
		}
		for _, t := range an.AdapterTargets(cal) {
			if pred(t) {
				return true
			}
		}
	}
	return false
}

func callsNamed(fn *ssa.Function, name string) bool {
	return callsWhere(fn, func(cc *ssa.CallCommon) bool { sc := cc.StaticCallee(); return sc != nil && sc.Name() == name })
}

// IsFileNamerCall: interface call resolving to the key->file-name encoder (a function that base64-encodes its argument).
func (an *Analysis) IsFileNamerCall(in ssa.Instruction) bool {
	return an.invokeResolvesTo(in, func(f *ssa.Function) bool {
		ps, rs := sigParams(f), sigResults(f)
		return len(ps) == 1 && len(rs) == 1 && isStringType(ps[0]) && isStringType(rs[0]) && callsNamed(f, "EncodeToString")
	})
}

// IsFileKeyerCall: interface call resolving to the file-name->key decoder.
func (an *Analysis) IsFileKeyerCall(in ssa.Instruction) bool {
	return an.invokeResolvesTo(in, func(f *ssa.Function) bool {
		ps, rs := sigParams(f), sigResults(f)
		return len(ps) == 1 && len(rs) == 2 && isStringType(ps[0]) && isStringType(rs[0]) && callsNamed(f, "DecodeString")
	})
}

// IsRefIDField: the (type, field) is the response-id field of an index element: the field RoundTrip reads to look the
// entry up.
func (an *Analysis) IsRefIDField(fa *ssa.FieldAddr) bool {
	if !isPtrToNamed(fa.X.Type(), an.A.RefT) {
		return false
	}
	if an.A.RefIDField < 0 {
		return fieldName(fa.X.Type(), fa.Field) == "ResponseID"
	}
	return fa.Field == an.A.RefIDField
}
