// Package hcv is a repository-specific static analyser for bartventer/httpcache.
// It decides structural necessary conditions of properties C01..C20 from the
// type-checked program and its SSA form. Nothing of /repo is executed.
package hcv

import (
	"fmt"
	"go/token"
	"go/types"
	"os"
	"sort"
	"strings"

	"golang.org/x/tools/go/callgraph"
	"golang.org/x/tools/go/callgraph/cha"
	"golang.org/x/tools/go/callgraph/vta"
	"golang.org/x/tools/go/packages"
	"golang.org/x/tools/go/ssa"
	"golang.org/x/tools/go/ssa/ssautil"
)

// LoadConfig names one build configuration of the repository.
type LoadConfig struct {
	Repo    string
	Tags    []string
	GOOS    string
	GOARCH  string
	Overlay map[string][]byte
	UseCHA  bool // call graph = CHA (superset) instead of VTA
}

func (c LoadConfig) String() string {
	s := c.GOOS + "/" + c.GOARCH
	if s == "/" {
		s = "host"
	}
	if len(c.Tags) > 0 {
		s += " tags=" + strings.Join(c.Tags, ",")
	}
	if c.UseCHA {
		s += " cg=cha"
	} else {
		s += " cg=vta"
	}
	if len(c.Overlay) > 0 {
		s += fmt.Sprintf(" overlay=%d", len(c.Overlay))
	}
	return s
}

// Prog is the loaded, type-checked, SSA-built repository.
type Prog struct {
	Cfg       LoadConfig
	Fset      *token.FileSet
	Pkgs      []*packages.Package // repo packages (non-test)
	ModPath   string
	SSA       *ssa.Program
	CG        *callgraph.Graph
	VTA       *callgraph.Graph // always the VTA graph (anchors and reachability are resolved on it)
	noAlloc   map[*types.Named]bool
	AllFuncs  map[*ssa.Function]bool
	RepoFuncs []*ssa.Function // every function (incl. closures, wrappers) whose package is a repo package
	repoPkg   map[*types.Package]bool
	NEdges    int

	// caches
	ref           *refined
	refining      bool
	storesByField map[fieldKey][]*ssa.Store
	callersOf     map[*ssa.Function][]callSite
}

type fieldKey struct {
	T     *types.Named
	Field int
}

type callSite struct {
	Caller *ssa.Function
	Instr  ssa.CallInstruction
}

// Load type-checks the repository at cfg.Repo and builds SSA and the call graph.
func Load(cfg LoadConfig) (*Prog, error) {
	if gw := os.Getenv("GOWORK"); gw != "" && gw != "off" {
		return nil, fmt.Errorf("GOWORK must be unset/off, is %q", gw)
	}
	env := append(os.Environ(), "GOWORK=off", "GOFLAGS=-mod=mod", "GOPROXY=off", "GOTOOLCHAIN=local", "CGO_ENABLED=0")
	if cfg.GOOS != "" {
		env = append(env, "GOOS="+cfg.GOOS)
	}
	if cfg.GOARCH != "" {
		env = append(env, "GOARCH="+cfg.GOARCH)
	}
	pc := &packages.Config{
		Mode:    packages.LoadAllSyntax | packages.NeedModule,
		Dir:     cfg.Repo,
		Env:     env,
		Tests:   false,
		Overlay: cfg.Overlay,
	}
	if len(cfg.Tags) > 0 {
		pc.BuildFlags = []string{"-tags=" + strings.Join(cfg.Tags, ",")}
	}
	pkgs, err := packages.Load(pc, "./...")
	if err != nil {
		return nil, fmt.Errorf("packages.Load: %w", err)
	}
	if len(pkgs) == 0 {
		return nil, fmt.Errorf("no packages loaded from %s", cfg.Repo)
	}
	var errs []string
	packages.Visit(pkgs, nil, func(p *packages.Package) {
		for _, e := range p.Errors {
			errs = append(errs, e.Error())
		}
	})
	if len(errs) > 0 {
		sort.Strings(errs)
		if len(errs) > 8 {
			errs = errs[:8]
		}
		return nil, fmt.Errorf("type/load errors: %s", strings.Join(errs, "; "))
	}
	p := &Prog{Cfg: cfg, Pkgs: pkgs, repoPkg: map[*types.Package]bool{}}
	sort.Slice(p.Pkgs, func(i, j int) bool { return p.Pkgs[i].PkgPath < p.Pkgs[j].PkgPath })
	for _, pk := range pkgs {
		if pk.Module != nil && pk.Module.Main {
			p.ModPath = pk.Module.Path
		}
		p.repoPkg[pk.Types] = true
		p.Fset = pk.Fset
	}
	if p.ModPath == "" {
		return nil, fmt.Errorf("main module not identified")
	}
	prog, _ := ssautil.AllPackages(pkgs, ssa.InstantiateGenerics)
	prog.Build()
	p.SSA = prog
	p.AllFuncs = ssautil.AllFunctions(prog)
	chaG := cha.CallGraph(prog)
	p.VTA = vta.CallGraph(p.AllFuncs, chaG)
	if cfg.UseCHA {
		p.CG = chaG
	} else {
		p.CG = p.VTA
	}
	for fn := range p.AllFuncs {
		if p.IsRepoFunc(fn) {
			p.RepoFuncs = append(p.RepoFuncs, fn)
		}
	}
	sort.Slice(p.RepoFuncs, func(i, j int) bool { return FuncName(p.RepoFuncs[i]) < FuncName(p.RepoFuncs[j]) })
	for _, n := range p.CG.Nodes {
		p.NEdges += len(n.Out)
	}
	return p, nil
}

// IsRepoFunc reports whether fn (or its enclosing function) is declared in a repo package.
func (p *Prog) IsRepoFunc(fn *ssa.Function) bool {
	for f := fn; f != nil; f = f.Parent() {
		if f.Pkg != nil {
			return p.repoPkg[f.Pkg.Pkg]
		}
		if o := f.Origin(); o != nil && o.Pkg != nil {
			return p.repoPkg[o.Pkg.Pkg]
		}
		if f.Object() != nil && f.Object().Pkg() != nil {
			return p.repoPkg[f.Object().Pkg()]
		}
	}
	return false
}

// IsRepoPkgPath reports whether path is the main module or below it.
func (p *Prog) IsRepoPkgPath(path string) bool {
	return path == p.ModPath || strings.HasPrefix(path, p.ModPath+"/")
}

// FuncName is a stable, human-readable name without positions: pkg-relative.
func FuncName(fn *ssa.Function) string {
	if fn == nil {
		return "<nil>"
	}
	return fn.String()
}

// ShortName trims the module path off a function name.
func (p *Prog) ShortName(fn *ssa.Function) string {
	s := FuncName(fn)
	s = strings.ReplaceAll(s, p.ModPath+"/", "")
	s = strings.ReplaceAll(s, p.ModPath+".", "httpcache.")
	s = strings.ReplaceAll(s, "("+p.ModPath+")", "")
	return s
}

// Pos renders a position relative to the repo root.
func (p *Prog) Pos(pos token.Pos) string {
	if !pos.IsValid() {
		return "?"
	}
	ps := p.Fset.Position(pos)
	f := strings.TrimPrefix(ps.Filename, strings.TrimSuffix(p.Cfg.Repo, "/")+"/")
	return fmt.Sprintf("%s:%d", f, ps.Line)
}

// InstrPos finds a usable position for an instruction (falls back to nearby instructions).
func (p *Prog) InstrPos(in ssa.Instruction) string {
	if in == nil {
		return "?"
	}
	if in.Pos().IsValid() {
		return p.Pos(in.Pos())
	}
	if v, ok := in.(ssa.Value); ok {
		_ = v
	}
	// fall back: any operand with a position
	for _, op := range in.Operands(nil) {
		if *op != nil && (*op).Pos().IsValid() {
			return p.Pos((*op).Pos())
		}
	}
	if b := in.Block(); b != nil {
		for _, i2 := range b.Instrs {
			if i2.Pos().IsValid() {
				return p.Pos(i2.Pos()) + "~"
			}
		}
		if b.Parent() != nil {
			return p.Pos(b.Parent().Pos()) + "~"
		}
	}
	return "?"
}

// Pkg returns the repo package with the given module-relative path ("" = root).
func (p *Prog) Pkg(rel string) *ssa.Package {
	want := p.ModPath
	if rel != "" {
		want += "/" + rel
	}
	for _, pk := range p.Pkgs {
		if pk.PkgPath == want {
			return p.SSA.Package(pk.Types)
		}
	}
	return nil
}

// Callees resolves a call instruction to its possible callees using the call graph.
func (p *Prog) Callees(in ssa.CallInstruction) []*ssa.Function {
	if sc := in.Common().StaticCallee(); sc != nil {
		return []*ssa.Function{sc}
	}
	if isDynamicFuncCall(in.Common()) && !p.refining {
		if p.ref == nil || !p.ref.done {
			p.refining = true
			p.refine()
			p.refining = false
		}
		if fns, ok := p.ref.callees[in]; ok {
			return fns
		}
	}
	return p.vtaCallees(in)
}

// RepoCallees is Callees filtered to repo functions.
func (p *Prog) RepoCallees(in ssa.CallInstruction) []*ssa.Function {
	var out []*ssa.Function
	for _, f := range p.Callees(in) {
		if p.IsRepoFunc(f) {
			out = append(out, f)
		}
	}
	return out
}

// Callers returns the call sites (in repo functions) that may call fn.
func (p *Prog) Callers(fn *ssa.Function) []callSite {
	if p.callersOf == nil {
		p.callersOf = map[*ssa.Function][]callSite{}
		for _, f := range p.RepoFuncs {
			n := p.CG.Nodes[f]
			if n == nil {
				continue
			}
			for _, e := range n.Out {
				if e.Site == nil {
					continue
				}
				if isDynamicFuncCall(e.Site.Common()) && p.ref != nil && p.ref.done {
					if fns, ok := p.ref.callees[e.Site]; ok {
						keep := false
						for _, g := range fns {
							if g == e.Callee.Func {
								keep = true
							}
						}
						if !keep {
							continue
						}
					}
				}
				p.callersOf[e.Callee.Func] = append(p.callersOf[e.Callee.Func], callSite{f, e.Site})
			}
		}
	}
	return p.callersOf[fn]
}

// StoresTo lists every store to (named struct type, field index) in repo functions.
func (p *Prog) StoresTo(t *types.Named, field int) []*ssa.Store {
	if p.storesByField == nil {
		p.storesByField = map[fieldKey][]*ssa.Store{}
		for _, f := range p.RepoFuncs {
			for _, b := range f.Blocks {
				for _, in := range b.Instrs {
					st, ok := in.(*ssa.Store)
					if !ok {
						continue
					}
					fa, ok := st.Addr.(*ssa.FieldAddr)
					if !ok {
						continue
					}
					nt := namedOf(derefType(fa.X.Type()))
					if nt == nil {
						continue
					}
					k := fieldKey{nt.Origin(), fa.Field}
					p.storesByField[k] = append(p.storesByField[k], st)
				}
			}
		}
	}
	return p.storesByField[fieldKey{t.Origin(), field}]
}

func derefType(t types.Type) types.Type {
	if pt, ok := t.Underlying().(*types.Pointer); ok {
		return pt.Elem()
	}
	return t
}

func namedOf(t types.Type) *types.Named {
	t = types.Unalias(t)
	if n, ok := t.(*types.Named); ok {
		return n
	}
	return nil
}

// typeIs reports whether t (after pointer deref if ptrOK) is the named type pkgPath.name.
func typeIs(t types.Type, pkgPath, name string) bool {
	n := namedOf(t)
	if n == nil || n.Obj() == nil || n.Obj().Pkg() == nil {
		return false
	}
	return n.Obj().Pkg().Path() == pkgPath && n.Obj().Name() == name
}

func ptrTo(t types.Type, pkgPath, name string) bool {
	pt, ok := types.Unalias(t).(*types.Pointer)
	return ok && typeIs(pt.Elem(), pkgPath, name)
}
