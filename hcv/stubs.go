package hcv

type controlResult struct {
	Lines  []string
	Failed []*Obligation
}

func runControls(prop string) controlResult { return controlResult{} }

func runOverlayMutants(prop *Property, p *Prog, cfg LoadConfig, seed int) []string { return nil }
