package hcv

import "fmt"

type controlResult struct {
	Lines  []string
	Failed []*Obligation
}

func runControls(prop string) controlResult { return controlResult{} }

func runOverlayMutants(prop *Property, p *Prog, cfg LoadConfig, seed int) []string {
	res := RunMutants(cfg.Repo, prop.ID, 6)
	var out []string
	for _, r := range res {
		line := fmt.Sprintf("%s %s expect=%s by=%v (%s)", r.Status, r.M.Name, r.M.Expect, r.By, r.M.Why)
		out = append(out, line)
		if r.Status == "SURVIVED" {
			fmt.Printf("SELFTEST-WEAK %s/%s: seeded defect not reported (%s)\n", r.M.Prop, r.M.Name, r.M.Why)
		}
	}
	return out
}
