package hcv

import (
	"fmt"
	"go/constant"
	"go/token"
	"math"
	"sort"
	"strings"

	"golang.org/x/tools/go/ssa"
)

func init() {
	register(&Property{
		ID:    "C01",
		Title: "A stale stored response is never served without explicit permission",
		Decides: "lifetime precedence (max-age, else Expires-Date, else heuristic only without explicit expiry and for allowed statuses) as liveness of the " +
			"lifetime's sources under directive valuations; the only reuse sites reachable when the staleness flag is set are validation, only-if-cached and the SWR window; " +
			"the staleness flag is `age >= lifetime` (strict freshness); current age depends on Age field, Date, request/response time and resident time, each time difference clamped at 0; " +
			"heuristic lifetime is (Date-Last-Modified) scaled by <= 0.1 and 0 without a valid Last-Modified; delta-seconds and Age decoding saturate; " +
			"staleness is relaxed only under a request max-stale.",
		NotDecided:  "numeric values of age and lifetime, date-parsing leniency, sums of saturated durations, anything about elapsed time.",
		Assumptions: []string{"R-REQ, R-FRESH, R-PURE (checked in C01.0)"},
		Rules: []Rule{
			{ID: "C01.0", Desc: "shared premises", Run: func(c *Ctx) { ruleRREQ(c, "C01.0"); ruleRFRESH(c, "C01.0"); ruleRPURE(c, "C01.0") }, MinSites: 3},
			{ID: "C01.1", Desc: "lifetime precedence", Run: ruleC01_1, MinSites: 3},
			{ID: "C01.2", Desc: "serve guard", Run: ruleC01_2, MinSites: 2},
			{ID: "C01.3", Desc: "staleness test is age >= lifetime", Run: ruleC01_3, MinSites: 1},
			{ID: "C01.4", Desc: "current age uses all RFC terms, clamped", Run: func(c *Ctx) { ruleC01_4(c); ruleResidentTime(c, "C01.4") }, MinSites: 4},
			{ID: "C01.5", Desc: "heuristic bound and heuristic statuses", Run: func(c *Ctx) { ruleC01_5(c); ruleHeuristicStatuses(c, "C01.5") }, MinSites: 2},
			{ID: "C01.6", Desc: "delta-seconds / Age saturation", Run: func(c *Ctx) { ruleSaturation(c, "C01.6") }, MinSites: 2},
			{ID: "C01.7", Desc: "staleness relaxed only under request max-stale", Run: ruleC01_7, MinSites: 1},
			{ID: "C01.8", Desc: "an unparseable Date is repaired like a missing one; synthesised Date is UTC", Run: func(c *Ctx) { ruleDateRepair(c, "C01.8") }, MinSites: 1},
			{ID: "C01.12", Desc: "Cache-Control is read through all of its field lines (max-age on a second line counts)", Run: func(c *Ctx) { ruleRLIST(c, "C01.12", "Cache-Control") }, MinSites: 1},
			{ID: "C01.14", Desc: "an Expires field that is present but empty or invalid is an explicit expiry (no heuristic lifetime)", Run: func(c *Ctx) { ruleExpiresPresence(c, "C01.14") }, MinSites: 1},
			{ID: "C01.13", Desc: "the 304 merge carries the validation response's Age into the stored response", Run: func(c *Ctx) { ruleMergeFilter(c, "C01.13") }, MinSites: 1},
			{ID: "C01.11", Desc: "Expires-based lifetime is Expires minus Date", Run: func(c *Ctx) { ruleExpiresMinusDate(c, "C01.11") }, MinSites: 1},
			{ID: "C01.10", Desc: "sums of ages and lifetimes saturate", Run: func(c *Ctx) { ruleDurationSums(c, "C01.10") }, MinSites: 2},
			{ID: "C01.9", Desc: "a positive request max-age caps the lifetime on every path", Run: func(c *Ctx) { ruleRequestMaxAgeCaps(c, "C01.9") }, MinSites: 1},
			{ID: "C01.16", Desc: "the Age value is the first member of the field", Run: func(c *Ctx) { ruleAgeFirstMember(c, "C01.16") }, MinSites: 1},
			{ID: "C01.17", Desc: "Expires and the heuristic apply only when no max-age directive is present", Run: func(c *Ctx) { ruleExplicitExpiryByPresence(c, "C01.17") }, MinSites: 1},
			{ID: "C01.18", Desc: "the heuristic lifetime is rounded down", Run: func(c *Ctx) { ruleHeuristicRoundedDown(c, "C01.18") }, MinSites: 1},
			{ID: "C01.19", Desc: "directive names are case-folded before they are compared with earlier occurrences (max-age=0, Max-Age=3600 uses the first)", Run: func(c *Ctx) {
				ruleC12_1(c)
				ruleC12_11(c)
				renameRule(c, "C12.1", "C01.19")
				renameRule(c, "C12.11", "C01.19")
			}, MinSites: 2},
			{ID: "C01.20", Desc: "the stale-while-revalidate window is measured with the current age", Run: func(c *Ctx) { ruleSWRWindowAge(c, "C01.20") }, MinSites: 1},
			{ID: "C01.21", Desc: "the entry's Date is the decoded Date field", Run: func(c *Ctx) { ruleDateAccessorPure(c, "C01.21") }, MinSites: 1},
			{ID: "C01.22", Desc: "header dates are decoded leniently everywhere", Run: func(c *Ctx) { ruleDatesThroughTheDecoder(c, "C01.22") }, MinSites: 1},
			{ID: "C01.23", Desc: "age and lifetime saturate at the same bound", Run: func(c *Ctx) { ruleAgeNotCappedLower(c, "C01.23") }, MinSites: 1},
			{ID: "C01.24", Desc: "max-stale with an argument tolerates that much staleness, max-stale=0 none", Run: func(c *Ctx) { ruleMaxStaleLimited(c, "C01.24") }, MinSites: 1},
			{ID: "C01.25", Desc: "every legal HTTP-date form is decoded (no length gate in front of the parser)", Run: func(c *Ctx) { ruleDateDecoderNoLengthGate(c, "C01.25") }, MinSites: 1},
			{ID: "C01.26", Desc: "`max-age=` (an empty argument) is still an explicit expiry: the scanner drops no directive because of its argument", Run: func(c *Ctx) { ruleScannerYieldsWhateverTheArgument(c, "C01.26") }, MinSites: 1},
			{ID: "C01.27", Desc: "an Expires that is present but not a date is an explicit expiry (presence is not validity)", Run: func(c *Ctx) { ruleExpiresFoundIsPresence(c, "C01.27") }, MinSites: 1},
			{ID: "C01.28", Desc: "on the 304 branch the merge of the 304's fields precedes the write-back on every path", Run: func(c *Ctx) { ruleMergeBeforeWriteBack(c, "C01.28") }, MinSites: 1},
		},
	})
}

// lifetimeSources classifies the live sources of the stored lifetime under a pruned CFG.
func (an *Analysis) lifetimeSources(pr *Pruned, v ssa.Value) map[string]string {
	return an.lifetimeSourcesUnder(pr, nil, v)
}

// lifetimeSourcesUnder also descends into repo helpers (a lifetime block extracted into its own function), pruning the
// helper under the same assumption.
func (an *Analysis) lifetimeSourcesUnder(pr *Pruned, assume Assume, v ssa.Value) map[string]string {
	out := map[string]string{}
	type key struct {
		v  ssa.Value
		fn *ssa.Function
	}
	seen := map[key]bool{}
	var walk func(pr *Pruned, v ssa.Value, depth int)
	walk = func(pr *Pruned, v ssa.Value, depth int) {
		k := key{v, pr.Fn}
		if seen[k] || depth > 6 {
			return
		}
		seen[k] = true
		switch x := v.(type) {
		case *ssa.Phi:
			for _, e := range pr.LivePhiEdges(x) {
				walk(pr, e, depth)
			}
		case *ssa.Const:
			out["const"] = x.String()
		case *ssa.Extract:
			if c, ok := x.Tuple.(*ssa.Call); ok {
				if an.isAccessorCall(c, "rs", "max-age") {
					out["L_max"] = an.P.InstrPos(c)
					return
				}
				if an.isAccessorCall(c, "rq", "max-age") {
					out["L_reqmax"] = an.P.InstrPos(c)
					return
				}
				if sc := c.Call.StaticCallee(); sc != nil && an.P.IsRepoFunc(sc) && len(sc.Blocks) > 0 {
					pr2 := an.Prune(sc, assume)
					pr2.LiveInstrs(func(in ssa.Instruction) {
						if r, ok := in.(*ssa.Return); ok && x.Index < len(r.Results) {
							walk(pr2, r.Results[x.Index], depth+1)
						}
					})
					return
				}
			}
			out["other"] = v.String()
		case *ssa.Call:
			if b, ok := x.Call.Value.(*ssa.Builtin); ok && (b.Name() == "min" || b.Name() == "max") {
				for _, a := range x.Call.Args {
					walk(pr, a, depth)
				}
				return
			}
			if x.Call.StaticCallee() == an.A.F("heuristic") {
				out["L_heur"] = an.P.InstrPos(x)
				return
			}
			if callIsMethod(&x.Call, "time", "Time", "Sub") {
				out["L_exp"] = an.P.InstrPos(x)
				return
			}
			if sc := x.Call.StaticCallee(); sc != nil && an.P.IsRepoFunc(sc) && len(sc.Blocks) > 0 {
				pr2 := an.Prune(sc, assume)
				pr2.LiveInstrs(func(in ssa.Instruction) {
					if r, ok := in.(*ssa.Return); ok && len(r.Results) >= 1 {
						walk(pr2, r.Results[0], depth+1)
					}
				})
				return
			}
			out["other"] = x.String()
		case *ssa.Convert:
			walk(pr, x.X, depth)
		case *ssa.Parameter:
			// a lifetime handed into a helper: judged at the call site
			out["param:"+x.Name()] = an.P.ShortName(x.Parent())
		default:
			out["other"] = v.String()
		}
	}
	walk(pr, v, 0)
	return out
}

func ruleC01_1(c *Ctx) {
	if !c.Need("C01.1", "freshness", "heuristic", "heurStatus") {
		return
	}
	ff := c.A.F("freshness")
	// the lifetime values: what is stored into Freshness.UsefulLife
	var lifeStores []*ssa.Store
	for _, st := range c.P.StoresTo(c.A.FreshT, c.A.FreshLife) {
		if st.Parent() == ff {
			lifeStores = append(lifeStores, st)
		}
	}
	if len(lifeStores) == 0 {
		c.Undecided("C01.1", "vacuity", "the freshness function stores a lifetime", "no store to the lifetime field in "+c.P.ShortName(ff))
		return
	}
	// find the "Expires found" atom: bool result of the entry method that reads the Expires header
	expiresKey := ""
	for _, ffTree := range c.reachableFrom(ff) {
		instrsOf(ffTree, func(in ssa.Instruction) {
			if call, ok := in.(*ssa.Call); ok {
				if sc := call.Call.StaticCallee(); sc != nil && c.P.IsRepoFunc(sc) && headerCallWithKey(sc, "Get", "Expires") {
					// "found" is the first bool result
					rs := sigResults(sc)
					for i, r := range rs {
						if isBoolType(r) {
							expiresKey = fmt.Sprintf("ret:%s#%d", sc.Name(), i)
							break
						}
					}
				}
			}
		})
	}
	rows := []struct {
		name    string
		assume  map[string]bool
		forbid  []string
		witness string
	}{
		{"max-age-wins", map[string]bool{"rs.max-age.ok": true}, []string{"L_exp", "L_heur"},
			"`Cache-Control: max-age=0` with a ten-day-old Last-Modified is given a heuristic lifetime of a day and served as fresh"},
		{"no-heuristic-without-permission", map[string]bool{"pred:heurStatus": false, "rs.public": false}, []string{"L_heur"},
			"a status that is not heuristically cacheable gets a heuristic lifetime"},
	}
	if expiresKey != "" {
		rows = append(rows, struct {
			name    string
			assume  map[string]bool
			forbid  []string
			witness string
		}{"expires-beats-heuristic", map[string]bool{expiresKey: true}, []string{"L_heur"}, "an (expired or invalid) Expires is ignored in favour of a heuristic lifetime"})
	} else {
		c.Undecided("C01.1", "row=expires-beats-heuristic", "the Expires-present predicate is identifiable", "no entry method reading the Expires header is called from the freshness function")
	}
	for _, row := range rows {
		rowAssume := AssumeKeys(closeImplications(row.assume))
		pr := c.An.Prune(ff, rowAssume)
		var missingAtoms []string
		for k := range row.assume {
			if !pr.Used[k] {
				missingAtoms = append(missingAtoms, k)
			}
		}
		srcs := map[string]string{}
		for _, st := range lifeStores {
			if !pr.LiveBlock[st.Block().Index] {
				continue
			}
			for k, v := range c.An.lifetimeSourcesUnder(pr, rowAssume, st.Val) {
				srcs[k] = v
			}
		}
		var ex []string
		for _, k := range sortedKeys(srcs) {
			ex = append(ex, k+"@"+srcs[k])
		}
		desc := fmt.Sprintf("under %s the stored lifetime has no live source in %v", assumeString(row.assume), row.forbid)
		var bad []string
		for _, f := range row.forbid {
			if at, ok := srcs[f]; ok {
				bad = append(bad, f+"@"+at)
			}
		}
		if _, ok := srcs["other"]; ok {
			c.Undecided("C01.1", "row="+row.name, desc, "lifetime has a source the rule cannot classify: "+srcs["other"], ex...)
			continue
		}
		if len(bad) > 0 {
			c.Fail("C01.1", "row="+row.name, desc, fmt.Sprintf("%s: live lifetime sources %v include %v. Witness: %s", c.P.ShortName(ff), ex, bad, row.witness), ex...)
			continue
		}
		if len(missingAtoms) == len(row.assume) {
			usedBelow := false
			for _, g := range c.reachableFrom(ff) {
				if g == ff {
					continue
				}
				if len(c.An.Prune(g, rowAssume).Used) > 0 {
					usedBelow = true
				}
			}
			if !usedBelow {
				c.Undecided("C01.1", "row="+row.name, desc, "none of the assumed atoms is evaluated in the freshness function or its helpers: "+strings.Join(missingAtoms, ","), ex...)
				continue
			}
		}
		c.Pass("C01.1", "row="+row.name, desc, ex...)
	}
}

// isServeOutsideSWR: a return of the stored response in a function that does not itself spawn the background revalidation.
func (an *Analysis) isServeOutsideSWR(in ssa.Instruction) bool {
	return an.IsServeReturn(in) && !an.hasSWRSpawn(in.Parent())
}

func ruleC01_2(c *Ctx) {
	c.ForbidOb("C01.2", "row=stale-needs-permission", map[string]bool{"fr.stale": true, "rq.only-if-cached": false, not304: false, "pred:siePolicy": false},
		"SERVE-OUTSIDE-SWR", c.An.isServeOutsideSWR, false, "a stale stored response is returned although neither only-if-cached nor the stale-while-revalidate window applies")
	c.ForbidOb("C01.2", "row=swr-only-when-stale", map[string]bool{"fr.stale": false}, "SWR-SPAWN", c.An.IsSWRSpawn, true,
		"a fresh response triggers background revalidation")
	c.ForbidOb("C01.2", "row=swr-needs-directive", map[string]bool{"rs.stale-while-revalidate.ok": false}, "SWR-SPAWN", c.An.IsSWRSpawn, true,
		"a stale response without stale-while-revalidate is served stale")
	// the SWR window comparison: the spawn is guarded by staleness < window (strict), window from the stored directive
	ruleSWRWindow(c, "C01.2")
}

// ruleSWRWindow: the call leading to the SWR spawn is dominated by `staleFor < swr` with swr from the stored directive.
func ruleSWRWindow(c *Ctx, rule string) {
	found := 0
	for fn := range c.A.Reach {
		instrsOf(fn, func(in ssa.Instruction) {
			ci, ok := in.(*ssa.Call)
			if !ok {
				return
			}
			leads := false
			for _, cal := range c.P.RepoCallees(ci) {
				if c.An.hasSWRSpawn(cal) {
					leads = true
				}
			}
			if !leads || c.An.hasSWRSpawn(fn) {
				return
			}
			found++
			where := c.P.ShortName(fn) + "@" + c.P.InstrPos(in)
			// dominating conditions
			okWindow := false
			detail := ""
			for _, dc := range dominatingConds(in.Block()) {
				// the comparison may sit in a local boolean helper that returns true only inside the window
				if call, isCall := dc.cond.(*ssa.Call); isCall && dc.onTrue {
					if sc := call.Call.StaticCallee(); sc != nil && c.helperImpliesWindow(sc) {
						strict := true
						for _, t := range c.swrWindowTests(sc) {
							if t.Op == token.LEQ || t.Op == token.GEQ {
								strict = false
							}
						}
						if strict {
							okWindow = true
						} else {
							detail = c.P.ShortName(sc) + ": window test is `<=`; staleness equal to the window is served"
						}
					}
					continue
				}
				b, isB := dc.cond.(*ssa.BinOp)
				if !isB {
					continue
				}
				op := b.Op
				if !dc.onTrue {
					op = negTok(op)
				}
				l, r := b.X, b.Y
				// normalise to l < r / l <= r
				if op == token.GTR || op == token.GEQ {
					l, r = r, l
					op = swapTok(op)
				}
				if op != token.LSS && op != token.LEQ {
					continue
				}
				fromSWR := c.An.dependsOnCall(r, func(cc *ssa.Call) bool { return c.An.isAccessorCall(cc, "rs", "stale-while-revalidate") })
				if !fromSWR {
					continue
				}
				if op == token.LEQ {
					detail = c.P.InstrPos(b) + ": window test is `<=`; staleness equal to the window is served"
					continue
				}
				okWindow = true
			}
			desc := "the stale-while-revalidate serve is guarded by staleness < window, window taken from the stored directive"
			if okWindow {
				c.Pass(rule, "swr-window fn="+c.P.ShortName(fn), desc, where)
			} else {
				if detail == "" {
					detail = where + ": no dominating comparison `x < swr` with swr derived from the stored stale-while-revalidate directive"
				}
				c.Fail(rule, "swr-window fn="+c.P.ShortName(fn), desc, detail, where)
			}
		})
	}
	if found == 0 {
		c.Undecided(rule, "swr-window", "a call into the SWR function exists", "no call site of a function that spawns background revalidation")
	}
}

type domCond struct {
	cond   ssa.Value
	onTrue bool
	block  *ssa.BasicBlock
}

// dominatingConds lists the branch conditions that must have been taken (with polarity) to reach block b:
// for each dominator d ending in If, if exactly one successor of d dominates b (or is b), that edge is implied.
func dominatingConds(b *ssa.BasicBlock) []domCond {
	var out []domCond
	for d := b.Idom(); d != nil; d = d.Idom() {
		if len(d.Instrs) == 0 {
			continue
		}
		iff, ok := d.Instrs[len(d.Instrs)-1].(*ssa.If)
		if !ok {
			continue
		}
		t, f := d.Succs[0], d.Succs[1]
		td := (t == b || t.Dominates(b)) && len(t.Preds) == 1
		fd := (f == b || f.Dominates(b)) && len(f.Preds) == 1
		// a successor with several predecessors does not imply the edge; use reachability instead
		if !td && !fd {
			// b reachable only via one side?
			rt := reachableAvoiding(t, b, d)
			rf := reachableAvoiding(f, b, d)
			if rt && !rf {
				td = true
			} else if rf && !rt {
				fd = true
			}
		}
		if td && !fd {
			out = append(out, domCond{iff.Cond, true, d})
		} else if fd && !td {
			out = append(out, domCond{iff.Cond, false, d})
		}
	}
	return out
}

// controlConds lists the decisions "in front of" block b for rules that enumerate them (is the operation conditional at
// all, is there a condition other than the expected ones): besides the implied edges of dominatingConds it includes the
// edge of a dominating If whose successor is b itself although b has other predecessors (`if a || b { … }`: the edge of
// `a` is reported although it is not implied). Never use it to conclude that a guard holds.
func controlConds(b *ssa.BasicBlock) []domCond {
	var out []domCond
	for d := b.Idom(); d != nil; d = d.Idom() {
		if len(d.Instrs) == 0 {
			continue
		}
		iff, ok := d.Instrs[len(d.Instrs)-1].(*ssa.If)
		if !ok {
			continue
		}
		t, f := d.Succs[0], d.Succs[1]
		td := t == b || (t.Dominates(b) && len(t.Preds) == 1)
		fd := f == b || (f.Dominates(b) && len(f.Preds) == 1)
		if !td && !fd {
			rt := reachableAvoiding(t, b, d)
			rf := reachableAvoiding(f, b, d)
			if rt && !rf {
				td = true
			} else if rf && !rt {
				fd = true
			}
		}
		if td && !fd {
			out = append(out, domCond{iff.Cond, true, d})
		} else if fd && !td {
			out = append(out, domCond{iff.Cond, false, d})
		}
	}
	return out
}

// reachableAvoiding: target reachable from start without passing through `avoid`.
func reachableAvoiding(start, target, avoid *ssa.BasicBlock) bool {
	seen := map[*ssa.BasicBlock]bool{avoid: true}
	wl := []*ssa.BasicBlock{start}
	for len(wl) > 0 {
		x := wl[len(wl)-1]
		wl = wl[:len(wl)-1]
		if x == target {
			return true
		}
		if seen[x] {
			continue
		}
		seen[x] = true
		wl = append(wl, x.Succs...)
	}
	return false
}

func ruleC01_3(c *Ctx) {
	if !c.Need("C01.3", "freshness", "currentAge") {
		return
	}
	ff := c.A.F("freshness")
	relax := map[[2]interface{}]bool{}
	for _, e := range c.An.relaxationEdges() {
		relax[[2]interface{}{e.Phi, e.Idx}] = true
	}
	ageDep := func(v ssa.Value) bool {
		return c.An.dependsOnCall(v, func(cc *ssa.Call) bool { return cc.Call.StaticCallee() == c.A.F("currentAge") })
	}
	n := 0
	seen := map[ssa.Value]bool{}
	var check func(v ssa.Value, from string)
	check = func(v ssa.Value, from string) {
		if seen[v] {
			return
		}
		seen[v] = true
		switch x := v.(type) {
		case *ssa.Phi:
			for i, e := range x.Edges {
				if b, ok := constBool(e); ok {
					if !b && !relax[[2]interface{}{x, i}] {
						c.Fail("C01.3", "stale-flag-const-false", "the staleness flag is set to false only by the max-stale relaxation",
							c.P.InstrPos(x)+": incoming #"+fmt.Sprint(i)+" is the constant false outside a max-stale-controlled path")
					}
					continue
				}
				check(e, from)
			}
		case *ssa.Const:
			if b, ok := constBool(x); ok && !b {
				c.Fail("C01.3", "stale-flag-const-false", "the staleness flag is never the constant false", from+": stored constant false")
			}
		case *ssa.UnOp:
			if x.Op == token.NOT {
				if b, ok := x.X.(*ssa.BinOp); ok {
					n++
					checkStaleCmp(c, b, true, ageDep)
					return
				}
			}
			c.Undecided("C01.3", "stale-flag-shape", "the staleness flag is one comparison between current age and lifetime", from+": unrecognised value "+v.String())
		case *ssa.BinOp:
			n++
			checkStaleCmp(c, x, false, ageDep)
		default:
			c.Undecided("C01.3", "stale-flag-shape", "the staleness flag is one comparison between current age and lifetime", from+": unrecognised value "+v.String())
		}
	}
	for _, st := range c.An.staleFlagStores() {
		check(st.Val, c.P.InstrPos(st))
	}
	_ = ff
	if n == 0 {
		c.Undecided("C01.3", "vacuity", "a staleness comparison exists", "no comparison feeds the staleness flag")
	}
}

// checkStaleCmp: flag := age >= life (possibly written mirrored or negated).
func checkStaleCmp(c *Ctx, b *ssa.BinOp, negated bool, ageDep func(ssa.Value) bool) {
	op := b.Op
	if negated {
		op = negTok(op)
	}
	l, r := b.X, b.Y
	la, ra := ageDep(l), ageDep(r)
	where := c.P.InstrPos(b) + " `" + b.String() + "`"
	desc := "the staleness flag is `current age >= lifetime` (fresh only while age is strictly below the lifetime)"
	switch {
	case la && !ra:
	case ra && !la:
		op = swapTok(op)
	default:
		c.Undecided("C01.3", "stale-cmp", desc, where+": cannot tell which operand is the current age")
		return
	}
	// now: age op life
	if op == token.GEQ {
		c.Pass("C01.3", "stale-cmp", desc, where)
		return
	}
	c.Fail("C01.3", "stale-cmp", desc, where+fmt.Sprintf(": normalised comparison is `age %s lifetime`; with `>` a response is still served when its age equals its lifetime", op))
}

func ruleC01_4(c *Ctx) {
	if !c.Need("C01.4", "currentAge") {
		return
	}
	ca := c.A.F("currentAge")
	// the age value: store to Age.Value in this function, or returned duration
	var ageVals []ssa.Value
	if c.A.AgeT != nil {
		instrsOf(ca, func(in ssa.Instruction) {
			if st, ok := in.(*ssa.Store); ok {
				if fa, ok := st.Addr.(*ssa.FieldAddr); ok && isPtrToNamed(fa.X.Type(), c.A.AgeT) && typeIs(st.Val.Type(), "time", "Duration") {
					ageVals = append(ageVals, st.Val)
				}
			}
		})
	}
	if len(ageVals) == 0 {
		c.Undecided("C01.4", "vacuity", "the current-age function stores an age value", "no duration store into an Age in "+c.P.ShortName(ca))
		return
	}
	// classify the sources the age depends on
	params := ca.Params
	timeParams := []*ssa.Parameter{}
	for _, p := range params {
		if typeIs(p.Type(), "time", "Time") {
			timeParams = append(timeParams, p)
		}
	}
	deps := map[string]bool{}
	var clampFail []string
	for _, v := range ageVals {
		c.P.TraceBack(v, TraceOpts{ThroughOps: true, ThroughExtern: true, NoParams: true, NoHeapFields: true}, func(x ssa.Value, _ []int) bool {
			switch y := x.(type) {
			case *ssa.Parameter:
				deps["param:"+y.Name()] = true
			case *ssa.Call:
				if callIsMethod(&y.Call, "net/http", "Header", "Get") {
					_, a := recvAndArgs(&y.Call)
					if s, ok := constStr(a[0]); ok {
						deps["header:"+s] = true
					}
				}
				if y.Call.IsInvoke() && y.Call.Method.Name() == "Since" {
					deps["clock.Since"] = true
				}
				if callIsPkgFunc(&y.Call, "time", "Since") {
					deps["clock.Since"] = true
				}
			}
			return true
		})
	}
	var ex []string
	for _, k := range sortedKeys(deps) {
		ex = append(ex, k)
	}
	need := []string{"header:Age", "clock.Since"}
	for _, p := range timeParams {
		need = append(need, "param:"+p.Name())
	}
	if len(timeParams) < 3 {
		c.Undecided("C01.4", "age-terms", "the current-age function takes date, request time and response time", fmt.Sprintf("only %d time parameters", len(timeParams)))
		return
	}
	var missing []string
	for _, k := range need {
		if !deps[k] {
			missing = append(missing, k)
		}
	}
	desc := "current age depends on the Age field, Date, request time, response time and resident time (clock since response time)"
	if len(missing) > 0 {
		c.Fail("C01.4", "age-terms", desc, fmt.Sprintf("%s: age value does not depend on %v; e.g. without resident time every entry stays fresh forever", c.P.ShortName(ca), missing), ex...)
	} else {
		c.Pass("C01.4", "age-terms", desc, ex...)
	}
	// a valid Age field is never dropped: wherever the age term joins "no Age" (zero) and "Age given", only the
	// decoded value survives once the decoder reported a valid value (a too-large Age is capped, not ignored)
	var ageDecoded ssa.Value
	instrsOf(ca, func(in ssa.Instruction) {
		ex, ok := in.(*ssa.Extract)
		if !ok || ex.Index != 0 {
			return
		}
		call, ok := ex.Tuple.(*ssa.Call)
		if !ok {
			return
		}
		if sc := call.Call.StaticCallee(); sc != nil && c.A.RawValue[sc] && len(call.Call.Args) == 1 {
			if c.An.dependsOnCall(call.Call.Args[0], func(cc *ssa.Call) bool {
				if !callIsMethod(&cc.Call, "net/http", "Header", "Get") {
					return false
				}
				_, a := recvAndArgs(&cc.Call)
				s, ok := constStr(a[0])
				return ok && s == "Age"
			}) {
				ageDecoded = ex
			}
		}
	})
	if ageDecoded != nil {
		validKey := ""
		if call, ok := ageDecoded.(*ssa.Extract).Tuple.(*ssa.Call); ok {
			if a, _ := c.An.callAtom(call, 1); a != nil {
				validKey = a.Key
			}
		}
		prV := c.An.Prune(ca, AssumeKeys(map[string]bool{validKey: true}))
		dropped := ""
		nJoin := 0
		instrsOf(ca, func(in ssa.Instruction) {
			phi, ok := in.(*ssa.Phi)
			if !ok || !typeIs(phi.Type(), "time", "Duration") {
				return
			}
			dep := false
			for _, e := range phi.Edges {
				if c.An.dependsOnValue(e, ageDecoded) {
					dep = true
				}
			}
			if !dep {
				return
			}
			nJoin++
			for _, e := range prV.LivePhiEdges(phi) {
				if !c.An.dependsOnValue(e, ageDecoded) {
					dropped = fmt.Sprintf("%s: with a valid Age field the age term can still be `%s`", c.P.InstrPos(phi), e.String())
				}
			}
		})
		d3 := "a valid Age field always enters the current age (too-large values are capped, not dropped)"
		switch {
		case validKey == "":
			c.Undecided("C01.4", "age-field-used", d3, "the decoder's validity flag is not recognised as an atom")
		case dropped != "":
			c.Fail("C01.4", "age-field-used", d3, dropped+". Witness: `Age: 2147483649` with a current Date and max-age=3600 is served as a fresh HIT")
		default:
			c.Pass("C01.4", "age-field-used", d3, fmt.Sprintf("%s: %d join(s) of the age term, only the decoded value is live under %s=T", c.P.ShortName(ca), nJoin, validKey))
		}
	}
	// every time difference is clamped at 0 before use
	nd := 0
	instrsOf(ca, func(in ssa.Instruction) {
		call, ok := in.(*ssa.Call)
		if !ok {
			return
		}
		isDiff := callIsMethod(&call.Call, "time", "Time", "Sub") || (call.Call.IsInvoke() && call.Call.Method.Name() == "Since") || callIsPkgFunc(&call.Call, "time", "Since")
		if !isDiff {
			return
		}
		nd++
		okClamp := true
		if refs := call.Referrers(); refs != nil {
			for _, r := range *refs {
				if _, isDbg := r.(*ssa.DebugRef); isDbg {
					continue
				}
				mc, isCall := r.(*ssa.Call)
				if !isCall {
					okClamp = false
					continue
				}
				b, isB := mc.Call.Value.(*ssa.Builtin)
				if !isB || b.Name() != "max" {
					okClamp = false
					continue
				}
				hasZero := false
				for _, a := range mc.Call.Args {
					if k, ok := constInt(a); ok && k == 0 {
						hasZero = true
					}
				}
				if !hasZero {
					okClamp = false
				}
			}
		}
		if !okClamp {
			clampFail = append(clampFail, c.P.InstrPos(call)+" `"+call.String()+"`")
		}
	})
	desc2 := "every time difference in the current-age computation passes max(.,0) before use"
	if nd == 0 {
		c.Undecided("C01.4", "age-clamps", desc2, "no time difference found")
	} else if len(clampFail) > 0 {
		c.Fail("C01.4", "age-clamps", desc2, strings.Join(clampFail, "; ")+": a skewed Date or clock makes the age negative and the entry fresh", fmt.Sprintf("%d differences", nd))
	} else {
		c.Pass("C01.4", "age-clamps", desc2, fmt.Sprintf("%d time differences in %s", nd, c.P.ShortName(ca)))
	}
	// corrected initial age = max(apparent, corrected): the two candidates are joined by max, and resident time is added
	okMax := false
	instrsOf(ca, func(in ssa.Instruction) {
		if call, ok := in.(*ssa.Call); ok {
			if b, ok := call.Call.Value.(*ssa.Builtin); ok && b.Name() == "max" && len(call.Call.Args) == 2 {
				if _, c1 := call.Call.Args[0].(*ssa.Const); !c1 {
					if _, c2 := call.Call.Args[1].(*ssa.Const); !c2 {
						okMax = true
					}
				}
			}
		}
	})
	if okMax {
		c.Pass("C01.4", "age-max-join", "apparent age and corrected age value are joined with max", c.P.ShortName(ca))
	} else {
		c.Fail("C01.4", "age-max-join", "apparent age and corrected age value are joined with max", c.P.ShortName(ca)+": no max(x, y) over two non-constant ages; using min under-estimates the age")
	}
}

func ruleC01_5(c *Ctx) {
	if !c.Need("C01.5", "heuristic") {
		return
	}
	h := c.A.F("heuristic")
	var scale *ssa.BinOp
	scaleOK := false
	var detail string
	instrsOf(h, func(in ssa.Instruction) {
		b, ok := in.(*ssa.BinOp)
		if !ok || (b.Op != token.MUL && b.Op != token.QUO) {
			return
		}
		var k *ssa.Const
		if cc, ok := b.Y.(*ssa.Const); ok {
			k = cc
		} else if cc, ok := b.X.(*ssa.Const); ok && b.Op == token.MUL {
			k = cc
		}
		if k == nil || k.Value == nil {
			return
		}
		f, _ := constant.Float64Val(constant.ToFloat(k.Value))
		scale = b
		if b.Op == token.MUL && f <= 0.1+1e-12 && f > 0 {
			scaleOK = true
		} else if b.Op == token.QUO && f >= 10 {
			scaleOK = true
		} else {
			detail = fmt.Sprintf("%s: scale `%s` with constant %v exceeds 10%%", c.P.InstrPos(b), b.Op, f)
		}
	})
	desc := "heuristic lifetime is (Date - Last-Modified) scaled by a constant <= 0.1"
	if scale == nil {
		c.Undecided("C01.5", "heuristic-scale", desc, "no multiplication/division by a constant in "+c.P.ShortName(h))
	} else if !scaleOK {
		c.Fail("C01.5", "heuristic-scale", desc, detail)
	} else {
		// the scaled operand must depend on Time.Sub
		dep := c.An.dependsOnCall(scale, func(cc *ssa.Call) bool { return callIsMethod(&cc.Call, "time", "Time", "Sub") })
		if dep {
			c.Pass("C01.5", "heuristic-scale", desc, c.P.InstrPos(scale)+" `"+scale.String()+"`")
		} else {
			c.Fail("C01.5", "heuristic-scale", desc, c.P.InstrPos(scale)+": scaled value is not a time difference")
		}
	}
	// every return is the scaled value or the constant 0
	bad := ""
	nret := 0
	instrsOf(h, func(in ssa.Instruction) {
		r, ok := in.(*ssa.Return)
		if !ok || len(r.Results) != 1 {
			return
		}
		nret++
		v := r.Results[0]
		if k, ok := constInt(v); ok {
			if k != 0 {
				bad = c.P.InstrPos(r) + ": returns non-zero constant"
			}
			return
		}
		if scale != nil && !c.An.dependsOnValue(v, scale) {
			bad = c.P.InstrPos(r) + ": returned lifetime does not pass the 10% scaling"
		}
	})
	desc2 := "every return of the heuristic is the scaled difference or 0"
	if bad != "" {
		c.Fail("C01.5", "heuristic-returns", desc2, bad)
	} else {
		c.Pass("C01.5", "heuristic-returns", desc2, fmt.Sprintf("%d returns in %s", nret, c.P.ShortName(h)))
	}
	// Last-Modified must be before Date: a guard returning 0 exists on a comparison of the two times
	guard := false
	instrsOf(h, func(in ssa.Instruction) {
		if call, ok := in.(*ssa.Call); ok && (callIsMethod(&call.Call, "time", "Time", "Before") || callIsMethod(&call.Call, "time", "Time", "After") || callIsMethod(&call.Call, "time", "Time", "Compare")) {
			guard = true
		}
	})
	if guard {
		c.Pass("C01.5", "heuristic-order-guard", "Last-Modified not before Date yields 0", c.P.ShortName(h))
	} else {
		c.Fail("C01.5", "heuristic-order-guard", "Last-Modified not before Date yields 0", c.P.ShortName(h)+": no ordering test between Last-Modified and Date; a future Last-Modified gives a negative lifetime")
	}
}

// dependsOnValue: v data-depends on target within the function.
func (an *Analysis) dependsOnValue(v, target ssa.Value) bool {
	hit := false
	an.P.TraceBack(v, TraceOpts{ThroughOps: true, ThroughExtern: true, NoParams: true, NoHeapFields: true}, func(x ssa.Value, _ []int) bool {
		if x == target {
			hit = true
			return false
		}
		return !hit
	})
	return hit
}

const maxSecondsBound = math.MaxInt64 / 1_000_000_000

// boundedAbove: v is provably <= maxSecondsBound at the point of use in block `at`.
func boundedAbove(v ssa.Value, at *ssa.BasicBlock, depth int) bool {
	if depth > 6 {
		return false
	}
	switch x := v.(type) {
	case *ssa.Const:
		k, ok := constInt(x)
		return ok && k <= maxSecondsBound
	case *ssa.Convert:
		return boundedAbove(x.X, at, depth+1)
	case *ssa.ChangeType:
		return boundedAbove(x.X, at, depth+1)
	case *ssa.Phi:
		for _, e := range x.Edges {
			if !boundedAbove(e, at, depth+1) {
				return false
			}
		}
		return len(x.Edges) > 0
	case *ssa.Extract:
		// a result of a local helper: bounded when the helper bounds that result on every return
		if call, ok := x.Tuple.(*ssa.Call); ok {
			if sc := call.Call.StaticCallee(); sc != nil && len(sc.Blocks) > 0 && sc.Pkg != nil && depth < 4 {
				all, n := true, 0
				for _, b := range sc.Blocks {
					if r, ok := b.Instrs[len(b.Instrs)-1].(*ssa.Return); ok && x.Index < len(r.Results) {
						n++
						rv := r.Results[x.Index]
						if k, isK := constInt(rv); isK && k == 0 {
							continue // the "not a number" return
						}
						if !boundedAbove(rv, b, depth+1) {
							all = false
						}
					}
				}
				if all && n > 0 {
					return true
				}
			}
		}
	case *ssa.Call:
		if sc := x.Call.StaticCallee(); sc != nil && len(sc.Blocks) > 0 && sc.Pkg != nil && depth < 4 && sc.Signature.Results().Len() == 1 {
			all, n := true, 0
			for _, b := range sc.Blocks {
				if r, ok := b.Instrs[len(b.Instrs)-1].(*ssa.Return); ok && len(r.Results) == 1 {
					n++
					if !boundedAbove(r.Results[0], b, depth+1) {
						all = false
					}
				}
			}
			if all && n > 0 {
				return true
			}
		}
		if b, ok := x.Call.Value.(*ssa.Builtin); ok && b.Name() == "min" {
			for _, a := range x.Call.Args {
				if k, ok := constInt(a); ok && k <= maxSecondsBound {
					return true
				}
				if boundedAbove(a, at, depth+1) {
					return true
				}
			}
		}
	}
	// guarded by a dominating comparison v < C / v <= C (true edge) or v > C / v >= C (false edge)
	for _, dc := range dominatingConds(at) {
		b, ok := dc.cond.(*ssa.BinOp)
		if !ok {
			continue
		}
		op := b.Op
		if !dc.onTrue {
			op = negTok(op)
		}
		l, r := b.X, b.Y
		if sameValue(r, v) {
			l, r = r, l
			op = swapTok(op)
		}
		if !sameValue(l, v) {
			continue
		}
		if k, ok := constInt(r); ok && k <= maxSecondsBound && (op == token.LSS || op == token.LEQ) {
			return true
		}
	}
	return false
}

func sameValue(a, b ssa.Value) bool {
	strip := func(v ssa.Value) ssa.Value {
		for {
			switch x := v.(type) {
			case *ssa.Convert:
				v = x.X
			case *ssa.ChangeType:
				v = x.X
			default:
				return v
			}
		}
	}
	return strip(a) == strip(b)
}

// ruleSaturation (C01.6 / C12.4): delta-seconds and Age decoding saturate instead of wrapping or vanishing.
func ruleSaturation(c *Ctx, rule string) {
	// the delta-seconds decoder: raw Value() method that calls strconv.ParseInt/Atoi/ParseUint
	var dec *ssa.Function
	parsesInt := func(fn *ssa.Function) bool {
		for g := range c.P.StaticTree(fn) {
			if callsWhere(g, func(cc *ssa.CallCommon) bool {
				return callIsPkgFunc(cc, "strconv", "ParseInt") || callIsPkgFunc(cc, "strconv", "Atoi") || callIsPkgFunc(cc, "strconv", "ParseUint")
			}) {
				return true
			}
		}
		return false
	}
	for fn := range c.A.RawValue {
		if parsesInt(fn) { // (directly, or in a helper the decoding was moved to)
			if dec != nil {
				c.Undecided(rule, "delta-decoder", "a unique delta-seconds decoder exists", "several raw decoders parse integers")
				return
			}
			dec = fn
		}
	}
	if dec == nil {
		c.Undecided(rule, "delta-decoder", "a unique delta-seconds decoder exists", "no raw Value() method parses an integer")
		return
	}
	check := func(fn *ssa.Function, what string) {
		// (a) range errors are converted, not dropped: under err!=nil of the integer parse a return with valid=true is reachable,
		//     or the function does not look at the error because it clamps by digit count (not modelled: undecided)
		var parse *ssa.Call
		top := fn
		for g := range c.P.StaticTree(top) {
			instrsOf(g, func(in ssa.Instruction) {
				if call, ok := in.(*ssa.Call); ok && parse == nil && (callIsPkgFunc(&call.Call, "strconv", "ParseInt") || callIsPkgFunc(&call.Call, "strconv", "Atoi") || callIsPkgFunc(&call.Call, "strconv", "ParseUint")) {
					parse = call
				}
			})
		}
		if parse != nil {
			fn = parse.Parent() // the range error is handled where the number is parsed
		}
		if parse == nil {
			c.Undecided(rule, "saturate-"+what, "integer parse found", "no strconv integer parse in "+c.P.ShortName(fn))
			return
		}
		where := c.P.ShortName(fn) + "@" + c.P.InstrPos(parse)
		// error value of the parse
		var errv ssa.Value
		if refs := parse.Referrers(); refs != nil {
			for _, r := range *refs {
				if ex, ok := r.(*ssa.Extract); ok && ex.Index == 1 {
					errv = ex
				}
			}
		}
		rangeHandled := false
		if errv != nil {
			// the error must be inspected for ErrRange (errors.Is / errors.As / type assertion to *NumError) somewhere
			instrsOf(fn, func(in ssa.Instruction) {
				if call, ok := in.(*ssa.Call); ok && (callIsPkgFunc(&call.Call, "errors", "Is") || callIsPkgFunc(&call.Call, "errors", "As")) {
					for _, a := range call.Call.Args {
						if g, ok := a.(*ssa.UnOp); ok {
							if gl, ok := g.X.(*ssa.Global); ok && gl.Name() == "ErrRange" {
								rangeHandled = true
							}
						}
					}
					if callIsPkgFunc(&call.Call, "errors", "As") {
						rangeHandled = true
					}
				}
				if ta, ok := in.(*ssa.TypeAssert); ok && ptrTo(ta.AssertedType, "strconv", "NumError") {
					rangeHandled = true
				}
			})
			// or: the error is ignored and the value is used regardless (ParseInt returns the saturated bound on ErrRange)
			used := false
			if refs := errv.Referrers(); refs != nil {
				for _, r := range *refs {
					if _, ok := r.(*ssa.DebugRef); !ok {
						used = true
					}
				}
			}
			if !used {
				rangeHandled = true // value is used with the library's own saturation
			}
		} else {
			rangeHandled = true // error discarded with `_`: the library returns the nearest bound on range errors
		}
		descA := "an out-of-range " + what + " is converted to a saturated value, not dropped"
		if rangeHandled {
			c.Pass(rule, "range-error-"+what, descA, where)
		} else {
			c.Fail(rule, "range-error-"+what, descA, where+": the parse error is returned as `invalid` for every error, including strconv.ErrRange; `max-age=99999999999999999999` is treated as absent and a heuristic lifetime applies")
		}
		// (b) multiplication by time.Second is dominated by an upper clamp
		var mul *ssa.BinOp
		for g := range c.P.StaticTree(top) {
			instrsOf(g, func(in ssa.Instruction) {
				if b, ok := in.(*ssa.BinOp); ok && b.Op == token.MUL {
					for _, o := range []ssa.Value{b.X, b.Y} {
						if k, ok := constInt(o); ok && k == 1_000_000_000 {
							mul = b
						}
					}
				}
			})
		}
		descB := "the seconds value is clamped (<= MaxInt64/1e9) before it is multiplied by time.Second"
		if mul == nil {
			c.Undecided(rule, "clamp-"+what, descB, "no multiplication by time.Second in "+c.P.ShortName(fn))
			return
		}
		other := mul.X
		if k, ok := constInt(mul.X); ok && k == 1_000_000_000 {
			other = mul.Y
		}
		if boundedAbove(other, mul.Block(), 0) {
			c.Pass(rule, "clamp-"+what, descB, c.P.InstrPos(mul)+" `"+mul.String()+"`")
		} else {
			c.Fail(rule, "clamp-"+what, descB, c.P.InstrPos(mul)+" `"+mul.String()+"`: operand has no upper clamp; `"+what+"=9223372036854775807` wraps to a negative duration")
		}
	}
	check(dec, "delta-seconds")
	if ca := c.A.F("currentAge"); ca != nil {
		// accepted shape: the Age field value is decoded by the (checked) saturating delta-seconds decoder
		usesDec := false
		var site ssa.Instruction
		var caTree []*ssa.Function
		for g := range c.P.StaticTree(ca) {
			caTree = append(caTree, g)
		}
		sort.Slice(caTree, func(i, j int) bool { return FuncName(caTree[i]) < FuncName(caTree[j]) })
		for _, g := range caTree {
			instrsOf(g, func(in ssa.Instruction) {
				if cc := callOf(in); cc != nil && cc.StaticCallee() == dec && len(cc.Args) == 1 {
					if c.An.dependsOnCall(cc.Args[0], func(x *ssa.Call) bool {
						if !callIsMethod(&x.Call, "net/http", "Header", "Get") {
							return false
						}
						_, a := recvAndArgs(&x.Call)
						s, ok := constStr(a[0])
						return ok && s == "Age"
					}) {
						usesDec = true
						site = in
					}
				}
			})
		}
		if usesDec {
			c.Pass(rule, "range-error-Age", "an out-of-range Age is converted to a saturated value, not dropped", c.P.ShortName(ca)+"@"+c.P.InstrPos(site)+": decoded by "+c.P.ShortName(dec))
			c.Pass(rule, "clamp-Age", "the Age value is clamped before it is used as a duration", c.P.ShortName(ca)+"@"+c.P.InstrPos(site)+": decoded by "+c.P.ShortName(dec))
		} else {
			check(ca, "Age")
		}
	}
}

func ruleC01_7(c *Ctx) {
	if !c.Need("C01.7", "freshness") {
		return
	}
	ff := c.A.F("freshness")
	edges := c.An.relaxationEdges()
	if len(edges) == 0 {
		c.Pass("C01.7", "no-relaxation", "no relaxation of the staleness flag exists", c.P.ShortName(ff))
		return
	}
	assume := map[string]bool{"rq.max-stale.ok": false}
	pr := c.An.Prune(ff, AssumeKeys(closeImplications(assume)))
	var ex []string
	for _, e := range edges {
		where := fmt.Sprintf("%s: phi %s incoming #%d", c.P.InstrPos(e.Phi), e.Phi.Comment, e.Idx)
		ex = append(ex, where)
		if pr.LiveBlock[e.Pred.Index] && pr.EdgeLive(e.Pred, e.Phi.Block()) {
			c.Fail("C01.7", "relaxation-needs-max-stale", "the staleness flag is reset only when the request carries max-stale",
				where+": reset is live under {rq.max-stale.ok=F}; every stale response would be served", where)
			return
		}
	}
	sort.Strings(ex)
	c.Pass("C01.7", "relaxation-needs-max-stale", "the staleness flag is reset only when the request carries max-stale", ex...)
}
