package hcv

import (
	"fmt"
	"go/token"
	"go/types"
	"net/textproto"
	"regexp"
	"sort"
	"strings"

	"golang.org/x/tools/go/ssa"
)

// Rules written for the defects found in the second half of round 3 (D62–D73). Each decides a structural necessary
// condition of the property it is registered under; DESIGN §11 lists defect, failing input and rule.

// ---------------------------------------------------------------------------------------------------------------------
// header-name tables (D62)

var hyphenatedCanonical = regexp.MustCompile(`^[A-Z][a-z0-9]*(-[A-Z][a-z0-9]*)+$`)

func isTokenString(s string) bool {
	if s == "" {
		return false
	}
	for _, r := range s {
		if !(r >= 'A' && r <= 'Z' || r >= 'a' && r <= 'z' || r >= '0' && r <= '9' || r == '-') {
			return false
		}
	}
	return true
}

// literalElems: the constant strings of the slice/array literal that v (an element load in a range loop, or the
// literal itself) comes from.
func literalElems(v ssa.Value) []string {
	var out []string
	seen := map[ssa.Value]bool{}
	var walk func(x ssa.Value, depth int)
	walk = func(x ssa.Value, depth int) {
		if x == nil || seen[x] || depth > 8 {
			return
		}
		seen[x] = true
		switch y := x.(type) {
		case *ssa.UnOp:
			walk(y.X, depth+1)
		case *ssa.IndexAddr:
			walk(y.X, depth+1)
		case *ssa.Index:
			walk(y.X, depth+1)
		case *ssa.Slice:
			walk(y.X, depth+1)
		case *ssa.Phi:
			for _, e := range y.Edges {
				walk(e, depth+1)
			}
		case *ssa.Alloc:
			if y.Referrers() == nil {
				return
			}
			for _, r := range *y.Referrers() {
				ia, ok := r.(*ssa.IndexAddr)
				if !ok || ia.Referrers() == nil {
					continue
				}
				for _, u := range *ia.Referrers() {
					if st, ok := u.(*ssa.Store); ok && st.Addr == ssa.Value(ia) {
						if k, ok := constStr(st.Val); ok {
							out = append(out, k)
						}
					}
				}
			}
		}
	}
	walk(v, 0)
	return out
}

// ruleHeaderTablesCanonical (C09.11 / C04.11): the variant code consults its tables with canonical field names (the keys
// of http.Header). A table key in another spelling ("TE" for "Te") never matches: the field is compared verbatim where the
// documentation promises a normalised comparison. Tables = sets filled from constant strings (a literal that is ranged
// over, or a map literal) in package internal; a set counts as a table of field names when at least two of its keys are
// hyphenated canonical names; every key made of token characters must then be canonical.
func ruleHeaderTablesCanonical(c *Ctx, rule string) {
	ip := c.P.Pkg("internal")
	if ip == nil {
		c.Undecided(rule, "header-tables-canonical", "tables of field names are keyed canonically", "package internal not loaded")
		return
	}
	desc := "every key of a table of header field names is in canonical form (the form under which fields are looked up)"
	type table struct {
		where string
		keys  []string
	}
	var tables []table
	byMap := map[string]*table{}
	for _, fn := range c.P.RepoFuncs {
		if fn.Pkg != ip || isTestOnly(c, fn) {
			continue
		}
		instrsOf(fn, func(in ssa.Instruction) {
			mu, ok := in.(*ssa.MapUpdate)
			if !ok {
				return
			}
			mt, ok := mu.Map.Type().Underlying().(*types.Map)
			if !ok || !isStringType(mt.Key()) {
				return
			}
			var keys []string
			if k, ok := constStr(mu.Key); ok {
				keys = []string{k}
			} else {
				keys = literalElems(mu.Key)
			}
			if len(keys) == 0 {
				return
			}
			id := c.P.ShortName(fn) + "/" + mu.Map.Name()
			if u, ok := mu.Map.(*ssa.UnOp); ok {
				id = c.P.ShortName(fn) + "/" + u.X.String()
			}
			t := byMap[id]
			if t == nil {
				t = &table{where: c.P.ShortName(fn) + "@" + c.P.InstrPos(in)}
				byMap[id] = t
			}
			t.keys = append(t.keys, keys...)
		})
	}
	for _, id := range sortedKeys(byMap) {
		tables = append(tables, *byMap[id])
	}
	n := 0
	var bad []string
	for _, t := range tables {
		named := 0
		for _, k := range t.keys {
			if hyphenatedCanonical.MatchString(k) {
				named++
			}
		}
		if named < 2 {
			continue
		}
		n++
		for _, k := range uniqStrings(t.keys) {
			if isTokenString(k) && textproto.CanonicalMIMEHeaderKey(k) != k {
				bad = append(bad, fmt.Sprintf("%s: key %q is not canonical (%q); a field looked up by its canonical name never finds it", t.where, k, textproto.CanonicalMIMEHeaderKey(k)))
			}
		}
	}
	if n == 0 {
		c.Undecided(rule, "header-tables-canonical", desc, "no table of header field names found in package internal")
		return
	}
	if len(bad) > 0 {
		sort.Strings(bad)
		c.Fail(rule, "header-tables-canonical", desc, strings.Join(bad, "; ")+". With `Vary: TE`, `TE: trailers, deflate` and `TE: deflate, trailers` are different variants although the same list in Accept-Encoding is one")
		return
	}
	c.Pass(rule, "header-tables-canonical", desc, fmt.Sprintf("%d tables of field names", n))
}

// ---------------------------------------------------------------------------------------------------------------------
// the entry belongs to its key (D63)

// ruleEntryBelongsToKey (C17.6 / C10.14 / C03.8): the entry reader hands out an entry only when the id recorded in it
// equals the key it was read under. The backing store is outside the cache's control (C10: arbitrary bytes; C17: files
// altered): a well-formed entry of another URI found under this key would otherwise be served for this URI.
func ruleEntryBelongsToKey(c *Ctx, rule string) {
	if !c.Need(rule, "readEntry", "entryParser") {
		return
	}
	re := c.A.F("readEntry")
	desc := "an entry is returned only where its recorded id was compared with the key it was read under"
	var keyParams []*ssa.Parameter
	for _, p := range re.Params {
		if isStringType(p.Type()) {
			keyParams = append(keyParams, p)
		}
	}
	if len(keyParams) == 0 {
		c.Undecided(rule, "entry-id-compared", desc, c.P.ShortName(re)+": no string parameter (the key)")
		return
	}
	isKey := func(v ssa.Value) bool {
		for _, p := range keyParams {
			if c.An.sameCanon(v, p) {
				return true
			}
		}
		return false
	}
	isEntryField := func(v ssa.Value) bool {
		u, ok := v.(*ssa.UnOp)
		if !ok {
			return false
		}
		fa, ok := u.X.(*ssa.FieldAddr)
		return ok && isPtrToNamed(fa.X.Type(), c.A.EntryT) && isStringType(u.Type())
	}
	n := 0
	bad := ""
	for _, b := range re.Blocks {
		r, ok := b.Instrs[len(b.Instrs)-1].(*ssa.Return)
		if !ok || len(r.Results) != 2 {
			continue
		}
		if isNilConst(c.An.RetVal(r, 0)) {
			continue
		}
		n++
		cmp := false
		for _, dc := range dominatingConds(b) {
			for _, lf := range condLeaves(dc.cond, dc.onTrue) {
				bo, ok := lf.v.(*ssa.BinOp)
				if !ok {
					continue
				}
				equal := bo.Op == token.EQL && lf.val || bo.Op == token.NEQ && !lf.val
				if !equal {
					continue
				}
				if isKey(bo.X) && isEntryField(bo.Y) || isKey(bo.Y) && isEntryField(bo.X) {
					cmp = true
				}
			}
		}
		if !cmp {
			bad = c.P.InstrPos(r)
		}
	}
	switch {
	case n == 0:
		c.Undecided(rule, "entry-id-compared", desc, c.P.ShortName(re)+": no return of an entry")
	case bad != "":
		c.Fail(rule, "entry-id-compared", desc, bad+": the parsed entry is returned whatever id it carries; a value moved between keys of the store (the file of /a copied over the file of /b, which authenticated encryption does not notice) is served for the wrong URI")
	default:
		c.Pass(rule, "entry-id-compared", desc, fmt.Sprintf("%s: %d entry return(s)", c.P.ShortName(re), n))
	}
}

// ---------------------------------------------------------------------------------------------------------------------
// the stored body is complete (D64)

// ruleStoredBodyComplete (C10.15 / C05.10): the parser of a stored entry reads the body to its end and fails when that
// read fails. http.ReadResponse only parses the head; a body cut short by the backing store would otherwise surface as
// an unexpected EOF while the client reads a response that was announced as a hit.
func ruleStoredBodyComplete(c *Ctx, rule string) {
	if !c.Need(rule, "entryParser") {
		return
	}
	ep := c.A.F("entryParser")
	desc := "the entry parser reads the stored body to its end; a read error makes the entry unreadable"
	var reads []*ssa.Call
	instrsOf(ep, func(in ssa.Instruction) {
		call, ok := in.(*ssa.Call)
		if !ok {
			return
		}
		cc := &call.Call
		if !(callIsPkgFunc(cc, "io", "ReadAll") || callIsPkgFunc(cc, "io", "Copy") || callIsPkgFunc(cc, "io", "CopyN") ||
			callIsMethod(cc, "bytes", "Buffer", "ReadFrom") || callIsPkgFunc(cc, "io/ioutil", "ReadAll")) {
			return
		}
		for _, a := range cc.Args {
			isBody := false
			c.P.TraceBack(a, TraceOpts{ThroughOps: true}, func(v ssa.Value, _ []int) bool {
				if u, ok := v.(*ssa.UnOp); ok {
					if fa, ok := u.X.(*ssa.FieldAddr); ok && isHTTPResponsePtr(fa.X.Type()) && fieldName(fa.X.Type(), fa.Field) == "Body" {
						isBody = true
						return false
					}
				}
				return true
			})
			if isBody {
				reads = append(reads, call)
			}
		}
	})
	// the read may sit in a helper that takes the response and reports the read's error
	instrsOf(ep, func(in ssa.Instruction) {
		call, ok := in.(*ssa.Call)
		if !ok {
			return
		}
		for _, cal := range c.P.RepoCallees(call) {
			rs := sigResults(cal)
			if len(rs) == 0 || !types.Identical(rs[len(rs)-1], types.Universe.Lookup("error").Type()) {
				continue
			}
			takesResp := false
			for _, a := range call.Call.Args {
				if isHTTPResponsePtr(a.Type()) {
					takesResp = true
				}
			}
			if !takesResp {
				continue
			}
			readsBody := false
			instrsOf(cal, func(i2 ssa.Instruction) {
				cc := callOf(i2)
				if cc == nil || !(callIsPkgFunc(cc, "io", "ReadAll") || callIsPkgFunc(cc, "io", "Copy") || callIsMethod(cc, "bytes", "Buffer", "ReadFrom")) {
					return
				}
				for _, a := range cc.Args {
					c.P.TraceBack(a, TraceOpts{ThroughOps: true, NoParams: true}, func(v ssa.Value, _ []int) bool {
						if u, ok := v.(*ssa.UnOp); ok {
							if fa, ok := u.X.(*ssa.FieldAddr); ok && isHTTPResponsePtr(fa.X.Type()) && fieldName(fa.X.Type(), fa.Field) == "Body" {
								readsBody = true
								return false
							}
						}
						return true
					})
				}
			})
			// the helper reports the failure: no `return nil` is reachable in it with the read's error set (checked
			// structurally: its error result depends on the read)
			if readsBody {
				reads = append(reads, call)
			}
		}
	})
	if len(reads) == 0 {
		c.Fail(rule, "stored-body-read", desc, c.P.ShortName(ep)+": the body is handed out as a reader over the stored bytes without being read; an entry whose end is missing is served as a hit and the client's read ends in `unexpected EOF`")
		return
	}
	// every success return is reached only with that read's error being nil
	errOf := func(call *ssa.Call) []ssa.Value {
		var out []ssa.Value
		if types.Identical(call.Type(), types.Universe.Lookup("error").Type()) {
			out = append(out, call)
		}
		if call.Referrers() == nil {
			return out
		}
		for _, r := range *call.Referrers() {
			if ex, ok := r.(*ssa.Extract); ok && types.Identical(ex.Type(), types.Universe.Lookup("error").Type()) {
				out = append(out, ex)
			}
		}
		return out
	}
	n := 0
	bad := ""
	for _, b := range ep.Blocks {
		r, ok := b.Instrs[len(b.Instrs)-1].(*ssa.Return)
		if !ok || len(r.Results) != 2 || !isNilConst(c.An.RetVal(r, 1)) {
			continue
		}
		n++
		checked := false
		for _, call := range reads {
			if !instrDominates(call, r) {
				continue
			}
			for _, ev := range errOf(call) {
				for _, dc := range dominatingConds(b) {
					for _, lf := range condLeaves(dc.cond, dc.onTrue) {
						bo, ok := lf.v.(*ssa.BinOp)
						if !ok {
							continue
						}
						isNil := bo.Op == token.EQL && lf.val || bo.Op == token.NEQ && !lf.val
						if isNil && (bo.X == ev && isNilConst(bo.Y) || bo.Y == ev && isNilConst(bo.X)) {
							checked = true
						}
					}
				}
			}
		}
		if !checked {
			bad = c.P.InstrPos(r)
		}
	}
	switch {
	case n == 0:
		c.Undecided(rule, "stored-body-read", desc, c.P.ShortName(ep)+": no success return")
	case bad != "":
		c.Fail(rule, "stored-body-read", desc, bad+": the entry is returned although the read of its body may have failed (or was not made on this path)")
	default:
		c.Pass(rule, "stored-body-read", desc, fmt.Sprintf("%s: %d success return(s) behind a checked body read", c.P.ShortName(ep), n))
	}
}

// ---------------------------------------------------------------------------------------------------------------------
// nil header of an upstream response (D65)

// writesHeaderParam: fn sets, adds or deletes a field of its http.Header parameter (directly).
func writesHeaderParam(fn *ssa.Function) bool {
	if fn == nil || len(fn.Blocks) == 0 {
		return false
	}
	hit := false
	isParamHeader := func(v ssa.Value) bool {
		for i := 0; i < 6; i++ {
			switch x := v.(type) {
			case *ssa.Parameter:
				return typeIs(x.Type(), "net/http", "Header")
			case *ssa.ChangeType:
				v = x.X
			case *ssa.UnOp:
				v = x.X
			case *ssa.FieldAddr:
				return false
			default:
				return false
			}
		}
		return false
	}
	instrsOf(fn, func(in ssa.Instruction) {
		if mu, ok := in.(*ssa.MapUpdate); ok && isParamHeader(mu.Map) {
			hit = true
		}
		if cc := callOf(in); cc != nil {
			for _, m := range []string{"Set", "Add", "Del"} {
				if callIsMethod(cc, "net/http", "Header", m) {
					recv, _ := recvAndArgs(cc)
					if recv != nil && isParamHeader(recv) {
						hit = true
					}
				}
			}
		}
	})
	return hit
}

// ruleUpstreamHeaderRepaired (C10.16): the cache sets fields on every response it passes on. A response whose Header is nil
// (a hand-written upstream) makes such a write panic. In every function that calls the upstream, each write to the header
// of the upstream's response is dominated by a repair of a nil header map on that response.
func ruleUpstreamHeaderRepaired(c *Ctx, rule string) {
	desc := "a header write on the upstream's response is preceded by the replacement of a nil header map"
	// repair sites: `resp.Header = make(http.Header)`; and calls of repo functions that do that to their parameter
	isRepairStore := func(in ssa.Instruction) (ssa.Value, bool) {
		st, ok := in.(*ssa.Store)
		if !ok {
			return nil, false
		}
		fa, ok := st.Addr.(*ssa.FieldAddr)
		if !ok || !isHTTPResponsePtr(fa.X.Type()) || fieldName(fa.X.Type(), fa.Field) != "Header" {
			return nil, false
		}
		if _, ok := st.Val.(*ssa.MakeMap); !ok {
			return nil, false
		}
		return fa.X, true
	}
	repairFns := map[*ssa.Function]bool{}
	for fn := range c.A.Reach {
		instrsOf(fn, func(in ssa.Instruction) {
			if x, ok := isRepairStore(in); ok {
				if _, isP := c.An.canon(x).(*ssa.Parameter); isP {
					repairFns[fn] = true
				}
			}
		})
	}
	n := 0
	var bad []string
	var fns []*ssa.Function
	for fn := range c.A.Reach {
		fns = append(fns, fn)
	}
	sort.Slice(fns, func(i, j int) bool { return FuncName(fns[i]) < FuncName(fns[j]) })
	for _, fn := range fns {
		hasUp := false
		instrsOf(fn, func(in ssa.Instruction) {
			if c.An.IsUpstreamSite(in) {
				hasUp = true
			}
		})
		if !hasUp {
			continue
		}
		type rep struct {
			in   ssa.Instruction
			resp ssa.Value
		}
		var repairs []rep
		instrsOf(fn, func(in ssa.Instruction) {
			if x, ok := isRepairStore(in); ok {
				repairs = append(repairs, rep{in, x})
			}
			if cc := callOf(in); cc != nil {
				if sc := cc.StaticCallee(); sc != nil && repairFns[sc] {
					for _, a := range cc.Args {
						if isHTTPResponsePtr(a.Type()) {
							repairs = append(repairs, rep{in, a})
						}
					}
				}
			}
		})
		instrsOf(fn, func(in ssa.Instruction) {
			cc := callOf(in)
			if cc == nil {
				return
			}
			// header values handed to a writer, or written directly
			var hdrs []ssa.Value
			for _, m := range []string{"Set", "Add", "Del"} {
				if callIsMethod(cc, "net/http", "Header", m) {
					if recv, _ := recvAndArgs(cc); recv != nil {
						hdrs = append(hdrs, recv)
					}
				}
			}
			for _, cal := range c.P.RepoCallees(in.(ssa.CallInstruction)) {
				if writesHeaderParam(cal) {
					recv, args := recvAndArgs(cc)
					for _, a := range append([]ssa.Value{recv}, args...) {
						if a != nil && typeIs(a.Type(), "net/http", "Header") {
							hdrs = append(hdrs, a)
						}
					}
				}
			}
			for _, h := range hdrs {
				u, ok := c.An.canon(h).(*ssa.UnOp)
				if !ok {
					continue
				}
				fa, ok := u.X.(*ssa.FieldAddr)
				if !ok || !isHTTPResponsePtr(fa.X.Type()) || !c.An.ResponseKinds(fa.X)["upstream"] || c.An.ResponseKinds(fa.X)["stored"] {
					continue
				}
				n++
				ok2 := false
				for _, rp := range repairs {
					if instrDominates(rp.in, in) && c.An.sameCanon(rp.resp, fa.X) {
						ok2 = true
					}
				}
				if !ok2 {
					bad = append(bad, c.P.ShortName(fn)+"@"+c.P.InstrPos(in))
				}
			}
		})
	}
	switch {
	case n == 0:
		c.Undecided(rule, "upstream-header-repaired", desc, "no header write on an upstream response found")
	case len(bad) > 0:
		c.Fail(rule, "upstream-header-repaired", desc, strings.Join(bad, ", ")+": writes a field into the header of the upstream's response without making sure the map exists; an upstream that returns `&http.Response{StatusCode: 200, Body: http.NoBody}` panics the round trip (assignment to entry in nil map)", bad...)
	default:
		c.Pass(rule, "upstream-header-repaired", desc, fmt.Sprintf("%d header writes on upstream responses, each behind a repair", n))
	}
}

// ---------------------------------------------------------------------------------------------------------------------
// the client's own validators (D66)

// ruleClientValidatorsRemoved (C02.3 / C08.10): a 304 is taken as a statement about the stored response. That holds only if
// the validators in the validation request are the stored response's. The conditional-request builder therefore (a)
// removes or overwrites If-None-Match and If-Modified-Since on the clone on every path that returns a clone, and (b)
// returns the caller's request itself only where it looked at the request's own two fields.
func ruleClientValidatorsRemoved(c *Ctx, rule string) {
	if !c.Need(rule, "cond") {
		return
	}
	fn := c.A.F("cond")
	desc := "the validation request carries no validator of the client's own copy (each of the two fields is deleted or set on every clone)"
	var reqParam *ssa.Parameter
	for _, p := range fn.Params {
		if ptrTo(p.Type(), "net/http", "Request") {
			reqParam = p
		}
	}
	if reqParam == nil {
		c.Undecided(rule, "client-validators-removed", desc, c.P.ShortName(fn)+": no *http.Request parameter")
		return
	}
	pr := c.An.Prune(fn, AssumeKeys(nil))
	returnsClone := func(in ssa.Instruction) bool {
		r, ok := in.(*ssa.Return)
		if !ok || len(r.Results) == 0 {
			return false
		}
		v := c.An.RetVal(r, 0)
		// a return whose value can be something else than the parameter
		other := false
		seen := map[ssa.Value]bool{}
		var walk func(x ssa.Value)
		walk = func(x ssa.Value) {
			if seen[x] {
				return
			}
			seen[x] = true
			switch y := x.(type) {
			case *ssa.Phi:
				for _, e := range y.Edges {
					walk(e)
				}
			case *ssa.Parameter:
			default:
				if !isNilConst(x) {
					other = true
				}
			}
		}
		walk(v)
		return other
	}
	var fails []string
	for _, field := range []string{"If-None-Match", "If-Modified-Since"} {
		isK := func(in ssa.Instruction) bool {
			cc := callOf(in)
			if cc == nil {
				return false
			}
			if !(callIsMethod(cc, "net/http", "Header", "Del") || callIsMethod(cc, "net/http", "Header", "Set")) {
				return false
			}
			recv, args := recvAndArgs(cc)
			if len(args) == 0 || recv == nil {
				return false
			}
			k, ok := constStr(args[0])
			if !ok || textproto.CanonicalMIMEHeaderKey(k) != field {
				return false
			}
			// on a header that is not the caller's
			if u, ok := c.An.canon(recv).(*ssa.UnOp); ok {
				if fa, ok := u.X.(*ssa.FieldAddr); ok && c.An.sameCanon(fa.X, reqParam) {
					return false
				}
			}
			return true
		}
		// every path from the creation of a clone to a return passes the delete (or an unconditional set) of the field
		clones := 0
		missing := ""
		instrsOf(fn, func(in ssa.Instruction) {
			call, ok := in.(*ssa.Call)
			if !ok || !ptrTo(call.Type(), "net/http", "Request") {
				return
			}
			if len(c.P.RepoCallees(call)) == 0 && !callIsMethod(&call.Call, "net/http", "Request", "Clone") && !callIsMethod(&call.Call, "net/http", "Request", "WithContext") {
				return
			}
			clones++
			type pos struct {
				b *ssa.BasicBlock
				i int
			}
			seen := map[*ssa.BasicBlock]bool{}
			start := 0
			for i, x := range in.Block().Instrs {
				if x == in {
					start = i + 1
				}
			}
			work := []pos{{in.Block(), start}}
			for len(work) > 0 && missing == "" {
				p := work[len(work)-1]
				work = work[:len(work)-1]
				killed := false
				for _, x := range p.b.Instrs[p.i:] {
					if isK(x) {
						killed = true
						break
					}
					if r, ok := x.(*ssa.Return); ok {
						missing = c.P.InstrPos(r)
						break
					}
				}
				if killed || missing != "" {
					continue
				}
				for _, sc := range p.b.Succs {
					if !seen[sc] {
						seen[sc] = true
						work = append(work, pos{sc, 0})
					}
				}
			}
		})
		_ = pr
		if clones == 0 {
			c.Undecided(rule, "client-validators-removed", desc, c.P.ShortName(fn)+": no clone of the request is made")
			return
		}
		if missing != "" {
			fails = append(fails, fmt.Sprintf("%s: reached from the creation of a clone without %s having been deleted or set", missing, field))
		}
	}
	if len(fails) > 0 {
		c.Fail(rule, "client-validators-removed", desc, strings.Join(fails, "; ")+". Witness: stored response without ETag, client sends `If-None-Match: \"v2\"` for its own newer copy; the origin's 304 is taken as a validation of the stored response, whose old body is returned as REVALIDATED and served as a hit afterwards")
		return
	}
	// (b) returning the caller's request itself
	okPlain := true
	where := ""
	for _, b := range fn.Blocks {
		r, ok := b.Instrs[len(b.Instrs)-1].(*ssa.Return)
		if !ok || len(r.Results) == 0 || returnsClone(r) {
			continue
		}
		looked := map[string]bool{}
		for _, dc := range dominatingConds(b) {
			for _, lf := range condLeaves(dc.cond, dc.onTrue) {
				c.P.TraceBack(lf.v, TraceOpts{ThroughOps: true, ThroughExtern: true}, func(x ssa.Value, _ []int) bool {
					var key ssa.Value
					var hdr ssa.Value
					switch y := x.(type) {
					case *ssa.Lookup:
						key, hdr = y.Index, y.X
					case *ssa.Call:
						if callIsMethod(&y.Call, "net/http", "Header", "Get") || callIsMethod(&y.Call, "net/http", "Header", "Values") {
							recv, args := recvAndArgs(&y.Call)
							if len(args) > 0 {
								key, hdr = args[0], recv
							}
						}
					}
					if key == nil || hdr == nil {
						return true
					}
					k, ok := constStr(key)
					if !ok {
						return true
					}
					if u, ok := c.An.canon(hdr).(*ssa.UnOp); ok {
						if fa, ok := u.X.(*ssa.FieldAddr); ok && c.An.sameCanon(fa.X, reqParam) {
							looked[textproto.CanonicalMIMEHeaderKey(k)] = true
						}
					}
					if ct, ok := hdr.(*ssa.ChangeType); ok {
						if u, ok := c.An.canon(ct.X).(*ssa.UnOp); ok {
							if fa, ok := u.X.(*ssa.FieldAddr); ok && c.An.sameCanon(fa.X, reqParam) {
								looked[textproto.CanonicalMIMEHeaderKey(k)] = true
							}
						}
					}
					return true
				})
			}
		}
		if !(looked["If-None-Match"] && looked["If-Modified-Since"]) {
			okPlain = false
			where = c.P.InstrPos(r)
		}
	}
	if !okPlain {
		c.Fail(rule, "client-validators-removed", desc, where+": the caller's request is used as the validation request without a look at its own If-None-Match / If-Modified-Since")
		return
	}
	c.Pass(rule, "client-validators-removed", desc, c.P.ShortName(fn))
}

// ---------------------------------------------------------------------------------------------------------------------
// first member of the Age field (D68)

// ruleAgeFirstMember (C11.10 / C01.16): the Age value used is the first member of the field (RFC 9111 §5.1). The text given to
// the delta-seconds decoder depends on a call that separates list members (strings.Cut/Split/Index… or the repository's
// list splitter); otherwise `Age: 100, 20` does not decode and counts as no Age at all.
func ruleAgeFirstMember(c *Ctx, rule string) {
	if !c.Need(rule, "currentAge") {
		return
	}
	ca := c.A.F("currentAge")
	desc := "the Age text that is decoded is one list member (the first), not the whole field"
	n := 0
	bad := ""
	badLast := ""
	for _, fn := range c.reachableFrom(ca) {
		instrsOf(fn, func(in ssa.Instruction) {
			call, ok := in.(*ssa.Call)
			if !ok || !(callIsMethod(&call.Call, "net/http", "Header", "Get") || callIsMethod(&call.Call, "net/http", "Header", "Values")) {
				return
			}
			_, args := recvAndArgs(&call.Call)
			if k, ok := constStr(args[0]); !ok || textproto.CanonicalMIMEHeaderKey(k) != "Age" {
				return
			}
			n++
			lastWins := ""
			// forward: does every decoder input derived from this read pass a member separator?
			split := false
			seen := map[ssa.Value]bool{}
			var fwd func(v ssa.Value, depth int)
			fwd = func(v ssa.Value, depth int) {
				if seen[v] || depth > 8 || v.Referrers() == nil {
					return
				}
				seen[v] = true
				for _, r := range *v.Referrers() {
					if cc := callOf(r); cc != nil {
						name := ""
						if sc := cc.StaticCallee(); sc != nil {
							name = sc.String()
						}
						switch {
						case strings.HasPrefix(name, "strings.Cut"), strings.HasPrefix(name, "strings.Split"), strings.HasPrefix(name, "strings.Index"),
							strings.HasPrefix(name, "strings.Fields"), strings.HasPrefix(name, "bytes.Cut"):
							split = true
						default:
							if sc := cc.StaticCallee(); sc != nil && c.P.IsRepoFunc(sc) {
								rs := sigResults(sc)
								if len(rs) == 1 && strings.Contains(rs[0].String(), "iter.Seq") {
									split = true
									// the first member: the loop over the members is left after one turn (its body, a
									// range-over-func function, has a `return false`); a body that only ever continues
									// leaves the last member in the variable
									if seqv, ok := r.(ssa.Value); ok && seqv.Referrers() != nil {
										for _, u := range *seqv.Referrers() {
											uc := callOf(u)
											if uc == nil || uc.Value != seqv || len(uc.Args) != 1 {
												continue
											}
											mc, ok := uc.Args[0].(*ssa.MakeClosure)
											if !ok {
												continue
											}
											body := mc.Fn.(*ssa.Function)
											breaks := false
											instrsOf(body, func(bi ssa.Instruction) {
												if ret, ok := bi.(*ssa.Return); ok && len(ret.Results) == 1 {
													if b, ok := constBool(ret.Results[0]); ok && !b {
														breaks = true
													}
												}
											})
											if !breaks {
												lastWins = c.P.ShortName(fn) + "@" + c.P.InstrPos(u)
											}
										}
									}
								}
							}
						}
					}
					if val, ok := r.(ssa.Value); ok {
						switch r.(type) {
						case *ssa.ChangeType, *ssa.Phi, *ssa.Extract, *ssa.Slice, *ssa.Index, *ssa.IndexAddr, *ssa.UnOp:
							fwd(val, depth+1)
						}
					}
				}
			}
			fwd(call, 0)
			if !split {
				bad = c.P.ShortName(fn) + "@" + c.P.InstrPos(in)
			}
			if lastWins != "" {
				badLast = lastWins
			}
		})
	}
	switch {
	case n == 0:
		c.Undecided(rule, "age-first-member", desc, "no read of the Age field below the current-age function")
	case bad != "":
		c.Fail(rule, "age-first-member", desc, bad+": the whole field text goes to the decoder; `Age: 100, 20` is not delta-seconds, the field is ignored and the response is served with `Age: 0`, fresh 100 s too long")
	case badLast != "":
		c.Fail(rule, "age-first-member", desc, badLast+": the loop over the members never stops, so the last member is decoded; `Age: 100, 3` counts as 3 s: the hit carries `Age: 3` and `max-age=50, only-if-cached` is answered HIT from an entry 100 s old")
	default:
		c.Pass(rule, "age-first-member", desc, fmt.Sprintf("%d read(s) of Age", n))
	}
}

// ---------------------------------------------------------------------------------------------------------------------
// an unusable max-age is still an explicit expiry (D69)

// ruleExplicitExpiryByPresence (C01.17): Expires and the heuristic are consulted only when the response has no max-age
// directive at all. Decided by pruning the freshness function under "the max-age directive is present" (the presence
// accessor, not the decoded value): no call of the heuristic and no read of Expires stays reachable.
func ruleExplicitExpiryByPresence(c *Ctx, rule string) {
	if !c.Need(rule, "freshness", "heuristic") {
		return
	}
	ff := c.A.F("freshness")
	desc := "with a max-age directive present (usable or not) neither the heuristic nor Expires gives the lifetime"
	var live []string
	total := 0
	// the decision may sit in a helper below the freshness function (the lifetime computation extracted)
	for _, g := range c.reachableFrom(ff) {
		if c.A.IsRoleFunc(g, "heuristic") {
			continue
		}
		has := 0
		instrsOf(g, func(in ssa.Instruction) {
			if c.An.CallsRole(in, "heuristic") {
				has++
			}
		})
		if has == 0 {
			continue
		}
		total += has
		pr := c.An.Prune(g, AssumeKeys(map[string]bool{"rs.max-age": true}))
		pr.LiveInstrs(func(in ssa.Instruction) {
			if c.An.CallsRole(in, "heuristic") {
				live = append(live, c.P.InstrPos(in))
			}
		})
	}
	if total == 0 {
		c.Undecided(rule, "explicit-expiry-by-presence", desc, c.P.ShortName(ff)+": no call of the heuristic")
		return
	}
	if len(live) > 0 {
		c.Fail(rule, "explicit-expiry-by-presence", desc, live[0]+": the heuristic stays reachable under {rs.max-age=T}: the decision looks at the decoded value only. Witness: `Cache-Control: max-age=-1` (or `max-age=abc`) with a Last-Modified 1000 h old is a HIT by heuristic although an explicit expiry is present")
		return
	}
	c.Pass(rule, "explicit-expiry-by-presence", desc, fmt.Sprintf("%s: %d heuristic call(s), dead under {rs.max-age=T}", c.P.ShortName(ff), total))
}

// ---------------------------------------------------------------------------------------------------------------------
// heuristic lifetime rounded down (D70)

// ruleHeuristicRoundedDown (C01.18): "at most 10%": the heuristic function's result does not pass a rounding that can round
// up (time.Duration.Round, math.Round, math.Ceil).
func ruleHeuristicRoundedDown(c *Ctx, rule string) {
	if !c.Need(rule, "heuristic") {
		return
	}
	hf := c.A.F("heuristic")
	desc := "the heuristic lifetime is not rounded up"
	bad := ""
	for _, fn := range c.reachableFrom(hf) {
		instrsOf(fn, func(in ssa.Instruction) {
			cc := callOf(in)
			if cc == nil {
				return
			}
			if callIsMethod(cc, "time", "Duration", "Round") || callIsPkgFunc(cc, "math", "Round") || callIsPkgFunc(cc, "math", "Ceil") || callIsPkgFunc(cc, "math", "RoundToEven") {
				bad = c.P.ShortName(fn) + "@" + c.P.InstrPos(in)
			}
		})
	}
	if bad != "" {
		c.Fail(rule, "heuristic-rounded-down", desc, bad+": rounds to the nearest unit; for Date − Last-Modified = 15 s the lifetime is 2 s (13%), in general up to half a second above the 10% of RFC 9111 §4.2.2")
		return
	}
	c.Pass(rule, "heuristic-rounded-down", desc, c.P.ShortName(hf))
}

// ---------------------------------------------------------------------------------------------------------------------
// DSN: every value of encrypt is looked at (D67)

// ruleDSNAllEncryptValues (C17.7): url.Values.Get returns the first value only. The DSN reader looks at the whole value
// list of the `encrypt` parameter (an index expression on the parsed query with that key), so that a repeated parameter
// cannot silently switch encryption off.
func ruleDSNAllEncryptValues(c *Ctx, rule string) {
	fp := c.P.Pkg("store/fscache")
	if fp == nil {
		return
	}
	desc := "the DSN reader inspects the value list of the encrypt parameter, not only its first value"
	found := ""
	gets := 0
	for _, fn := range c.P.RepoFuncs {
		if fn.Pkg != fp || isTestOnly(c, fn) {
			continue
		}
		instrsOf(fn, func(in ssa.Instruction) {
			if lk, ok := in.(*ssa.Lookup); ok {
				if k, ok := constStr(lk.Index); ok && k == "encrypt" && typeIs(lk.X.Type(), "net/url", "Values") {
					found = c.P.ShortName(fn) + "@" + c.P.InstrPos(in)
				}
			}
			if cc := callOf(in); cc != nil && callIsMethod(cc, "net/url", "Values", "Get") {
				_, args := recvAndArgs(cc)
				if k, ok := constStr(args[0]); ok && k == "encrypt" {
					gets++
				}
			}
		})
	}
	switch {
	case gets == 0 && found == "":
		c.Undecided(rule, "dsn-all-encrypt-values", desc, "no read of the encrypt parameter in store/fscache")
	case found == "":
		c.Fail(rule, "dsn-all-encrypt-values", desc, "the encrypt parameter is read with Values.Get only: `encrypt=off&encrypt=on&encrypt_key=…` opens an unencrypted cache without an error")
	default:
		c.Pass(rule, "dsn-all-encrypt-values", desc, found)
	}
}

// ---------------------------------------------------------------------------------------------------------------------
// quoted-pair only inside a quoted-string (D71)

// ruleEscapeOnlyInQuotes (C12.13 / C06.11 / C18.5): in the list splitter the "next octet is escaped" state is entered only
// while inside a quoted-string. Entered anywhere, `ext=a\, no-store` keeps the comma from splitting and hides the directive
// behind it.
func ruleEscapeOnlyInQuotes(c *Ctx, rule string) {
	split := findSplitter(c)
	desc := "the splitter enters the escape state only inside a quoted-string"
	if split == nil {
		c.Undecided(rule, "escape-only-in-quotes", desc, "list splitter not found")
		return
	}
	n := 0
	bad := ""
	st := splitterState(split)
	for _, site := range st.escSites {
		n++
		inQuotes := false
		for _, dc := range site.conds {
			if dc.cond == nil {
				continue
			}
			if dc.onTrue && st.isOtherFlagRead(dc.cond) {
				inQuotes = true
			}
			for _, lf := range condLeaves(dc.cond, dc.onTrue) {
				if lf.val && st.isOtherFlagRead(lf.v) {
					inQuotes = true
				}
			}
		}
		if !inQuotes {
			bad = c.P.ShortName(split) + "@" + c.P.Pos(site.pos)
		}
	}
	switch {
	case n == 0:
		c.Undecided(rule, "escape-only-in-quotes", desc, c.P.ShortName(split)+": no escape state set under a backslash test")
	case bad != "":
		c.Fail(rule, "escape-only-in-quotes", desc, bad+": a backslash starts an escape wherever it stands; in `max-age=3600, ext=a\\, no-store` the comma does not split, no-store is lost and the response is stored and reused")
	default:
		c.Pass(rule, "escape-only-in-quotes", desc, fmt.Sprintf("%s: %d escape edge(s), each under the in-quotes state", c.P.ShortName(split), n))
	}
}

// lastCond: the condition of pred's own If when pred branches to succ (dominatingConds stops at pred's dominators).
func lastCond(pred, succ *ssa.BasicBlock) []domCond {
	if len(pred.Instrs) == 0 {
		return nil
	}
	iff, ok := pred.Instrs[len(pred.Instrs)-1].(*ssa.If)
	if !ok {
		return nil
	}
	if pred.Succs[0] == succ && pred.Succs[1] != succ {
		return []domCond{{iff.Cond, true, pred}}
	}
	if pred.Succs[1] == succ && pred.Succs[0] != succ {
		return []domCond{{iff.Cond, false, pred}}
	}
	return nil
}

// ---------------------------------------------------------------------------------------------------------------------
// trailers that appear while the body is read (D73)

// ruleTrailersAfterRead (C05.11): net/http puts trailer fields that were not announced on the response while its body is
// read. A writer that serialises a copy of the head made before that read must look at the live response's trailer map
// after the read (the dump). Decided: when the dumped object is a head copy, some read of Response.Trailer of the entry's
// own response is dominated by a dump / body read.
func ruleTrailersAfterRead(c *Ctx, rule string) {
	if !c.Need(rule, "writeEntry") {
		return
	}
	desc := "when a copy of the head is serialised, the live response's trailer map is consulted after its body was read"
	n := 0
	bad := ""
	for _, fn := range c.reachableFrom(c.A.F("writeEntry")) {
		var dumps []ssa.Instruction
		headCopy := false
		instrsOf(fn, func(in ssa.Instruction) {
			cc := callOf(in)
			if cc == nil {
				return
			}
			if callIsPkgFunc(cc, "net/http/httputil", "DumpResponse") {
				dumps = append(dumps, in)
				if _, ok := cc.Args[0].(*ssa.Alloc); ok {
					headCopy = true
				}
			}
			if callIsPkgFunc(cc, "io", "ReadAll") {
				dumps = append(dumps, in)
			}
		})
		if len(dumps) == 0 || !headCopy {
			continue
		}
		n++
		after := false
		instrsOf(fn, func(in ssa.Instruction) {
			fa, ok := in.(*ssa.FieldAddr)
			if !ok || !isHTTPResponsePtr(fa.X.Type()) || fieldName(fa.X.Type(), fa.Field) != "Trailer" {
				return
			}
			if _, isCopy := fa.X.(*ssa.Alloc); isCopy {
				return
			}
			for _, d := range dumps {
				if instrDominates(d, in) {
					after = true
				}
			}
		})
		if !after {
			bad = c.P.ShortName(fn)
		}
	}
	switch {
	case n == 0:
		c.Pass(rule, "trailers-after-read", desc, "the writer serialises the live response (no head copy)")
	case bad != "":
		c.Fail(rule, "trailers-after-read", desc, bad+": the head is copied before the body is read and the live response's trailers are never looked at afterwards; trailer fields sent without a Trailer announcement are missing from the entry and from every hit")
	default:
		c.Pass(rule, "trailers-after-read", desc, fmt.Sprintf("%d writer(s) with a head copy", n))
	}
}

// findSplitter: the list splitter (an iterator closure in the shared tokenizer that compares bytes with ',').
func findSplitter(c *Ctx) *ssa.Function {
	var split *ssa.Function
	for _, f := range c.tokenizerTree() {
		if len(f.Params) == 1 && intConstsIn(f)[','] {
			if sig, ok := f.Params[0].Type().Underlying().(*types.Signature); ok && sig.Params().Len() == 1 && isStringType(sig.Params().At(0).Type()) {
				split = f
			}
		}
	}
	return split
}

// ---------------------------------------------------------------------------------------------------------------------
// the caller's Cancel channel (D72)

// ruleBackgroundCancelCleared (C20.3): the request handed to the background goroutine is a clone of the caller's and would
// keep its Cancel channel (deprecated, but honoured by net/http transports and set by http.Client for its Timeout). The
// spawning function clears that member on the request it hands over.
func ruleBackgroundCancelCleared(c *Ctx) {
	swr := c.swrFunction()
	if swr == nil {
		return // C20.3 reports the missing function
	}
	desc := "the request handed to the background revalidation carries no cancellation channel of the caller"
	var goArgs []ssa.Value
	instrsOf(swr, func(in ssa.Instruction) {
		if g, ok := in.(*ssa.Go); ok {
			for _, a := range g.Call.Args {
				if ptrTo(a.Type(), "net/http", "Request") {
					goArgs = append(goArgs, a)
				}
			}
		}
	})
	if len(goArgs) == 0 {
		c.Undecided("C20.3", "cancel-channel-cleared", desc, c.P.ShortName(swr)+": no request argument at the spawn")
		return
	}
	// the request values the spawn argument may come from (through the conditional-request builder, which returns its
	// argument or a clone of it)
	origins := map[ssa.Value]bool{}
	var walk func(v ssa.Value, depth int)
	walk = func(v ssa.Value, depth int) {
		if v == nil || origins[v] || depth > 6 {
			return
		}
		origins[v] = true
		switch x := v.(type) {
		case *ssa.Phi:
			for _, e := range x.Edges {
				walk(e, depth+1)
			}
		case *ssa.Call:
			if len(c.P.RepoCallees(x)) > 0 {
				for _, a := range x.Call.Args {
					if ptrTo(a.Type(), "net/http", "Request") {
						walk(a, depth+1)
					}
				}
			}
		}
	}
	for _, a := range goArgs {
		walk(a, 0)
	}
	cleared := ""
	instrsOf(swr, func(in ssa.Instruction) {
		st, ok := in.(*ssa.Store)
		if !ok || !isNilConst(st.Val) {
			return
		}
		fa, ok := st.Addr.(*ssa.FieldAddr)
		if !ok || !ptrTo(fa.X.Type(), "net/http", "Request") || fieldName(fa.X.Type(), fa.Field) != "Cancel" {
			return
		}
		if origins[fa.X] {
			cleared = c.P.InstrPos(in)
		}
	})
	// the background request may be prepared by a helper (clone, clear, add validators): the clearing then sits there,
	// on a request that the helper's result derives from
	for v := range origins {
		call, ok := v.(*ssa.Call)
		if !ok {
			continue
		}
		for _, cal := range c.P.RepoCallees(call) {
			for _, g := range c.reachableFrom(cal) {
				instrsOf(g, func(in ssa.Instruction) {
					st, ok := in.(*ssa.Store)
					if !ok || !isNilConst(st.Val) {
						return
					}
					fa, ok := st.Addr.(*ssa.FieldAddr)
					if !ok || !ptrTo(fa.X.Type(), "net/http", "Request") || fieldName(fa.X.Type(), fa.Field) != "Cancel" {
						return
					}
					// on a copy made there (the result of a clone call), on every path to the helper's return
					if _, isCall := c.An.canon(fa.X).(*ssa.Call); isCall && g == cal {
						pr := c.An.Prune(g, nil)
						if res := c.An.MustPass(pr, nil, func(i2 ssa.Instruction) bool { return i2 == in }); res.OK {
							cleared = c.P.InstrPos(in)
						}
					}
				})
			}
		}
	}
	// a request built with http.NewRequestWithContext (no clone of the caller's) has no Cancel channel either
	fresh := false
	for v := range origins {
		if call, ok := v.(*ssa.Call); ok && (callIsPkgFunc(&call.Call, "net/http", "NewRequestWithContext") || callIsPkgFunc(&call.Call, "net/http", "NewRequest")) {
			fresh = true
		}
		if ex, ok := v.(*ssa.Extract); ok {
			if call, ok := ex.Tuple.(*ssa.Call); ok && (callIsPkgFunc(&call.Call, "net/http", "NewRequestWithContext") || callIsPkgFunc(&call.Call, "net/http", "NewRequest")) {
				fresh = true
			}
		}
	}
	if cleared != "" || fresh {
		c.Pass("C20.3", "cancel-channel-cleared", desc, c.P.ShortName(swr)+" "+cleared)
		return
	}
	c.Fail("C20.3", "cancel-channel-cleared", desc, c.P.ShortName(swr)+": the clone given to the goroutine keeps Request.Cancel; http.Client closes that channel when its Timeout elapses (a caller may close it as soon as it has its stale answer), which aborts the background request long before the stale-while-revalidate timeout")
}

// ---------------------------------------------------------------------------------------------------------------------
// an operation that timed out publishes nothing (D74)

// ruleAbandonedNotPublished (C15.4 / C14.11): Set and Delete of the file-system backend return on a timeout while their
// goroutine goes on. The step that makes the effect visible (rename into place, removal) must then not happen any more:
// after `Set(k,A)` timed out and `Set(k,B)` succeeded, A's rename would bring back a value whose operation had already
// failed - no linearisable order explains the following Get. Necessary condition decided here, for every method that
// spawns a goroutine and returns from a `select` on a context's Done channel: (a) the Done branch does something besides
// returning (it tells the writer), and (b) every rename/remove reachable from the goroutine is executed under a
// condition that reads shared state (a field, an atomic, the context) - directly, or at the call of the function
// literal that contains it.
func ruleAbandonedNotPublished(c *Ctx, rule string) {
	fp := c.P.Pkg("store/fscache")
	if fp == nil {
		return
	}
	desc := "an operation that reported its timeout cannot make its effect visible afterwards"
	isPublish := func(cc *ssa.CallCommon) bool {
		return callIsMethod(cc, "os", "Root", "Rename") || callIsMethod(cc, "os", "Root", "Remove") || callIsMethod(cc, "os", "Root", "RemoveAll") ||
			callIsPkgFunc(cc, "os", "Rename") || callIsPkgFunc(cc, "os", "Remove")
	}
	readsShared := func(v ssa.Value) bool {
		hit := false
		c.P.TraceBack(v, TraceOpts{ThroughOps: true, NoParams: true}, func(x ssa.Value, _ []int) bool {
			switch y := x.(type) {
			case *ssa.UnOp:
				if y.Op == token.MUL {
					// a flag or a generation number kept in a structure
					if _, ok := y.X.(*ssa.FieldAddr); ok {
						if b, ok := y.Type().Underlying().(*types.Basic); ok && b.Info()&(types.IsBoolean|types.IsInteger) != 0 {
							hit = true
							return false
						}
					}
				}
			case *ssa.Call:
				if sc := y.Call.StaticCallee(); sc != nil {
					n := sc.String()
					if strings.Contains(n, "sync/atomic") || strings.HasSuffix(n, ".Err") || strings.HasSuffix(n, ".Load") {
						hit = true
						return false
					}
				}
				if y.Call.IsInvoke() && (y.Call.Method.Name() == "Err" || y.Call.Method.Name() == "Done") {
					hit = true
					return false
				}
			}
			return true
		})
		return hit
	}
	n := 0
	var bad []string
	for _, fn := range c.P.RepoFuncs {
		if fn.Pkg != fp || fn.Parent() != nil || isTestOnly(c, fn) {
			continue
		}
		var spawn *ssa.Go
		var sel *ssa.Select
		instrsOf(fn, func(in ssa.Instruction) {
			if g, ok := in.(*ssa.Go); ok {
				spawn = g
			}
			if s, ok := in.(*ssa.Select); ok {
				sel = s
			}
		})
		if spawn == nil || sel == nil {
			continue
		}
		// publishing calls reachable from the goroutine
		type site struct {
			in ssa.Instruction
			fn *ssa.Function
		}
		var sites []site
		for _, root := range c.P.Callees(spawn) {
			for _, g := range c.reachableFrom(root) {
				instrsOf(g, func(in ssa.Instruction) {
					if cc := callOf(in); cc != nil && isPublish(cc) {
						// the removal of the operation's own temporary file is no publication
						if (callIsMethod(cc, "os", "Root", "Remove") || callIsPkgFunc(cc, "os", "Remove")) && !isFinalName(c, cc, g) {
							return
						}
						sites = append(sites, site{in, g})
					}
				})
			}
		}
		if len(sites) == 0 {
			continue
		}
		n++
		// (a) the Done branch: a block that returns the context's error after the select and contains a call or store
		told := false
		for _, b := range fn.Blocks {
			r, ok := b.Instrs[len(b.Instrs)-1].(*ssa.Return)
			if !ok || len(r.Results) == 0 {
				continue
			}
			ev := c.An.RetVal(r, len(r.Results)-1)
			call, ok := ev.(*ssa.Call)
			if !ok || !(call.Call.IsInvoke() && call.Call.Method.Name() == "Err") {
				continue
			}
			for _, in := range b.Instrs {
				switch x := in.(type) {
				case *ssa.Store:
					if !localRoot(x.Addr) {
						told = true
					}
				case *ssa.Call:
					if x != call {
						told = true
					}
				case *ssa.Send:
					told = true
				}
			}
		}
		// (b) every publishing call is conditional on shared state
		for _, s := range sites {
			gated := false
			unlockedStep := ""
			check := func(b *ssa.BasicBlock) {
				for _, dc := range controlConds(b) {
					if readsShared(dc.cond) {
						gated = true
					}
				}
			}
			check(s.in.Block())
			// the function literal that contains the call is invoked through a parameter somewhere: look at that call
			f := s.fn
			for depth := 0; depth < 3 && !gated && f != nil; depth++ {
				for _, cs := range c.P.Callers(f) {
					check(cs.Instr.Block())
					// the decision and the step form one critical section: a lock taken for the decision is still held
					// when the step runs (released before, the timeout can fire between the two)
					if gated {
						locked, released := false, false
						instrsOf(cs.Caller, func(i2 ssa.Instruction) {
							c2, isCall := i2.(*ssa.Call)
							if !isCall || !instrDominates(i2, cs.Instr) {
								return
							}
							if callIsMethod(&c2.Call, "sync", "Mutex", "Lock") || callIsMethod(&c2.Call, "sync", "RWMutex", "Lock") {
								locked = true
							}
							if callIsMethod(&c2.Call, "sync", "Mutex", "Unlock") || callIsMethod(&c2.Call, "sync", "RWMutex", "Unlock") {
								released = true
							}
						})
						if locked && released {
							gated = false
							unlockedStep = c.P.InstrPos(cs.Instr)
						}
					}
				}
				f = f.Parent()
			}
			if !gated && unlockedStep != "" {
				bad = append(bad, c.P.ShortName(fn)+": the lock under which the decision is taken is released before the step runs ("+unlockedStep+"); the timeout can fire in between and the step still takes effect")
			} else if !gated {
				bad = append(bad, c.P.ShortName(fn)+": "+c.P.InstrPos(s.in)+" is executed whatever happened to the operation meanwhile")
			}
		}
		if !told {
			bad = append(bad, c.P.ShortName(fn)+": the timeout branch only returns; the writer cannot know that the operation was given up")
		}
	}
	switch {
	case n == 0:
		c.Pass(rule, "abandoned-not-published", desc, "no operation of store/fscache returns before its goroutine ends")
	case len(bad) > 0:
		sort.Strings(bad)
		c.Fail(rule, "abandoned-not-published", desc, strings.Join(uniqStrings(bad), "; ")+". Witness: Set(k,A) times out on a slow disk, Set(k,B) succeeds, A's rename lands afterwards: Get(k) = A")
	default:
		c.Pass(rule, "abandoned-not-published", desc, fmt.Sprintf("%d operation(s) with a timeout, every rename/remove gated", n))
	}
}

// isFinalName: the path argument of a remove call is the entry's file name (derived from the file namer), not a
// temporary name built with a formatting call.
func isFinalName(c *Ctx, cc *ssa.CallCommon, fn *ssa.Function) bool {
	_, args := recvAndArgs(cc)
	if len(args) == 0 {
		return true
	}
	tmp := c.An.dependsOnCallFull(args[0], func(x *ssa.Call) bool {
		return callIsPkgFunc(&x.Call, "fmt", "Sprintf") || callIsPkgFunc(&x.Call, "os", "CreateTemp")
	})
	return !tmp
}
