package hcv

import (
	"fmt"
	"go/constant"
	"go/token"
	"go/types"
	"sort"
	"strings"

	"golang.org/x/tools/go/ssa"
)

func init() {
	register(&Property{
		ID:    "C19",
		Title: "Store footprint is bounded by the distinct resources and variants requested",
		Decides: "the storing function appends a record to the index only when no record with the same response id exists (search by id, or replacement at the matcher's " +
			"position); invalidation deletes every referenced id and the index key; the response id is an effect-free function of the URL key and the resolved selecting values.",
		NotDecided: "measured growth; orphaned entries when a variant's id changes (bounded by the request alphabet, so not a violation).",
		Rules: []Rule{
			{ID: "C19.1", Desc: "index append is de-duplicated by response id", Run: ruleC19_1, MinSites: 1},
			{ID: "C19.2", Desc: "invalidation is complete", Run: func(c *Ctx) { ruleC07_4(c); renameRule(c, "C07.4", "C19.2") }, MinSites: 4},
			{ID: "C19.3", Desc: "ids are a function of key and selecting values", Run: func(c *Ctx) { ruleIDPure(c, "C19.3") }, MinSites: 1},
			{ID: "C19.8", Desc: "a failed write to the file-system backend leaves no temporary file behind (the directory does not grow with failures)", Run: func(c *Ctx) { ruleC15_1(c); renameRule(c, "C15.1", "C19.8") }, MinSites: 1},
			{ID: "C19.7", Desc: "the index reader hands out every listed reference (only null elements are dropped)", Run: ruleC19_7, MinSites: 1},
			{ID: "C19.5", Desc: "values written to the JSON index survive the encoding", Run: func(c *Ctx) { ruleIndexValuesUTF8Safe(c, "C19.5") }, MinSites: 1},
			{ID: "C19.9", Desc: "a 304 replaces the fields it carries (a Vary that grows with every validation grows the index record)", Run: func(c *Ctx) { ruleMergeFilter(c, "C19.9") }, MinSites: 1},
			{ID: "C19.10", Desc: "the variant is resolved from the request the matcher sees, never from Response.Request", Run: func(c *Ctx) { ruleStorerGetsRoundTripRequest(c, "C19.10") }, MinSites: 1},
			{ID: "C19.11", Desc: "the list a revalidation writes back into is the list its position refers to", Run: func(c *Ctx) { ruleC08_9(c); renameRule(c, "C08.9", "C19.11") }, MinSites: 1},
			{ID: "C19.12", Desc: "no entry is left unreferenced by a list written from a snapshot", Run: func(c *Ctx) { ruleIndexUpdateAtomic(c, "C19.12") }, MinSites: 1},
			{ID: "C19.13", Desc: "a list is deleted only together with the entries it names (Location / Content-Location targets included)", Run: func(c *Ctx) { ruleIndexDeleteAfterEntries(c, "C19.13") }, MinSites: 1},
			{ID: "C19.14", Desc: "the id enumerator of a reference list visits every reference", Run: func(c *Ctx) { ruleRefEnumeratorVisitsAll(c, "C19.14") }, MinSites: 1},
			{ID: "C19.15", Desc: "a Vary member name that is not valid UTF-8 does not make the index grow (names are stored in a form that survives JSON)", Run: func(c *Ctx) { ruleVaryNamesStorable(c, "C19.15") }, MinSites: 1},
			{ID: "C19.16", Desc: "the storer searches for the variant's reference for every unusable position", Run: func(c *Ctx) { ruleSearchCoversEveryUnusablePosition(c, "C19.16") }, MinSites: 1},
			{ID: "C19.17", Desc: "the list that is handed on is the list that was read", Run: func(c *Ctx) { ruleMissPathGetsReadIndex(c, "C19.17") }, MinSites: 1},
			{ID: "C19.18", Desc: "the filter of the reference list drops the duplicate only", Run: func(c *Ctx) { ruleFilterLoopRunsToEnd(c, "C19.18") }, MinSites: 1},
			{ID: "C19.19", Desc: "an index key of any length can be written and deleted (the length test measures the encoded name)", Run: func(c *Ctx) { ruleC14_7(c); renameRule(c, "C14.7", "C19.19") }, MinSites: 1},
			{ID: "C19.20", Desc: "a refused publishing step is reported as an error (no temporary file stays behind per timed-out write)", Run: func(c *Ctx) { ruleGateRefusalIsAnError(c, "C19.20") }, MinSites: 1},
			{ID: "C19.21", Desc: "the invalidation reads the index under the URL key (every variant it makes unreachable is found and deleted)", Run: func(c *Ctx) { ruleIndexKeyIsURLKey(c, "C19.21") }, MinSites: 3},
		},
	})
	register(&Property{
		ID:    "C20",
		Title: "stale-while-revalidate answers at once and revalidates once, within the timeout",
		Decides: "the function that serves under stale-while-revalidate contains no origin call and no blocking operation in its foreground; every path through it spawns exactly " +
			"one background revalidation and the spawned function performs exactly one origin call on every path; the background request carries a context from " +
			"context.WithTimeout with the transport's timeout field and a deferred cancel; the timeout field is max(.,0) then defaulted to 5 s; result channels are buffered and " +
			"the waiter selects on ctx.Done(); the background request is conditional; the foreground returns a nil error.",
		NotDecided: "latencies, whether the upstream honours cancellation, goroutine quiescence.",
		Rules: []Rule{
			{ID: "C20.1", Desc: "foreground never waits", Run: ruleC20_1, MinSites: 1},
			{ID: "C20.2", Desc: "exactly one spawn, exactly one origin call", Run: ruleC20_2, MinSites: 2},
			{ID: "C20.3", Desc: "timeout context wiring; detached from the caller (context and Cancel channel)", Run: func(c *Ctx) { ruleC20_3(c); ruleBackgroundCancelCleared(c); ruleCancelClearedUnconditionally(c) }, MinSites: 2},
			{ID: "C20.4", Desc: "timeout defaulting", Run: ruleC20_4, MinSites: 1},
			{ID: "C20.5", Desc: "no stuck goroutine: buffered result channel, select on ctx.Done", Run: func(c *Ctx) { ruleBoundedWaits(c, "C20.5", false) }, MinSites: 3},
			{ID: "C20.6", Desc: "background request is conditional and on a clone", Run: func(c *Ctx) { ruleC20_6(c); ruleValidatorGuards(c, "C20.6") }, MinSites: 1},
			{ID: "C20.7", Desc: "background failure is not returned to the caller", Run: ruleC20_7, MinSites: 1},
			{ID: "C20.7", Desc: "inside the stale-while-revalidate window every answer goes through the spawning function; the window uses the current age", Run: func(c *Ctx) { ruleSWRBranchSpawns(c, "C20.7"); ruleSWRWindowAge(c, "C20.7") }, MinSites: 2},
			{ID: "C20.8", Desc: "the background goroutine releases its waiter only after the reply was handled", Run: func(c *Ctx) { ruleNoReleaseBeforeWriteBack(c, "C20.8") }, MinSites: 1},
			{ID: "C20.9", Desc: "once spawned the background revalidation sends its request", Run: func(c *Ctx) { ruleBackgroundAlwaysAsks(c, "C20.9") }, MinSites: 1},
			{ID: "C20.10", Desc: "the stale answer does not depend on the state of the caller's context", Run: func(c *Ctx) { ruleForegroundIgnoresCallerContext(c, "C20.10") }, MinSites: 1},
			{ID: "C20.11", Desc: "the one background revalidation takes effect: its 304 is recognised by comparing the validators that were sent", Run: func(c *Ctx) { ruleBackground304SelectsEntry(c, "C20.11") }, MinSites: 1},
			{ID: "C20.12", Desc: "every stored validator is sent, so that the background 304 is recognised by the validators that were sent", Run: func(c *Ctx) { ruleEachValidatorOnItsOwn(c, "C20.12") }, MinSites: 1},
			{ID: "C20.13", Desc: "a background response that is dropped is closed (no connection goroutine outlives the background request)", Run: func(c *Ctx) { ruleDroppedResponseIsClosed(c, "C20.13") }, MinSites: 1},
		},
	})
}

func renameRule(c *Ctx, from, to string) {
	for _, o := range c.Obs {
		if o.Rule == from {
			o.Rule = to
			o.Key = strings.Replace(o.Key, from+" ", to+" ", 1)
		}
	}
}

func ruleC19_1(c *Ctx) {
	if !c.Need("C19.1", "storeResp") {
		return
	}
	sr := c.A.F("storeResp")
	var appends []ssa.Instruction
	instrsOf(sr, func(in ssa.Instruction) {
		if c.isNewRecordAppend(in) {
			appends = append(appends, in)
		}
	})
	desc := "a record is appended to the index only when no record with the same response id exists"
	if len(appends) == 0 {
		c.Pass("C19.1", "append-deduplicated", desc, c.P.ShortName(sr)+": no append at all")
		return
	}
	// a search by id: a comparison between an existing record's ResponseID and the new id, in the storing function or a
	// closure/callee of it
	searched := false
	var where string
	for _, f := range c.reachableFrom(sr) {
		instrsOf(f, func(in ssa.Instruction) {
			b, ok := in.(*ssa.BinOp)
			if !ok || (b.Op != token.EQL && b.Op != token.NEQ) || !isStringType(b.X.Type()) {
				return
			}
			isID := func(v ssa.Value) bool {
				if u, ok := v.(*ssa.UnOp); ok {
					if fa, ok := u.X.(*ssa.FieldAddr); ok && c.An.IsRefIDField(fa) {
						return true
					}
				}
				return false
			}
			if isID(b.X) || isID(b.Y) {
				searched = true
				where = c.P.InstrPos(b)
			}
		})
	}
	if !searched {
		c.Fail("C19.1", "append-deduplicated", desc, c.P.InstrPos(appends[0])+": the append is guarded only by the position handed in by the caller; when the matcher found nothing (e.g. every request to a `Vary: *` resource) a record with an id that is already listed is appended again, so the index grows with every request",
			c.P.ShortName(sr))
		return
	}
	// the append must be dominated by the negative outcome of the search: under "found" the append is dead.
	// Accept when the append's block is control-dependent on a value derived from the search.
	dep := false
	for _, ap := range appends {
		for _, dc := range controlConds(ap.Block()) {
			if c.An.dependsOnSearch(dc.cond, sr) {
				dep = true
			}
		}
	}
	// the search itself runs whenever the position is unusable: the conditions dominating it are range tests of the position
	var searchCall ssa.Instruction
	instrsOf(sr, func(in ssa.Instruction) {
		if call, ok := in.(*ssa.Call); ok {
			if sc := call.Call.StaticCallee(); sc != nil {
				n := sc.String()
				if o := sc.Origin(); o != nil {
					n = o.String()
				}
				if strings.HasPrefix(n, "slices.IndexFunc") || strings.HasPrefix(n, "slices.ContainsFunc") {
					searchCall = in
				}
			}
		}
	})
	if searchCall != nil {
		for _, dc := range controlConds(searchCall.Block()) {
			b, ok := dc.cond.(*ssa.BinOp)
			okCond := false
			if ok {
				isInt := func(v ssa.Value) bool { return isBasicKind(v.Type(), types.Int) }
				if isInt(b.X) && isInt(b.Y) {
					okCond = true
				}
				if isNilConst(b.X) || isNilConst(b.Y) {
					okCond = true // error / nil-slice checks
				}
			}
			if ex, isEx := dc.cond.(*ssa.Extract); isEx && ex.Index == 0 && !dc.onTrue {
				if _, isNext := ex.Tuple.(*ssa.Next); isNext {
					okCond = true // the exit of an earlier range loop (exhausted iteration), not a decision
				}
			}
			if !okCond {
				c.Fail("C19.1", "append-deduplicated", desc, c.P.InstrPos(searchCall)+": the de-duplicating search runs only under an extra condition (`"+dc.cond.String()+"` at "+c.P.Pos(dc.cond.Pos())+"); for other never-matching variants (e.g. `Vary: Accept-Language, *`) the index still grows with every request")
				return
			}
		}
	}
	if dep {
		c.Pass("C19.1", "append-deduplicated", desc, "search by id at "+where)
	} else {
		c.Fail("C19.1", "append-deduplicated", desc, c.P.InstrPos(appends[0])+": a search by id exists ("+where+") but the append does not depend on its outcome")
	}
	ruleC19_1replace(c, sr)
}

// ruleC19_1replace: when the new record overwrites the element at the matched position, that element may have described a
// different variant (the origin changed its Vary); another record of the variant just written may already be listed. Every
// path from the overwriting store to the index write must therefore pass a comparison of listed ids with the new id (a
// call of a predicate that compares the id field, or a loop containing one).
func ruleC19_1replace(c *Ctx, sr *ssa.Function) {
	desc := "after a record is overwritten in place, other records of the same variant are dropped before the index is written"
	var stores []ssa.Instruction
	instrsOf(sr, func(in ssa.Instruction) {
		st, ok := in.(*ssa.Store)
		if !ok {
			return
		}
		ia, ok := st.Addr.(*ssa.IndexAddr)
		if !ok {
			return
		}
		if sl, ok := ia.X.Type().Underlying().(*types.Slice); ok && isPtrToNamed(sl.Elem(), c.A.RefT) {
			// the overwrite of an existing position with the new record (not the copy loop of a filter)
			if _, isAlloc := c.An.canon(st.Val).(*ssa.Alloc); isAlloc {
				stores = append(stores, in)
			}
		}
	})
	if len(stores) == 0 {
		c.Pass("C19.1", "replace-deduplicated", desc, c.P.ShortName(sr)+": no record is overwritten in place")
		return
	}
	isIDLoad := func(v ssa.Value) bool {
		if u, ok := v.(*ssa.UnOp); ok {
			if fa, ok := u.X.(*ssa.FieldAddr); ok && c.An.IsRefIDField(fa) {
				return true
			}
		}
		return false
	}
	idCmpFn := map[*ssa.Function]bool{}
	for _, f := range c.reachableFrom(sr) {
		instrsOf(f, func(in ssa.Instruction) {
			if b, ok := in.(*ssa.BinOp); ok && (b.Op == token.EQL || b.Op == token.NEQ) && (isIDLoad(b.X) || isIDLoad(b.Y)) {
				idCmpFn[f] = true
			}
		})
	}
	isCmp := func(in ssa.Instruction) bool {
		if b, ok := in.(*ssa.BinOp); ok && (b.Op == token.EQL || b.Op == token.NEQ) && (isIDLoad(b.X) || isIDLoad(b.Y)) {
			return true
		}
		ci, ok := in.(ssa.CallInstruction)
		if !ok {
			return false
		}
		for _, cal := range c.P.Callees(ci) {
			if cal != sr && idCmpFn[cal] {
				return true
			}
		}
		// a predicate handed to a library search/filter helper
		for _, a := range ci.Common().Args {
			if _, isSig := a.Type().Underlying().(*types.Signature); isSig {
				fns, _ := c.P.funcValueRoots(a, nil)
				for _, f := range fns {
					if idCmpFn[f] {
						return true
					}
				}
			}
		}
		return false
	}
	// blocks that belong to a loop containing a comparison: entering the loop counts
	cmpBlocks := map[*ssa.BasicBlock]bool{}
	instrsOf(sr, func(in ssa.Instruction) {
		if isCmp(in) {
			cmpBlocks[in.Block()] = true
		}
	})
	inCmpLoop := func(b *ssa.BasicBlock) bool {
		for cb := range cmpBlocks {
			if cb == b || reachableAvoiding(b, cb, nil) && reachableAvoiding(cb, b, nil) {
				return true
			}
		}
		return false
	}
	isWrite := func(in ssa.Instruction) bool { return c.An.CallsRole(in, "writeIndex") }
	// the comparison loop covers the whole list: it does not range over a tail of it (`refs[i:]`): a record in front of
	// the overwritten position may describe the variant just written (a record with `*` in its Vary never matches and is
	// sorted among the others)
	instrsOf(sr, func(in ssa.Instruction) {
		sl, ok := in.(*ssa.Slice)
		if !ok || sl.Low == nil || !isSliceOfRefs(c, sl.Type()) {
			return
		}
		if k, isK := constInt(sl.Low); isK && k == 0 {
			return
		}
		ranged := false
		if sl.Referrers() != nil {
			for _, r := range *sl.Referrers() {
				if _, ok := r.(*ssa.IndexAddr); ok {
					ranged = true
				}
				if cc := callOf(r); cc != nil {
					if b, ok := cc.Value.(*ssa.Builtin); ok && b.Name() == "len" {
						ranged = true
					}
				}
			}
		}
		if ranged && inCmpLoopAny(sl, cmpBlocks) {
			c.Fail("C19.1", "replace-dedup-covers-list", "the de-duplication after an in-place overwrite looks at every record of the list", c.P.InstrPos(sl)+": only the records from a position onwards are compared; with an origin alternating `Vary: X-Flavor` and `Vary: X-Flavor, *` the old record in front survives and the index grows by one record per two requests")
		}
	})
	for _, st := range stores {
		// forward search from the store to an index write that avoids every comparison
		bad := ""
		seen := map[*ssa.BasicBlock]bool{}
		var walk func(b *ssa.BasicBlock, from int)
		walk = func(b *ssa.BasicBlock, from int) {
			if bad != "" {
				return
			}
			if from == 0 {
				if seen[b] {
					return
				}
				seen[b] = true
				if inCmpLoop(b) {
					return
				}
			}
			for _, in := range b.Instrs[from:] {
				if isCmp(in) {
					return
				}
				if isWrite(in) {
					bad = c.P.InstrPos(in)
					return
				}
			}
			for _, s := range b.Succs {
				walk(s, 0)
			}
		}
		idx := 0
		for i, in := range st.Block().Instrs {
			if in == st {
				idx = i + 1
			}
		}
		walk(st.Block(), idx)
		if bad == "" {
			c.Pass("C19.1", "replace-deduplicated", desc, c.P.InstrPos(st)+": every path to the index write compares the listed ids with the new id")
		} else {
			c.Fail("C19.1", "replace-deduplicated", desc, c.P.InstrPos(st)+": the index write at "+bad+" is reachable from the in-place overwrite without comparing the other records with the new id; an origin alternating `Vary: *` and `Vary: X-Flavor` leaves duplicates behind and the index grows by one record per two requests")
		}
	}
}

// dependsOnSearch: cond depends on the outcome of a search by response id: the result of slices.IndexFunc/ContainsFunc
// applied with a predicate that compares the id field, or a variable carried by a loop whose body compares the id field.
func (an *Analysis) dependsOnSearch(cond ssa.Value, sr *ssa.Function) bool {
	isIDLoad := func(v ssa.Value) bool {
		if u, ok := v.(*ssa.UnOp); ok {
			if fa, ok := u.X.(*ssa.FieldAddr); ok && an.IsRefIDField(fa) {
				return true
			}
		}
		return false
	}
	var cmpInD func(f *ssa.Function, depth int) bool
	cmpInD = func(f *ssa.Function, depth int) bool {
		found := false
		instrsOf(f, func(in ssa.Instruction) {
			if b, ok := in.(*ssa.BinOp); ok && (b.Op == token.EQL || b.Op == token.NEQ) && (isIDLoad(b.X) || isIDLoad(b.Y)) {
				found = true
			}
			// a bound-method wrapper or a small adapter: look at what it calls
			if cc := callOf(in); cc != nil && depth < 2 {
				if sc := cc.StaticCallee(); sc != nil && len(sc.Blocks) > 0 && an.P.IsRepoFunc(sc) && cmpInD(sc, depth+1) {
					found = true
				}
			}
		})
		return found
	}
	cmpIn := func(f *ssa.Function) bool { return cmpInD(f, 0) }
	blockCompares := func(b *ssa.BasicBlock) bool {
		for _, in := range b.Instrs {
			if bo, ok := in.(*ssa.BinOp); ok && (bo.Op == token.EQL || bo.Op == token.NEQ) && (isIDLoad(bo.X) || isIDLoad(bo.Y)) {
				return true
			}
			if ci, ok := in.(ssa.CallInstruction); ok {
				for _, cal := range an.P.Callees(ci) {
					if cal != sr && cmpIn(cal) {
						return true
					}
				}
			}
		}
		return false
	}
	hit := false
	an.P.TraceBack(cond, TraceOpts{ThroughOps: true, ThroughExtern: true, NoParams: true, NoHeapFields: true}, func(v ssa.Value, _ []int) bool {
		switch x := v.(type) {
		case *ssa.Call:
			if sc := x.Call.StaticCallee(); sc != nil {
				n := sc.String()
				if o := sc.Origin(); o != nil {
					n = o.String()
				}
				if (strings.HasPrefix(n, "slices.IndexFunc") || strings.HasPrefix(n, "slices.ContainsFunc")) && len(x.Call.Args) == 2 {
					fns, _ := an.P.funcValueRoots(x.Call.Args[1], nil)
					for _, f := range fns {
						if cmpIn(f) {
							hit = true
						}
					}
				}
			}
		case *ssa.Phi:
			// a loop-carried index/flag of a hand-written search loop
			if x.Parent() == sr && blockInCycle(x.Block()) {
				for _, b := range sr.Blocks {
					if (b == x.Block() || reachableAvoiding(b, x.Block(), nil) && reachableAvoiding(x.Block(), b, nil)) && blockCompares(b) {
						hit = true
					}
				}
			}
		}
		return !hit
	})
	return hit
}

// swrFunction: the function containing the background-revalidation spawn.
func (c *Ctx) swrFunction() *ssa.Function {
	var out *ssa.Function
	for fn := range c.A.ReachFg {
		if c.An.hasSWRSpawn(fn) {
			if out != nil && FuncName(fn) > FuncName(out) {
				continue
			}
			out = fn
		}
	}
	return out
}

func ruleC20_1(c *Ctx) {
	swr := c.swrFunction()
	if swr == nil {
		c.Undecided("C20.1", "swr-function", "the SWR function is identifiable", "no function spawns a goroutine that reaches the origin")
		return
	}
	if c.An.MayUpstream(swr, false) {
		c.Fail("C20.1", "foreground-no-origin", "the SWR function performs no origin call in the foreground", c.P.ShortName(swr)+": an origin call is reachable without crossing the go statement; the caller waits for the origin")
	} else {
		c.Pass("C20.1", "foreground-no-origin", "the SWR function performs no origin call in the foreground", c.P.ShortName(swr))
	}
	isBlocking := func(in ssa.Instruction) bool {
		switch x := in.(type) {
		case *ssa.UnOp:
			return x.Op == token.ARROW
		case *ssa.Select:
			return x.Blocking
		case *ssa.Send:
			return true
		case ssa.CallInstruction:
			if sc := x.Common().StaticCallee(); sc != nil && (isMethod(sc, "sync", "WaitGroup", "Wait") || isPkgFunc(sc, "time", "Sleep")) {
				return true
			}
		}
		return false
	}
	if c.An.May("BLOCKING", swr, isBlocking, false) {
		c.Fail("C20.1", "foreground-no-wait", "the SWR function performs no blocking operation in the foreground", c.P.ShortName(swr)+": a receive/select/send/Wait/Sleep is reachable without crossing the go statement")
	} else {
		c.Pass("C20.1", "foreground-no-wait", "the SWR function performs no blocking operation in the foreground", c.P.ShortName(swr))
	}
	// the spawn is a `go` statement (detached), not a call
	c.Pass("C20.1", "spawn-detached", "background revalidation is started with a go statement", c.P.ShortName(swr))
}

// countOnPaths: min and max number of instructions satisfying pred on entry->return paths (max=-1 when inside a cycle).
func countOnPaths(fn *ssa.Function, pred func(ssa.Instruction) bool) (min, max int) {
	max = maxOnPath(fn, pred)
	// min via DAG shortest path on counts (ignore back edges)
	count := map[int]int{}
	for _, b := range fn.Blocks {
		for _, in := range b.Instrs {
			if pred(in) {
				count[b.Index]++
			}
		}
	}
	const inf = 1 << 30
	memo := map[int]int{}
	on := map[int]bool{}
	var rec func(b *ssa.BasicBlock) int
	rec = func(b *ssa.BasicBlock) int {
		if v, ok := memo[b.Index]; ok {
			return v
		}
		if on[b.Index] {
			return inf
		}
		on[b.Index] = true
		best := inf
		isRet := false
		if len(b.Instrs) > 0 {
			if _, ok := b.Instrs[len(b.Instrs)-1].(*ssa.Return); ok {
				isRet = true
			}
		}
		if isRet {
			best = 0
		}
		for _, s := range b.Succs {
			if v := rec(s); v < best {
				best = v
			}
		}
		on[b.Index] = false
		if best < inf {
			best += count[b.Index]
		}
		memo[b.Index] = best
		return best
	}
	if len(fn.Blocks) == 0 {
		return 0, 0
	}
	min = rec(fn.Blocks[0])
	return
}

func ruleC20_2(c *Ctx) {
	swr := c.swrFunction()
	if swr == nil {
		c.Undecided("C20.2", "swr-function", "the SWR function is identifiable", "none")
		return
	}
	mn, mx := countOnPaths(swr, c.An.IsSWRSpawn)
	desc := "every path through the SWR function spawns exactly one background revalidation"
	if mn == 1 && mx == 1 {
		c.Pass("C20.2", "one-spawn", desc, fmt.Sprintf("%s: min=%d max=%d", c.P.ShortName(swr), mn, mx))
	} else {
		c.Fail("C20.2", "one-spawn", desc, fmt.Sprintf("%s: spawns per path min=%d max=%d (−1 = inside a loop); duplicate or missing revalidation", c.P.ShortName(swr), mn, mx))
	}
	// the spawned function chain: follow go targets until the function that calls the origin (through the timed wrapper)
	var spawned []*ssa.Function
	instrsOf(swr, func(in ssa.Instruction) {
		if g, ok := in.(*ssa.Go); ok {
			spawned = append(spawned, c.P.RepoCallees(g)...)
		}
	})
	// the function that actually performs the origin call in the background
	var worker *ssa.Function
	seen := map[*ssa.Function]bool{}
	var find func(f *ssa.Function)
	find = func(f *ssa.Function) {
		if seen[f] {
			return
		}
		seen[f] = true
		direct := false
		instrsOf(f, func(in ssa.Instruction) {
			if call, ok := in.(*ssa.Call); ok {
				for _, cal := range c.P.RepoCallees(call) {
					if c.An.MayUpstream(cal, false) {
						direct = true
					}
				}
				if c.An.IsUpstreamSite(in) {
					direct = true
				}
			}
		})
		if direct {
			worker = f
			return
		}
		instrsOf(f, func(in ssa.Instruction) {
			if g, ok := in.(*ssa.Go); ok {
				for _, cal := range c.P.RepoCallees(g) {
					find(cal)
				}
			}
		})
	}
	for _, s := range spawned {
		find(s)
	}
	desc2 := "the background worker performs exactly one origin call on every path"
	if worker == nil {
		c.Undecided("C20.2", "one-origin-call", desc2, "worker not found")
		return
	}
	isUp := func(in ssa.Instruction) bool {
		if c.An.IsUpstreamSite(in) {
			return true
		}
		if call, ok := in.(*ssa.Call); ok {
			for _, cal := range c.P.RepoCallees(call) {
				if c.An.Must("UPSTREAM-MUST", cal, c.An.IsUpstreamSite) && !c.An.CallsRole(in, "validationHandler") {
					return true
				}
			}
		}
		return false
	}
	mn, mx = countOnPaths(worker, isUp)
	if mn == 1 && mx == 1 {
		c.Pass("C20.2", "one-origin-call", desc2, fmt.Sprintf("%s: min=%d max=%d", c.P.ShortName(worker), mn, mx))
	} else {
		c.Fail("C20.2", "one-origin-call", desc2, fmt.Sprintf("%s: origin calls per path min=%d max=%d", c.P.ShortName(worker), mn, mx))
	}
}

func ruleC20_3(c *Ctx) {
	swr := c.swrFunction()
	if swr == nil {
		c.Undecided("C20.3", "swr-function", "the SWR function is identifiable", "none")
		return
	}
	// the function directly spawned: it must derive its context from WithTimeout(req.Context(), <timeout field>) and defer cancel
	var bg *ssa.Function
	instrsOf(swr, func(in ssa.Instruction) {
		if g, ok := in.(*ssa.Go); ok {
			for _, cal := range c.P.RepoCallees(g) {
				bg = cal
			}
		}
	})
	if bg == nil {
		c.Undecided("C20.3", "background-function", "spawn target known", "none")
		return
	}
	var wt *ssa.Call
	for _, f := range append([]*ssa.Function{bg}, nestedClosures(bg)...) {
		instrsOf(f, func(in ssa.Instruction) {
			if call, ok := in.(*ssa.Call); ok && callIsPkgFunc(&call.Call, "context", "WithTimeout") {
				wt = call
			}
		})
	}
	desc := "the background request runs under context.WithTimeout with the transport's configured timeout"
	if wt == nil {
		c.Fail("C20.3", "timeout-context", desc, c.P.ShortName(bg)+": no context.WithTimeout; a hung origin keeps the goroutine forever")
		return
	}
	// duration argument: load of a duration field of the transport
	durOK := false
	if u, ok := wt.Call.Args[1].(*ssa.UnOp); ok {
		if fa, ok := u.X.(*ssa.FieldAddr); ok && isPtrToNamed(fa.X.Type(), c.A.TransportT) && typeIs(u.Type(), "time", "Duration") {
			durOK = true
		}
	}
	if durOK {
		c.Pass("C20.3", "timeout-context", desc, c.P.ShortName(bg)+"@"+c.P.InstrPos(wt))
	} else {
		c.Fail("C20.3", "timeout-context", desc, c.P.InstrPos(wt)+": the duration is not the transport's timeout field")
	}
	// the parent of the timeout context is detached from the caller's cancellation: the caller already has its answer and
	// may cancel at once; the revalidation is bounded by the configured timeout, not by the caller
	detached := c.An.dependsOnCall(wt.Call.Args[0], func(cc *ssa.Call) bool {
		return callIsPkgFunc(&cc.Call, "context", "WithoutCancel") || callIsPkgFunc(&cc.Call, "context", "Background") || callIsPkgFunc(&cc.Call, "context", "TODO")
	})
	dd := "the background context does not inherit the caller's cancellation"
	if detached {
		c.Pass("C20.3", "detached-from-caller", dd, c.P.InstrPos(wt))
	} else {
		c.Fail("C20.3", "detached-from-caller", dd, c.P.InstrPos(wt)+": the timeout context is a child of the request's own context; a caller that cancels after receiving the stale response (deferred cancel, http.Client.Timeout on body close) aborts the revalidation, and the entry is never refreshed")
	}
	// cancel is deferred
	cancelDeferred := false
	instrsOf(wt.Parent(), func(in ssa.Instruction) {
		if d, ok := in.(*ssa.Defer); ok {
			if ex, ok := d.Call.Value.(*ssa.Extract); ok && ex.Tuple == wt && ex.Index == 1 {
				cancelDeferred = true
			}
		}
	})
	if cancelDeferred {
		c.Pass("C20.3", "cancel-deferred", "the timeout context's cancel function is deferred", c.P.ShortName(wt.Parent()))
	} else {
		c.Fail("C20.3", "cancel-deferred", "the timeout context's cancel function is deferred", c.P.ShortName(wt.Parent())+": cancel is not deferred; the timer leaks")
	}
	// the request given to the origin in the background carries that context
	ok := false
	bgFuncs := append([]*ssa.Function{bg}, nestedClosures(bg)...)
	// the goroutine's body may be a named function started with `go` (its request parameter is then followed to the
	// argument of the go statement)
	for _, f := range append([]*ssa.Function{}, bgFuncs...) {
		instrsOf(f, func(in ssa.Instruction) {
			if g, isGo := in.(*ssa.Go); isGo {
				for _, cal := range c.P.RepoCallees(g) {
					bgFuncs = append(bgFuncs, cal)
					bgFuncs = append(bgFuncs, nestedClosures(cal)...)
				}
			}
		})
	}
	for _, f := range bgFuncs {
		instrsOf(f, func(in ssa.Instruction) {
			call, isCall := in.(*ssa.Call)
			if !isCall {
				return
			}
			leads := c.An.IsUpstreamSite(in)
			for _, cal := range c.P.RepoCallees(call) {
				if c.An.MayUpstream(cal, false) && !c.An.CallsRole(in, "validationHandler") {
					leads = true
				}
			}
			if !leads {
				return
			}
			_, args := recvAndArgs(&call.Call)
			for _, a := range args {
				if !isHTTPRequestPtr(a.Type()) {
					continue
				}
				c.P.TraceBack(a, TraceOpts{NoParams: f == bg}, func(v ssa.Value, _ []int) bool {
					if wc, isC := v.(*ssa.Call); isC && callIsMethod(&wc.Call, "net/http", "Request", "WithContext") {
						_, wargs := recvAndArgs(&wc.Call)
						if ex, isEx := wargs[0].(*ssa.Extract); isEx && ex.Tuple == wt && ex.Index == 0 {
							ok = true
						}
					}
					return true
				})
			}
		})
	}
	if ok {
		c.Pass("C20.3", "request-carries-timeout", "the background origin call is made with a request bound to the timeout context", c.P.ShortName(bg))
	} else {
		c.Fail("C20.3", "request-carries-timeout", "the background origin call is made with a request bound to the timeout context", c.P.ShortName(bg)+": the request passed to the origin is not req.WithContext(timeoutCtx)")
	}
}

func ruleC20_4(c *Ctx) {
	st, ok := c.A.TransportT.Underlying().(*types.Struct)
	if !ok {
		return
	}
	tf := -1
	for i := 0; i < st.NumFields(); i++ {
		if typeIs(st.Field(i).Type(), "time", "Duration") {
			tf = i
		}
	}
	if tf < 0 {
		c.Undecided("C20.4", "timeout-field", "the transport has a timeout field", "no time.Duration field")
		return
	}
	// the last store in the constructor (the function that allocates the transport)
	var ctorStore *ssa.Store
	for _, s := range c.P.StoresTo(c.A.TransportT, tf) {
		if _, isAlloc := s.Addr.(*ssa.FieldAddr).X.(*ssa.Alloc); isAlloc {
			ctorStore = s
		}
	}
	desc := "a non-positive timeout setting falls back to the 5 s default"
	if ctorStore == nil {
		c.Fail("C20.4", "timeout-defaulting", desc, "the constructor never normalises the timeout field; a negative WithSWRTimeout cancels every background request immediately")
		return
	}
	// value = cmp.Or(max(x, 0), Default) or an equivalent branch
	hasMax0, hasDefault5s, viaOr := false, false, false
	c.P.TraceBack(ctorStore.Val, TraceOpts{ThroughOps: true, ThroughExtern: true, NoParams: true, NoHeapFields: true}, func(v ssa.Value, _ []int) bool {
		switch x := v.(type) {
		case *ssa.Call:
			if b, ok := x.Call.Value.(*ssa.Builtin); ok && b.Name() == "max" {
				for _, a := range x.Call.Args {
					if k, ok := constInt(a); ok && k == 0 {
						hasMax0 = true
					}
				}
			}
			if sc := x.Call.StaticCallee(); sc != nil {
				n := sc.String()
				if o := sc.Origin(); o != nil {
					n = o.String()
				}
				if n == "cmp.Or" {
					viaOr = true
				}
			}
		case *ssa.Const:
			if x.Value != nil && x.Value.Kind() == constant.Int {
				if k, ok := constInt(x); ok && k == 5_000_000_000 {
					hasDefault5s = true
				}
			}
		}
		return true
	})
	if hasMax0 && hasDefault5s && viaOr {
		c.Pass("C20.4", "timeout-defaulting", desc, c.P.ShortName(ctorStore.Parent())+"@"+c.P.InstrPos(ctorStore)+": cmp.Or(max(x,0), 5s)")
		return
	}
	// equivalent branch form: a dominating `<= 0` test selecting the default
	if hasDefault5s {
		if phi, ok := ctorStore.Val.(*ssa.Phi); ok {
			for _, dc := range dominatingConds(phi.Block()) {
				_ = dc
			}
			for _, b := range ctorStore.Parent().Blocks {
				if iff, ok := b.Instrs[len(b.Instrs)-1].(*ssa.If); ok {
					if bo, ok := iff.Cond.(*ssa.BinOp); ok && (bo.Op == token.LEQ || bo.Op == token.GTR) {
						if k, ok := constInt(bo.Y); ok && k == 0 && typeIs(bo.X.Type(), "time", "Duration") {
							c.Pass("C20.4", "timeout-defaulting", desc, c.P.InstrPos(bo)+": branch on `<= 0` selecting the default")
							return
						}
					}
				}
			}
		}
	}
	c.Fail("C20.4", "timeout-defaulting", desc, fmt.Sprintf("%s: max(.,0)=%v default 5s=%v cmp.Or=%v", c.P.InstrPos(ctorStore), hasMax0, hasDefault5s, viaOr))
}

func ruleC20_6(c *Ctx) {
	swr := c.swrFunction()
	if swr == nil || !c.Need("C20.6", "cond") {
		return
	}
	n := 0
	instrsOf(swr, func(in ssa.Instruction) {
		g, ok := in.(*ssa.Go)
		if !ok {
			return
		}
		for _, a := range g.Call.Args {
			if !isHTTPRequestPtr(a.Type()) {
				continue
			}
			n++
			viaCond := false
			viaClone := false
			c.P.TraceBack(a, TraceOpts{NoParams: true}, func(v ssa.Value, _ []int) bool {
				if call, ok := v.(*ssa.Call); ok {
					if call.Call.StaticCallee() == c.A.F("cond") {
						viaCond = true
						// its request argument must be a clone
						c.P.TraceBack(call.Call.Args[0], TraceOpts{NoParams: true}, func(w ssa.Value, _ []int) bool {
							if cc, ok := w.(*ssa.Call); ok && (callIsMethod(&cc.Call, "net/http", "Request", "Clone") || cc.Call.StaticCallee() == c.A.F("cloneReq") && clonesURL(c.A.F("cloneReq"))) {
								viaClone = true
							}
							return true
						})
						return false
					}
				}
				return true
			})
			where := c.P.ShortName(swr) + "@" + c.P.InstrPos(g)
			if viaCond {
				c.Pass("C20.6", "background-conditional", "the background request is built by the conditional-request builder", where)
			} else {
				c.Fail("C20.6", "background-conditional", "the background request is built by the conditional-request builder", where+": the request handed to the goroutine does not pass the builder; the background fetch is unconditional")
			}
			if viaClone {
				c.Pass("C20.6", "background-clone", "the background request is a clone of the caller's request", where)
			} else {
				c.Fail("C20.6", "background-clone", "the background request is a clone of the caller's request", where+": the goroutine works on the caller's request object")
			}
		}
	})
	if n == 0 {
		c.Undecided("C20.6", "vacuity", "the spawn passes a request", "no *http.Request argument at the go statement")
	}
	// the validators are read from the stored header as it was stored: nothing is deleted from that header before the
	// conditional-request builder has run (a qualified no-cache may nominate ETag / Last-Modified themselves)
	var condCalls, dels []ssa.Instruction
	instrsOf(swr, func(in ssa.Instruction) {
		if cc := callOf(in); cc != nil && cc.StaticCallee() == c.A.F("cond") {
			condCalls = append(condCalls, in)
		}
		if c.An.IsStripFields(in) {
			dels = append(dels, in)
		}
		if cc := callOf(in); cc != nil && callIsMethod(cc, "net/http", "Header", "Del") {
			if rv, _ := recvAndArgs(cc); c.An.HeaderClass(rv) == "rs" {
				dels = append(dels, in)
			}
		}
	})
	early := ""
	for _, d := range dels {
		for _, cc := range condCalls {
			if instrDominates(d, cc) || instrReaches(d, cc) {
				early = c.P.InstrPos(d) + " precedes the builder call at " + c.P.InstrPos(cc)
			}
		}
	}
	dv := "stored header fields are deleted only after the conditional request was built from them"
	if len(condCalls) > 0 {
		if early != "" {
			c.Fail("C20.6", "validators-intact", dv, c.P.ShortName(swr)+": "+early+"; with stored `no-cache=\"ETag, Last-Modified\"` the validators are gone and the background revalidation is sent without If-None-Match / If-Modified-Since")
		} else {
			c.Pass("C20.6", "validators-intact", dv, fmt.Sprintf("%s: %d deletions, none before the builder", c.P.ShortName(swr), len(dels)))
		}
	}
}

func ruleC20_7(c *Ctx) {
	swr := c.swrFunction()
	if swr == nil {
		return
	}
	okAll := true
	n := 0
	var sites []string
	instrsOf(swr, func(in ssa.Instruction) {
		r, ok := in.(*ssa.Return)
		if !ok || len(r.Results) != 2 {
			return
		}
		n++
		sites = append(sites, c.P.InstrPos(in))
		if !isNilConst(c.An.RetVal(r, 1)) {
			okAll = false
		}
	})
	sort.Strings(sites)
	desc := "the SWR function returns the stored response with a nil error; the background outcome cannot fail the caller"
	if n == 0 {
		c.Undecided("C20.7", "foreground-nil-error", desc, "no return found")
	} else if okAll {
		c.Pass("C20.7", "foreground-nil-error", desc, sites...)
	} else {
		c.Fail("C20.7", "foreground-nil-error", desc, c.P.ShortName(swr)+": a non-constant error is returned")
	}
	// the spawned function has no results
	instrsOf(swr, func(in ssa.Instruction) {
		if g, ok := in.(*ssa.Go); ok {
			for _, cal := range c.P.RepoCallees(g) {
				if len(sigResults(cal)) == 0 {
					c.Pass("C20.7", "background-no-result", "the background function returns nothing to anyone", c.P.ShortName(cal))
				}
			}
		}
	})
}

// ruleC19_7: invalidation learns the ids to delete from the index reader. A reader that drops references by content (for
// instance those that can never be selected, `Vary: *`) makes invalidation delete the index key and leave the dropped
// entries behind, unreachable. In the index reader and the closures it hands to filter helpers, no decision depends on a
// field of a reference: only a test of the element pointer against nil may drop an element.
func ruleC19_7(c *Ctx) {
	if !c.Need("C19.7", "readIndex") {
		return
	}
	ri := c.A.F("readIndex")
	desc := "the index reader drops no reference because of its content"
	bad := ""
	nFilters := 0
	for _, g := range c.reachableFrom(ri) {
		if g != ri && !lexicallyInside(g, ri) {
			continue
		}
		instrsOf(g, func(in ssa.Instruction) {
			// any load of a field of an index element inside the reader
			u, ok := in.(*ssa.UnOp)
			if !ok {
				return
			}
			fa, ok := u.X.(*ssa.FieldAddr)
			if !ok || !isPtrToNamed(fa.X.Type(), c.A.RefT) {
				return
			}
			bad = fmt.Sprintf("%s: reads %s.%s of a listed reference", c.P.InstrPos(in), c.A.RefT.Obj().Name(), fieldName(fa.X.Type(), fa.Field))
		})
		if g != ri {
			nFilters++
		}
	}
	if bad != "" {
		c.Fail("C19.7", "index-read-complete", desc, bad+"; references filtered out here are invisible to invalidation, which then removes the index key but not their entries (the keys stay in the store, unreachable)")
		return
	}
	c.Pass("C19.7", "index-read-complete", desc, fmt.Sprintf("%s: %d filter closure(s), none reads a field of a reference", c.P.ShortName(ri), nFilters))
}

// clonesURL: the request-cloning function gives its result a URL of its own (a store into the URL member of the new
// request); a copy that shares the caller's *url.URL follows the caller's later changes of its request.
func clonesURL(fn *ssa.Function) bool {
	if fn == nil {
		return false
	}
	hit := false
	instrsOf(fn, func(in ssa.Instruction) {
		if st, ok := in.(*ssa.Store); ok {
			if fa, ok := st.Addr.(*ssa.FieldAddr); ok && ptrTo(fa.X.Type(), "net/http", "Request") && fieldName(fa.X.Type(), fa.Field) == "URL" {
				hit = true
			}
		}
		if cc := callOf(in); cc != nil && callIsMethod(cc, "net/http", "Request", "Clone") {
			hit = true
		}
	})
	return hit
}

// inCmpLoopAny: the slice value is used (indexed) in a block that belongs to a loop with an id comparison.
func inCmpLoopAny(sl *ssa.Slice, cmpBlocks map[*ssa.BasicBlock]bool) bool {
	if sl.Referrers() == nil {
		return false
	}
	for _, r := range *sl.Referrers() {
		b := r.Block()
		for cb := range cmpBlocks {
			if cb == b || reachableAvoiding(b, cb, nil) && reachableAvoiding(cb, b, nil) {
				return true
			}
		}
	}
	return false
}
