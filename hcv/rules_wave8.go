package hcv

import (
	"fmt"
	"go/token"
	"go/types"
	"net/http"
	"strings"

	"golang.org/x/tools/go/ssa"
)

// Rules added with the eighth independent seeding (wave 8).

// ruleDateDecoderNoLengthGate (C01.25): an HTTP-date has three legal forms of different lengths (RFC 9110 §5.6.7: IMF-fixdate
// 29 octets, rfc850-date 30 or more, asctime 24). The decoder leaves before http.ParseTime only for the empty string:
// a length test against anything else rejects one of the forms (a Date in asctime form is then replaced by the time
// of receipt and the response's age starts at zero).
func ruleDateDecoderNoLengthGate(c *Ctx, rule string) {
	desc := "the HTTP-date decoder rejects nothing but the empty string before it parses"
	n := 0
	bad := ""
	for _, fn := range c.P.RepoFuncs {
		if fn.Pkg == nil || fn.Pkg.Pkg.Path() != c.A.internalPath || isTestOnly(c, fn) {
			continue
		}
		parses := false
		instrsOf(fn, func(in ssa.Instruction) {
			if cc := callOf(in); cc != nil && callIsPkgFunc(cc, "net/http", "ParseTime") {
				parses = true
			}
		})
		if !parses {
			continue
		}
		n++
		instrsOf(fn, func(in ssa.Instruction) {
			bo, ok := in.(*ssa.BinOp)
			if !ok {
				return
			}
			for _, side := range [][2]ssa.Value{{bo.X, bo.Y}, {bo.Y, bo.X}} {
				call, ok := side[0].(*ssa.Call)
				if !ok {
					continue
				}
				b, ok := call.Call.Value.(*ssa.Builtin)
				if !ok || b.Name() != "len" || !isStringType(call.Call.Args[0].Type()) {
					continue
				}
				if k, ok := constInt(side[1]); ok && k != 0 {
					bad = c.P.ShortName(fn) + "@" + c.P.InstrPos(bo)
				}
				if _, isK := side[1].(*ssa.Const); !isK {
					bad = c.P.ShortName(fn) + "@" + c.P.InstrPos(bo)
				}
			}
		})
	}
	switch {
	case n == 0:
		c.Undecided(rule, "date-decoder-no-length-gate", desc, "no function of the internal package calls http.ParseTime")
	case bad != "":
		c.Fail(rule, "date-decoder-no-length-gate", desc, bad+": the decoder tests the length of the text against a non-zero bound; `Date: Sun Nov  6 08:49:37 1994` (asctime form, 24 octets) counts as invalid, is replaced by the time of receipt, and a response two hours old with `max-age=3600` is a fresh HIT")
	default:
		c.Pass(rule, "date-decoder-no-length-gate", desc, fmt.Sprintf("%d decoder(s)", n))
	}
}

// ruleScannerYieldsWhateverTheArgument (C01.26 / C12.20): the directive scanner hands every directive on, `name=` (an empty
// argument) included: whether a directive is present decides the lifetime rule (`max-age=` is an explicit expiry,
// RFC 9111 §4.2.1). No decision in front of the scanner's yield tests the argument.
func ruleScannerYieldsWhateverTheArgument(c *Ctx, rule string) {
	desc := "the directive scanner yields a directive whatever its argument is (no test of the argument in front of the yield)"
	n := 0
	bad := ""
	for _, fn := range c.tokenizerTree() {
		instrsOf(fn, func(in ssa.Instruction) {
			call, ok := in.(*ssa.Call)
			if !ok || call.Call.IsInvoke() || call.Call.StaticCallee() != nil || len(call.Call.Args) != 2 {
				return
			}
			if !isStringType(call.Call.Args[0].Type()) || !isStringType(call.Call.Args[1].Type()) {
				return
			}
			if sig, ok := call.Call.Value.Type().Underlying().(*types.Signature); !ok || sig.Results().Len() != 1 || !isBoolType(sig.Results().At(0).Type()) {
				return
			}
			n++
			arg := call.Call.Args[1]
			if _, isK := arg.(*ssa.Const); isK {
				return
			}
			// the values the argument is made of
			// (only what lies between the split at "=" and the yield: the member as a whole may well be tested for emptiness)
			parts := map[ssa.Value]bool{}
			c.P.TraceBack(arg, TraceOpts{ThroughOps: true, ThroughExtern: true, NoParams: true, NoHeapFields: true}, func(x ssa.Value, _ []int) bool {
				parts[x] = true
				if ex, ok := x.(*ssa.Extract); ok {
					if cl, ok := ex.Tuple.(*ssa.Call); ok && callIsPkgFunc(&cl.Call, "strings", "Cut") {
						return false
					}
				}
				return true
			})
			// a test of (part of) the argument for emptiness one of whose outcomes goes round the yield
			for _, blk := range fn.Blocks {
				if len(blk.Instrs) == 0 {
					continue
				}
				iff, ok := blk.Instrs[len(blk.Instrs)-1].(*ssa.If)
				if !ok {
					continue
				}
				tests := false
				for _, pol := range []bool{true, false} {
					for _, lf := range condLeaves(iff.Cond, pol) {
						bo, ok := lf.v.(*ssa.BinOp)
						if !ok || (bo.Op != token.EQL && bo.Op != token.NEQ) {
							continue
						}
						for _, side := range [][2]ssa.Value{{bo.X, bo.Y}, {bo.Y, bo.X}} {
							if k, ok := constStr(side[1]); ok && k == "" && (side[0] == arg || parts[side[0]]) {
								tests = true
							}
							if k, ok := constInt(side[1]); ok && k == 0 {
								if lc, ok := side[0].(*ssa.Call); ok {
									if b, ok := lc.Call.Value.(*ssa.Builtin); ok && b.Name() == "len" && (lc.Call.Args[0] == arg || parts[lc.Call.Args[0]]) {
										tests = true
									}
								}
							}
						}
					}
				}
				if !tests || !(blk == call.Block() || reachableAvoiding(blk, call.Block(), nil)) {
					continue
				}
				for _, sblk := range blk.Succs {
					if sblk != call.Block() && !reachableAvoiding(sblk, call.Block(), nil) {
						bad = c.P.ShortName(fn) + "@" + c.P.InstrPos(iff)
					}
				}
			}
		})
	}
	switch {
	case bad != "":
		c.Fail(rule, "scanner-yields-whatever-the-argument", desc, bad+": a directive with an empty argument is dropped; `Cache-Control: max-age=` with a future Expires (or an old Last-Modified) loses its explicit expiry and is served fresh from the Expires / heuristic lifetime")
	case n == 0:
		c.Pass(rule, "scanner-yields-whatever-the-argument", desc, "no (name, argument) yield in the tokenizer tree")
	default:
		c.Pass(rule, "scanner-yields-whatever-the-argument", desc, fmt.Sprintf("%d yield(s)", n))
	}
}

// ruleExpiresFoundIsPresence (C02.16 / C01.27): the Expires accessor reports presence and validity separately; "present but not a
// date" (`Expires: 0`) is an explicit expiry in the past. The presence result is never the validity result.
func ruleExpiresFoundIsPresence(c *Ctx, rule string) {
	desc := "the Expires accessor's presence result does not depend on whether the value parses"
	n := 0
	bad := ""
	for _, fn := range c.P.RepoFuncs {
		if fn.Pkg == nil || fn.Pkg.Pkg.Path() != c.A.internalPath || isTestOnly(c, fn) || fn.Parent() != nil {
			continue
		}
		rs := sigResults(fn)
		if len(rs) != 3 || !typeIs(rs[0], "time", "Time") || !isBoolType(rs[1]) || !isBoolType(rs[2]) {
			continue
		}
		if !headerCallWithKey(fn, "Get", "Expires") {
			hasLookup := false
			instrsOf(fn, func(in ssa.Instruction) {
				if lk, ok := in.(*ssa.Lookup); ok {
					if k, ok := constStr(lk.Index); ok && strings.EqualFold(k, "Expires") {
						hasLookup = true
					}
				}
			})
			if !hasLookup {
				continue
			}
		}
		n++
		instrsOf(fn, func(in ssa.Instruction) {
			ret, ok := in.(*ssa.Return)
			if !ok || len(ret.Results) != 3 {
				return
			}
			found := c.An.RetVal(ret, 1)
			if _, isK := found.(*ssa.Const); isK {
				return
			}
			// the presence flag must not be computed from a parse
			if c.An.dependsOnCall(found, func(cc *ssa.Call) bool {
				if callIsPkgFunc(&cc.Call, "net/http", "ParseTime") || callIsPkgFunc(&cc.Call, "time", "Parse") {
					return true
				}
				if sc := cc.Call.StaticCallee(); sc != nil && c.P.IsRepoFunc(sc) {
					for g := range c.P.StaticTree(sc) {
						hit := false
						instrsOf(g, func(i2 ssa.Instruction) {
							if c2 := callOf(i2); c2 != nil && (callIsPkgFunc(c2, "net/http", "ParseTime") || callIsPkgFunc(c2, "time", "Parse")) {
								hit = true
							}
						})
						if hit {
							return true
						}
					}
				}
				return false
			}) {
				bad = c.P.ShortName(fn) + "@" + c.P.InstrPos(ret)
			}
			// BinOp on error / IsZero results: derived from the parse as well
			if bo, ok := found.(*ssa.BinOp); ok && (isErrorType(bo.X.Type()) || isErrorType(bo.Y.Type())) {
				bad = c.P.ShortName(fn) + "@" + c.P.InstrPos(ret)
			}
			if phi, ok := found.(*ssa.Phi); ok {
				for _, e := range phi.Edges {
					if bo, ok := e.(*ssa.BinOp); ok && (isErrorType(bo.X.Type()) || isErrorType(bo.Y.Type())) {
						bad = c.P.ShortName(fn) + "@" + c.P.InstrPos(ret)
					}
				}
			}
		})
	}
	switch {
	case n == 0:
		c.Pass(rule, "expires-found-is-presence", desc, "no accessor with separate presence and validity results")
	case bad != "":
		c.Fail(rule, "expires-found-is-presence", desc, bad+": the presence result is computed from the parse; `Expires: 0` with an old Last-Modified and must-revalidate counts as \"no Expires\", gets a heuristic lifetime and is served as a HIT without validation")
	default:
		c.Pass(rule, "expires-found-is-presence", desc, fmt.Sprintf("%d accessor(s)", n))
	}
}

// ruleHostAsWritten (C03.14): like the port (C03.13) the host goes into the key as written, lower-cased: `origin.test.`
// (with the root label's dot) and `origin.test` are different hosts on the wire. No trimming or replacing call stands
// between the URI's authority and the key.
func ruleHostAsWritten(c *Ctx, rule string) {
	if !c.Need(rule, "urlKey") {
		return
	}
	desc := "no trimming or replacing call stands between the URI's host and the key"
	n := 0
	bad := ""
	for _, fn := range c.reachableFrom(c.A.F("urlKey")) {
		instrsOf(fn, func(in ssa.Instruction) {
			add, ok := in.(*ssa.BinOp)
			if !ok || add.Op != token.ADD || !isStringType(add.Type()) {
				return
			}
			if k, ok := constStr(add.Y); !ok || k != ":" {
				return
			}
			n++
			c.P.TraceBack(add.X, TraceOpts{ThroughOps: true, ThroughExtern: true, NoParams: true, NoHeapFields: true}, func(x ssa.Value, _ []int) bool {
				if call, ok := x.(*ssa.Call); ok {
					if sc := call.Call.StaticCallee(); sc != nil && sc.Pkg != nil && sc.Pkg.Pkg.Path() == "strings" {
						switch sc.Name() {
						case "Trim", "TrimLeft", "TrimRight", "TrimPrefix", "TrimSuffix", "TrimFunc", "TrimRightFunc", "TrimLeftFunc", "Replace", "ReplaceAll", "Map":
							bad = c.P.InstrPos(call)
						}
					}
				}
				return true
			})
		})
	}
	switch {
	case bad != "":
		c.Fail(rule, "host-as-written", desc, bad+": the host is edited before it goes into the key; `http://origin.test./page` gets the key of `http://origin.test/page` and is served its stored response although the two go out with different Host fields")
	default:
		c.Pass(rule, "host-as-written", desc, fmt.Sprintf("%d authority concatenation(s)", n))
	}
}

// ruleMergeDeletesOnlyAge (C05.17): the 304 merge replaces the stored fields by the 304's and removes nothing from the stored
// response but its old Age: an end-to-end field the 304 does not repeat (Warning, say) stays.
func ruleMergeDeletesOnlyAge(c *Ctx, rule string) {
	if !c.Need(rule, "merge304") {
		return
	}
	m := c.A.F("merge304")
	desc := "the 304 merge deletes no stored field by name except Age"
	n := 0
	bad := ""
	for _, fn := range c.reachableFrom(m) {
		if fn != m && !lexicallyInside(fn, m) {
			continue
		}
		instrsOf(fn, func(in ssa.Instruction) {
			cc := callOf(in)
			if cc == nil {
				return
			}
			var key ssa.Value
			if callIsMethod(cc, "net/http", "Header", "Del") {
				_, args := recvAndArgs(cc)
				key = args[0]
			} else if b, ok := cc.Value.(*ssa.Builtin); ok && b.Name() == "delete" && len(cc.Args) == 2 && isHTTPHeader(cc.Args[0].Type()) {
				key = cc.Args[1]
			}
			if key == nil {
				return
			}
			n++
			if k, ok := constStr(key); ok && !strings.EqualFold(k, "Age") {
				bad = c.P.InstrPos(in) + " (" + k + ")"
			}
		})
	}
	switch {
	case bad != "":
		c.Fail(rule, "merge-deletes-only-age", desc, c.P.ShortName(m)+"@"+bad+": a stored end-to-end field is removed on every validation; `Warning: 299 - \"Deprecated API\"` sent with the 200 is missing from the REVALIDATED response and from every later hit")
	default:
		c.Pass(rule, "merge-deletes-only-age", desc, fmt.Sprintf("%s: %d delete(s)", c.P.ShortName(m), n))
	}
}

// ruleHopTableExact (C05.18): the fixed part of the hop-by-hop table holds the fields RFC 9110 §7.6.1 and RFC 9111 §3.1 name
// and no others: an end-to-end field in it (`Authentication-Info` beside `Proxy-Authentication-Info`) is never stored
// and is taken out of the forwarded response.
func ruleHopTableExact(c *Ctx, rule string) {
	if !c.Need(rule, "hopTable") {
		return
	}
	ht := c.A.F("hopTable")
	desc := "the hop-by-hop table has no constant member outside the RFC's set"
	allowed := map[string]bool{"Trailer": true} // (Trailer is connection-level framing metadata in some tables; harmless)
	for _, h := range oracleHop {
		allowed[http.CanonicalHeaderKey(h)] = true
	}
	have := map[string]bool{}
	instrsOf(ht, func(in ssa.Instruction) {
		if mu, ok := in.(*ssa.MapUpdate); ok {
			if s, ok := constStr(mu.Key); ok {
				have[s] = true
			}
		}
	})
	for _, g := range globalMapsLoadedIn(ht) {
		for _, k := range globalMapLiteralKeys(g) {
			have[k] = true
		}
	}
	var extra []string
	for k := range have {
		if !allowed[http.CanonicalHeaderKey(k)] {
			extra = append(extra, k)
		}
	}
	if len(extra) > 0 {
		c.Fail(rule, "hop-table-exact", desc, c.P.ShortName(ht)+": also lists "+strings.Join(extra, ", ")+"; the origin's `Authentication-Info` (digest nextnonce / rspauth) is stripped from the forwarded response and missing on every hit")
	} else {
		c.Pass(rule, "hop-table-exact", desc, fmt.Sprintf("%s: %d constant member(s)", c.P.ShortName(ht), len(have)))
	}
}

// ruleStoredValueIsFresh (C08.19 / C14.25): the memory backend keeps a copy of its own of every value: a slice made for that
// Set. Copying into the buffer of the value stored before (to save an allocation) keeps the old tail when the new
// value is shorter.
func ruleStoredValueIsFresh(c *Ctx, rule string) {
	mp := c.P.Pkg("store/memcache")
	if mp == nil {
		return
	}
	desc := "the memory backend never copies a new value into the buffer of the value it replaces"
	n := 0
	bad := ""
	for _, fn := range c.P.RepoFuncs {
		if fn.Pkg != mp || isTestOnly(c, fn) {
			continue
		}
		instrsOf(fn, func(in ssa.Instruction) {
			cc := callOf(in)
			if cc == nil {
				return
			}
			b, ok := cc.Value.(*ssa.Builtin)
			if !ok || b.Name() != "copy" || len(cc.Args) != 2 {
				return
			}
			n++
			fromMap := false
			c.P.TraceBack(cc.Args[0], TraceOpts{ThroughOps: true, NoParams: true, NoHeapFields: true}, func(x ssa.Value, _ []int) bool {
				if _, ok := x.(*ssa.Lookup); ok {
					fromMap = true
					return false
				}
				return true
			})
			if fromMap {
				bad = c.P.ShortName(fn) + "@" + c.P.InstrPos(in)
			}
		})
	}
	switch {
	case bad != "":
		c.Fail(rule, "stored-value-is-fresh", desc, bad+": the destination of the copy is the stored value's own buffer; when the variant list shrinks (a 200 without Vary replaces a variant) the JSON index keeps the tail of the old one, cannot be decoded, and every request for the URI is a MISS")
	default:
		c.Pass(rule, "stored-value-is-fresh", desc, fmt.Sprintf("%d copy call(s)", n))
	}
}

// ruleWrittenPortBeforeDefault (C09.24 / C07.16): where a port is chosen with cmp.Or, the written port comes first and the scheme's
// default last (cmp.Or returns its first non-zero argument).
func ruleWrittenPortBeforeDefault(c *Ctx, rule string) {
	desc := "in a cmp.Or over ports the URI's own port precedes the scheme's default"
	n := 0
	bad := ""
	ip := c.P.Pkg("internal")
	for _, fn := range c.P.RepoFuncs {
		if fn.Pkg != ip || isTestOnly(c, fn) {
			continue
		}
		instrsOf(fn, func(in ssa.Instruction) {
			call, ok := in.(*ssa.Call)
			if !ok {
				return
			}
			sc := call.Call.StaticCallee()
			if sc == nil {
				return
			}
			name := sc.String()
			if o := sc.Origin(); o != nil {
				name = o.String()
			}
			if !strings.HasPrefix(name, "cmp.Or") {
				return
			}
			args := sprintfArgs(&call.Call)
			isPort := func(v ssa.Value) bool {
				if v == nil {
					return false
				}
				return c.An.dependsOnCall(v, func(cc *ssa.Call) bool { return callIsMethod(&cc.Call, "net/url", "URL", "Port") })
			}
			isDefault := func(v ssa.Value) bool {
				cl, ok := v.(*ssa.Call)
				if !ok {
					return false
				}
				g := cl.Call.StaticCallee()
				return g != nil && c.P.IsRepoFunc(g) && !isPort(v)
			}
			firstPort, firstDefault := -1, -1
			for i, a := range args {
				if a == nil {
					continue
				}
				if isPort(a) && firstPort < 0 {
					firstPort = i
				}
				if isDefault(a) && firstDefault < 0 {
					firstDefault = i
				}
			}
			if firstPort < 0 || firstDefault < 0 {
				return
			}
			n++
			if firstDefault < firstPort {
				bad = c.P.ShortName(fn) + "@" + c.P.InstrPos(in)
			}
		})
	}
	switch {
	case bad != "":
		c.Fail(rule, "written-port-before-default", desc, bad+": the scheme's default port wins over the port that is written; `POST http://h:8081/x` answered with `Location: http://h/doc` counts as same-origin and deletes the fresh entry of `http://h/doc` (the next GET is a MISS)")
	default:
		c.Pass(rule, "written-port-before-default", desc, fmt.Sprintf("%d cmp.Or over ports", n))
	}
}

// ruleConfiguredTimeoutWins (C10.27): the operation timeout of the file-system backend is what bounds a blocked store
// operation. A configured value is used as it is; the default replaces only the zero value (never `max(configured,
// default)`).
func ruleConfiguredTimeoutWins(c *Ctx, rule string) {
	if c.P.Pkg("store/fscache") == nil {
		return
	}
	desc := "the configured operation timeout is not combined with the default by min/max"
	n := 0
	bad := ""
	for _, fn := range c.fsBackendFuncs() {
		instrsOf(fn, func(in ssa.Instruction) {
			st, ok := in.(*ssa.Store)
			if !ok || !typeIs(st.Val.Type(), "time", "Duration") {
				return
			}
			fa, ok := st.Addr.(*ssa.FieldAddr)
			if !ok || !strings.Contains(strings.ToLower(fieldName(fa.X.Type(), fa.Field)), "timeout") {
				return
			}
			n++
			if call, ok := st.Val.(*ssa.Call); ok {
				if b, ok := call.Call.Value.(*ssa.Builtin); ok && (b.Name() == "max" || b.Name() == "min") {
					for _, a := range call.Call.Args {
						if k, isK := constInt(a); isK && k != 0 { // (clamping a negative value to zero is fine)
							bad = c.P.ShortName(fn) + "@" + c.P.InstrPos(in)
						}
					}
				}
			}
		})
	}
	switch {
	case bad != "":
		c.Fail(rule, "configured-timeout-wins", desc, bad+": a timeout below the default is silently replaced by the default; with `timeout=200ms` a store read that blocks holds the round trip for five minutes instead of failing open to the origin")
	default:
		c.Pass(rule, "configured-timeout-wins", desc, fmt.Sprintf("%d timeout assignment(s)", n))
	}
}

// ruleIndexReaderReturnsNilOnError (C10.28): two callers of the index reader ignore its error and walk the list. With an error
// the reader returns no list: a partially decoded one (`[null,{"id":7}]` is `[nil, &ResponseRef{}]` after a JSON
// type error) has not passed the nil filter.
func ruleIndexReaderReturnsNilOnError(c *Ctx, rule string) {
	if !c.Need(rule, "readIndex") {
		return
	}
	ri := c.A.F("readIndex")
	desc := "the index reader returns a nil list with every error"
	n := 0
	bad := ""
	instrsOf(ri, func(in ssa.Instruction) {
		ret, ok := in.(*ssa.Return)
		if !ok || len(ret.Results) != 2 {
			return
		}
		errv := c.An.RetVal(ret, 1)
		if isNilConst(errv) {
			return
		}
		n++
		lst := c.An.RetVal(ret, 0)
		if k, ok := lst.(*ssa.Const); ok && k.IsNil() {
			return
		}
		// a phi / value that may be a decoded list
		bad = c.P.InstrPos(ret)
	})
	switch {
	case bad != "":
		c.Fail(rule, "index-reader-nil-on-error", desc, c.P.ShortName(ri)+"@"+bad+": a list is returned together with an error; index bytes `[null,{\"id\":7}]` come back as a list with a nil element, the unsafe-method path ignores the error and dereferences it: panic in RoundTrip")
	case n == 0:
		c.Pass(rule, "index-reader-nil-on-error", desc, c.P.ShortName(ri)+": no error return")
	default:
		c.Pass(rule, "index-reader-nil-on-error", desc, fmt.Sprintf("%s: %d error return(s)", c.P.ShortName(ri), n))
	}
}

// ruleOverflowSaturatesAtTheBound (C12.21): a delta-seconds value too large to represent acts as the greatest representable
// value (RFC 9111 §1.2.2), i.e. the same bound the in-range values are clamped to - not a smaller constant.
func ruleOverflowSaturatesAtTheBound(c *Ctx, rule string) {
	desc := "the value substituted for an out-of-range number is the bound in-range values are clamped to"
	n := 0
	bad := ""
	ip := c.P.Pkg("internal")
	for _, fn := range c.P.RepoFuncs {
		if fn.Pkg != ip || fn.Parent() != nil || isTestOnly(c, fn) {
			continue
		}
		rs := sigResults(fn)
		if len(rs) != 2 || !typeIs(rs[0], "time", "Duration") || !isBoolType(rs[1]) {
			continue
		}
		var clamp *ssa.Const
		instrsOf(fn, func(in ssa.Instruction) {
			if call, ok := in.(*ssa.Call); ok {
				if b, ok := call.Call.Value.(*ssa.Builtin); ok && b.Name() == "min" {
					for _, a := range call.Call.Args {
						if k, ok := a.(*ssa.Const); ok {
							clamp = k
						}
					}
				}
			}
		})
		if clamp == nil {
			continue
		}
		// constants merged with the parsed number under the range error
		instrsOf(fn, func(in ssa.Instruction) {
			phi, ok := in.(*ssa.Phi)
			if !ok || !isBasicKind(phi.Type(), types.Int64) {
				return
			}
			hasParsed := false
			for _, e := range phi.Edges {
				if _, isK := e.(*ssa.Const); !isK {
					hasParsed = true
				}
			}
			if !hasParsed {
				return
			}
			for _, e := range phi.Edges {
				k, ok := e.(*ssa.Const)
				if !ok {
					continue
				}
				n++
				if !constantEqual(k, clamp) {
					bad = c.P.ShortName(fn) + "@" + c.P.InstrPos(phi)
				}
			}
		})
	}
	switch {
	case bad != "":
		c.Fail(rule, "overflow-saturates-at-the-bound", desc, bad+": an out-of-range number is replaced by a constant below the clamp bound; `max-age=9223372036854775808` acts as 2147483647 s, shorter than the representable `max-age=2147483648`, and a response aged 2147483647 s is fetched again")
	default:
		c.Pass(rule, "overflow-saturates-at-the-bound", desc, fmt.Sprintf("%d substituted constant(s)", n))
	}
}

// ruleListValuesThroughTheSplitter (C12.22): the order-insensitive normaliser takes a list value apart with the repository's
// list splitter (which drops empty members and respects quoted commas), not with strings.Split on ",".
func ruleListValuesThroughTheSplitter(c *Ctx, rule string) {
	desc := "no normaliser splits a list value on commas with strings.Split"
	ip := c.P.Pkg("internal")
	n := 0
	bad := ""
	for fn := range c.A.Reach {
		top := fn
		for top.Parent() != nil {
			top = top.Parent()
		}
		if top.Pkg != ip {
			continue
		}
		instrsOf(fn, func(in ssa.Instruction) {
			cc := callOf(in)
			if cc == nil {
				return
			}
			if !(callIsPkgFunc(cc, "strings", "Split") || callIsPkgFunc(cc, "strings", "SplitSeq") || callIsPkgFunc(cc, "strings", "SplitN") || callIsPkgFunc(cc, "strings", "FieldsFunc")) {
				return
			}
			n++
			if len(cc.Args) >= 2 {
				if k, ok := constStr(cc.Args[1]); ok && k == "," {
					bad = c.P.ShortName(fn) + "@" + c.P.InstrPos(in)
				}
			}
		})
	}
	switch {
	case bad != "":
		c.Fail(rule, "list-values-through-the-splitter", desc, bad+": a list is cut at every comma; under `Vary: Cache-Control` the request `max-stale=5,,min-fresh=1` (an empty element) no longer selects the response stored for `max-stale=5,min-fresh=1`")
	default:
		c.Pass(rule, "list-values-through-the-splitter", desc, fmt.Sprintf("%d split call(s)", n))
	}
}

// ruleReadComesFirstInGet (C14.26): in the file-system backend's read the first access to the key's file is the read
// itself, whose not-exist error is mapped to the driver's sentinel. A Chtimes (update_mtime) in front of it reports
// an absent key with a raw system error.
func ruleReadComesFirstInGet(c *Ctx, rule string) {
	if c.P.Pkg("store/fscache") == nil {
		return
	}
	desc := "the access-time update of a read comes after the read"
	n := 0
	bad := ""
	for _, fn := range c.fsBackendFuncs() {
		var touch, reads []ssa.Instruction
		instrsOf(fn, func(in ssa.Instruction) {
			cc := callOf(in)
			if cc == nil {
				return
			}
			if callIsMethod(cc, "os", "Root", "Chtimes") || callIsPkgFunc(cc, "os", "Chtimes") {
				touch = append(touch, in)
			}
			if callIsMethod(cc, "os", "Root", "Open") || callIsMethod(cc, "os", "Root", "ReadFile") || callIsPkgFunc(cc, "os", "ReadFile") || callIsPkgFunc(cc, "os", "Open") {
				reads = append(reads, in)
			}
		})
		for _, t := range touch {
			for _, r := range reads {
				n++
				if _, isDefer := t.(*ssa.Defer); isDefer {
					bad = c.P.ShortName(fn) + "@" + c.P.InstrPos(t)
					continue
				}
				if !instrDominates(r, t) {
					bad = c.P.ShortName(fn) + "@" + c.P.InstrPos(t)
				}
			}
		}
	}
	switch {
	case bad != "":
		c.Fail(rule, "read-comes-first-in-get", desc, bad+": the access time is set before the file is read (or in a deferred call); with `update_mtime=on` Get of an absent key returns `chtimesat ...: no such file or directory` instead of the not-exist error, and the maintenance API answers 500 for it")
	default:
		c.Pass(rule, "read-comes-first-in-get", desc, fmt.Sprintf("%d touch/read pair(s)", n))
	}
}

// ruleGateLocksUnconditionally (C15.11): the gate between a timed-out operation and its publishing step works because both
// sides take the same lock and wait for it. TryLock lets `abandon` return while a rename is in flight.
func ruleGateLocksUnconditionally(c *Ctx, rule string) {
	if c.P.Pkg("store/fscache") == nil {
		return
	}
	desc := "the file-system backend never uses TryLock"
	n := 0
	bad := ""
	for _, fn := range c.fsBackendFuncs() {
		instrsOf(fn, func(in ssa.Instruction) {
			cc := callOf(in)
			if cc == nil {
				return
			}
			if callIsMethod(cc, "sync", "Mutex", "Lock") || callIsMethod(cc, "sync", "RWMutex", "Lock") {
				n++
			}
			if callIsMethod(cc, "sync", "Mutex", "TryLock") || callIsMethod(cc, "sync", "RWMutex", "TryLock") || callIsMethod(cc, "sync", "RWMutex", "TryRLock") {
				n++
				bad = c.P.ShortName(fn) + "@" + c.P.InstrPos(in)
			}
		})
	}
	switch {
	case bad != "":
		c.Fail(rule, "gate-locks-unconditionally", desc, bad+": when the lock is taken the caller goes on without it; Set(A) reports its timeout while A's rename is in flight, Set(B) succeeds, then A lands over B: Get returns a value whose Set had failed before B began")
	default:
		c.Pass(rule, "gate-locks-unconditionally", desc, fmt.Sprintf("%d lock call(s)", n))
	}
}
