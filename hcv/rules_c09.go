package hcv

import (
	"fmt"
	"sort"
	"strings"

	"golang.org/x/tools/go/ssa"
)

func init() {
	register(&Property{
		ID:    "C09",
		Title: "Fresh matching responses are served from the store",
		Decides: "in the hit-decision function, under {not stale, no request no-cache, no stored no-cache} no origin call and no background spawn is reachable (only serving remains); " +
			"RoundTrip reaches the hit decision when gate, index read, match and entry read succeed; on the miss path a storable origin response must pass the entry write and " +
			"the index write; key function, header normaliser, heuristic status table and codec are shared between the storing and the looking-up side; the file name is a pure " +
			"function of the key; the id read is the id recorded in the index.",
		NotDecided: "the composed store->lookup round trip for every input; time-dependent freshness.",
		Rules: []Rule{
			{ID: "C09.1", Desc: "liveness rows", Run: ruleC09_1, MinSites: 3},
			{ID: "C09.2", Desc: "agreements: keyer, normaliser, heuristic table, codec", Run: ruleC09_2, MinSites: 4},
			{ID: "C09.3", Desc: "file name is a pure function of the key", Run: ruleC09_3, MinSites: 1},
			{ID: "C09.4", Desc: "the id looked up is the id stored", Run: ruleC09_4, MinSites: 2},
			{ID: "C09.9", Desc: "every URI key gets a usable file name (the component limit is tested on the encoded name), so long URIs are stored too", Run: func(c *Ctx) { ruleC14_7(c); renameRule(c, "C14.7", "C09.9") }, MinSites: 1},
			{ID: "C09.8", Desc: "the variant list read is the list handed to the miss/hit/store paths", Run: func(c *Ctx) { ruleIndexHandedOn(c, "C09.8") }, MinSites: 1},
			{ID: "C09.7", Desc: "Expires-based lifetime is Expires minus Date (a shorter lifetime makes fresh entries miss)", Run: func(c *Ctx) { ruleExpiresMinusDate(c, "C09.7") }, MinSites: 1},
			{ID: "C09.6", Desc: "values written to the JSON index survive the encoding (else the variant is never selected again)", Run: func(c *Ctx) { ruleIndexValuesUTF8Safe(c, "C09.6") }, MinSites: 1},
			{ID: "C09.5", Desc: "synthesised Date is valid UTC (a wrong Date makes fresh entries look stale)", Run: func(c *Ctx) { ruleDateRepair(c, "C09.5") }, MinSites: 1},
			{ID: "C09.10", Desc: "equivalent spellings with percent-encoded dot segments share the key (decode before dot-segment removal)", Run: func(c *Ctx) { ruleDotAfterDecode(c, "C09.10") }, MinSites: 1},
			{ID: "C09.11", Desc: "tables of header field names are keyed by canonical names (TE is looked up as Te)", Run: func(c *Ctx) { ruleHeaderTablesCanonical(c, "C09.11") }, MinSites: 1},
			{ID: "C09.12", Desc: "a lifetime too large to represent saturates instead of counting as absent (else the response is never fresh)", Run: func(c *Ctx) { ruleSaturation(c, "C09.12") }, MinSites: 2},
			{ID: "C09.13", Desc: "unreserved escapes are decoded by the predicate alone", Run: func(c *Ctx) { ruleDecodeByPredicateOnly(c, "C09.13") }, MinSites: 1},
			{ID: "C09.14", Desc: "the entry parser splits the metadata line on the writer's separator (an id may contain a space)", Run: func(c *Ctx) { ruleMetaLineSeparator(c, "C09.14") }, MinSites: 1},
			{ID: "C09.15", Desc: "a path is unescaped with the path rules", Run: func(c *Ctx) { rulePathUnescape(c, "C09.15") }, MinSites: 1},
			{ID: "C09.16", Desc: "a cache reopened with its DSN uses the DSN's key", Run: func(c *Ctx) { ruleDSNKeyFirst(c, "C09.16") }, MinSites: 1},
			{ID: "C09.17", Desc: "a stored response has a Date whatever its Connection field names (without one it is never fresh)", Run: func(c *Ctx) { ruleDateSurvivesStrip(c, "C09.17") }, MinSites: 1},
			{ID: "C09.18", Desc: "a stored variant stays referenced when another exchange for the URI writes the list back", Run: func(c *Ctx) { ruleIndexUpdateAtomic(c, "C09.18") }, MinSites: 1},
			{ID: "C09.19", Desc: "equal nominated values in another order normalise to the same text (no buffer shared between list members)", Run: func(c *Ctx) { ruleScratchReuseEscapes(c, "C09.19") }, MinSites: 1},
			{ID: "C09.20", Desc: "a background validation writes back into the list its position refers to (another variant keeps its reference and stays a HIT)", Run: func(c *Ctx) { ruleC08_9(c); renameRule(c, "C08.9", "C09.20") }, MinSites: 1},
			{ID: "C09.21", Desc: "a Date ahead of the local clock does not age the response (apparent age clamped at zero, all RFC terms)", Run: func(c *Ctx) { ruleC01_4(c); renameRule(c, "C01.4", "C09.21") }, MinSites: 3},
			{ID: "C09.22", Desc: "min-fresh is measured against the freshness lifetime (Expires, heuristic), not the max-age value", Run: func(c *Ctx) { ruleMinFreshAgainstLifetime(c, "C09.22") }, MinSites: 1},
			{ID: "C09.23", Desc: "the lifetime comes from max-age, then Expires, then the heuristic (s-maxage is not a private cache's)", Run: func(c *Ctx) { ruleC01_1(c); renameRule(c, "C01.1", "C09.23") }, MinSites: 1},
			{ID: "C09.24", Desc: "a response on another port does not evict the entry (the written port precedes the default)", Run: func(c *Ctx) { ruleWrittenPortBeforeDefault(c, "C09.24") }, MinSites: 1},
			{ID: "C09.25", Desc: "the entry's request time is read from the clock in front of the origin call and its response time behind it, on every path into the entry", Run: func(c *Ctx) { ruleTimeRoles(c, "C09.25") }, MinSites: 2},
			{ID: "C09.26", Desc: "every index read and write reachable from RoundTrip uses the result of the URL key function as its key", Run: func(c *Ctx) { ruleIndexKeyIsURLKey(c, "C09.26") }, MinSites: 3},
			{ID: "C09.27", Desc: "the entry read and the position handed on use the matcher's result as index into the matched list", Run: func(c *Ctx) { ruleLookupPosition(c, "C09.27") }, MinSites: 2},
			{ID: "C09.28", Desc: "after a 304 the entry's times are those of the validation exchange (it is fresh for its whole new lifetime)", Run: func(c *Ctx) { ruleC08_2(c); renameRule(c, "C08.2", "C09.28") }, MinSites: 1},
			{ID: "C09.29", Desc: "every field of the entry's meta line is read from the column it is written to (request and response time survive the store in their roles)", Run: func(c *Ctx) { ruleMetaLineColumns(c, "C09.29") }, MinSites: 1},
		},
	})
}

// hitHandler: the function on the exchange that calls the freshness calculator.
func (c *Ctx) hitHandler() *ssa.Function {
	var out *ssa.Function
	for fn := range c.A.Reach {
		instrsOf(fn, func(in ssa.Instruction) {
			if c.An.CallsRole(in, "freshness") {
				out = fn
			}
		})
	}
	return out
}

func ruleC09_1(c *Ctx) {
	hh := c.hitHandler()
	if hh == nil {
		c.Undecided("C09.1", "hit-handler", "the hit-decision function is identifiable", "no function on the exchange calls the freshness calculator")
		return
	}
	// "unconstrained": the request carries neither no-cache nor a max-age
	assume := map[string]bool{"fr.stale": false, "rq.no-cache": false, "rs.no-cache.ok": false, "rq.max-age.ok": false}
	res := c.An.Forbid(hh, assume, "UPSTREAM", c.An.IsUpstreamSite, true)
	desc := fmt.Sprintf("under %s the hit decision can only serve: no origin call, no background spawn", assumeString(assume))
	if len(res.Findings) > 0 {
		f := res.Findings[0]
		c.Fail("C09.1", "row=fresh-unconstrained-serves", desc, fmt.Sprintf("%s: `%s` stays reachable%s: an extra condition sends a fresh, unconstrained hit to the origin (safe but useless cache)",
			c.P.InstrPos(f.Instr), f.Instr.String(), leafText(f.Leaf)), res.Deciders...)
	} else if len(res.Deciders) == 0 {
		c.Undecided("C09.1", "row=fresh-unconstrained-serves", desc, "no assumed atom is evaluated in the hit handler")
	} else {
		c.Pass("C09.1", "row=fresh-unconstrained-serves", desc, append([]string{c.P.ShortName(hh)}, res.Deciders...)...)
	}
	// and a serve site is reachable under the same assumption
	sr := c.An.Forbid(hh, assume, "SERVE", c.An.IsServeReturn, false)
	if len(sr.Findings) == 0 {
		c.Fail("C09.1", "row=fresh-serve-reachable", "a serve site is reachable for a fresh unconstrained hit", c.P.ShortName(hh)+": no return of the stored response reachable under "+assumeString(assume))
	} else {
		c.Pass("C09.1", "row=fresh-serve-reachable", "a serve site is reachable for a fresh unconstrained hit", c.P.ShortName(sr.Findings[0].Fn)+"@"+c.P.InstrPos(sr.Findings[0].Instr))
	}
	// RoundTrip reaches the hit handler when everything succeeds
	root := c.A.Root
	pr := c.An.Prune(root, func(a *Atom) (bool, bool) {
		switch a.Key {
		case "pred:gate":
			return true, true
		case "nil:err":
			return true, true
		}
		return false, false
	})
	live := false
	pr.LiveInstrs(func(in ssa.Instruction) {
		if ci, ok := in.(ssa.CallInstruction); ok {
			for _, cal := range c.P.RepoCallees(ci) {
				if cal == hh {
					live = true
				}
			}
		}
	})
	if live {
		c.Pass("C09.1", "row=lookup-reaches-hit", "RoundTrip reaches the hit decision when gate and store reads succeed", c.P.ShortName(root))
	} else {
		c.Fail("C09.1", "row=lookup-reaches-hit", "RoundTrip reaches the hit decision when gate and store reads succeed", c.P.ShortName(root)+": the hit handler call is dead under {gate=T, store errors nil}")
	}
	// miss path: storable origin response must be stored
	nMiss := 0
	defer func() {
		if nMiss == 0 {
			c.Fail("C09.1", "row=miss-stores", "a function on the exchange fetches from the origin and stores the answer", "no function reachable from RoundTrip both calls the origin and the storing function: nothing is ever stored")
		}
	}()
	for fn := range c.A.Reach {
		hasUp := false
		hasStore := false
		instrsOf(fn, func(in ssa.Instruction) {
			if ci, ok := in.(ssa.CallInstruction); ok {
				for _, cal := range c.P.RepoCallees(ci) {
					if c.An.MayUpstream(cal, false) {
						hasUp = true
					}
				}
			}
			if c.An.CallsRole(in, "storeResp") {
				hasStore = true
			}
		})
		if !hasUp || !hasStore || fn == c.A.F("validationHandler") {
			continue
		}
		nMiss++
		pr := c.An.Prune(fn, func(a *Atom) (bool, bool) {
			switch a.Key {
			case "rq.only-if-cached":
				return false, true
			case "nil:err":
				return true, true
			case "pred:canStore":
				return true, true
			}
			if strings.HasPrefix(a.Key, "cmp:status") {
				// a 200 answer
				return evalCmp(200, a), true
			}
			return false, false
		})
		isRespRet := func(in ssa.Instruction) bool {
			r, ok := in.(*ssa.Return)
			return ok && len(r.Results) == 2 && !isNilConst(r.Results[0]) && !c.An.isRepoCallResult(r.Results[0])
		}
		r := c.An.MustPass(pr, isRespRet, func(in ssa.Instruction) bool { return c.An.CallsRole(in, "storeResp") })
		desc := "on the miss path a storable origin response passes the storing call before it is returned"
		if r.Targets == 0 {
			c.Undecided("C09.1", "row=miss-stores fn="+c.P.ShortName(fn), desc, "no response return live")
		} else if !r.OK {
			c.Fail("C09.1", "row=miss-stores fn="+c.P.ShortName(fn), desc, c.P.InstrPos(r.Missing[0])+": return reachable without storing under {only-if-cached=F, err==nil, canStore=T, status 200}")
		} else {
			c.Pass("C09.1", "row=miss-stores fn="+c.P.ShortName(fn), desc, c.P.ShortName(fn))
		}
	}
	// the storing function must pass both writes (on its success path)
	if sr := c.A.F("storeResp"); sr != nil {
		pr := c.An.Prune(sr, func(a *Atom) (bool, bool) {
			if a.Key == "nil:err" {
				return true, true
			}
			if strings.HasPrefix(a.Key, "cmp:status") {
				return evalCmp(200, a), true
			}
			return false, false
		})
		for _, role := range []string{"writeEntry", "writeIndex"} {
			r := c.An.MustPass(pr, nil, func(in ssa.Instruction) bool { return c.An.CallsRole(in, role) })
			d := "the storing function passes the " + role + " call on every path without an error"
			if r.OK && r.Targets > 0 {
				c.Pass("C09.1", "row=store-"+role, d, c.P.ShortName(sr))
			} else {
				where := c.P.ShortName(sr)
				if len(r.Missing) > 0 {
					where = c.P.InstrPos(r.Missing[0])
				}
				c.Fail("C09.1", "row=store-"+role, d, where+": a return is reachable without "+role)
			}
		}
	}
}

func evalCmp(k int64, a *Atom) bool {
	switch a.Op.String() {
	case "==":
		return k == a.K
	case "!=":
		return k != a.K
	case "<":
		return k < a.K
	case "<=":
		return k <= a.K
	case ">":
		return k > a.K
	case ">=":
		return k >= a.K
	}
	return false
}

func ruleC09_2(c *Ctx) {
	ruleOneKeyer(c, "C09.2")
	ruleOneNormaliser(c, "C09.2")
	ruleRLIST(c, "C09.2", "<nominated>")
	// heuristic table agreement is C06.4's; restated here as a structural fact
	if heur, cs, ff := c.A.F("heurStatus"), c.A.F("canStore"), c.A.F("freshness"); heur != nil && cs != nil && ff != nil {
		uses := func(fn *ssa.Function) bool {
			return c.P.StaticTree(fn)[heur] // directly or through a helper
		}
		if uses(cs) && uses(ff) {
			c.Pass("C09.2", "heuristic-table-agreement", "storability and heuristic lifetime consult the same status table", c.P.ShortName(heur))
		} else {
			c.Fail("C09.2", "heuristic-table-agreement", "storability and heuristic lifetime consult the same status table", "different tables: a stored response may never be fresh")
		}
	}
	ruleCodecPair(c, "C09.2")
}

func ruleC09_3(c *Ctx) {
	// the file namer of the file-system backend: func(string) string in the fscache package used by get/set/delete
	var namer *ssa.Function
	for _, fn := range c.P.RepoFuncs {
		if fn.Pkg == nil || fn.Pkg.Pkg.Path() != c.A.fscachePath || fn.Parent() != nil || fn.Signature.Recv() != nil {
			continue
		}
		ps, rs := sigParams(fn), sigResults(fn)
		if len(ps) == 1 && len(rs) == 1 && isStringType(ps[0]) && isStringType(rs[0]) && callsWhere(fn, func(cc *ssa.CallCommon) bool {
			sc := cc.StaticCallee()
			return sc != nil && sc.Name() == "EncodeToString"
		}) {
			namer = fn
		}
	}
	desc := "the file name is a pure function of the key (no clock, randomness or process state)"
	if namer == nil {
		c.Undecided("C09.3", "file-namer", desc, "no func(string) string encoding the key in the file-system backend")
		return
	}
	if why := c.An.EffectFree(namer); why != "" {
		c.Fail("C09.3", "file-namer-pure", desc, c.P.ShortName(namer)+": "+why)
		return
	}
	// no reads of globals other than encodings; no calls into time/rand/os
	bad := ""
	for _, fn := range c.reachableFrom(namer) {
		instrsOf(fn, func(in ssa.Instruction) {
			if call := callOf(in); call != nil {
				if sc := call.StaticCallee(); sc != nil && sc.Pkg != nil {
					switch sc.Pkg.Pkg.Path() {
					case "time", "math/rand", "math/rand/v2", "crypto/rand", "os":
						bad = c.P.InstrPos(in) + ": calls " + sc.String()
					}
				}
			}
		})
	}
	if bad != "" {
		c.Fail("C09.3", "file-namer-pure", desc, bad+": names change between runs and every lookup after a reopen misses")
		return
	}
	c.Pass("C09.3", "file-namer-pure", desc, c.P.ShortName(namer))
}

func ruleC09_4(c *Ctx) {
	if !c.Need("C09.4", "readEntry", "storeResp", "writeEntry") {
		return
	}
	// lookup side: the key passed to the entry read is a ResponseID loaded from an index element
	n := 0
	instrsOf(c.A.Root, func(in ssa.Instruction) {
		if !c.An.CallsRole(in, "readEntry") {
			return
		}
		n++
		_, args := recvAndArgs(callOf(in))
		ok := false
		c.P.TraceBack(args[0], TraceOpts{NoParams: true, NoHeapFields: true}, func(v ssa.Value, _ []int) bool {
			if u, isU := v.(*ssa.UnOp); isU {
				if fa, isFA := u.X.(*ssa.FieldAddr); isFA && c.An.IsRefIDField(fa) {
					ok = true
					return false
				}
			}
			return true
		})
		d := "the entry read uses the response id recorded in the matched index element"
		if ok {
			c.Pass("C09.4", "lookup-id", d, c.P.InstrPos(in))
		} else {
			c.Fail("C09.4", "lookup-id", d, c.P.InstrPos(in)+": key argument is not the matched element's response id")
		}
	})
	if n == 0 {
		c.Undecided("C09.4", "lookup-id", "RoundTrip reads an entry", "no entry read in RoundTrip")
	}
	// storing side: the key given to the entry write is the value stored into the index element's id field
	sr := c.A.F("storeResp")
	var writeKey ssa.Value
	instrsOf(sr, func(in ssa.Instruction) {
		if c.An.CallsRole(in, "writeEntry") {
			_, args := recvAndArgs(callOf(in))
			writeKey = args[0]
		}
	})
	var idStores []ssa.Value
	instrsOf(sr, func(in ssa.Instruction) {
		if s, ok := in.(*ssa.Store); ok {
			if fa, ok := s.Addr.(*ssa.FieldAddr); ok && c.An.IsRefIDField(fa) {
				idStores = append(idStores, s.Val)
			}
		}
	})
	d := "the id recorded in the index is the key the entry was written under"
	if writeKey == nil || len(idStores) == 0 {
		c.Undecided("C09.4", "store-id", d, "entry write or id store not found in "+c.P.ShortName(sr))
		return
	}
	same := true
	for _, v := range idStores {
		if !c.An.sameCanon(v, writeKey) {
			same = false
		}
	}
	if same {
		c.Pass("C09.4", "store-id", d, c.P.ShortName(sr))
	} else {
		c.Fail("C09.4", "store-id", d, c.P.ShortName(sr)+": entry key and recorded id are different values; every lookup misses")
	}
	// the id is a function of the URL key and the resolved selecting values only (C19.3)
	ruleIDPure(c, "C09.4")
}

// ruleIDPure (C19.3): the response id depends only on the URL key and the resolved selecting values; effect-free.
func ruleIDPure(c *Ctx, rule string) {
	sr := c.A.F("storeResp")
	if sr == nil {
		return
	}
	var idCall *ssa.Call
	instrsOf(sr, func(in ssa.Instruction) {
		if c.An.CallsRole(in, "writeEntry") {
			_, args := recvAndArgs(callOf(in))
			c.P.TraceBack(args[0], TraceOpts{NoParams: true, NoHeapFields: true}, func(v ssa.Value, _ []int) bool {
				if call, ok := v.(*ssa.Call); ok && call.Call.IsInvoke() {
					idCall = call
					return false
				}
				return true
			})
		}
	})
	d := "the response id is an effect-free function of the URL key and the resolved selecting values"
	if idCall == nil {
		c.Undecided(rule, "id-function", d, "the id is not produced by an interface call in "+c.P.ShortName(sr))
		return
	}
	var names []string
	for _, cal := range c.P.Callees(idCall) {
		targets := append([]*ssa.Function{cal}, c.An.AdapterTargets(cal)...)
		for _, t := range targets {
			if !c.P.IsRepoFunc(t) {
				continue
			}
			names = append(names, c.P.ShortName(t))
			if why := c.An.EffectFree(t); why != "" {
				c.Fail(rule, "id-function", d, c.P.ShortName(t)+": "+why)
				return
			}
			bad := ""
			for _, fn := range c.reachableFrom(t) {
				instrsOf(fn, func(in ssa.Instruction) {
					if call := callOf(in); call != nil {
						if sc := call.StaticCallee(); sc != nil && sc.Pkg != nil {
							switch sc.Pkg.Pkg.Path() {
							case "time", "math/rand", "math/rand/v2", "crypto/rand", "os":
								bad = c.P.InstrPos(in) + ": calls " + sc.String()
							}
						}
					}
				})
			}
			if bad != "" {
				c.Fail(rule, "id-function", d, bad+": ids differ between requests; the store grows without bound and nothing is ever found")
				return
			}
		}
	}
	sort.Strings(names)
	c.Pass(rule, "id-function", d, names...)
	// and nothing else: the key the entry is written under has the id function's result as its only source (an id taken
	// over from an existing index record, for instance, is the id of whatever variant that record described)
	d2 := "the entry key is the id function's result on every path (never an id read from an existing record)"
	other := ""
	instrsOf(sr, func(in ssa.Instruction) {
		if !c.An.CallsRole(in, "writeEntry") {
			return
		}
		_, args := recvAndArgs(callOf(in))
		c.P.TraceBack(args[0], TraceOpts{NoParams: true, NoHeapFields: true}, func(v ssa.Value, _ []int) bool {
			switch y := v.(type) {
			case *ssa.Call:
				return false // the id function (checked above)
			case *ssa.Phi:
				return true
			case *ssa.UnOp:
				if _, isCell := y.X.(*ssa.Alloc); isCell {
					return true
				}
				if fa, ok := y.X.(*ssa.FieldAddr); ok {
					if _, local := c.An.canon(fa.X).(*ssa.Alloc); local {
						return true
					}
					other = fmt.Sprintf("%s `%s` (a load of %s)", c.P.InstrPos(y), y.String(), fieldName(fa.X.Type(), fa.Field))
					return false
				}
				other = fmt.Sprintf("%s `%s`", c.P.InstrPos(y), y.String())
				return false
			case *ssa.Const, *ssa.Parameter:
				other = fmt.Sprintf("%s `%s`", c.P.Pos(v.Pos()), v.String())
				return false
			}
			return true
		})
	})
	if other != "" {
		c.Fail(rule, "id-only-from-function", d2, c.P.ShortName(sr)+": the key can also be "+other+"; after the origin changed its Vary, a record for {X-Device: phone} points at the key of {Accept-Language: de}, and whoever matches the former is served the latter")
	} else {
		c.Pass(rule, "id-only-from-function", d2, c.P.ShortName(sr))
	}
}
