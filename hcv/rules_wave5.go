package hcv

import (
	"fmt"
	"go/token"
	"go/types"
	"sort"
	"strings"

	"golang.org/x/tools/go/ssa"
)

// Rules added after the fifth independent seeding (DESIGN §11.7).

// quotedStringDecoders: functions of package internal with one string parameter that compare input bytes with both
// '"' and '\\' and write bytes into a builder (the quoted-string decoder and its variants).
func (c *Ctx) quotedStringDecoders() []*ssa.Function {
	ip := c.P.Pkg("internal")
	var out []*ssa.Function
	for _, fn := range c.P.RepoFuncs {
		if fn.Pkg != ip || fn.Parent() != nil || isTestOnly(c, fn) {
			continue
		}
		ps := sigParams(fn)
		if len(ps) != 1 || !isStringType(ps[0]) {
			continue
		}
		ks := intConstsIn(fn)
		if !ks['"'] || !ks['\\'] {
			continue
		}
		writes := false
		instrsOf(fn, func(in ssa.Instruction) {
			if cc := callOf(in); cc != nil && (callIsMethod(cc, "strings", "Builder", "WriteByte") || callIsMethod(cc, "bytes", "Buffer", "WriteByte")) {
				writes = true
			}
		})
		if writes && !c.A.Reach[fn] {
			// the decoder is reached through the directive accessors
			for g := range c.A.Reach {
				if c.P.StaticTree(g)[fn] {
					out = append(out, fn)
					break
				}
			}
			continue
		}
		if writes {
			out = append(out, fn)
		}
	}
	sort.Slice(out, func(i, j int) bool { return FuncName(out[i]) < FuncName(out[j]) })
	return out
}

// ruleQuotedPair (C12.15 / C02.12): a quoted-pair `\x` stands for the octet x (RFC 9110 §5.6.4). In the quoted-string decoder,
// inside the branch taken for a backslash, what is written is never the backslash itself (neither the value that was
// compared with it nor the constant): `max-age="\0"` is max-age=0, `no-cache="Set\-Cookie"` names Set-Cookie.
func ruleQuotedPair(c *Ctx, rule string) {
	desc := "in the quoted-string decoder a quoted-pair contributes exactly the escaped octet"
	decs := c.quotedStringDecoders()
	if len(decs) == 0 {
		c.Undecided(rule, "quoted-pair", desc, "no quoted-string decoder found in package internal")
		return
	}
	n := 0
	bad := ""
	for _, fn := range decs {
		instrsOf(fn, func(in ssa.Instruction) {
			cc := callOf(in)
			if cc == nil || !(callIsMethod(cc, "strings", "Builder", "WriteByte") || callIsMethod(cc, "bytes", "Buffer", "WriteByte")) {
				return
			}
			_, args := recvAndArgs(cc)
			if len(args) != 1 {
				return
			}
			// is this write inside the backslash branch?
			var cmpd ssa.Value
			for _, dc := range dominatingConds(in.Block()) {
				for _, lf := range condLeaves(dc.cond, dc.onTrue) {
					bo, ok := lf.v.(*ssa.BinOp)
					if !ok || !(bo.Op == token.EQL && lf.val || bo.Op == token.NEQ && !lf.val) {
						continue
					}
					if k, ok := constInt(bo.Y); ok && k == '\\' {
						cmpd = bo.X
					}
					if k, ok := constInt(bo.X); ok && k == '\\' {
						cmpd = bo.Y
					}
				}
			}
			if cmpd == nil {
				return
			}
			n++
			if k, ok := constInt(args[0]); ok && k == '\\' {
				bad = c.P.ShortName(fn) + "@" + c.P.InstrPos(in) + ": writes a backslash"
			}
			if args[0] == cmpd {
				bad = c.P.ShortName(fn) + "@" + c.P.InstrPos(in) + ": writes the octet that was found to be the backslash"
			}
		})
	}
	switch {
	case n == 0:
		c.Undecided(rule, "quoted-pair", desc, "no write inside a backslash branch in "+c.P.ShortName(decs[0]))
	case bad != "":
		c.Fail(rule, "quoted-pair", desc, bad+" for a quoted-pair; `max-age=\"\\0\"` is no longer 0 (the stored response is reused unvalidated) and `no-cache=\"Set\\-Cookie\"` no longer names Set-Cookie (it is replayed from the store)")
	default:
		c.Pass(rule, "quoted-pair", desc, fmt.Sprintf("%d write(s) in backslash branches", n))
	}
}

// dateAccessors: methods of the entry type that return a time.Time read from the "Date" field.
func (c *Ctx) dateAccessors() []*ssa.Function {
	var out []*ssa.Function
	for fn := range c.A.Reach {
		if fn.Parent() != nil || fn.Signature.Recv() == nil || !(isPtrToNamed(fn.Signature.Recv().Type(), c.A.EntryT) || isNamed(fn.Signature.Recv().Type(), c.A.EntryT)) {
			continue
		}
		rs := sigResults(fn)
		if len(rs) == 0 || !typeIs(rs[0], "time", "Time") {
			continue
		}
		if headerCallWithKey(fn, "Get", "Date") {
			out = append(out, fn)
		}
	}
	sort.Slice(out, func(i, j int) bool { return FuncName(out[i]) < FuncName(out[j]) })
	return out
}

// ruleDateAccessorPure (C01.21 / C09.17): the entry's Date is what the Date field decodes to, and nothing else: the accessor's result
// does not depend on the entry's own time stamps. (A Date "corrected" to the time of receipt lengthens an Expires-based
// lifetime by the origin's clock offset while the apparent age stays 0.)
func ruleDateAccessorPure(c *Ctx, rule string) {
	desc := "the entry's Date accessor returns the decoded Date field, never one of the entry's own time stamps"
	accs := c.dateAccessors()
	if len(accs) == 0 {
		c.Undecided(rule, "date-accessor-pure", desc, "no Date accessor on the entry type")
		return
	}
	bad := ""
	for _, fn := range accs {
		instrsOf(fn, func(in ssa.Instruction) {
			r, ok := in.(*ssa.Return)
			if !ok || len(r.Results) == 0 {
				return
			}
			c.P.TraceBack(c.An.RetVal(r, 0), TraceOpts{ThroughOps: true, ThroughExtern: true, NoParams: true, NoHeapFields: true}, func(v ssa.Value, _ []int) bool {
				if u, ok := v.(*ssa.UnOp); ok {
					if fa, ok := u.X.(*ssa.FieldAddr); ok && (isPtrToNamed(fa.X.Type(), c.A.EntryT)) && typeIs(derefType(fa.Type()), "time", "Time") {
						bad = c.P.ShortName(fn) + "@" + c.P.InstrPos(r) + ": returns " + fieldName(fa.X.Type(), fa.Field)
						return false
					}
				}
				if f, ok := v.(*ssa.Field); ok && typeIs(f.Type(), "time", "Time") {
					bad = c.P.ShortName(fn) + "@" + c.P.InstrPos(r) + ": returns a time stamp of the entry"
					return false
				}
				return true
			})
		})
	}
	if bad != "" {
		c.Fail(rule, "date-accessor-pure", desc, bad+" in place of the Date; with an origin whose clock is an hour ahead, `Expires = Date+60s` gives a lifetime of an hour and a minute, and a response that arrived with `Age: 100` is a HIT")
		return
	}
	c.Pass(rule, "date-accessor-pure", desc, c.P.ShortName(accs[0]))
}

// ruleDatesThroughTheDecoder (C11.12 / C01.22): every date field of a message is decoded by the repository's date decoder (which
// accepts the three formats of RFC 9110 §5.6.7). time.Parse with one layout applied to a header value rejects the
// obsolete formats: the Date counts as missing in one place and as present in another.
func ruleDatesThroughTheDecoder(c *Ctx, rule string) {
	desc := "header date values are decoded by the lenient HTTP date decoder, never by time.Parse with a single layout"
	n := 0
	bad := ""
	for fn := range c.A.Reach {
		instrsOf(fn, func(in ssa.Instruction) {
			cc := callOf(in)
			if cc == nil || !callIsPkgFunc(cc, "time", "Parse") || len(cc.Args) != 2 {
				return
			}
			fromHeader := c.An.dependsOnCall(cc.Args[1], func(x *ssa.Call) bool {
				return callIsMethod(&x.Call, "net/http", "Header", "Get") || callIsMethod(&x.Call, "net/http", "Header", "Values")
			})
			if !fromHeader {
				return
			}
			n++
			bad = c.P.ShortName(fn) + "@" + c.P.InstrPos(in)
		})
	}
	if bad != "" {
		c.Fail(rule, "dates-through-the-decoder", desc, bad+": a header value is parsed with time.Parse; an rfc850 or asctime Date (valid per RFC 9110 §5.6.7) decodes to the zero time, the apparent age saturates, and a response stored a moment ago is served as STALE with `Age: 9223372036`")
		return
	}
	c.Pass(rule, "dates-through-the-decoder", desc, "no time.Parse on a header value on the exchange")
}

// ruleFileNameFromKeyBytes (C03.9 / C14.16 / C09.18): the file name is computed from the key's bytes as they are. Any string
// transformation between the key parameter and the encoder (ToValidUTF8, ToLower, Trim…, Replace…) maps different keys
// to one file: `?q=caf\xe9` and `?q=caf\xe8` then share an index file, and the second URI is served the first one's
// response.
func ruleFileNameFromKeyBytes(c *Ctx, rule string) {
	fp := c.P.Pkg("store/fscache")
	if fp == nil {
		return
	}
	desc := "the file namer encodes the key's own bytes (no lossy string function in front of the encoder)"
	n := 0
	bad := ""
	for _, fn := range c.P.RepoFuncs {
		if fn.Pkg != fp || fn.Parent() != nil {
			continue
		}
		ps, rs := sigParams(fn), sigResults(fn)
		if !(len(ps) == 1 && len(rs) == 1 && isStringType(ps[0]) && isStringType(rs[0]) && callsNamed(fn, "EncodeToString")) {
			continue
		}
		instrsOf(fn, func(in ssa.Instruction) {
			cc := callOf(in)
			if cc == nil || !callIsMethod(cc, "encoding/base64", "Encoding", "EncodeToString") {
				return
			}
			n++
			_, args := recvAndArgs(cc)
			// walk back from the encoder's input to the parameter: only conversions are allowed on the way
			v := args[0]
			for i := 0; i < 8; i++ {
				switch x := v.(type) {
				case *ssa.Convert:
					v = x.X
					continue
				case *ssa.ChangeType:
					v = x.X
					continue
				case *ssa.Parameter:
					return
				case *ssa.Call:
					bad = c.P.ShortName(fn) + "@" + c.P.InstrPos(x) + ": the key passes `" + x.Call.Value.Name() + "` before it is encoded"
					return
				case *ssa.Phi:
					bad = c.P.ShortName(fn) + "@" + c.P.InstrPos(in) + ": the encoded text is chosen by a branch"
					return
				default:
					bad = c.P.ShortName(fn) + "@" + c.P.InstrPos(in) + ": the encoder's input is not the key parameter"
					return
				}
			}
		})
	}
	switch {
	case n == 0:
		c.Undecided(rule, "file-name-from-key-bytes", desc, "no base64 encoding in a file namer of store/fscache")
	case bad != "":
		c.Fail(rule, "file-name-from-key-bytes", desc, bad+"; keys that differ only in what the transformation removes share one file: the index of `?q=caf\\xe9` is the index of `?q=caf\\xe8`, whose first request is answered with the other URI's response")
	default:
		c.Pass(rule, "file-name-from-key-bytes", desc, fmt.Sprintf("%d encoder call(s)", n))
	}
}

// ruleVaryNamesCanonical (C04.14): the store side records the nominated field names in the form the matcher looks them up
// in the request header (the canonical form, the key form of http.Header). Every name that goes into the resolved map
// of a variant has passed the canonicaliser.
func ruleVaryNamesCanonical(c *Ctx, rule string) {
	desc := "nominated field names are canonicalised before they key the resolved variant"
	ip := c.P.Pkg("internal")
	n := 0
	bad := ""
	isCanon := func(x *ssa.Call) bool {
		if callIsPkgFunc(&x.Call, "net/http", "CanonicalHeaderKey") || callIsPkgFunc(&x.Call, "net/textproto", "CanonicalMIMEHeaderKey") {
			return true
		}
		// the repository's canonicalising splitter
		if sc := x.Call.StaticCallee(); sc != nil && c.P.IsRepoFunc(sc) {
			for g := range c.P.StaticTree(sc) {
				hit := false
				instrsOf(g, func(in ssa.Instruction) {
					if cc := callOf(in); cc != nil && (callIsPkgFunc(cc, "net/http", "CanonicalHeaderKey") || callIsPkgFunc(cc, "net/textproto", "CanonicalMIMEHeaderKey")) {
						hit = true
					}
				})
				if hit {
					return true
				}
			}
		}
		return false
	}
	for fn := range c.A.Reach {
		top := fn
		for top.Parent() != nil {
			top = top.Parent()
		}
		if top.Pkg != ip {
			continue
		}
		// the resolver: a closure/function that indexes a request header (http.Header parameter or captured) with a
		// name and yields (name, value)
		instrsOf(fn, func(in ssa.Instruction) {
			call, ok := in.(*ssa.Call)
			if !ok || call.Call.IsInvoke() || call.Call.StaticCallee() != nil {
				return
			}
			// dynamic call of a yield-like function value with two string arguments
			if len(call.Call.Args) != 2 || !isStringType(call.Call.Args[0].Type()) || !isStringType(call.Call.Args[1].Type()) {
				return
			}
			if sig, ok := call.Call.Value.Type().Underlying().(*types.Signature); !ok || sig.Results().Len() != 1 || !isBoolType(sig.Results().At(0).Type()) {
				return // not a yield of an iterator
			}
			// only yields whose value derives from a header lookup (the Vary resolver)
			fromHeader := c.An.dependsOnCallFull(call.Call.Args[1], func(x *ssa.Call) bool {
				return callIsMethod(&x.Call, "net/http", "Header", "Values") || callIsMethod(&x.Call, "net/http", "Header", "Get")
			})
			if !fromHeader {
				lk := false
				c.P.TraceBack(call.Call.Args[1], TraceOpts{ThroughOps: true, ThroughExtern: true}, func(v ssa.Value, _ []int) bool {
					if l, ok := v.(*ssa.Lookup); ok && isHTTPHeader(l.X.Type()) {
						lk = true
						return false
					}
					return true
				})
				fromHeader = lk
			}
			if !fromHeader {
				return
			}
			n++
			if k, isK := constStr(call.Call.Args[0]); isK && k == "*" {
				return
			}
			if !c.An.dependsOnCallFull(call.Call.Args[0], isCanon) {
				bad = c.P.ShortName(fn) + "@" + c.P.InstrPos(in)
			}
		})
	}
	switch {
	case n == 0:
		c.Undecided(rule, "vary-names-canonical", desc, "no (name, value) yield fed by a header lookup in package internal")
	case bad != "":
		c.Fail(rule, "vary-names-canonical", desc, bad+": the name is recorded as the origin spelled it; the matcher looks `accept-language` up in the request header by that spelling, finds nothing, and a variant stored for a request without the field matches every later request")
	default:
		c.Pass(rule, "vary-names-canonical", desc, fmt.Sprintf("%d yield(s)", n))
	}
}

// ruleBodyHandedBackLast (C05.13 / C10.20 / C16.13): serialising drains the response's body and leaves a re-readable copy in the
// object that was dumped. The entry writer hands that copy to the live response (a) on every path that leaves the
// function after a dump, and (b) after the last dump - a dump that follows would drain what the caller is about to read.
func ruleBodyHandedBackLast(c *Ctx, rule string) {
	if !c.Need(rule, "writeEntry") {
		return
	}
	desc := "the re-readable body is given to the live response after the last serialisation pass and on every way out"
	n := 0
	var bad []string
	for _, fn := range c.reachableFrom(c.A.F("writeEntry")) {
		var dumps []ssa.Instruction
		var restores []ssa.Instruction
		instrsOf(fn, func(in ssa.Instruction) {
			if cc := callOf(in); cc != nil && callIsPkgFunc(cc, "net/http/httputil", "DumpResponse") {
				if _, isCopy := cc.Args[0].(*ssa.Alloc); isCopy {
					dumps = append(dumps, in)
				}
			}
			if st, ok := in.(*ssa.Store); ok {
				if fa, ok := st.Addr.(*ssa.FieldAddr); ok && isHTTPResponsePtr(fa.X.Type()) && fieldName(fa.X.Type(), fa.Field) == "Body" {
					if _, isCopy := fa.X.(*ssa.Alloc); !isCopy {
						restores = append(restores, in)
					}
				}
			}
		})
		if len(dumps) == 0 {
			continue
		}
		n++
		if len(restores) == 0 {
			bad = append(bad, c.P.ShortName(fn)+": the live response never gets the re-readable body back")
			continue
		}
		// (b) no dump can follow a restore
		for _, rs := range restores {
			for _, d := range dumps {
				follows := rs.Block() == d.Block() && instrDominates(rs, d) || rs.Block() != d.Block() && reachableAvoiding(rs.Block(), d.Block(), nil)
				if follows {
					bad = append(bad, c.P.InstrPos(rs)+": the body is handed back before the serialisation at "+c.P.InstrPos(d)+", which drains it again (the response forwarded on the miss has an empty body when trailers were not announced)")
				}
			}
		}
		// (a) every return reachable from the first dump passes a restore
		first := dumps[0]
		seen := map[*ssa.BasicBlock]bool{}
		type pos struct {
			b *ssa.BasicBlock
			i int
		}
		start := 0
		for i, x := range first.Block().Instrs {
			if x == first {
				start = i + 1
			}
		}
		work := []pos{{first.Block(), start}}
		for len(work) > 0 {
			p := work[len(work)-1]
			work = work[:len(work)-1]
			done := false
			for _, x := range p.b.Instrs[p.i:] {
				isRestore := false
				for _, rs := range restores {
					if x == rs {
						isRestore = true
					}
				}
				if isRestore {
					done = true
					break
				}
				if r, ok := x.(*ssa.Return); ok {
					bad = append(bad, c.P.InstrPos(r)+": a return after the dump leaves the live response with the drained, closed body (on a serialisation error the client reads nothing)")
					done = true
					break
				}
			}
			if done {
				continue
			}
			for _, sc := range p.b.Succs {
				if !seen[sc] {
					seen[sc] = true
					work = append(work, pos{sc, 0})
				}
			}
		}
	}
	switch {
	case n == 0:
		c.Pass(rule, "body-handed-back-last", desc, "the entry writer serialises the live response itself (no head copy)")
	case len(bad) > 0:
		sort.Strings(bad)
		c.Fail(rule, "body-handed-back-last", desc, strings.Join(uniqStrings(bad), "; "))
	default:
		c.Pass(rule, "body-handed-back-last", desc, fmt.Sprintf("%d writer(s)", n))
	}
}

// ruleBackgroundReadsAfterOrigin (C07.11 / C08.14): the background revalidation works on a copy of the entry that it reads *after*
// the origin answered. Read before, the copy outlives an invalidation that happens while the conditional request is
// pending: a late 304 is merged into the pre-invalidation entry, which is stored again and served as a HIT.
func ruleBackgroundReadsAfterOrigin(c *Ctx, rule string) {
	swr := c.swrFunction()
	if swr == nil {
		return
	}
	desc := "in the background revalidation the entry is read after the origin call"
	n := 0
	bad := ""
	var bgs []*ssa.Function
	instrsOf(swr, func(in ssa.Instruction) {
		if g, ok := in.(*ssa.Go); ok {
			bgs = append(bgs, c.P.RepoCallees(g)...)
		}
	})
	for _, bg := range bgs {
		for _, f := range c.reachableFrom(bg) {
			var reads, origins []ssa.Instruction
			instrsOf(f, func(in ssa.Instruction) {
				if c.An.CallsRole(in, "readEntry") {
					reads = append(reads, in)
				}
				if c.An.IsUpstreamSite(in) {
					origins = append(origins, in)
					return
				}
				if ci, ok := in.(ssa.CallInstruction); ok {
					if _, isGo := in.(*ssa.Go); isGo {
						return
					}
					for _, cal := range c.P.RepoCallees(ci) {
						if c.An.MayUpstream(cal, false) && !c.An.CallsRole(in, "validationHandler") {
							origins = append(origins, in)
						}
					}
				}
			})
			for _, rd := range reads {
				for _, o := range origins {
					n++
					if !(instrDominates(o, rd)) {
						bad = c.P.ShortName(f) + "@" + c.P.InstrPos(rd)
					}
				}
			}
		}
	}
	switch {
	case n == 0:
		c.Undecided(rule, "background-reads-after-origin", desc, "no entry read next to an origin call in the background function")
	case bad != "":
		c.Fail(rule, "background-reads-after-origin", desc, bad+": the private copy is read before the origin is asked; an unsafe request that invalidates the URI while the conditional GET is pending is undone by the late 304, and the next GET is a HIT on the old representation")
	default:
		c.Pass(rule, "background-reads-after-origin", desc, fmt.Sprintf("%d read/origin pair(s)", n))
	}
}

// rulePathUnescape (C09.15 / C07.12): a path is unescaped with the path rules. url.QueryUnescape turns `+` into a space, so
// `/lib/c++/%7Eann` and `/lib/c++/~ann` would get different keys.
func rulePathUnescape(c *Ctx, rule string) {
	if !c.Need(rule, "urlKey") {
		return
	}
	desc := "the key function never applies the query decoder to a path"
	bad := ""
	for _, fn := range c.reachableFrom(c.A.F("urlKey")) {
		instrsOf(fn, func(in ssa.Instruction) {
			cc := callOf(in)
			if cc == nil || !callIsPkgFunc(cc, "net/url", "QueryUnescape") {
				return
			}
			fromPath := c.An.dependsOnCallFull(cc.Args[0], func(x *ssa.Call) bool {
				return callIsMethod(&x.Call, "net/url", "URL", "EscapedPath")
			})
			if !fromPath {
				c.P.TraceBack(cc.Args[0], TraceOpts{ThroughOps: true, ThroughExtern: true}, func(v ssa.Value, _ []int) bool {
					if fa, ok := v.(*ssa.FieldAddr); ok && ptrTo(fa.X.Type(), "net/url", "URL") && (fieldName(fa.X.Type(), fa.Field) == "Path" || fieldName(fa.X.Type(), fa.Field) == "RawPath") {
						fromPath = true
						return false
					}
					return true
				})
			}
			if fromPath {
				bad = c.P.ShortName(fn) + "@" + c.P.InstrPos(in)
			}
		})
	}
	if bad != "" {
		c.Fail(rule, "path-unescape", desc, bad+": url.QueryUnescape on a path turns a literal `+` into a space; `/lib/c++/%7Eann/notes` and `/lib/c++/~ann/notes` get different keys and a fresh stored response is fetched again")
		return
	}
	c.Pass(rule, "path-unescape", desc, c.P.ShortName(c.A.F("urlKey")))
}

// ruleDSNKeyFirst (C17.9 / C09.16): the key named in the DSN wins over the environment's. With the order reversed, a cache
// opened with a wrong DSN key decrypts everything (the environment's key is used), and a cache reopened with the very
// DSN it was created with cannot read its entries once the environment changes.
func ruleDSNKeyFirst(c *Ctx, rule string) {
	fp := c.P.Pkg("store/fscache")
	if fp == nil {
		return
	}
	desc := "the environment key is consulted only when the DSN names none"
	isDSNKey := func(v ssa.Value) bool {
		return c.An.dependsOnCall(v, func(x *ssa.Call) bool {
			if !callIsMethod(&x.Call, "net/url", "Values", "Get") {
				return false
			}
			_, a := recvAndArgs(&x.Call)
			k, ok := constStr(a[0])
			return ok && k == "encrypt_key"
		})
	}
	isEnv := func(v ssa.Value) bool {
		return c.An.dependsOnCall(v, func(x *ssa.Call) bool {
			return callIsPkgFunc(&x.Call, "os", "Getenv") || callIsPkgFunc(&x.Call, "os", "LookupEnv")
		})
	}
	n := 0
	bad := ""
	for _, fn := range c.fsBackendFuncs() {
		instrsOf(fn, func(in ssa.Instruction) {
			call, ok := in.(*ssa.Call)
			if !ok {
				return
			}
			// cmp.Or(a, b, …): the first non-zero wins
			if sc := call.Call.StaticCallee(); sc != nil {
				name := sc.String()
				if o := sc.Origin(); o != nil {
					name = o.String()
				}
				if strings.HasPrefix(name, "cmp.Or") {
					// variadic: the arguments sit in a slice literal
					var elems []ssa.Value
					if sl, ok := call.Call.Args[0].(*ssa.Slice); ok {
						if al, ok := sl.X.(*ssa.Alloc); ok && al.Referrers() != nil {
							type idxVal struct {
								i int64
								v ssa.Value
							}
							var ivs []idxVal
							for _, r := range *al.Referrers() {
								if ia, ok := r.(*ssa.IndexAddr); ok && ia.Referrers() != nil {
									k, _ := constInt(ia.Index)
									for _, u := range *ia.Referrers() {
										if st, ok := u.(*ssa.Store); ok {
											ivs = append(ivs, idxVal{k, st.Val})
										}
									}
								}
							}
							sort.Slice(ivs, func(i, j int) bool { return ivs[i].i < ivs[j].i })
							for _, iv := range ivs {
								elems = append(elems, iv.v)
							}
						}
					}
					envAt, dsnAt := -1, -1
					for i, e := range elems {
						if isEnv(e) && envAt < 0 {
							envAt = i
						}
						if isDSNKey(e) && dsnAt < 0 {
							dsnAt = i
						}
					}
					if envAt >= 0 && dsnAt >= 0 {
						n++
						if envAt < dsnAt {
							bad = c.P.ShortName(fn) + "@" + c.P.InstrPos(in)
						}
					}
				}
			}
		})
		// branch form: `key := dsn; if key == "" { key = env }`
		instrsOf(fn, func(in ssa.Instruction) {
			phi, ok := in.(*ssa.Phi)
			if !ok || !isStringType(phi.Type()) {
				return
			}
			hasEnv, hasDSN := false, false
			for _, e := range phi.Edges {
				if isEnv(e) && !isDSNKey(e) {
					hasEnv = true
				}
				if isDSNKey(e) && !isEnv(e) {
					hasDSN = true
				}
			}
			if !hasEnv || !hasDSN {
				return
			}
			n++
			for i, e := range phi.Edges {
				if !(isDSNKey(e) && !isEnv(e)) {
					continue
				}
				// the DSN edge must not be the fallback: it is not taken under "environment value is empty"
				pred := phi.Block().Preds[i]
				for _, dc := range append(dominatingConds(pred), lastCond(pred, phi.Block())...) {
					for _, lf := range condLeaves(dc.cond, dc.onTrue) {
						if bo, ok := lf.v.(*ssa.BinOp); ok && (isEnv(bo.X) || isEnv(bo.Y)) && !isDSNKey(bo.X) && !isDSNKey(bo.Y) {
							bad = c.P.ShortName(fn) + "@" + c.P.Pos(phi.Pos())
						}
					}
				}
			}
		})
	}
	switch {
	case n == 0:
		c.Undecided(rule, "dsn-key-first", desc, "no choice between the DSN key and the environment key found in store/fscache")
	case bad != "":
		c.Fail(rule, "dsn-key-first", desc, bad+": the environment's key is preferred; the `encrypt_key` of the DSN is silently ignored whenever FSCACHE_ENCRYPT_KEY is set: a wrong DSN key yields data, and a cache reopened with its own DSN cannot read its entries")
	default:
		c.Pass(rule, "dsn-key-first", desc, fmt.Sprintf("%d choice(s)", n))
	}
}

// ruleHitNeverRefetchesAsMiss (C13.12): once a stored response was selected, every origin exchange of the hit path is a
// validation whose outcome goes to the validation handler (which holds the stale-if-error policy). A detour through the
// miss path for some stored responses (non-2xx, no validators, …) returns the origin's failure although the stored
// response may be used.
func ruleHitNeverRefetchesAsMiss(c *Ctx, rule string) {
	if !c.Need(rule, "validationHandler") {
		return
	}
	desc := "in the function that validates a stored response every origin exchange ends in the validation handler"
	n := 0
	bad := ""
	for fn := range c.A.ReachFg {
		hasHandler := false
		instrsOf(fn, func(in ssa.Instruction) {
			if c.An.CallsRole(in, "validationHandler") {
				hasHandler = true
			}
		})
		if !hasHandler || c.A.IsRoleFunc(fn, "validationHandler") {
			continue
		}
		instrsOf(fn, func(in ssa.Instruction) {
			call, ok := in.(*ssa.Call)
			if !ok || c.An.CallsRole(in, "validationHandler") {
				return
			}
			leads := c.An.IsUpstreamSite(in)
			for _, cal := range c.P.RepoCallees(call) {
				if c.An.MayUpstream(cal, false) && !c.An.hasSWRSpawn(cal) {
					leads = true
				}
			}
			if !leads {
				return
			}
			n++
			// the call's response result must reach a validation-handler call as an argument
			reaches := false
			var outs []ssa.Value
			outs = append(outs, call)
			if call.Referrers() != nil {
				for _, r := range *call.Referrers() {
					if ex, ok := r.(*ssa.Extract); ok {
						outs = append(outs, ex)
					}
				}
			}
			instrsOf(fn, func(i2 ssa.Instruction) {
				if !c.An.CallsRole(i2, "validationHandler") {
					return
				}
				for _, a := range callOf(i2).Args {
					for _, o := range outs {
						if c.An.sameCanon(a, o) || c.An.flowsFrom(a, o) {
							reaches = true
						}
					}
				}
			})
			if !reaches {
				bad = c.P.ShortName(fn) + "@" + c.P.InstrPos(in)
			}
		})
	}
	switch {
	case n == 0:
		c.Undecided(rule, "hit-validates-only", desc, "no origin exchange in a function that calls the validation handler")
	case bad != "":
		c.Fail(rule, "hit-validates-only", desc, bad+": an origin exchange of the hit path bypasses the validation handler; a stale stored 404/410/301 with stale-if-error gets the origin's 5xx or error inside its window")
	default:
		c.Pass(rule, "hit-validates-only", desc, fmt.Sprintf("%d origin exchange(s)", n))
	}
}

// flowsFrom: target is reachable backwards from v through operations and phis (same function).
func (an *Analysis) flowsFrom(v, target ssa.Value) bool {
	seen := map[ssa.Value]bool{}
	var walk func(x ssa.Value, d int) bool
	walk = func(x ssa.Value, d int) bool {
		if x == target {
			return true
		}
		if x == nil || seen[x] || d > 10 {
			return false
		}
		seen[x] = true
		switch y := x.(type) {
		case *ssa.Phi:
			for _, e := range y.Edges {
				if walk(e, d+1) {
					return true
				}
			}
		case *ssa.Extract:
			return walk(y.Tuple, d+1)
		case *ssa.UnOp:
			if al, ok := y.X.(*ssa.Alloc); ok {
				for _, st := range an.P.cellStores(al) {
					if walk(st.Val, d+1) {
						return true
					}
				}
			}
			return walk(y.X, d+1)
		case *ssa.ChangeType:
			return walk(y.X, d+1)
		case *ssa.MakeInterface:
			return walk(y.X, d+1)
		}
		return false
	}
	return walk(v, 0)
}

// ruleKeyFunctionLeavesURLAlone (C16.13): the key function does not write through the URL it is given (the caller's own
// request URL; requests made with WithContext share it).
func ruleKeyFunctionLeavesURLAlone(c *Ctx, rule string) {
	if !c.Need(rule, "urlKey") {
		return
	}
	uk := c.A.F("urlKey")
	desc := "no member of the URL handed to the key function is assigned"
	bad := ""
	n := 0
	for _, fn := range c.reachableFrom(uk) {
		n++
		instrsOf(fn, func(in ssa.Instruction) {
			st, ok := in.(*ssa.Store)
			if !ok {
				return
			}
			fa, ok := st.Addr.(*ssa.FieldAddr)
			if !ok || !ptrTo(fa.X.Type(), "net/url", "URL") {
				return
			}
			// the base must be a local copy (an Alloc), not the parameter or something reached from it
			base := fa.X
			for i := 0; i < 6; i++ {
				switch x := base.(type) {
				case *ssa.Phi:
					for _, e := range x.Edges {
						if _, isP := e.(*ssa.Parameter); isP {
							base = e
						}
					}
					if _, isP := base.(*ssa.Parameter); !isP && len(x.Edges) > 0 {
						base = x.Edges[0]
					}
					continue
				case *ssa.UnOp:
					if al, ok := x.X.(*ssa.Alloc); ok {
						sts := c.P.cellStores(al)
						if len(sts) == 1 {
							base = sts[0].Val
							continue
						}
					}
				}
				break
			}
			if p, isP := base.(*ssa.Parameter); isP && ptrTo(p.Type(), "net/url", "URL") {
				bad = c.P.ShortName(fn) + "@" + c.P.InstrPos(in)
			}
		})
	}
	if bad != "" {
		c.Fail(rule, "key-function-leaves-url-alone", desc, bad+": writes a member of the URL it was given; RoundTrip rewrites the caller's request URL (`/%7Ejoe/x` is sent as `/~joe/x`), and requests sharing one *url.URL race")
		return
	}
	c.Pass(rule, "key-function-leaves-url-alone", desc, fmt.Sprintf("%d function(s) below %s", n, c.P.ShortName(uk)))
}

// ruleNoLossyQueryOnDSNPath (C17.10): on the way from store.Open to the driver the DSN's query is never passed through
// URL.Query(), which drops pairs it cannot parse: the driver's own strict parsing (which refuses such DSNs, because the
// dropped pair may be the one that asks for encryption) would see a cleaned query.
func ruleNoLossyQueryOnDSNPath(c *Ctx, rule string) {
	desc := "no function between store.Open and the drivers reads the DSN's query with URL.Query()"
	n := 0
	bad := ""
	for _, fn := range c.P.RepoFuncs {
		if isTestOnly(c, fn) || fn.Pkg == nil {
			continue
		}
		path := fn.Pkg.Pkg.Path()
		if !strings.Contains(path, "/store") || strings.HasSuffix(path, "/expapi") || strings.HasSuffix(path, "/acceptance") {
			continue // the maintenance API reads its own HTTP request's query, not a DSN
		}
		n++
		instrsOf(fn, func(in ssa.Instruction) {
			if cc := callOf(in); cc != nil && callIsMethod(cc, "net/url", "URL", "Query") {
				bad = c.P.ShortName(fn) + "@" + c.P.InstrPos(in)
			}
		})
	}
	if bad != "" {
		c.Fail(rule, "no-lossy-query-on-dsn-path", desc, bad+": URL.Query() silently drops malformed pairs; `fscache://…?appname=a&encrypt=on;encrypt_key=K` (or `&encrypt=on%&…`) then opens without encryption instead of failing at open")
		return
	}
	c.Pass(rule, "no-lossy-query-on-dsn-path", desc, fmt.Sprintf("%d functions of the store packages scanned", n))
}

// ruleCollectorVisitsEveryPair (C12.16 / C18.7): the directive collector looks at every (name, argument) pair of the field. The
// body of its loop never ends the iteration (`break`, or `return false` in a range-over-function body): a directive
// behind a repeated one would be lost (`no-store, no-store, only-if-cached`).
func ruleCollectorVisitsEveryPair(c *Ctx, rule string) {
	if !c.Need(rule, "parseReq", "parseResp") {
		return
	}
	desc := "the directive collector's loop runs to the end of the list"
	n := 0
	bad := ""
	for _, role := range []string{"parseReq", "parseResp"} {
		for g := range c.P.StaticTree(c.A.F(role)) {
			rs := sigResults(g)
			if len(rs) != 1 {
				continue
			}
			mt, ok := rs[0].Underlying().(*types.Map)
			if !ok || !isStringType(mt.Key()) || !isStringType(mt.Elem()) {
				continue
			}
			// range-over-function bodies: closures func(string, string) bool lexically inside the collector
			for _, cl := range g.AnonFuncs {
				sig := cl.Signature
				if sig.Params().Len() < 1 || sig.Params().Len() > 2 || sig.Results().Len() != 1 || !isBoolType(sig.Results().At(0).Type()) {
					continue
				}
				n++
				instrsOf(cl, func(in ssa.Instruction) {
					if r, ok := in.(*ssa.Return); ok && len(r.Results) == 1 {
						if b, isC := constBool(c.An.RetVal(r, 0)); isC && !b {
							bad = c.P.ShortName(g) + "@" + c.P.InstrPos(r)
						}
					}
				})
			}
			// ordinary loops over a collected slice: an exit from the body other than the loop's own test
			for _, b := range g.Blocks {
				if leavesLoopFromBody(b) {
					if _, isRet := b.Instrs[len(b.Instrs)-1].(*ssa.Return); !isRet {
						n++
						bad = c.P.ShortName(g) + "@" + c.P.InstrPos(b.Instrs[len(b.Instrs)-1])
					}
				}
			}
		}
	}
	switch {
	case n == 0:
		c.Undecided(rule, "collector-visits-every-pair", desc, "no loop body found in the directive collector")
	case bad != "":
		c.Fail(rule, "collector-visits-every-pair", desc, bad+": the loop ends early; everything after the first repeated directive is dropped: `no-store, no-store, only-if-cached` reaches the origin, `max-stale=30` + `max-stale=30, only-if-cached` on two lines likewise")
	default:
		c.Pass(rule, "collector-visits-every-pair", desc, fmt.Sprintf("%d loop bod(ies)", n))
	}
}

// ruleCancelClearedUnconditionally (C20.3): the clone's cancellation channel is cleared on every path to the go statement, not
// only for callers of a certain kind (a caller may set Request.Cancel without a deadline on its context).
func ruleCancelClearedUnconditionally(c *Ctx) {
	swr := c.swrFunction()
	if swr == nil {
		return
	}
	desc := "the cancellation channel is cleared on every path to the spawn"
	var clears []ssa.Instruction
	instrsOf(swr, func(in ssa.Instruction) {
		st, ok := in.(*ssa.Store)
		if !ok || !isNilConst(st.Val) {
			return
		}
		if fa, ok := st.Addr.(*ssa.FieldAddr); ok && ptrTo(fa.X.Type(), "net/http", "Request") && fieldName(fa.X.Type(), fa.Field) == "Cancel" {
			clears = append(clears, in)
		}
	})
	if len(clears) == 0 {
		return // cancel-channel-cleared reports the absence
	}
	pr := c.An.Prune(swr, nil)
	res := c.An.MustPass(pr, func(in ssa.Instruction) bool { _, ok := in.(*ssa.Go); return ok }, func(in ssa.Instruction) bool {
		for _, cl := range clears {
			if in == cl {
				return true
			}
		}
		return false
	})
	if res.Targets > 0 && !res.OK {
		c.Fail("C20.3", "cancel-channel-cleared-always", desc, c.P.InstrPos(clears[0])+": the channel is cleared under a condition; a caller that sets Request.Cancel itself (no deadline on its context) still ends the background revalidation by closing it")
		return
	}
	c.Pass("C20.3", "cancel-channel-cleared-always", desc, c.P.ShortName(swr))
}

// ruleBackgroundAlwaysAsks (C20.9): once spawned, the background revalidation sends its request: no return in front of the
// origin call depends on the state of the caller's context (which may be done the moment the stale answer was returned).
func ruleBackgroundAlwaysAsks(c *Ctx, rule string) {
	swr := c.swrFunction()
	if swr == nil {
		return
	}
	desc := "no return of the background function in front of the origin call depends on the caller's context"
	n := 0
	bad := ""
	var bgs []*ssa.Function
	instrsOf(swr, func(in ssa.Instruction) {
		if g, ok := in.(*ssa.Go); ok {
			bgs = append(bgs, c.P.RepoCallees(g)...)
		}
	})
	for _, bg := range bgs {
		// the point where the function detaches from the caller: the derivation of its own context
		var detach ssa.Instruction
		instrsOf(bg, func(in ssa.Instruction) {
			if cc := callOf(in); cc != nil && (callIsPkgFunc(cc, "context", "WithoutCancel") || callIsPkgFunc(cc, "context", "WithTimeout") || callIsPkgFunc(cc, "context", "Background")) {
				if detach == nil {
					detach = in
				}
			}
		})
		if detach == nil {
			continue
		}
		n++
		for _, b := range bg.Blocks {
			r, ok := b.Instrs[len(b.Instrs)-1].(*ssa.Return)
			if !ok {
				continue
			}
			if instrDominates(detach, r) {
				continue
			}
			// a return that can happen before the detachment: on what does it depend?
			for _, dc := range controlConds(b) {
				ctxDep := c.An.dependsOnCall(dc.cond, func(x *ssa.Call) bool {
					return x.Call.IsInvoke() && (x.Call.Method.Name() == "Err" || x.Call.Method.Name() == "Done") || callIsMethod(&x.Call, "net/http", "Request", "Context")
				})
				if ctxDep {
					bad = c.P.ShortName(bg) + "@" + c.P.InstrPos(r)
				}
			}
		}
	}
	switch {
	case n == 0:
		c.Undecided(rule, "background-always-asks", desc, "no context derivation in the background function")
	case bad != "":
		c.Fail(rule, "background-always-asks", desc, bad+": the function gives up when the caller's context is already done; the stale response was served, but no revalidation request is sent (a caller that cancels right after the answer, or before the goroutine is scheduled)")
	default:
		c.Pass(rule, "background-always-asks", desc, fmt.Sprintf("%d background function(s)", n))
	}
}

// ruleIndexRefsBelongToKey (C17.11 / C03.11): the index of a URI lists the ids of that URI's entries (`<key>#<variant>`). The backing
// store is outside the cache's control: an index moved or copied between keys (one file written over another; each file
// is valid, also as ciphertext) lists another URI's entries, whose own id check passes. Necessary condition decided: on
// the way from the index read to the entry read (the index reader, RoundTrip, the matcher) the id of a reference is
// compared with the key (a prefix test or a comparison). On the pinned tree it is not: known finding D76 (the repair is
// blocked by existing tests that read references with foreign or empty ids through these functions).
func ruleIndexRefsBelongToKey(c *Ctx, rule string) {
	if !c.Need(rule, "readIndex") {
		return
	}
	desc := "a reference read from the index of a URI is checked to name an entry of that URI"
	var scope []*ssa.Function
	for _, g := range c.reachableFrom(c.A.F("readIndex")) {
		scope = append(scope, g)
	}
	scope = append(scope, c.A.Root)
	if vm := c.A.F("varyMatch"); vm != nil {
		scope = append(scope, c.reachableFrom(vm)...)
	}
	isID := func(v ssa.Value) bool {
		hit := false
		c.P.TraceBack(v, TraceOpts{ThroughOps: true, NoParams: true}, func(x ssa.Value, _ []int) bool {
			if u, ok := x.(*ssa.UnOp); ok {
				if fa, ok := u.X.(*ssa.FieldAddr); ok && c.An.IsRefIDField(fa) {
					hit = true
					return false
				}
			}
			return true
		})
		return hit
	}
	found := ""
	for _, fn := range scope {
		if fn == nil {
			continue
		}
		instrsOf(fn, func(in ssa.Instruction) {
			if cc := callOf(in); cc != nil && (callIsPkgFunc(cc, "strings", "HasPrefix") || callIsPkgFunc(cc, "strings", "CutPrefix")) && isID(cc.Args[0]) {
				found = c.P.ShortName(fn) + "@" + c.P.InstrPos(in)
			}
			if bo, ok := in.(*ssa.BinOp); ok && (bo.Op == token.EQL || bo.Op == token.NEQ) && isStringType(bo.X.Type()) && (isID(bo.X) || isID(bo.Y)) {
				found = c.P.ShortName(fn) + "@" + c.P.InstrPos(in)
			}
		})
	}
	if found == "" {
		c.Fail(rule, "index-refs-belong-to-key", desc, "nothing between the index read and the entry read relates a reference's id to the URL key: with the index file of `/a` copied over the index file of `/b` (file-system backend, encrypted or not), `GET /b` is answered HIT with the body of `/a`")
		return
	}
	c.Pass(rule, "index-refs-belong-to-key", desc, found)
}

// ruleSIEClosesOriginBody (C10.21): when the validation handler answers with the stored response in place of the origin's
// error response, nobody else will close that response's body; left open it keeps its connection (and, with a bounded
// pool, the pool's slot) for ever: the next request to the host hangs. Decided: a Close of the origin response's body can
// reach every return of a stored response outside the 304 branch, under no condition other than nil tests.
func ruleSIEClosesOriginBody(c *Ctx, rule string) {
	if !c.Need(rule, "validationHandler") {
		return
	}
	vh := c.A.F("validationHandler")
	desc := "the origin's error response is closed when the stored response is returned in its place"
	var respParam *ssa.Parameter
	for _, p := range vh.Params {
		if isHTTPResponsePtr(p.Type()) {
			respParam = p
		}
	}
	if respParam == nil {
		c.Undecided(rule, "sie-closes-origin-body", desc, c.P.ShortName(vh)+": no response parameter")
		return
	}
	var closes []ssa.Instruction
	for _, f := range c.reachableFrom(vh) {
		if f != vh && !lexicallyInside(f, vh) {
			continue
		}
		instrsOf(f, func(in ssa.Instruction) {
			cc := callOf(in)
			if cc == nil || !cc.IsInvoke() || cc.Method.Name() != "Close" {
				return
			}
			if u, ok := cc.Value.(*ssa.UnOp); ok {
				if fa, ok := u.X.(*ssa.FieldAddr); ok && fieldName(fa.X.Type(), fa.Field) == "Body" && c.An.sameCanon(fa.X, respParam) {
					closes = append(closes, in)
				}
			}
		})
	}
	// a helper that is handed the origin's response and closes its body (under nil tests only) counts as a close where
	// it is called
	onlyNilConds := func(blk *ssa.BasicBlock, skip map[ssa.Value]bool) bool {
		for _, dc := range controlConds(blk) {
			if skip[dc.cond] {
				continue
			}
			leaves := condLeaves(dc.cond, dc.onTrue)
			if len(leaves) == 0 {
				return false
			}
			for _, lf := range leaves {
				bo, isB := lf.v.(*ssa.BinOp)
				if !isB || !(isNilConst(bo.X) || isNilConst(bo.Y)) {
					return false
				}
			}
		}
		return true
	}
	instrsOf(vh, func(in ssa.Instruction) {
		call, ok := in.(*ssa.Call)
		if !ok {
			return
		}
		for _, g := range c.P.RepoCallees(call) {
			if g == vh || len(g.Blocks) == 0 {
				continue
			}
			for pi, p := range g.Params {
				if !isHTTPResponsePtr(p.Type()) {
					continue
				}
				a := argForParam(&call.Call, g, pi)
				if a == nil || !c.An.sameCanon(a, respParam) {
					continue
				}
				closesIt := false
				instrsOf(g, func(i2 ssa.Instruction) {
					if r, ok := bodyCloseOf(i2); ok && c.An.sameCanon(r, p) && onlyNilConds(i2.Block(), nil) {
						closesIt = true
					}
				})
				if closesIt {
					closes = append(closes, in)
				}
			}
		}
	})
	pr := c.An.Prune(vh, AssumeKeys(map[string]bool{not304: false}))
	n := 0
	bad := ""
	pr.LiveInstrs(func(in ssa.Instruction) {
		if !c.An.IsServeReturn(in) {
			return
		}
		n++
		ok := false
		retConds := map[ssa.Value]bool{}
		for _, dc := range controlConds(in.Block()) {
			retConds[dc.cond] = true
		}
		for _, cl := range closes {
			if cl.Parent() != vh {
				continue
			}
			reaches := cl.Block() == in.Block() && instrDominates(cl, in) || cl.Block() != in.Block() && reachableAvoiding(cl.Block(), in.Block(), nil)
			if !reaches {
				continue
			}
			onlyNil := true
			for _, dc := range controlConds(cl.Block()) {
				if retConds[dc.cond] {
					continue
				}
				for _, lf := range condLeaves(dc.cond, dc.onTrue) {
					bo, isB := lf.v.(*ssa.BinOp)
					if !isB || !(isNilConst(bo.X) || isNilConst(bo.Y)) {
						onlyNil = false
					}
				}
				if len(condLeaves(dc.cond, dc.onTrue)) == 0 {
					onlyNil = false
				}
			}
			if onlyNil {
				ok = true
			}
		}
		if !ok {
			bad = c.P.InstrPos(in)
		}
	})
	switch {
	case n == 0:
		c.Undecided(rule, "sie-closes-origin-body", desc, c.P.ShortName(vh)+": no return of the stored response outside the 304 branch")
	case bad != "":
		c.Fail(rule, "sie-closes-origin-body", desc, bad+": the stored response is returned and the origin's 5xx response is dropped with its body open; with `MaxConnsPerHost: 1` the sequence MISS, STALE (origin 500) blocks the third request for ever")
	default:
		c.Pass(rule, "sie-closes-origin-body", desc, fmt.Sprintf("%s: %d return(s)", c.P.ShortName(vh), n))
	}
}

// ruleDeltaSecondsUnsigned (C12.18 / C13.13): delta-seconds is 1*DIGIT. strconv.ParseInt accepts a sign, so the decoder has to
// refuse one itself: it tests the first octet against the digits (or against both signs), or parses unsigned.
func ruleDeltaSecondsUnsigned(c *Ctx, rule string) {
	desc := "the delta-seconds decoder refuses a leading sign"
	ip := c.P.Pkg("internal")
	n := 0
	bad := ""
	for _, fn := range c.P.RepoFuncs {
		if fn.Pkg != ip || fn.Parent() != nil || isTestOnly(c, fn) {
			continue
		}
		rs := sigResults(fn)
		if len(rs) != 2 || !typeIs(rs[0], "time", "Duration") || !isBoolType(rs[1]) {
			continue
		}
		parses, unsigned := false, false
		ks := map[int64]bool{}
		for g := range c.P.StaticTree(fn) { // (the decoder and the helpers the parsing was moved to)
			if g.Pkg != ip {
				continue
			}
			instrsOf(g, func(in ssa.Instruction) {
				if cc := callOf(in); cc != nil {
					if callIsPkgFunc(cc, "strconv", "ParseInt") || callIsPkgFunc(cc, "strconv", "Atoi") {
						parses = true
					}
					if callIsPkgFunc(cc, "strconv", "ParseUint") {
						parses, unsigned = true, true
					}
				}
			})
			for k := range intConstsIn(g) {
				ks[k] = true
			}
		}
		if !parses {
			continue
		}
		n++
		if unsigned || ks['+'] && ks['-'] || ks['0'] && ks['9'] {
			continue
		}
		bad = c.P.ShortName(fn)
	}
	switch {
	case n == 0:
		c.Undecided(rule, "delta-seconds-unsigned", desc, "no delta-seconds decoder found in package internal")
	case bad != "":
		c.Fail(rule, "delta-seconds-unsigned", desc, bad+": the text goes to a signed integer parser and only some signs are refused; `max-age=+3600` is fresh for an hour, `stale-if-error=+600` opens a window")
	default:
		c.Pass(rule, "delta-seconds-unsigned", desc, fmt.Sprintf("%d decoder(s)", n))
	}
}

// ruleMetaTimesChecked (C10.22 / C11.14): the times recorded with an entry are part of what its age is computed from. The entry
// parser treats a line on which they cannot be read as damaged: the error of every time.Parse in its tree is tested.
func ruleMetaTimesChecked(c *Ctx, rule string) {
	if !c.Need(rule, "entryParser") {
		return
	}
	ep := c.A.F("entryParser")
	desc := "the entry parser checks the error of every time it parses"
	n := 0
	bad := ""
	for _, f := range c.reachableFrom(ep) {
		instrsOf(f, func(in ssa.Instruction) {
			call, ok := in.(*ssa.Call)
			if !ok || !callIsPkgFunc(&call.Call, "time", "Parse") {
				return
			}
			n++
			checked := false
			if call.Referrers() != nil {
				for _, r := range *call.Referrers() {
					ex, ok := r.(*ssa.Extract)
					if !ok || ex.Index != 1 || ex.Referrers() == nil {
						continue
					}
					for _, u := range *ex.Referrers() {
						if bo, ok := u.(*ssa.BinOp); ok && (isNilConst(bo.X) || isNilConst(bo.Y)) {
							checked = true
						}
						// stored into a variable that is tested
						if st, ok := u.(*ssa.Store); ok {
							if al, ok := st.Addr.(*ssa.Alloc); ok && al.Referrers() != nil {
								checked = true
							}
						}
					}
				}
			}
			if !checked {
				bad = c.P.ShortName(f) + "@" + c.P.InstrPos(in)
			}
		})
	}
	switch {
	case n == 0:
		c.Pass(rule, "meta-times-checked", desc, "the entry parser parses no time")
	case bad != "":
		c.Fail(rule, "meta-times-checked", desc, bad+": the error is discarded; an entry whose recorded receive time is damaged (`20x6-09-27T…`) is parsed with the zero time and served with an age computed from the year 1")
	default:
		c.Pass(rule, "meta-times-checked", desc, fmt.Sprintf("%d time(s) parsed", n))
	}
}

// ruleAgeNotCappedLower (C01.23): age and lifetime saturate at the same bound. An Age capped at a constant (2^31 s) while
// max-age saturates only at the greatest representable value makes a response that is older than its lifetime look
// fresh (`Age: 5000000000`, `max-age=4000000000`). In the current-age function the decoded Age is not passed through a
// `min` with a constant, nor compared with one to be dropped.
func ruleAgeNotCappedLower(c *Ctx, rule string) {
	if !c.Need(rule, "currentAge") {
		return
	}
	ca := c.A.F("currentAge")
	desc := "the decoded Age is not capped at a constant below the decoder's own saturation bound"
	isAgeValue := func(v ssa.Value) bool {
		return c.An.dependsOnCall(v, func(x *ssa.Call) bool {
			if !(callIsMethod(&x.Call, "net/http", "Header", "Get") || callIsMethod(&x.Call, "net/http", "Header", "Values")) {
				return false
			}
			_, a := recvAndArgs(&x.Call)
			k, ok := constStr(a[0])
			return ok && strings.EqualFold(k, "Age")
		})
	}
	bad := ""
	n := 0
	for g := range c.P.StaticTree(ca) {
		instrsOf(g, func(in ssa.Instruction) {
			if call, ok := in.(*ssa.Call); ok {
				if b, isB := call.Call.Value.(*ssa.Builtin); isB && b.Name() == "min" {
					hasAge, hasConst := false, false
					for _, a := range call.Call.Args {
						if _, isK := a.(*ssa.Const); isK {
							hasConst = true
						} else if typeIs(a.Type(), "time", "Duration") && isAgeValue(a) {
							hasAge = true
						}
					}
					if hasAge {
						n++
					}
					if hasAge && hasConst {
						bad = c.P.ShortName(g) + "@" + c.P.InstrPos(in)
					}
				}
			}
			if bo, ok := in.(*ssa.BinOp); ok && (bo.Op == token.LEQ || bo.Op == token.LSS || bo.Op == token.GTR || bo.Op == token.GEQ) && typeIs(bo.X.Type(), "time", "Duration") {
				_, xk := bo.X.(*ssa.Const)
				_, yk := bo.Y.(*ssa.Const)
				if xk && isAgeValue(bo.Y) || yk && isAgeValue(bo.X) {
					if k, ok := constInt(bo.X); ok && k == 0 {
						return
					}
					if k, ok := constInt(bo.Y); ok && k == 0 {
						return
					}
					n++
					bad = c.P.ShortName(g) + "@" + c.P.InstrPos(in)
				}
			}
		})
	}
	if bad != "" {
		c.Fail(rule, "age-not-capped-lower", desc, bad+": the Age is bounded by a constant; `Age: 5000000000` with `max-age=4000000000` (older than its lifetime) is served as a fresh HIT with `Age: 2147483648`")
		return
	}
	c.Pass(rule, "age-not-capped-lower", desc, fmt.Sprintf("%s: %d bound(s) on the Age examined", c.P.ShortName(ca), n))
}
