package hcv

import (
	"fmt"
	"go/token"
	"go/types"
	"sort"
	"strings"

	"golang.org/x/tools/go/ssa"
)

// Rules added after the first round of independently seeded changes (DESIGN §9): each closes a gap that a seeded change
// exposed, phrased as a structural necessary condition and not as a match on the seeded text.

// ruleDateRepair (C01.8 / C09): the function that supplies a missing Date also replaces an unparseable one, because the
// age computation reads Date without a validity test.
func ruleDateRepair(c *Ctx, rule string) {
	n := 0
	for fn := range c.A.Reach {
		if !headerCallWithKey(fn, "Set", "Date") {
			continue
		}
		n++
		// the validity result of the Date parse in this function
		assume := func(a *Atom) (bool, bool) {
			if strings.HasPrefix(a.Key, "ret:") && strings.HasSuffix(a.Key, "#1") {
				return false, true // the parsed Date is not valid
			}
			return false, false
		}
		pr := c.An.Prune(fn, assume)
		isSetDate := func(in ssa.Instruction) bool {
			cc := callOf(in)
			if cc == nil || !callIsMethod(cc, "net/http", "Header", "Set") {
				return false
			}
			_, args := recvAndArgs(cc)
			k, _ := constStr(args[0])
			return k == "Date"
		}
		used := false
		for k := range pr.Used {
			if strings.HasPrefix(k, "ret:") {
				used = true
			}
		}
		r := c.An.MustPass(pr, nil, isSetDate)
		desc := "a Date that does not parse is replaced like a missing one (the age computation trusts the stored Date)"
		key := "date-repair fn=" + c.P.ShortName(fn)
		switch {
		case !used:
			c.Fail(rule, key, desc, c.P.ShortName(fn)+": the decision to set Date does not depend on whether the received Date parses; an unparseable Date stays, reads back as the zero time, and the age arithmetic overflows so that stale entries look fresh")
		case !r.OK:
			c.Fail(rule, key, desc, c.P.InstrPos(r.Missing[0])+": a return is reachable without setting Date although the received Date is invalid")
		default:
			c.Pass(rule, key, desc, c.P.ShortName(fn))
		}
		// a Date that parses is left alone: the only decisions in front of the Set are the decoder's validity flag and a
		// zero test of the decoded time
		var setBlocks []*ssa.BasicBlock
		instrsOf(fn, func(in ssa.Instruction) {
			if isSetDate(in) {
				setBlocks = append(setBlocks, in.Block())
			}
		})
		other := ""
		for _, b := range fn.Blocks {
			if len(b.Instrs) == 0 {
				continue
			}
			iff, ok := b.Instrs[len(b.Instrs)-1].(*ssa.If)
			if !ok {
				continue
			}
			leads := false
			for _, sb := range setBlocks {
				if reachableAvoiding(b, sb, nil) {
					leads = true
				}
			}
			if !leads {
				continue
			}
			var leaves []ssa.Value
			var split func(v ssa.Value)
			split = func(v ssa.Value) {
				if u, ok := v.(*ssa.UnOp); ok && u.Op == token.NOT {
					split(u.X)
					return
				}
				if phi, ok := v.(*ssa.Phi); ok {
					for _, e := range phi.Edges {
						if _, isC := e.(*ssa.Const); !isC {
							split(e)
						}
					}
					return
				}
				leaves = append(leaves, v)
			}
			split(iff.Cond)
			for _, lf := range leaves {
				if a, _, ok := c.An.AtomOf(lf); ok && strings.HasPrefix(a.Key, "ret:") && strings.HasSuffix(a.Key, "#1") {
					continue
				}
				if call, ok := lf.(*ssa.Call); ok && callIsMethod(&call.Call, "time", "Time", "IsZero") {
					continue
				}
				other = fmt.Sprintf("%s `%s`", c.P.Pos(lf.Pos()), lf.String())
			}
		}
		dk := "a Date field that parses is never overwritten (only an invalid or zero Date is repaired)"
		if other != "" {
			c.Fail(rule, "date-kept fn="+c.P.ShortName(fn), dk, c.P.ShortName(fn)+": the repair also depends on "+other+"; e.g. an origin whose clock runs ahead has its valid Date replaced by the local time, on the forwarded response and on every replay")
		} else {
			c.Pass(rule, "date-kept fn="+c.P.ShortName(fn), dk, c.P.ShortName(fn))
		}
		// the repair is applied to every origin response, whatever its status: a 304 without a (valid) Date is merged into
		// the stored response and written back with the validation's timestamps; the old Date would then sit next to a new
		// response time and the freshened entry would be stale at once
		for caller := range c.A.Reach {
			instrsOf(caller, func(in ssa.Instruction) {
				cc := callOf(in)
				if cc == nil || cc.StaticCallee() != fn {
					return
				}
				guard := ""
				for _, dc := range controlConds(in.Block()) {
					// the end of a loop that stands in front of the call (an inlined strip loop) is not a condition
					if blockInCycle(dc.block) && !reachableAvoiding(in.Block(), dc.block, nil) {
						continue
					}
					for _, lf := range condLeaves(dc.cond, dc.onTrue) {
						a, _, ok := c.An.AtomOf(lf.v)
						if ok && (a.Key == "nil:resp" || a.Key == "nil:err") {
							continue
						}
						guard = fmt.Sprintf("`%s` (%s)", lf.v.String(), c.P.Pos(lf.v.Pos()))
					}
				}
				da := "the Date repair is applied to every origin response (no status or other condition in front of it)"
				k := "date-repair-always fn=" + c.P.ShortName(caller)
				if guard != "" {
					c.Fail(rule, k, da, c.P.InstrPos(in)+": the repair is skipped unless "+guard+"; a 304 without a valid Date then leaves the stored response's old Date in place while its timestamps restart")
				} else {
					c.Pass(rule, k, da, c.P.InstrPos(in))
				}
			})
		}
		// the value written is in UTC with the HTTP time format (a local-time stamp labelled GMT ages entries by the zone offset)
		okUTC := false
		instrsOf(fn, func(in ssa.Instruction) {
			if !isSetDate(in) {
				return
			}
			_, args := recvAndArgs(callOf(in))
			if c.An.dependsOnCall(args[1], func(x *ssa.Call) bool { return callIsMethod(&x.Call, "time", "Time", "UTC") }) {
				okUTC = true
			}
		})
		if okUTC {
			c.Pass(rule, "date-utc fn="+c.P.ShortName(fn), "the synthesised Date is formatted from the UTC time", c.P.ShortName(fn))
		} else {
			c.Fail(rule, "date-utc fn="+c.P.ShortName(fn), "the synthesised Date is formatted from the UTC time", c.P.ShortName(fn)+": the value does not pass Time.UTC(); http.TimeFormat prints a literal GMT, so local time would be stamped as GMT and entries stored west of Greenwich are stale at once")
		}
	}
	if n == 0 {
		c.Undecided(rule, "date-repair", "a function supplying a missing Date exists", "no Header.Set(\"Date\") on the exchange")
	}
}

// ruleMatcherIndex (C04.7): the position returned by the variant matcher refers to the slice it was given.
func ruleMatcherIndex(c *Ctx, rule string) {
	if !c.Need(rule, "varyMatch") {
		return
	}
	fn := c.A.F("varyMatch")
	var param *ssa.Parameter
	for _, p := range fn.Params {
		if sl, ok := p.Type().Underlying().(*types.Slice); ok && isPtrToNamed(sl.Elem(), c.A.RefT) {
			param = p
		}
	}
	desc := "the position returned by the matcher indexes the caller's slice (sorted in place), not a copy"
	if param == nil {
		c.Undecided(rule, "matcher-index", desc, "no []*Ref parameter")
		return
	}
	bad := ""
	n := 0
	instrsOf(fn, func(in ssa.Instruction) {
		var sls []ssa.Value
		switch x := in.(type) {
		case *ssa.Range:
			sls = append(sls, x.X)
		case *ssa.IndexAddr:
			sls = append(sls, x.X)
		case *ssa.Index:
			sls = append(sls, x.X)
		case *ssa.Call:
			// a search or sort helper applied to the slice (slices.IndexFunc, slices.SortFunc)
			sls = append(sls, x.Call.Args...)
		default:
			return
		}
		for _, sl := range sls {
			st, ok := sl.Type().Underlying().(*types.Slice)
			if !ok || !isPtrToNamed(st.Elem(), c.A.RefT) {
				continue
			}
			n++
			for _, r := range c.P.Roots(sl, TraceOpts{NoParams: true}) {
				if r != ssa.Value(param) {
					bad = fmt.Sprintf("%s: iterates %s `%s`, not the parameter", c.P.InstrPos(in), fmt.Sprintf("%T", r), r.String())
				}
			}
		}
	})
	// callers index their own slice with the returned position
	if n == 0 {
		c.Undecided(rule, "matcher-index", desc, "the matcher does not iterate a reference slice")
		return
	}
	if bad != "" {
		c.Fail(rule, "matcher-index", desc, bad+"; RoundTrip applies the position to its own (differently ordered) slice and serves a variant that was never compared with the request")
		return
	}
	c.Pass(rule, "matcher-index", desc, c.P.ShortName(fn))
	// and RoundTrip indexes the very slice it passed to the matcher
	okCaller := false
	instrsOf(c.A.Root, func(in ssa.Instruction) {
		if !c.An.CallsRole(in, "varyMatch") {
			return
		}
		_, args := recvAndArgs(callOf(in))
		passed := args[0]
		instrsOf(c.A.Root, func(i2 ssa.Instruction) {
			if ia, ok := i2.(*ssa.IndexAddr); ok && c.An.sameCanon(ia.X, passed) {
				okCaller = true
			}
		})
	})
	if okCaller {
		c.Pass(rule, "matcher-index-caller", "RoundTrip applies the position to the slice it handed to the matcher", c.P.ShortName(c.A.Root))
	} else {
		c.Fail(rule, "matcher-index-caller", "RoundTrip applies the position to the slice it handed to the matcher", c.P.ShortName(c.A.Root)+": the indexed slice is not the one passed to the matcher")
	}
}

// ruleEvaluatorDirectives (C06.8): at every call of the storability evaluator, on every path, the response directives
// are the ones parsed from the judged response, and the request directives come from the request parser.
func ruleEvaluatorDirectives(c *Ctx, rule string) {
	if !c.Need(rule, "canStore", "parseResp") {
		return
	}
	n := 0
	var fns []*ssa.Function
	for fn := range c.A.Reach {
		fns = append(fns, fn)
	}
	sort.Slice(fns, func(i, j int) bool { return FuncName(fns[i]) < FuncName(fns[j]) })
	for _, fn := range fns {
		instrsOf(fn, func(in ssa.Instruction) {
			if !c.An.CallsRole(in, "canStore") || c.An.AdapterTargets(fn) != nil {
				return
			}
			n++
			_, args := recvAndArgs(callOf(in))
			var respArg, resCC, reqCC ssa.Value
			for _, a := range args {
				switch {
				case isHTTPResponsePtr(a.Type()):
					respArg = a
				case isNamed(a.Type(), c.A.RespDirT):
					resCC = a
				case isNamed(a.Type(), c.A.ReqDirT):
					reqCC = a
				}
			}
			where := c.P.ShortName(fn) + "@" + c.P.InstrPos(in)
			desc := "on every path the evaluator receives the directives parsed from the response it judges"
			if resCC == nil || respArg == nil {
				c.Undecided(rule, "evaluator-directives fn="+c.P.ShortName(fn), desc, where+": arguments not recognised")
				return
			}
			// blocks with phis on the way from the argument: case split on their incoming edges
			var phiBlocks []*ssa.BasicBlock
			seen := map[ssa.Value]bool{}
			var collect func(v ssa.Value)
			collect = func(v ssa.Value) {
				if seen[v] {
					return
				}
				seen[v] = true
				if phi, ok := v.(*ssa.Phi); ok {
					phiBlocks = append(phiBlocks, phi.Block())
					for _, e := range phi.Edges {
						collect(e)
					}
				}
			}
			collect(resCC)
			bad := ""
			check := func(pr *Pruned, label string) {
				if !pr.LiveBlock[in.Block().Index] {
					return
				}
				for _, leaf := range c.An.liveLeaves(pr, resCC) {
					call, ok := leaf.(*ssa.Call)
					if ok && call.Call.StaticCallee() == c.A.F("parseResp") {
						// parsed from the judged response's header
						okHdr := false
						c.P.TraceBack(call.Call.Args[0], TraceOpts{NoParams: true}, func(v ssa.Value, _ []int) bool {
							if u, isU := v.(*ssa.UnOp); isU && u.Op == token.MUL {
								if fa, isFA := u.X.(*ssa.FieldAddr); isFA && isHTTPResponsePtr(fa.X.Type()) && c.An.sameCanon(fa.X, respArg) {
									okHdr = true
								}
							}
							return !okHdr
						})
						if !okHdr {
							bad = label + ": directives parsed from another response's header"
						}
						continue
					}
					bad = fmt.Sprintf("%s: the directives can be `%s` (not parsed from the response)", label, leaf.String())
				}
			}
			// http.RoundTripper contract, as two exclusive cases: (err == nil, resp != nil) and (err != nil)
			cases := []struct {
				name string
				as   Assume
			}{
				{"origin answered", func(a *Atom) (bool, bool) {
					switch a.Key {
					case "nil:err":
						return true, true
					case "nil:resp":
						return false, true
					}
					return false, false
				}},
				{"origin call failed", func(a *Atom) (bool, bool) {
					if a.Key == "nil:err" {
						return false, true
					}
					return false, false
				}},
			}
			for _, cs := range cases {
				if len(phiBlocks) == 0 {
					check(c.An.Prune(fn, cs.as), cs.name)
				}
				// case split on the incoming edge of every block holding a phi the argument flows through, jointly
				// (correlated phis such as `ccResp` and `ccRespOnce` are then evaluated consistently)
				uniq := map[int]*ssa.BasicBlock{}
				for _, pb := range phiBlocks {
					uniq[pb.Index] = pb
				}
				var blocks []*ssa.BasicBlock
				for _, pb := range uniq {
					blocks = append(blocks, pb)
				}
				sort.Slice(blocks, func(i, j int) bool { return blocks[i].Index < blocks[j].Index })
				combos := 1
				for _, pb := range blocks {
					combos *= len(pb.Preds)
				}
				if combos > 512 {
					bad = "too many phi-edge combinations to split (" + fmt.Sprint(combos) + ")"
					continue
				}
				for k := 0; k < combos && len(blocks) > 0; k++ {
					force := map[int]int{}
					x := k
					label := cs.name
					for _, pb := range blocks {
						force[pb.Index] = x % len(pb.Preds)
						label += fmt.Sprintf(", block %d<-%d", pb.Index, pb.Preds[x%len(pb.Preds)].Index)
						x /= len(pb.Preds)
					}
					check(c.An.PruneForced(fn, cs.as, force), label)
				}
			}
			if bad != "" {
				c.Fail(rule, "evaluator-directives fn="+c.P.ShortName(fn), desc, where+": "+bad+". Witness: a response carrying `no-store` is judged with empty directives and written to the store", where)
			} else {
				c.Pass(rule, "evaluator-directives fn="+c.P.ShortName(fn), desc, where)
			}
			// request directives: a parse result or a context field fed by one in every context literal
			d2 := "the evaluator receives the request's directives"
			if reqCC == nil {
				c.Fail(rule, "evaluator-request-directives fn="+c.P.ShortName(fn), d2, where+": no request-directive argument")
				return
			}
			okReq := true
			why := ""
			c.P.TraceBack(reqCC, TraceOpts{NoParams: true, NoHeapFields: true}, func(v ssa.Value, _ []int) bool {
				switch x := v.(type) {
				case *ssa.Call:
					if x.Call.StaticCallee() == c.A.F("parseReq") {
						return false
					}
				case *ssa.Const:
					okReq, why = false, "nil request directives"
				case *ssa.UnOp:
					if fa, ok := x.X.(*ssa.FieldAddr); ok && isPtrToNamed(fa.X.Type(), c.A.RevalCtxT) {
						// every literal of the context type must initialise this field from the request parser
						for _, l := range c.contextLiterals() {
							if !l.fields[fa.Field] {
								okReq, why = false, l.where+": revalidation context literal leaves the request directives empty"
							}
						}
						return false
					}
				}
				return true
			})
			if okReq {
				c.Pass(rule, "evaluator-request-directives fn="+c.P.ShortName(fn), d2, where)
			} else {
				c.Fail(rule, "evaluator-request-directives fn="+c.P.ShortName(fn), d2, where+": "+why+". Witness: a request carrying `no-store` served under stale-while-revalidate has its background 200 stored")
			}
		})
	}
	if n == 0 {
		c.Undecided(rule, "vacuity", "evaluator call sites exist", "none")
	}
}

type ctxLiteral struct {
	where  string
	fields map[int]bool
	fn     *ssa.Function
}

func (c *Ctx) contextLiterals() []ctxLiteral {
	var lits []ctxLiteral
	if c.A.RevalCtxT == nil {
		return nil
	}
	for _, fn := range c.P.RepoFuncs {
		if isTestOnly(c, fn) {
			continue
		}
		instrsOf(fn, func(in ssa.Instruction) {
			al, ok := in.(*ssa.Alloc)
			if !ok || !isNamed(derefType(al.Type()), c.A.RevalCtxT) || al.Comment != "complit" {
				return
			}
			l := ctxLiteral{where: c.P.ShortName(fn) + "@" + c.P.InstrPos(al), fields: map[int]bool{}, fn: fn}
			if refs := al.Referrers(); refs != nil {
				for _, r := range *refs {
					if fa, ok := r.(*ssa.FieldAddr); ok {
						if rr := fa.Referrers(); rr != nil {
							for _, u := range *rr {
								if s, ok := u.(*ssa.Store); ok && s.Addr == fa {
									l.fields[fa.Field] = true
								}
							}
						}
					}
				}
			}
			lits = append(lits, l)
		})
	}
	return lits
}

// ruleReplaceDecision (C08.6): whether the storing function replaces the reference at the given position or appends a
// new one is decided by the position alone (0 <= pos < len) — never by the content of the old reference.
// isNewRecordAppend: append(list, rec) to an index list where rec is a record built in this function (a fresh
// composite literal) - the append of the new variant, as opposed to the element copies of a filter loop.
func (c *Ctx) isNewRecordAppend(in ssa.Instruction) bool {
	call, ok := in.(*ssa.Call)
	if !ok {
		return false
	}
	b, ok := call.Call.Value.(*ssa.Builtin)
	if !ok || b.Name() != "append" || len(call.Call.Args) < 2 {
		return false
	}
	sl, ok := call.Call.Args[0].Type().Underlying().(*types.Slice)
	if !ok || !isPtrToNamed(sl.Elem(), c.A.RefT) {
		return false
	}
	// variadic packing: append(list, new [1]*Ref{rec}[:]...)
	fresh := false
	var elems []ssa.Value
	if s2, ok := call.Call.Args[1].(*ssa.Slice); ok {
		if al, ok := s2.X.(*ssa.Alloc); ok && al.Referrers() != nil {
			for _, r := range *al.Referrers() {
				if ia, ok := r.(*ssa.IndexAddr); ok && ia.Referrers() != nil {
					for _, u := range *ia.Referrers() {
						if st, ok := u.(*ssa.Store); ok && st.Addr == ssa.Value(ia) {
							elems = append(elems, st.Val)
						}
					}
				}
			}
		}
	}
	for _, e := range elems {
		if _, isAlloc := c.An.canon(e).(*ssa.Alloc); isAlloc {
			fresh = true
		}
	}
	return fresh
}

func ruleReplaceDecision(c *Ctx, rule string) {
	if !c.Need(rule, "storeResp") {
		return
	}
	sr := c.A.F("storeResp")
	var idxParam *ssa.Parameter
	for _, p := range sr.Params {
		if isBasicKind(p.Type(), types.Int) {
			idxParam = p
		}
	}
	var appendIn ssa.Instruction
	instrsOf(sr, func(in ssa.Instruction) {
		if c.isNewRecordAppend(in) {
			appendIn = in
		}
	})
	desc := "append-or-replace is decided by the position alone"
	if idxParam == nil || appendIn == nil {
		c.Undecided(rule, "replace-decision", desc, "position parameter or append not found in "+c.P.ShortName(sr))
		return
	}
	// conditions of the branches that lead directly into the append block
	isPos := func(v ssa.Value) bool {
		ok := true
		c.P.TraceBack(v, TraceOpts{NoParams: true, NoHeapFields: true}, func(x ssa.Value, _ []int) bool {
			switch y := x.(type) {
			case *ssa.Phi:
			case *ssa.Parameter:
				if y != idxParam {
					ok = false
				}
			case *ssa.Call:
				// the de-duplication search result (slices.IndexFunc) is a position too
				if sc := y.Call.StaticCallee(); sc != nil {
					n := sc.String()
					if o := sc.Origin(); o != nil {
						n = o.String()
					}
					if strings.HasPrefix(n, "slices.Index") {
						return false
					}
				}
				ok = false
			case *ssa.Const:
			default:
				ok = false
			}
			return ok
		})
		return ok
	}
	isBound := func(v ssa.Value) bool {
		if k, ok := constInt(v); ok && k == 0 {
			return true
		}
		if call, ok := v.(*ssa.Call); ok {
			if b, ok := call.Call.Value.(*ssa.Builtin); ok && b.Name() == "len" {
				return true
			}
		}
		return false
	}
	bad := ""
	var conds []string
	ab := appendIn.Block()
	for _, pd := range ab.Preds {
		iff, ok := pd.Instrs[len(pd.Instrs)-1].(*ssa.If)
		if !ok {
			continue
		}
		b, ok := iff.Cond.(*ssa.BinOp)
		if !ok {
			bad = c.P.InstrPos(iff) + ": the branch into the append is not a comparison of the position"
			continue
		}
		conds = append(conds, c.P.InstrPos(b)+" `"+b.String()+"`")
		if !((isPos(b.X) && isBound(b.Y)) || (isPos(b.Y) && isBound(b.X))) {
			bad = c.P.InstrPos(b) + " `" + b.String() + "`: the append is also taken on a condition that is not a range test of the position; the validated variant's reference survives next to the new one and the replaced representation is served again"
		}
	}
	if bad != "" {
		c.Fail(rule, "replace-decision", desc, bad, conds...)
	} else if len(conds) == 0 {
		c.Undecided(rule, "replace-decision", desc, "no conditional branch leads into the append block")
	} else {
		c.Pass(rule, "replace-decision", desc, conds...)
	}
}

// ruleRequestMaxAgeCaps (C02.6): with a positive request max-age the lifetime handed to the staleness test passes
// min(., request max-age) on every path.
func ruleRequestMaxAgeCaps(c *Ctx, rule string) {
	if !c.Need(rule, "freshness") {
		return
	}
	ff := c.A.F("freshness")
	assume := func(a *Atom) (bool, bool) {
		switch {
		case a.Key == "rq.max-age.ok":
			return true, true
		case strings.HasPrefix(a.Key, "rq.max-age.val"):
			// the request's max-age is some positive value
			switch a.Op {
			case token.EQL:
				return false, a.K <= 0
			case token.GTR:
				return true, a.K <= 0
			case token.GEQ:
				return true, a.K <= 1
			case token.LSS:
				return false, a.K <= 1
			case token.LEQ:
				return false, a.K <= 0
			}
		}
		return false, false
	}
	pr := c.An.Prune(ff, assume)
	// the lifetime operands of the staleness comparisons and the stored lifetime
	var lifeVals []ssa.Value
	for _, st := range c.P.StoresTo(c.A.FreshT, c.A.FreshLife) {
		if st.Parent() == ff && pr.LiveBlock[st.Block().Index] {
			lifeVals = append(lifeVals, st.Val)
		}
	}
	desc := "with a positive request max-age the lifetime is capped by it on every path"
	if len(lifeVals) == 0 {
		c.Undecided(rule, "request-max-age-caps", desc, "no live lifetime store")
		return
	}
	uncapped := ""
	for _, lv := range lifeVals {
		seen := map[ssa.Value]bool{}
		var walk func(v ssa.Value)
		walk = func(v ssa.Value) {
			if seen[v] || uncapped != "" {
				return
			}
			seen[v] = true
			switch x := v.(type) {
			case *ssa.Phi:
				for _, e := range pr.LivePhiEdges(x) {
					walk(e)
				}
			case *ssa.Call:
				if b, ok := x.Call.Value.(*ssa.Builtin); ok && b.Name() == "min" {
					for _, a := range x.Call.Args {
						if c.An.dependsOnCall(a, func(cc *ssa.Call) bool { return c.An.isAccessorCall(cc, "rq", "max-age") }) {
							return // capped
						}
					}
				}
				uncapped = c.P.InstrPos(x) + " `" + x.String() + "`"
			case *ssa.Const:
				if k, ok := constInt(x); ok && k == 0 {
					return // a zero lifetime is below any cap
				}
				uncapped = "constant " + x.String()
			default:
				if in, ok := v.(ssa.Instruction); ok {
					uncapped = c.P.InstrPos(in) + " `" + v.String() + "`"
				} else {
					uncapped = v.String()
				}
			}
		}
		walk(lv)
	}
	if !pr.Used["rq.max-age.ok"] {
		c.Fail(rule, "request-max-age-caps", desc, c.P.ShortName(ff)+": the request's max-age is never consulted")
		return
	}
	if uncapped != "" {
		c.Fail(rule, "request-max-age-caps", desc, uncapped+": this lifetime reaches the staleness test without min(., request max-age). Witness: a response fresh through Expires or heuristics, aged 2 h, is served as HIT to a request with `max-age=3600`")
		return
	}
	c.Pass(rule, "request-max-age-caps", desc, c.P.ShortName(ff))
}

// ruleLocationLoopComplete (C07.7): the loop over the location header names has no early exit.
func ruleLocationLoopComplete(c *Ctx, rule string) {
	if !c.Need(rule, "invalidate") {
		return
	}
	n := 0
	tree := c.reachableFrom(c.A.F("invalidate"))
	keyFn := map[*ssa.Function]bool{}
	for _, fn := range tree {
		instrsOf(fn, func(in ssa.Instruction) {
			if cc := callOf(in); cc != nil && cc.IsInvoke() && isURLKeyerMethod(cc) {
				keyFn[fn] = true
			}
		})
	}
	// computesKey: the instruction computes a URL key itself or calls a helper that does
	computesKey := func(in ssa.Instruction) bool {
		cc := callOf(in)
		if cc == nil {
			return false
		}
		if cc.IsInvoke() && isURLKeyerMethod(cc) {
			return true
		}
		if sc := cc.StaticCallee(); sc != nil && c.P.IsRepoFunc(sc) {
			for g := range c.P.StaticTree(sc) {
				if keyFn[g] {
					return true
				}
			}
		}
		return false
	}
	for _, fn := range tree {
		hasKey := false
		instrsOf(fn, func(in ssa.Instruction) {
			if computesKey(in) {
				hasKey = true
			}
		})
		if !hasKey {
			continue
		}
		// the loop: a block "rangeindex.loop"/"for.loop"/range header whose exit edge leads to the done block
		for _, b := range fn.Blocks {
			if !blockInCycle(b) || len(b.Instrs) == 0 {
				continue
			}
			iff, ok := b.Instrs[len(b.Instrs)-1].(*ssa.If)
			if !ok {
				continue
			}
			// loop header: one successor stays in the cycle, the other leaves it
			var exit *ssa.BasicBlock
			for _, s := range b.Succs {
				if !reachableAvoiding(s, b, nil) {
					exit = s
				}
			}
			if exit == nil {
				continue
			}
			// only headers whose condition is the iteration test (index < len / next ok)
			if _, isBin := iff.Cond.(*ssa.BinOp); !isBin {
				if _, isEx := iff.Cond.(*ssa.Extract); !isEx {
					continue
				}
			}
			if !strings.Contains(b.Comment, "loop") && !strings.Contains(b.Comment, "range") {
				continue
			}
			// the loop body computes a key (directly or in a helper): it is the loop over the location fields
			inLoop := false
			for _, lb := range fn.Blocks {
				if lb != b && (!reachableAvoiding(lb, b, nil) || !reachableAvoiding(b, lb, nil)) {
					continue
				}
				for _, in := range lb.Instrs {
					if computesKey(in) {
						inLoop = true
					}
				}
			}
			if !inLoop {
				continue
			}
			n++
			desc := "the loop over Location / Content-Location runs for every header (no early exit)"
			bad := ""
			// any block inside the loop that can leave it other than through the header
			for _, lb := range fn.Blocks {
				if lb == b || !reachableAvoiding(lb, b, nil) || !reachableAvoiding(b, lb, nil) {
					continue
				}
				for _, s := range lb.Succs {
					if strings.HasPrefix(s.Comment, "rangefunc.") {
						if _, isPanic := s.Instrs[len(s.Instrs)-1].(*ssa.Panic); isPanic {
							continue // synthetic range-over-func protocol check
						}
					}
					if !reachableAvoiding(s, b, nil) {
						bad = c.P.ShortName(fn) + ": block " + lb.Comment + " leaves the loop directly (break/return)"
					}
				}
				if len(lb.Instrs) > 0 {
					if _, isRet := lb.Instrs[len(lb.Instrs)-1].(*ssa.Return); isRet {
						bad = c.P.ShortName(fn) + ": return inside the loop"
					}
				}
			}
			if bad != "" {
				c.Fail(rule, "location-loop fn="+c.P.ShortName(fn), desc, bad+"; when both fields name different same-origin URIs only the first one is invalidated")
			} else {
				c.Pass(rule, "location-loop fn="+c.P.ShortName(fn), desc, c.P.ShortName(fn))
			}
		}
	}
	if n == 0 {
		c.Undecided(rule, "location-loop", "a loop over the location headers exists", "not found")
	}
}

// ruleDurationSums (C01.10 / C12.8 / C13.7): ages, lifetimes and directive windows can be as large as the largest
// duration (a saturated delta-seconds value, a Date centuries in the past), so every sum of durations on the exchange
// must be wrap-safe: either the sum is compared with zero or with one of its operands in the same function (the body of a
// saturating helper), or it is handed to max/min together with one of its own operands (`max(a+b, b)`).
func ruleDurationSums(c *Ctx, rule string) {
	desc := "every sum of durations on the exchange saturates instead of wrapping around"
	var fns []*ssa.Function
	for fn := range c.A.Reach {
		fns = append(fns, fn)
	}
	sort.Slice(fns, func(i, j int) bool { return FuncName(fns[i]) < FuncName(fns[j]) })
	n := 0
	for _, fn := range fns {
		idx := 0
		instrsOf(fn, func(in ssa.Instruction) {
			add, ok := in.(*ssa.BinOp)
			if !ok || add.Op != token.ADD || !typeIs(add.Type(), "time", "Duration") {
				return
			}
			_, lc := add.X.(*ssa.Const)
			_, rc := add.Y.(*ssa.Const)
			if lc && rc {
				return
			}
			idx++
			n++
			key := fmt.Sprintf("duration-sum fn=%s#%d", c.P.ShortName(fn), idx)
			where := c.P.InstrPos(add) + " `" + add.String() + "`"
			isOperand := func(v ssa.Value) bool {
				return c.An.sameCanon(v, add.X) || c.An.sameCanon(v, add.Y)
			}
			isSum := func(v ssa.Value) bool { return v == ssa.Value(add) || c.An.canon(v) == ssa.Value(add) }
			safe := ""
			instrsOf(fn, func(i2 ssa.Instruction) {
				switch y := i2.(type) {
				case *ssa.BinOp:
					switch y.Op {
					case token.LSS, token.LEQ, token.GTR, token.GEQ:
					default:
						return
					}
					for _, pr := range [][2]ssa.Value{{y.X, y.Y}, {y.Y, y.X}} {
						if !isSum(pr[0]) {
							continue
						}
						if k, ok := constInt(pr[1]); ok && k == 0 {
							safe = "sum compared with zero at " + c.P.InstrPos(y)
						}
						if isOperand(pr[1]) {
							safe = "sum compared with its operand at " + c.P.InstrPos(y)
						}
					}
				case *ssa.Call:
					b, ok := y.Call.Value.(*ssa.Builtin)
					if !ok || (b.Name() != "max" && b.Name() != "min") {
						return
					}
					hasSum, hasOp := false, false
					for _, a := range y.Call.Args {
						if isSum(a) {
							hasSum = true
						} else if isOperand(a) {
							hasOp = true
						}
					}
					if hasSum && hasOp {
						safe = b.Name() + "(sum, operand) at " + c.P.InstrPos(y)
					}
				}
			})
			if safe != "" {
				c.Pass(rule, key, desc, where+": "+safe)
			} else {
				c.Fail(rule, key, desc, where+": plain `+` on durations that may be saturated (Date centuries old, delta-seconds of 2^63, stale-if-error=9223372036); the sum wraps negative: an ancient response looks brand new, a huge window looks closed", where)
			}
		})
	}
	if n == 0 {
		c.Undecided(rule, "duration-sum", desc, "no sum of durations reachable from RoundTrip")
	}
}

// ruleIndexValuesUTF8Safe (C19.5 / C09.6): the variant index is serialised with encoding/json, which replaces bytes that are
// not valid UTF-8 by U+FFFD. A request value that comes back changed from the store never compares equal to the request
// again: the variant is never selected and every request appends another reference. So the (single, C04.4) value
// normaliser must hand out only values that survive JSON: constants, results of ASCII encoders, values tested with
// utf8.ValidString, or results of repo functions with that property.
func ruleIndexValuesUTF8Safe(c *Ctx, rule string) {
	if !c.Need(rule, "storeResp", "writeIndex") {
		return
	}
	desc := "nominated request values written to the JSON-encoded index survive the encoding (valid UTF-8 or ASCII-encoded)"
	usesJSON := false
	for _, g := range c.reachableFrom(c.A.F("writeIndex")) {
		if callsWhere(g, func(cc *ssa.CallCommon) bool {
			return callIsPkgFunc(cc, "encoding/json", "Marshal") || callIsPkgFunc(cc, "encoding/json", "MarshalIndent") || callIsMethod(cc, "encoding/json", "Encoder", "Encode")
		}) {
			usesJSON = true
		}
	}
	if !usesJSON {
		c.Pass(rule, "index-values-utf8-safe", desc, "the index writer does not use encoding/json")
		return
	}
	isNorm := func(fn *ssa.Function) bool {
		ps, rs := sigParams(fn), sigResults(fn)
		return fn.Signature.Recv() == nil && fn.Parent() == nil && len(ps) == 2 && len(rs) == 1 && isBasicKind(ps[0], types.String) && isBasicKind(ps[1], types.String) && isBasicKind(rs[0], types.String)
	}
	var tops []*ssa.Function
	all := c.reachableFrom(c.A.F("storeResp"))
	calledByNorm := map[*ssa.Function]bool{}
	for _, fn := range all {
		if isNorm(fn) {
			for g := range c.P.StaticTree(fn) { // static calls only: a yield inside resolves to unrelated loop bodies
				if g != fn {
					calledByNorm[g] = true
				}
			}
		}
	}
	for _, fn := range all {
		if isNorm(fn) && !calledByNorm[fn] {
			tops = append(tops, fn)
		}
	}
	if len(tops) != 1 {
		c.Undecided(rule, "index-values-utf8-safe", desc, fmt.Sprintf("expected one value normaliser on the storing side, found %d", len(tops)))
		return
	}
	norm := tops[0]
	encoders := func(cc *ssa.CallCommon) bool {
		return callIsPkgFunc(cc, "strconv", "QuoteToASCII") || callIsPkgFunc(cc, "strconv", "Quote") || callIsPkgFunc(cc, "strconv", "QuoteToGraphic") ||
			callIsPkgFunc(cc, "encoding/hex", "EncodeToString") || callIsMethod(cc, "encoding/base64", "Encoding", "EncodeToString") ||
			callIsPkgFunc(cc, "net/url", "QueryEscape") || callIsPkgFunc(cc, "net/url", "PathEscape") || callIsPkgFunc(cc, "strconv", "Itoa") || callIsPkgFunc(cc, "strconv", "FormatInt") || callIsPkgFunc(cc, "strconv", "FormatUint")
	}
	validated := func(v ssa.Value, blk *ssa.BasicBlock) bool {
		for _, dc := range dominatingConds(blk) {
			for _, lf := range condLeaves(dc.cond, dc.onTrue) {
				call, ok := lf.v.(*ssa.Call)
				if !ok || !lf.val {
					continue
				}
				if (callIsPkgFunc(&call.Call, "unicode/utf8", "ValidString") || callIsPkgFunc(&call.Call, "unicode/utf8", "Valid")) && c.An.sameCanon(call.Call.Args[0], v) {
					return true
				}
			}
		}
		return false
	}
	var why string
	var safeFn func(fn *ssa.Function, depth int) bool
	var safeVal func(v ssa.Value, blk *ssa.BasicBlock, depth int) bool
	safeVal = func(v ssa.Value, blk *ssa.BasicBlock, depth int) bool {
		if depth > 8 {
			return false
		}
		if validated(v, blk) {
			return true
		}
		switch x := v.(type) {
		case *ssa.Const:
			return true
		case *ssa.BinOp:
			return x.Op == token.ADD && safeVal(x.X, blk, depth+1) && safeVal(x.Y, blk, depth+1)
		case *ssa.Phi:
			for i, e := range x.Edges {
				if !safeVal(e, x.Block().Preds[i], depth+1) {
					return false
				}
			}
			return true
		case *ssa.Call:
			if encoders(&x.Call) {
				return true
			}
			if sc := x.Call.StaticCallee(); sc != nil && c.P.IsRepoFunc(sc) && len(sc.Blocks) > 0 {
				return safeFn(sc, depth+1)
			}
		case *ssa.UnOp:
			if al, ok := x.X.(*ssa.Alloc); ok {
				for _, st := range c.P.cellStores(al) {
					if !safeVal(st.Val, st.Block(), depth+1) {
						return false
					}
				}
				return true
			}
		}
		why = fmt.Sprintf("%s `%s`", c.P.Pos(v.Pos()), v.String())
		return false
	}
	memo := map[*ssa.Function]int{}
	safeFn = func(fn *ssa.Function, depth int) bool {
		if r, ok := memo[fn]; ok {
			return r == 1
		}
		memo[fn] = 1 // optimistic for recursion
		ok := true
		for _, b := range fn.Blocks {
			if r, isRet := b.Instrs[len(b.Instrs)-1].(*ssa.Return); isRet && len(r.Results) == 1 {
				if !safeVal(r.Results[0], b, depth) {
					ok = false
				}
			}
		}
		if !ok {
			memo[fn] = 2
		}
		return ok
	}
	// the response id goes through the same index: the id function's results must survive JSON too (numbers and
	// constants aside, the URL key it starts with is request bytes)
	if sr := c.A.F("storeResp"); sr != nil {
		var idFns []*ssa.Function
		instrsOf(sr, func(in ssa.Instruction) {
			if !c.An.CallsRole(in, "writeEntry") {
				return
			}
			_, args := recvAndArgs(callOf(in))
			c.P.TraceBack(args[0], TraceOpts{NoParams: true, NoHeapFields: true}, func(v ssa.Value, _ []int) bool {
				if call, ok := v.(*ssa.Call); ok && call.Call.IsInvoke() {
					for _, cal := range c.P.Callees(call) {
						for _, t := range append([]*ssa.Function{cal}, c.An.AdapterTargets(cal)...) {
							if c.P.IsRepoFunc(t) && len(t.Blocks) > 0 && c.An.AdapterTargets(t) == nil {
								idFns = append(idFns, t)
							}
						}
					}
					return false
				}
				return true
			})
		})
		for _, idf := range idFns {
			why = ""
			if safeFn(idf, 0) {
				c.Pass(rule, "index-id-utf8-safe fn="+c.P.ShortName(idf), "the response id recorded in the JSON index survives the encoding", c.P.ShortName(idf))
			} else {
				c.Fail(rule, "index-id-utf8-safe fn="+c.P.ShortName(idf), "the response id recorded in the JSON index survives the encoding", c.P.ShortName(idf)+": the id contains request bytes that were never checked for valid UTF-8 ("+why+"); for a URL with a raw `?q=\\xff` the id read back from the index names no entry (every request is a MISS) and never equals a new id (a `Vary: *` resource grows by one reference per request)")
			}
		}
	}
	why = ""
	if safeFn(norm, 0) {
		c.Pass(rule, "index-values-utf8-safe", desc, c.P.ShortName(norm)+": every returned value is validated or ASCII-encoded")
	} else {
		c.Fail(rule, "index-values-utf8-safe", desc, c.P.ShortName(norm)+": returns request bytes that were never checked for valid UTF-8 ("+why+"); `X-Flavor: caf\\xe9` comes back from the JSON index as `caf\\ufffd`, never matches again, and each request appends one more reference")
	}
}

// ruleHeuristicStatuses (C01.5 / C06.4): the statuses that get a heuristic lifetime (and are storable without explicit
// freshness information) are a subset of RFC 9110 §15.1's heuristically cacheable statuses.
func ruleHeuristicStatuses(c *Ctx, rule string) {
	if !c.Need(rule, "heurStatus") {
		return
	}
	heur := c.A.F("heurStatus")
	desc := "only statuses that RFC 9110 §15.1 defines as heuristically cacheable get a heuristic lifetime"
	tc, _, err := c.An.IntTable(heur, 0, 999)
	if err != nil {
		c.Undecided(rule, "heuristic-statuses", desc, err.Error())
		return
	}
	allowed := map[int64]bool{}
	for _, k := range oracleHeuristic {
		allowed[k] = true
	}
	// 304 is listed by this code base but can never reach the table as a stored status: a 304 is never written to the
	// store (decided by C06.1, row "304-never-stored"), so its membership has no behaviour
	allowed[304] = true
	var extra []string
	var have []string
	for _, k := range tc {
		have = append(have, fmt.Sprint(k))
		if !allowed[k] {
			extra = append(extra, fmt.Sprint(k))
		}
	}
	if len(extra) > 0 {
		c.Fail(rule, "heuristic-statuses", desc, c.P.ShortName(heur)+": also true for "+strings.Join(extra, ", ")+"; e.g. a bare 307/302 with an old Last-Modified is stored and reused for 10% of its age without ever asking the origin", have...)
		return
	}
	c.Pass(rule, "heuristic-statuses", desc, have...)
}

// ruleEvaluatorRequestDirectives (C06.9 / C08.7): whether a response may be stored depends on the request only through
// `no-store` (RFC 9111 §3, §5.2.1.5). In particular request `no-cache` / `max-age` ask for validation, not for the
// validated response to be thrown away: if they made the evaluator say no, a 200 that replaces a stored representation
// after such a validation would not be written and the old representation would keep being served.
func ruleEvaluatorRequestDirectives(c *Ctx, rule string) {
	if !c.Need(rule, "canStore") {
		return
	}
	cs := c.A.F("canStore")
	desc := "the storability decision consults no request directive other than no-store"
	var seen, bad []string
	for g := range c.P.StaticTree(cs) {
		instrsOf(g, func(in ssa.Instruction) {
			call, ok := in.(*ssa.Call)
			if !ok {
				return
			}
			sc := call.Call.StaticCallee()
			if sc == nil {
				return
			}
			di, isAcc := c.A.DirAcc[sc]
			if !isAcc || di.Class != "rq" {
				return
			}
			w := fmt.Sprintf("%s@%s rq.%s", c.P.ShortName(g), c.P.InstrPos(in), di.Directive)
			seen = append(seen, w)
			if di.Directive != "no-store" {
				bad = append(bad, w)
			}
		})
	}
	sort.Strings(seen)
	sort.Strings(bad)
	if len(bad) > 0 {
		c.Fail(rule, "evaluator-request-directives", desc, strings.Join(bad, "; ")+": a full 200 answering a validation that this request directive forced is judged not storable, the replaced representation stays in the store and later requests are served the old body as a HIT", seen...)
		return
	}
	if len(seen) == 0 {
		c.Undecided(rule, "evaluator-request-directives", desc, "the evaluator consults no request directive at all (request no-store is not honoured)")
		return
	}
	c.Pass(rule, "evaluator-request-directives", desc, seen...)
}

// ruleExpiresMinusDate (C01.11 / C09.7): the lifetime taken from Expires is Expires minus the response's Date (RFC 9111
// §4.2.1), not Expires minus a local timestamp: in the freshness function, the difference whose minuend is the decoded
// Expires field has the decoded Date field as its subtrahend.
func ruleExpiresMinusDate(c *Ctx, rule string) {
	if !c.Need(rule, "freshness") {
		return
	}
	ff := c.A.F("freshness")
	desc := "the Expires-based lifetime is Expires minus Date (both from the stored response)"
	readsHeader := func(call *ssa.Call, key string) bool {
		if callIsMethod(&call.Call, "net/http", "Header", "Get") {
			_, a := recvAndArgs(&call.Call)
			s, ok := constStr(a[0])
			return ok && s == key
		}
		for _, f := range c.P.RepoCallees(call) {
			for g := range c.P.StaticTree(f) {
				if headerCallWithKey(g, "Get", key) {
					return true
				}
			}
		}
		return false
	}
	n := 0
	// the freshness function and the helpers it delegates the lifetime to (values are followed through their parameters)
	var scope []*ssa.Function
	for g := range c.P.StaticTree(ff) {
		scope = append(scope, g)
	}
	sort.Slice(scope, func(i, j int) bool { return FuncName(scope[i]) < FuncName(scope[j]) })
	for _, g := range scope {
		instrsOf(g, func(in ssa.Instruction) {
			call, ok := in.(*ssa.Call)
			if !ok || !callIsMethod(&call.Call, "time", "Time", "Sub") {
				return
			}
			recv, args := recvAndArgs(&call.Call)
			if !c.An.dependsOnCallFull(recv, func(cc *ssa.Call) bool { return readsHeader(cc, "Expires") }) {
				return
			}
			n++
			where := c.P.InstrPos(in) + " `" + in.String() + "`"
			if c.An.dependsOnCallFull(args[0], func(cc *ssa.Call) bool { return readsHeader(cc, "Date") }) {
				c.Pass(rule, "expires-minus-date", desc, where)
			} else {
				c.Fail(rule, "expires-minus-date", desc, where+": the subtrahend is not the stored response's Date; with a Date older than the time of receipt (a response relayed by another cache, a lagging origin clock) the gap is taken off the lifetime and counted in the age, so the entry is stale while the clock is still before Expires")
			}
		})
	}
	if n == 0 {
		c.Undecided(rule, "expires-minus-date", desc, "no time difference with the decoded Expires as minuend in "+c.P.ShortName(ff))
	}
}

// ruleIndexHandedOn (C09.8 / C19.6): when the variant index was read without error and is not empty, every call in
// RoundTrip that hands a variant list on (to the miss, hit and store paths) hands on that list, never a nil one: a nil list
// makes the storer write a one-element index, so the references to all other stored variants are lost (they are never
// hit again, and their entries are never invalidated).
func ruleIndexHandedOn(c *Ctx, rule string) {
	if !c.Need(rule, "readIndex") {
		return
	}
	root := c.A.Root
	desc := "with a readable, non-empty index no nil variant list is handed on by RoundTrip"
	assume := map[string]bool{"nil:err": true, "cmp:len==0": false}
	pr := c.An.Prune(root, AssumeKeys(assume))
	n, bad := 0, ""
	var sites []string
	instrsOf(root, func(in ssa.Instruction) {
		call := callOf(in)
		if call == nil {
			return
		}
		for _, a := range call.Args {
			sl, ok := a.Type().Underlying().(*types.Slice)
			if !ok || !isPtrToNamed(sl.Elem(), c.A.RefT) {
				continue
			}
			n++
			k, isConst := a.(*ssa.Const)
			live := pr.LiveBlock[in.Block().Index]
			sites = append(sites, fmt.Sprintf("%s nil=%v live=%v", c.P.InstrPos(in), isConst && k.Value == nil, live))
			if isConst && k.Value == nil && live {
				bad = c.P.InstrPos(in)
			}
		}
	})
	if n == 0 {
		c.Undecided(rule, "index-handed-on", desc, "RoundTrip passes no variant list on")
		return
	}
	if !pr.Used["nil:err"] && !pr.Used["cmp:len==0"] {
		c.Undecided(rule, "index-handed-on", desc, "RoundTrip tests neither the index read error nor the emptiness of the list", sites...)
		return
	}
	if bad != "" {
		c.Fail(rule, "index-handed-on", desc, bad+": a nil list is handed on although the index was read and is not empty; after storing variant B the index lists B alone, a later request for the still fresh variant A goes to the origin, and alternating variants never hit", sites...)
		return
	}
	c.Pass(rule, "index-handed-on", desc, sites...)
}

// ruleResidentTime (C01.4 / C11.2): RFC 9111 §4.2.3: response_delay = response_time - request_time and
// resident_time = now - response_time. In the current-age function the time parameter that is the minuend of the
// parameter-minus-parameter difference (the response time) is the one the clock is asked about; measuring from the request
// time counts the response delay twice.
func ruleResidentTime(c *Ctx, rule string) {
	if !c.Need(rule, "currentAge") {
		return
	}
	ca := c.A.F("currentAge")
	desc := "resident time is measured from the response time (the minuend of response_time - request_time)"
	isTimeParam := func(v ssa.Value) *ssa.Parameter {
		p, ok := c.An.canon(v).(*ssa.Parameter)
		if ok && p.Parent() == ca && typeIs(p.Type(), "time", "Time") {
			return p
		}
		return nil
	}
	var respTime *ssa.Parameter
	ambiguous := false
	instrsOf(ca, func(in ssa.Instruction) {
		call, ok := in.(*ssa.Call)
		if !ok || !callIsMethod(&call.Call, "time", "Time", "Sub") {
			return
		}
		recv, args := recvAndArgs(&call.Call)
		x, y := isTimeParam(recv), isTimeParam(args[0])
		if x == nil || y == nil {
			return
		}
		// Date is also a time parameter: response_time - date (apparent age) has the same minuend
		if respTime != nil && respTime != x {
			ambiguous = true
		}
		respTime = x
	})
	if respTime == nil || ambiguous {
		c.Undecided(rule, "resident-time", desc, "no unique minuend of parameter-minus-parameter differences in "+c.P.ShortName(ca))
		return
	}
	n := 0
	instrsOf(ca, func(in ssa.Instruction) {
		call, ok := in.(*ssa.Call)
		if !ok {
			return
		}
		var arg ssa.Value
		switch {
		case call.Call.IsInvoke() && call.Call.Method.Name() == "Since" && len(call.Call.Args) == 1:
			arg = call.Call.Args[0]
		case callIsPkgFunc(&call.Call, "time", "Since"):
			arg = call.Call.Args[0]
		default:
			return
		}
		n++
		where := c.P.InstrPos(in) + " `" + in.String() + "`"
		if isTimeParam(arg) == respTime {
			c.Pass(rule, "resident-time", desc, where)
		} else {
			c.Fail(rule, "resident-time", desc, where+": the clock is not asked about "+respTime.Name()+"; the response delay is counted twice, so every served Age is too high by the delay and entries go stale early")
		}
	})
	if n == 0 {
		c.Undecided(rule, "resident-time", desc, "no Since call in "+c.P.ShortName(ca))
	}
}

// ruleExpiresPresence (C01.14): the heuristic lifetime applies only when NO explicit expiry is present. Whether an Expires
// field is present is a question about the header map (a key lookup, the length of its value list), not about the value:
// a function that reads the Expires field must not decide by comparing `Get("Expires")` with the empty string, or an
// `Expires:` line with an empty (invalid) value counts as absent and the response is reused heuristically.
func ruleExpiresPresence(c *Ctx, rule string) {
	desc := "presence of Expires is decided on the header map, not by comparing its value with the empty string"
	n := 0
	var fns []*ssa.Function
	for fn := range c.A.Reach {
		fns = append(fns, fn)
	}
	sort.Slice(fns, func(i, j int) bool { return FuncName(fns[i]) < FuncName(fns[j]) })
	for _, fn := range fns {
		// the accessor that decodes the field for the freshness function (it hands out a time); other readers (the
		// storability evaluator's "has explicit freshness information") do not feed the lifetime
		decodes := false
		for _, rt := range sigResults(fn) {
			if typeIs(rt, "time", "Time") {
				decodes = true
			}
		}
		if !decodes {
			continue
		}
		instrsOf(fn, func(in ssa.Instruction) {
			bo, ok := in.(*ssa.BinOp)
			if !ok || (bo.Op != token.EQL && bo.Op != token.NEQ) {
				return
			}
			for _, pr := range [][2]ssa.Value{{bo.X, bo.Y}, {bo.Y, bo.X}} {
				k, isK := constStr(pr[1])
				if !isK || k != "" {
					continue
				}
				call, ok := c.An.canon(pr[0]).(*ssa.Call)
				if !ok || !callIsMethod(&call.Call, "net/http", "Header", "Get") {
					continue
				}
				_, args := recvAndArgs(&call.Call)
				if name, ok := constStr(args[0]); ok && name == "Expires" {
					n++
					c.Fail(rule, "expires-presence fn="+c.P.ShortName(fn), desc, c.P.InstrPos(bo)+": `Expires:` with an empty value is taken for a missing field; with a Last-Modified 1000 h in the past the response is then fresh for 100 h although it carries an explicit (invalid, i.e. expired) expiry")
				}
			}
		})
	}
	if n == 0 {
		c.Pass(rule, "expires-presence", desc, fmt.Sprintf("%d functions scanned: no comparison of Get(\"Expires\") with the empty string", len(fns)))
	}
}
