package hcv

import (
	"go/token"
	"fmt"
	"go/constant"
	"sort"
	"strings"

	"golang.org/x/tools/go/ssa"
)

// underLeaves returns the recognised decisions that dominate block b as a key→value map (the set underKey renders).
func (c *Ctx) underLeaves(b *ssa.BasicBlock) map[string]bool {
	out := map[string]bool{}
	for _, dc := range dominatingConds(b) {
		for _, lf := range condLeaves(dc.cond, dc.onTrue) {
			if a, neg, ok := c.An.AtomOf(lf.v); ok {
				out[a.Key] = lf.val != neg
			}
		}
	}
	return out
}

// requestStateExcluded decides whether the request-directive state `under` (atoms of the form rq.<dir>.…, with
// rq.<dir>.ok=T among them) can reach function fn through its request-directive parameter at all. It cannot when, at
// every call site of fn on the exchange, pruning the caller under the same state leaves as the only live sources of the
// argument maps that are private copies from which <dir> has been deleted before the call (and is never put back):
// a map without <dir> contradicts rq.<dir>.ok=T inside fn, and the unmodified map is handed over only on edges that are
// dead under the state. Returns the call sites examined.
func (c *Ctx) requestStateExcluded(fn *ssa.Function, under map[string]bool) (bool, string, []string) {
	return c.requestStateExcludedAt(fn, under, 0)
}

func (c *Ctx) requestStateExcludedAt(fn *ssa.Function, under map[string]bool, depth int) (bool, string, []string) {
	dir := ""
	for k, v := range under {
		if !strings.HasPrefix(k, "rq.") {
			return false, "the decision `" + k + "` is not about the request directives", nil
		}
		if strings.HasSuffix(k, ".ok") && v {
			d := strings.TrimSuffix(strings.TrimPrefix(k, "rq."), ".ok")
			if dir != "" && dir != d {
				return false, "more than one directive involved", nil
			}
			dir = d
		}
	}
	if dir == "" {
		return false, "no `present` decision among the dominating ones", nil
	}
	for k := range under {
		if !strings.HasPrefix(k, "rq."+dir+".") {
			return false, "decision `" + k + "` concerns another directive", nil
		}
	}
	// the request-directive parameter of fn
	var rqT string
	for sc, di := range c.A.DirAcc {
		if di.Class == "rq" && sc != nil && len(sc.Params) > 0 {
			rqT = sc.Params[0].Type().String()
			break
		}
	}
	pi := -1
	for i, p := range fn.Params {
		if p.Type().String() == rqT {
			if pi >= 0 {
				return false, "two request-directive parameters", nil
			}
			pi = i
		}
	}
	if pi < 0 {
		return false, "no request-directive parameter", nil
	}
	var sites []string
	nsites := 0
	for caller := range c.A.Reach {
		if isTestOnly(c, caller) || c.A.roleOf[caller] == c.A.roleOf[fn] && caller == fn {
			continue
		}
		var calls []ssa.CallInstruction
		instrsOf(caller, func(in ssa.Instruction) {
			ci, ok := in.(ssa.CallInstruction)
			if !ok {
				return
			}
			for _, cal := range c.P.Callees(ci) {
				if cal == fn {
					calls = append(calls, ci)
				}
			}
		})
		if len(calls) == 0 {
			continue
		}
		pr := c.An.Prune(caller, AssumeKeys(under))
		for _, ci := range calls {
			nsites++
			where := c.P.ShortName(caller) + "@" + c.P.InstrPos(ci)
			if !pr.LiveBlock[ci.Block().Index] {
				sites = append(sites, where+" (not executed under the state)")
				continue
			}
			arg := argForParam(ci.Common(), fn, pi)
			if arg == nil {
				return false, where + ": argument not identified", sites
			}
			seen := map[ssa.Value]bool{}
			var leaves []ssa.Value
			var walk func(v ssa.Value)
			walk = func(v ssa.Value) {
				if seen[v] {
					return
				}
				seen[v] = true
				switch x := v.(type) {
				case *ssa.Phi:
					for _, e := range pr.LivePhiEdges(x) {
						walk(e)
					}
				case *ssa.ChangeType:
					walk(x.X)
				default:
					leaves = append(leaves, v)
				}
			}
			walk(arg)
			if len(leaves) == 0 {
				return false, where + ": no live source of the argument", sites
			}
			for _, lf := range leaves {
				// handed on unchanged from the caller's own parameter (a forwarder in front of the function): the state
				// must be excluded at that function's call sites
				if p, ok := lf.(*ssa.Parameter); ok && p.Parent() == caller && depth < 3 {
					excl, why, sub := c.requestStateExcludedAt(caller, under, depth+1)
					if !excl {
						return false, why, append(sites, sub...)
					}
					sites = append(sites, sub...)
					continue
				}
				if why := c.strippedCopy(lf, dir, ci); why != "" {
					return false, where + ": under the state the argument may be `" + lf.String() + "` (" + why + ")", sites
				}
			}
			sites = append(sites, fmt.Sprintf("%s (%d live source(s), each a private copy without %q)", where, len(leaves), dir))
		}
	}
	if nsites == 0 {
		return false, "no call site found on the exchange", nil
	}
	sort.Strings(sites)
	return true, "", sites
}

// strippedCopy returns "" when m is a map created for this call (maps.Clone / make) from which key dir is deleted on
// every path to `before` and into which nothing is stored under dir or a computed key; otherwise the reason.
func (c *Ctx) strippedCopy(m ssa.Value, dir string, before ssa.Instruction) string {
	fresh := false
	switch x := m.(type) {
	case *ssa.MakeMap:
		fresh = true
	case *ssa.Call:
		if sc := x.Call.StaticCallee(); sc != nil {
			n := sc.String()
			if o := sc.Origin(); o != nil {
				n = o.String()
			}
			fresh = strings.HasPrefix(n, "maps.Clone")
		}
	}
	if !fresh {
		return "not a private copy"
	}
	if mk, ok := m.(*ssa.MakeMap); ok && c.filteredCopySource(mk) != nil {
		// a copy filled pair by pair from a range over another map: dir is left out when every copying step is
		// reached only with a key known to differ from dir
		why := ""
		for _, r := range *mk.Referrers() {
			mu, ok := r.(*ssa.MapUpdate)
			if !ok || mu.Map != m {
				if call, ok := r.(*ssa.Call); ok && call != before && instrDominates(call, before) {
					if _, isB := call.Call.Value.(*ssa.Builtin); !isB {
						why = "the copy is handed to " + call.String() + " before the call"
					}
				}
				continue
			}
			excluded := false
			for _, dc := range dominatingConds(mu.Block()) {
				for _, lf := range condLeaves(dc.cond, dc.onTrue) {
					bo, ok := lf.v.(*ssa.BinOp)
					if !ok {
						continue
					}
					for _, side := range [][2]ssa.Value{{bo.X, bo.Y}, {bo.Y, bo.X}} {
						k, isK := constStr(side[1])
						if !isK || k != dir || side[0] != mu.Key {
							continue
						}
						if (bo.Op == token.NEQ && lf.val) || (bo.Op == token.EQL && !lf.val) {
							excluded = true
						}
					}
				}
			}
			if !excluded {
				why = "the copying step at " + c.P.InstrPos(mu) + " is not confined to keys other than " + dir
			}
		}
		return why
	}
	refs := m.Referrers()
	if refs == nil {
		return "no delete of " + dir
	}
	deleted := false
	for _, r := range *refs {
		switch x := r.(type) {
		case *ssa.MapUpdate:
			if x.Map != m {
				continue
			}
			k, ok := x.Key.(*ssa.Const)
			if !ok || k.Value == nil || k.Value.Kind() != constant.String || strings.EqualFold(constant.StringVal(k.Value), dir) {
				return "the copy is written under " + x.Key.String()
			}
		case *ssa.Call:
			if b, ok := x.Call.Value.(*ssa.Builtin); ok && b.Name() == "delete" && len(x.Call.Args) == 2 && x.Call.Args[0] == m {
				if k, ok := x.Call.Args[1].(*ssa.Const); ok && k.Value != nil && k.Value.Kind() == constant.String &&
					constant.StringVal(k.Value) == dir && cutsPaths(m.(ssa.Instruction), x, before) {
					deleted = true
				}
				continue
			}
			// handed to other code before the call: it could put the directive back
			if x != before && instrDominates(x, before) {
				if sc := x.Call.StaticCallee(); sc == nil || len(c.P.RepoCallees(x)) > 0 {
					return "the copy is handed to " + x.String() + " before the call"
				}
			}
		}
	}
	if !deleted {
		return "no delete of " + dir + " that dominates the call"
	}
	return ""
}

// cutsPaths: every path from the definition `from` to `to` executes `cut` (cut in from's block after it, cut
// dominating to, or no path from from's block to to's block that avoids cut's block).
func cutsPaths(from, cut, to ssa.Instruction) bool {
	if cut.Block() == from.Block() && instrDominates(from, cut) && (to.Block() != from.Block() || instrDominates(cut, to)) {
		return true
	}
	if instrDominates(cut, to) {
		return true
	}
	if cut.Block() == from.Block() || cut.Block() == to.Block() {
		return false
	}
	seen := map[*ssa.BasicBlock]bool{from.Block(): true}
	work := []*ssa.BasicBlock{from.Block()}
	for len(work) > 0 {
		b := work[0]
		work = work[1:]
		if b == to.Block() {
			return false
		}
		for _, s := range b.Succs {
			if s == cut.Block() || seen[s] {
				continue
			}
			seen[s] = true
			work = append(work, s)
		}
	}
	return true
}
