package hcv

import (
	"fmt"
	"go/token"
	"sort"
	"strings"

	"golang.org/x/tools/go/ssa"
)

func init() {
	register(&Property{
		ID:    "C13",
		Title: "stale-if-error serves the stored response on origin failure, within its window",
		Decides: "eligible status table == {500,502,503,504}; the policy receives directives of the stored response and of the request; the stale-if-error " +
			"return is unreachable under stored must-revalidate, stored unqualified no-cache, request no-cache, a non-GET method, or a negative policy answer; " +
			"the window comparison permits only staleness strictly below the window; the return passes Age generation and the STALE status.",
		NotDecided:  "numeric staleness; which of several stale-if-error values wins; upstream behaviour.",
		Assumptions: []string{"R-REQ, R-PURE (checked)"},
		Rules: []Rule{
			{ID: "C13.0", Desc: "shared premises", Run: func(c *Ctx) { ruleRREQ(c, "C13.0"); ruleRPURE(c, "C13.0") }, MinSites: 2},
			{ID: "C13.1", Desc: "eligible statuses are exactly 500, 502, 503, 504", Run: ruleC13_1, MinSites: 1},
			{ID: "C13.2", Desc: "stored-response and request directives reach the policy", Run: ruleC13_2, MinSites: 1},
			{ID: "C13.3", Desc: "no stale-if-error against must-revalidate / no-cache", Run: ruleC13_3, MinSites: 3},
			{ID: "C13.4", Desc: "strict window comparison", Run: ruleC13_4, MinSites: 1},
			{ID: "C13.5", Desc: "stale-if-error return is marked STALE with Age", Run: ruleC13_5, MinSites: 1},
			{ID: "C13.9", Desc: "every outcome of the validation request (error included) is handed to the validation handler", Run: ruleC13_9, MinSites: 1},
			{ID: "C13.8", Desc: "the Age emitted on the stale-if-error return includes the time since the age was computed (the failed validation attempt)", Run: func(c *Ctx) { ruleAgeEmission(c, "C13.8") }, MinSites: 1},
			{ID: "C13.7", Desc: "the window sum (lifetime + stale-if-error) and the age sum saturate", Run: func(c *Ctx) { ruleDurationSums(c, "C13.7") }, MinSites: 2},
			{ID: "C13.6", Desc: "otherwise the failure is returned", Run: ruleC13_6, MinSites: 2},
			{ID: "C13.10", Desc: "a stale-if-error value too large to represent saturates instead of being ignored", Run: func(c *Ctx) { ruleSaturation(c, "C13.10") }, MinSites: 2},
			{ID: "C13.11", Desc: "the freshness record used for the stale-if-error window is the stored response's own (never the made-up record of a request max-age=0)", Run: func(c *Ctx) { ruleC11_2(c); renameRule(c, "C11.2", "C13.11") }, MinSites: 1},
			{ID: "C13.12", Desc: "every origin exchange of the hit path ends in the validation handler", Run: func(c *Ctx) { ruleHitNeverRefetchesAsMiss(c, "C13.12") }, MinSites: 1},
			{ID: "C13.13", Desc: "a signed stale-if-error value opens no window", Run: func(c *Ctx) { ruleDeltaSecondsUnsigned(c, "C13.13") }, MinSites: 1},
			{ID: "C13.14", Desc: "the error reply's header fields do not decide whether stale-if-error applies", Run: func(c *Ctx) { ruleSIEGuardIgnoresErrorReplyHeader(c, "C13.14") }, MinSites: 1},
			{ID: "C13.15", Desc: "each stale-if-error directive opens its own window (no sum over the stored response's and the request's)", Run: func(c *Ctx) { ruleSIEWindowPerDirective(c, "C13.15") }, MinSites: 1},
			{ID: "C13.16", Desc: "behind a positive stale-if-error decision only the stored response is returned", Run: func(c *Ctx) { ruleSIEBranchReturnsStored(c, "C13.16") }, MinSites: 1},
			{ID: "C13.17", Desc: "a response with a lifetime of zero has a stale-if-error window like any other", Run: func(c *Ctx) { ruleSIEComparisonsInvolveWindow(c, "C13.17") }, MinSites: 1},
			{ID: "C13.18", Desc: "a 304 freshens the stored Cache-Control with every field line (must-revalidate / stale-if-error on a second line)", Run: func(c *Ctx) { ruleMergeFilter(c, "C13.18") }, MinSites: 1},
			{ID: "C13.19", Desc: "the Date supplied by the cache is UTC (the window is not shifted by the zone offset)", Run: func(c *Ctx) { ruleDateRepair(c, "C13.19") }, MinSites: 1},
			{ID: "C13.20", Desc: "the revalidation context's request directives are the parser's result for the request (no reduced copy)", Run: func(c *Ctx) { ruleContextCarriesParsedDirectives(c, "C13.20") }, MinSites: 2},
		},
	})
}

func ruleC13_1(c *Ctx) {
	if !c.Need("C13.1", "sieStatus") {
		return
	}
	fn := c.A.F("sieStatus")
	tc, cells, err := c.An.IntTable(fn, 0, 999)
	desc := "stale-if-error applies to exactly 500, 502, 503, 504"
	if err != nil {
		c.Undecided("C13.1", "sie-status-table", desc, c.P.ShortName(fn)+": "+err.Error())
		return
	}
	ex := []string{fmt.Sprintf("%s: cells=%v true=%v", c.P.ShortName(fn), cells, tc)}
	if fmt.Sprint(tc) != fmt.Sprint(oracleSIE) {
		c.Fail("C13.1", "sie-status-table", desc, fmt.Sprintf("%s accepts %v, oracle O-SIE is %v; e.g. a 404 would trigger stale serving, or a 502 would not", c.P.ShortName(fn), tc, oracleSIE), ex...)
		return
	}
	c.Pass("C13.1", "sie-status-table", desc, ex...)
	// the table guards the policy call in the handler: under {err==nil, sieStatus=F} the policy is not consulted
	if vh := c.A.F("validationHandler"); vh != nil {
		pr := c.An.Prune(vh, AssumeKeys(map[string]bool{"nil:err": true, "pred:sieStatus": false, not304: false}))
		live := false
		pr.LiveInstrs(func(in ssa.Instruction) {
			if c.An.CallsRole(in, "siePolicy") {
				live = true
			}
		})
		if live {
			c.Fail("C13.1", "sie-status-guards-policy", "the policy is consulted only for an origin error or an eligible status",
				c.P.ShortName(vh)+": the stale-if-error policy call is reachable with a successful origin answer whose status is not eligible")
		} else {
			c.Pass("C13.1", "sie-status-guards-policy", "the policy is consulted only for an origin error or an eligible status", c.P.ShortName(vh))
		}
	}
}

// policyArgClasses: directive classes of the variadic arguments at a stale-if-error policy call.
func (an *Analysis) policyArgClasses(call *ssa.CallCommon) map[string]bool {
	out := map[string]bool{}
	_, args := recvAndArgs(call)
	if len(args) < 2 {
		return out
	}
	va := args[len(args)-1]
	// the slice of a variadic array: collect element stores
	var elems []ssa.Value
	an.P.TraceBack(va, TraceOpts{NoParams: true}, func(v ssa.Value, _ []int) bool {
		if sl, ok := v.(*ssa.Slice); ok {
			if refs := sl.X.Referrers(); refs != nil {
				for _, r := range *refs {
					if ia, ok := r.(*ssa.IndexAddr); ok {
						if rr := ia.Referrers(); rr != nil {
							for _, u := range *rr {
								if st, ok := u.(*ssa.Store); ok && st.Addr == ia {
									elems = append(elems, st.Val)
								}
							}
						}
					}
				}
			}
			return false
		}
		return true
	})
	for _, e := range elems {
		e = peel(e)
		if isNamed(e.Type(), an.A.ReqDirT) || isNamed(e.Type(), an.A.RespDirT) {
			out[an.DirClass(e)] = true
		} else {
			out["other:"+e.Type().String()] = true
		}
	}
	return out
}

func ruleC13_2(c *Ctx) {
	if !c.Need("C13.2", "siePolicy") {
		return
	}
	n := 0
	for fn := range c.A.Reach {
		instrsOf(fn, func(in ssa.Instruction) {
			if !c.An.CallsRole(in, "siePolicy") {
				return
			}
			n++
			cls := c.An.policyArgClasses(callOf(in))
			var ks []string
			for k := range cls {
				ks = append(ks, k)
			}
			sort.Strings(ks)
			where := fmt.Sprintf("%s@%s classes=%v", c.P.ShortName(fn), c.P.InstrPos(in), ks)
			desc := "the stale-if-error policy is given the stored response's directives and the request's directives"
			var missing []string
			if !cls["rs"] {
				missing = append(missing, "stored response (rs)")
			}
			if !cls["rq"] {
				missing = append(missing, "request (rq)")
			}
			if cls["up"] && len(missing) == 0 {
				c.Fail("C13.2", "policy-sources-error-reply fn="+c.P.ShortName(fn), "the error reply's own directives do not grant stale-if-error",
					where+": the policy is also given the directives of the origin's error reply; a stale-if-error present only on the error reply would serve the stored response", where)
				return
			}
			if len(missing) > 0 {
				c.Fail("C13.2", "policy-sources fn="+c.P.ShortName(fn), desc,
					where+": missing "+strings.Join(missing, ", ")+". Witness: stored `stale-if-error=60`, origin answers a bare 503 => the 503 is returned although the stored response allows stale serving", where)
			} else {
				c.Pass("C13.2", "policy-sources fn="+c.P.ShortName(fn), desc, where)
			}
		})
	}
	if n == 0 {
		c.Undecided("C13.2", "vacuity", "a policy call site exists", "no call of the stale-if-error policy reachable from RoundTrip")
	}
}

// forbidInHandler: under the assumption, no return of the stored response is live in the validation handler.
func forbidInHandler(c *Ctx, rule, row string, assume map[string]bool, witness string) {
	vh := c.A.F("validationHandler")
	as := closeImplications(assume)
	pr := c.An.Prune(vh, AssumeKeys(as))
	var bad []ssa.Instruction
	total := 0
	instrsOf(vh, func(in ssa.Instruction) {
		if c.An.IsServeReturn(in) {
			total++
		}
	})
	pr.LiveInstrs(func(in ssa.Instruction) {
		if c.An.IsServeReturn(in) {
			bad = append(bad, in)
		}
	})
	desc := fmt.Sprintf("under %s the validation handler does not return the stored response", assumeString(assume))
	ex := fmt.Sprintf("%s: %d returns of the stored response, atoms used: %v", c.P.ShortName(vh), total, sortedKeys(boolKeys(pr.Used)))
	if total == 0 {
		c.Undecided(rule, row, desc, "the validation handler has no return of the stored response")
		return
	}
	if len(bad) > 0 {
		c.Fail(rule, row, desc, fmt.Sprintf("%s: `%s` stays reachable. Witness: %s", c.P.InstrPos(bad[0]), bad[0].String(), witness), ex)
		return
	}
	c.Pass(rule, row, desc, ex)
}

func boolKeys(m map[string]bool) map[string]bool { return m }

func ruleC13_3(c *Ctx) {
	if !c.Need("C13.3", "validationHandler") {
		return
	}
	forbidInHandler(c, "C13.3", "row=must-revalidate", map[string]bool{"rs.must-revalidate": true, not304: false},
		"stored `max-age=1, must-revalidate, stale-if-error=60`, origin answers 503 => the stale response is served")
	forbidInHandler(c, "C13.3", "row=stored-no-cache", map[string]bool{"rs.no-cache.ok": true, "rs.no-cache.arg": false, not304: false},
		"stored `no-cache, stale-if-error=60`, origin answers 503 => the stored response is served unvalidated")
	forbidInHandler(c, "C13.3", "row=request-no-cache", map[string]bool{"rq.no-cache": true, not304: false},
		"request `no-cache`, origin answers 503 carrying stale-if-error => the stored response is served")
	forbidInHandler(c, "C13.3", "row=non-GET", map[string]bool{"cmp:method==GET": false},
		"a non-GET request is answered from the store")
}

func ruleC13_4(c *Ctx) {
	if !c.Need("C13.4", "siePolicy") {
		return
	}
	fn := c.A.F("siePolicy")
	// the window comparison, in the policy or a helper/closure it delegates to: either a branch whose permitting edge
	// leads to `return true`, or a comparison returned directly as the permit
	n := 0
	durDep := func(v ssa.Value) bool {
		return c.An.dependsOnCall(v, func(cc *ssa.Call) bool {
			if c.An.isAccessorCallAny(cc, "stale-if-error") {
				return true
			}
			// the interface call through which the policy reads the directive of each source
			return c.An.invokeResolvesTo(cc, func(f *ssa.Function) bool {
				di, ok := c.A.DirAcc[f]
				return ok && di.Directive == "stale-if-error"
			})
		})
	}
	for _, g := range c.reachableFrom(fn) {
		if c.A.roleOf[g] != "" && g != fn {
			continue
		}
		instrsOf(g, func(in ssa.Instruction) {
			cmp, ok := in.(*ssa.BinOp)
			if !ok {
				return
			}
			switch cmp.Op {
			case token.LSS, token.LEQ, token.GTR, token.GEQ:
			default:
				return
			}
			ld, rd := durDep(cmp.X), durDep(cmp.Y)
			if ld == rd {
				return
			}
			n++
			op := cmp.Op
			decided := false
			earlyRefusal := ""
			if refs := cmp.Referrers(); refs != nil {
				for _, r := range *refs {
					switch u := r.(type) {
					case *ssa.Return:
						// `return age < lifetime+N`: true is the permit. Inside a loop over the directive sources this also
						// returns the refusal of the first source and never looks at the next one
						if len(u.Results) == 1 && u.Results[0] == ssa.Value(cmp) {
							if leavesLoopFromBody(u.Block()) {
								earlyRefusal = c.P.InstrPos(u)
							}
							decided = true
						}
					case *ssa.If:
						b := u.Block()
						retTrue := func(blk *ssa.BasicBlock) bool {
							if len(blk.Instrs) == 0 {
								return false
							}
							r, ok := blk.Instrs[len(blk.Instrs)-1].(*ssa.Return)
							if !ok || len(r.Results) != 1 {
								return false
							}
							bv, ok := constBool(r.Results[0])
							return ok && bv
						}
						switch {
						case retTrue(b.Succs[0]):
							decided = true
						case retTrue(b.Succs[1]):
							op = negTok(op)
							decided = true
						}
					}
				}
			}
			if !decided {
				c.Undecided("C13.4", "sie-window", "the window comparison decides the permit directly", c.P.InstrPos(cmp)+": neither returned as the permit nor branching to `return true`")
				return
			}
			// normalise to: age OP bound
			if ld {
				op = swapTok(op)
			}
			where := c.P.InstrPos(cmp) + " `" + cmp.String() + "`"
			desc := "stale-if-error permits only while staleness is strictly below the window (age < lifetime + N)"
			if earlyRefusal != "" {
				c.Fail("C13.4", "sie-window-every-source", "a source whose window is closed does not end the search (stored response and request may both carry stale-if-error)", earlyRefusal+": the comparison is returned from inside the loop over the sources; the first valid directive decides and a wider window on the request (or the stored response) is never consulted")
			}
			if op == token.LSS {
				c.Pass("C13.4", "sie-window", desc, where)
			} else {
				c.Fail("C13.4", "sie-window", desc, where+fmt.Sprintf(": permit edge is `age %s lifetime+N`; at staleness exactly N the stored response is still served", op), where)
			}
		})
	}
	if n == 0 {
		c.Undecided("C13.4", "sie-window", "a window comparison exists", "no comparison against a stale-if-error duration in "+c.P.ShortName(fn))
	}
}

func (an *Analysis) isAccessorCallAny(c *ssa.Call, directive string) bool {
	sc := c.Call.StaticCallee()
	if sc == nil {
		return false
	}
	di, ok := an.A.DirAcc[sc]
	return ok && di.Directive == directive
}

func ruleC13_5(c *Ctx) {
	if !c.Need("C13.5", "validationHandler", "ageSet", "statusApply") {
		return
	}
	vh := c.A.F("validationHandler")
	pr := c.An.Prune(vh, AssumeKeys(map[string]bool{not304: false}))
	// (the marking may sit in a helper that builds the response to return: a call whose callees all pass the site counts)
	as := AssumeKeys(map[string]bool{not304: false})
	rAge := c.An.MustPass(pr, c.An.IsServeReturn, c.An.KUnder("AGE-SET", "sie", as, func(in ssa.Instruction) bool { return c.An.CallsRole(in, "ageSet") }))
	rSt := c.An.MustPass(pr, c.An.IsServeReturn, c.An.KUnder("STATUS-STALE", "sie", as, func(in ssa.Instruction) bool {
		if !c.An.CallsRole(in, "statusApply") {
			return false
		}
		v, _, ok := c.An.StatusOfCall(callOf(in))
		return ok && v == "STALE"
	}))
	if rAge.Targets == 0 {
		c.Undecided("C13.5", "sie-marking", "the stale-if-error return exists", "no unvalidated return of the stored response in the handler")
		return
	}
	if !rAge.OK {
		c.Fail("C13.5", "sie-age", "the stale-if-error return passes Age generation", c.P.InstrPos(rAge.Missing[0])+": reachable without Age generation")
	} else {
		c.Pass("C13.5", "sie-age", "the stale-if-error return passes Age generation", fmt.Sprintf("%d returns", rAge.Targets))
	}
	if !rSt.OK {
		c.Fail("C13.5", "sie-status", "the stale-if-error return is marked STALE", c.P.InstrPos(rSt.Missing[0])+": reachable without applying the STALE status")
	} else {
		c.Pass("C13.5", "sie-status", "the stale-if-error return is marked STALE", fmt.Sprintf("%d returns", rSt.Targets))
	}
}

func ruleC13_6(c *Ctx) {
	if !c.Need("C13.6", "validationHandler") {
		return
	}
	forbidInHandler(c, "C13.6", "row=policy-denies", map[string]bool{"pred:siePolicy": false, not304: false},
		"outside the window the stored response is served anyway")
	// when the policy denies and the origin call failed, the error is returned (never nil,nil)
	vh := c.A.F("validationHandler")
	pr := c.An.Prune(vh, AssumeKeys(map[string]bool{"pred:siePolicy": false, "nil:err": false}))
	okErr := true
	nret := 0
	pr.LiveInstrs(func(in ssa.Instruction) {
		r, ok := in.(*ssa.Return)
		if !ok || len(r.Results) != 2 {
			return
		}
		nret++
		if isNilConst(r.Results[1]) {
			okErr = false
		}
	})
	desc := "when the origin call failed and stale-if-error does not apply, the handler returns the error"
	if nret == 0 {
		c.Undecided("C13.6", "error-returned", desc, "no live return under {err!=nil, policy=F}")
	} else if !okErr {
		c.Fail("C13.6", "error-returned", desc, c.P.ShortName(vh)+": a return with a nil error is reachable under {err!=nil, policy denies}")
	} else {
		c.Pass("C13.6", "error-returned", desc, fmt.Sprintf("%d live returns", nret))
	}
}

// leavesLoopFromBody: b is left-of-loop code reached from inside a loop body (a `return`/`break` target inside the body),
// as opposed to the code after the loop, which is reached from the loop head.
func leavesLoopFromBody(b *ssa.BasicBlock) bool {
	if blockInCycle(b) {
		return true
	}
	seen := map[*ssa.BasicBlock]bool{}
	var up func(x *ssa.BasicBlock) bool
	up = func(x *ssa.BasicBlock) bool {
		if seen[x] {
			return false
		}
		seen[x] = true
		// the block a loop falls into when its iteration ends (go/ssa names it for.done / range*.done) is after the loop,
		// also when the loop was rotated and the test sits in the latch
		if strings.HasSuffix(x.Comment, ".done") && (strings.HasPrefix(x.Comment, "for") || strings.HasPrefix(x.Comment, "range")) {
			return false
		}
		for _, p := range x.Preds {
			if blockInCycle(p) {
				// p is a body block when another block of the same loop dominates it (the head)
				for _, h := range p.Parent().Blocks {
					if h != p && blockInCycle(h) && h.Dominates(p) && reachableAvoiding(p, h, nil) {
						return true
					}
				}
				continue
			}
			if up(p) {
				return true
			}
		}
		return false
	}
	return up(b)
}

// ruleC13_9: stale-if-error is decided in the validation handler. On the foreground path, once the validation request has
// been sent, no return may be reached before the handler was called with its outcome - whatever kind of error the
// origin call ended with (a deadline or cancellation included).
func ruleC13_9(c *Ctx) {
	if !c.Need("C13.9", "validationHandler") {
		return
	}
	desc := "after the validation request, every return of the foreground path has passed the validation handler"
	n := 0
	for fn := range c.A.ReachFg {
		if c.A.roleOf[fn] == "validationHandler" {
			continue
		}
		instrsOf(fn, func(in ssa.Instruction) {
			if !c.An.CallsRole(in, "validationHandler") {
				return
			}
			_, args := recvAndArgs(callOf(in))
			// the origin call whose response is handed to the handler
			var origin ssa.Instruction
			for _, a := range args {
				if !isHTTPResponsePtr(a.Type()) {
					continue
				}
				c.P.TraceBack(a, TraceOpts{NoParams: true, NoHeapFields: true}, func(v ssa.Value, _ []int) bool {
					if ex, ok := v.(*ssa.Extract); ok {
						if call, ok := ex.Tuple.(*ssa.Call); ok && call.Parent() == fn {
							origin = call
							return false
						}
					}
					return true
				})
			}
			if origin == nil {
				return
			}
			n++
			// forward from the origin call to a return that avoids the handler call
			bad := ""
			seen := map[*ssa.BasicBlock]bool{}
			var walk func(b *ssa.BasicBlock, from int)
			walk = func(b *ssa.BasicBlock, from int) {
				if bad != "" {
					return
				}
				if from == 0 {
					if seen[b] {
						return
					}
					seen[b] = true
				}
				for _, i2 := range b.Instrs[from:] {
					if i2 == in {
						return
					}
					if _, isRet := i2.(*ssa.Return); isRet {
						bad = c.P.InstrPos(i2)
						return
					}
					if _, isPanic := i2.(*ssa.Panic); isPanic {
						return
					}
				}
				for _, s := range b.Succs {
					walk(s, 0)
				}
			}
			idx := 0
			for i, i2 := range origin.Block().Instrs {
				if i2 == origin {
					idx = i + 1
				}
			}
			walk(origin.Block(), idx)
			where := c.P.ShortName(fn) + "@" + c.P.InstrPos(in)
			if bad != "" {
				c.Fail("C13.9", "outcome-reaches-handler fn="+c.P.ShortName(fn), desc, where+": the return at "+bad+" is reachable after the origin call without the handler; that failure (e.g. a deadline that expired while the origin hung) is returned although the stale-if-error window is open")
			} else {
				c.Pass("C13.9", "outcome-reaches-handler fn="+c.P.ShortName(fn), desc, where)
			}
		})
	}
	if n == 0 {
		c.Undecided("C13.9", "outcome-reaches-handler", desc, "no foreground call of the validation handler fed by an origin call in the same function")
	}
}
