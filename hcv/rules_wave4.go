package hcv

import (
	"fmt"
	"go/token"
	"go/types"
	"sort"
	"strings"

	"golang.org/x/tools/go/ssa"
)

// Rules added after the fourth independent seeding (DESIGN §11.6).

// swrWindowTests: comparisons `x < swr` in fn where swr derives from the stale-while-revalidate accessor.
func (c *Ctx) swrWindowTests(fn *ssa.Function) []*ssa.BinOp {
	var out []*ssa.BinOp
	isSWR := c.isSWRValue
	instrsOf(fn, func(in ssa.Instruction) {
		bo, ok := in.(*ssa.BinOp)
		if !ok {
			return
		}
		switch bo.Op {
		case token.LSS, token.LEQ, token.GTR, token.GEQ:
		default:
			return
		}
		if !typeIs(bo.X.Type(), "time", "Duration") {
			return
		}
		if isSWR(bo.X) != isSWR(bo.Y) {
			out = append(out, bo)
		}
	})
	return out
}

// ruleSWRWindowAge (C01.20 / C20.7): the stale-while-revalidate window is measured with the response's current age
// (the freshness record's age), as the staleness flag is; a window measured from something younger (the resident time)
// serves a response that arrived already aged far beyond max-age + stale-while-revalidate.
func ruleSWRWindowAge(c *Ctx, rule string) {
	desc := "the value compared with the stale-while-revalidate duration derives from the freshness record's age"
	n := 0
	bad := ""
	for fn := range c.A.ReachFg {
		for _, bo := range c.swrWindowTests(fn) {
			n++
			isSWR := c.isSWRValue
			other := bo.X
			if isSWR(bo.X) {
				other = bo.Y
			}
			fromAge := false
			seen := map[ssa.Value]bool{}
			var walk func(v ssa.Value, depth int)
			walk = func(v ssa.Value, depth int) {
				if v == nil || seen[v] || depth > 12 || fromAge {
					return
				}
				seen[v] = true
				switch x := v.(type) {
				case *ssa.UnOp:
					if fa, ok := x.X.(*ssa.FieldAddr); ok {
						if isPtrToNamed(fa.X.Type(), c.A.FreshT) && fa.Field == c.A.FreshAge || isPtrToNamed(fa.X.Type(), c.A.AgeT) {
							fromAge = true
						}
						return // a member of some other object: not followed further
					}
					walk(x.X, depth+1)
				case *ssa.BinOp:
					walk(x.X, depth+1)
					walk(x.Y, depth+1)
				case *ssa.Phi:
					for _, e := range x.Edges {
						walk(e, depth+1)
					}
				case *ssa.Convert:
					walk(x.X, depth+1)
				case *ssa.ChangeType:
					walk(x.X, depth+1)
				case *ssa.Extract:
					walk(x.Tuple, depth+1)
				case *ssa.Call:
					for _, a := range x.Call.Args {
						walk(a, depth+1)
					}
					// a local helper that computes the age from the record
					for _, cal := range c.P.RepoCallees(x) {
						instrsOf(cal, func(in ssa.Instruction) {
							if fa, ok := in.(*ssa.FieldAddr); ok && (isPtrToNamed(fa.X.Type(), c.A.FreshT) && fa.Field == c.A.FreshAge || isPtrToNamed(fa.X.Type(), c.A.AgeT)) {
								for _, a := range x.Call.Args {
									if isPtrToNamed(a.Type(), c.A.FreshT) || isPtrToNamed(a.Type(), c.A.AgeT) {
										fromAge = true
									}
								}
							}
						})
					}
				}
			}
			walk(other, 0)
			if !fromAge {
				bad = c.P.ShortName(fn) + "@" + c.P.InstrPos(bo)
			}
		}
	}
	switch {
	case n == 0:
		c.Undecided(rule, "swr-window-age", desc, "no comparison with the stale-while-revalidate duration on the foreground path")
	case bad != "":
		c.Fail(rule, "swr-window-age", desc, bad+": the window is not measured with the current age; a response received with `Age: 30`, `max-age=1, stale-while-revalidate=5` is served STALE once it was resident for a second, 25 s outside its window")
	default:
		c.Pass(rule, "swr-window-age", desc, fmt.Sprintf("%d window test(s)", n))
	}
}

// ruleSWRBranchSpawns (C20.7): inside the stale-while-revalidate window the only way to answer is the function that
// spawns the revalidation. A serve that bypasses it (for an `immutable` response, say) answers STALE with zero
// background requests.
func ruleSWRBranchSpawns(c *Ctx, rule string) {
	swr := c.swrFunction()
	if swr == nil {
		return
	}
	desc := "every answer given inside the stale-while-revalidate window comes from the spawning function"
	n := 0
	bad := ""
	for fn := range c.A.ReachFg {
		inWindow := func(b *ssa.BasicBlock) bool {
			for _, dc := range dominatingConds(b) {
				if c.windowOpen(dc) {
					return true
				}
			}
			return false
		}
		for _, b := range fn.Blocks {
			r, ok := b.Instrs[len(b.Instrs)-1].(*ssa.Return)
			if !ok || len(r.Results) == 0 || !inWindow(b) {
				continue
			}
			n++
			v := c.An.RetVal(r, 0)
			viaSWR := false
			c.P.TraceBack(v, TraceOpts{NoParams: true}, func(x ssa.Value, _ []int) bool {
				if call, ok := x.(*ssa.Call); ok {
					for _, cal := range c.P.RepoCallees(call) {
						if cal == swr {
							viaSWR = true
						}
					}
					return false
				}
				if ex, ok := x.(*ssa.Extract); ok {
					if call, ok := ex.Tuple.(*ssa.Call); ok {
						for _, cal := range c.P.RepoCallees(call) {
							if cal == swr {
								viaSWR = true
							}
						}
						return false
					}
				}
				return true
			})
			if !viaSWR {
				bad = c.P.ShortName(fn) + "@" + c.P.InstrPos(r)
			}
		}
	}
	switch {
	case n == 0:
		c.Undecided(rule, "swr-branch-spawns", desc, "no return inside a stale-while-revalidate window found")
	case bad != "":
		c.Fail(rule, "swr-branch-spawns", desc, bad+": a response is returned inside the window without going through "+c.P.ShortName(swr)+"; it is served STALE and no background revalidation is sent")
	default:
		c.Pass(rule, "swr-branch-spawns", desc, fmt.Sprintf("%d return(s) inside the window", n))
	}
}

// ruleStoreServedObject (C05.12 / C08.13): serialising a response drains its body and puts a re-readable copy back into the
// object it was given. The response handed to the storer must therefore be the object that goes on to the caller, not
// a copy of it made for the call - the caller's object would keep the drained, closed body.
func ruleStoreServedObject(c *Ctx, rule string) {
	if !c.Need(rule, "storeResp") {
		return
	}
	desc := "the response given to the storer is the object that is returned afterwards, not a copy made for the call"
	n := 0
	bad := ""
	for fn := range c.A.Reach {
		instrsOf(fn, func(in ssa.Instruction) {
			if !c.An.CallsRole(in, "storeResp") {
				return
			}
			cc := callOf(in)
			_, args := recvAndArgs(cc)
			for _, a := range args {
				if !isHTTPResponsePtr(a.Type()) {
					continue
				}
				n++
				if al, ok := a.(*ssa.Alloc); ok {
					for _, st := range c.P.cellStores(al) {
						if ld, ok := st.Val.(*ssa.UnOp); ok && ld.Op == token.MUL && isHTTPResponsePtr(ld.X.Type()) {
							bad = c.P.ShortName(fn) + "@" + c.P.InstrPos(in)
						}
					}
				}
			}
		})
	}
	switch {
	case n == 0:
		c.Undecided(rule, "store-served-object", desc, "no call of the storer with a response argument")
	case bad != "":
		c.Fail(rule, "store-served-object", desc, bad+": the storer gets a shallow copy of the response; the body it drains and replaces is the copy's, the response returned to the caller keeps a closed body (`http: invalid Read on closed Body` on a REVALIDATED response)")
	default:
		c.Pass(rule, "store-served-object", desc, fmt.Sprintf("%d store call(s)", n))
	}
}

// ruleDecodeByPredicateOnly (C07.10 / C09.13): which escapes are decoded is decided by the unreserved predicate alone
// (C03.1 checks that predicate against RFC 3986). A further condition at the decoding site (`&& r != '.'`) leaves
// equivalent spellings (`/v1%2E0`, `/v1.0`) with different keys.
func ruleDecodeByPredicateOnly(c *Ctx, rule string) {
	if !c.Need(rule, "urlKey") {
		return
	}
	uk := c.A.F("urlKey")
	desc := "an escape is decoded exactly when the unreserved predicate says so (no further condition at the decoding site)"
	var pred *ssa.Function
	for _, fn := range c.reachableFrom(uk) {
		ps, rs := sigParams(fn), sigResults(fn)
		if len(ps) == 1 && len(rs) == 1 && isBoolType(rs[0]) {
			if b, ok := ps[0].Underlying().(*types.Basic); ok && b.Info()&types.IsInteger != 0 && intConstsIn(fn)['~'] {
				pred = fn
			}
		}
	}
	if pred == nil {
		c.Undecided(rule, "decode-by-predicate", desc, "no unreserved predicate below the key function")
		return
	}
	n := 0
	bad := ""
	for _, fn := range c.reachableFrom(uk) {
		instrsOf(fn, func(in ssa.Instruction) {
			iff, ok := in.(*ssa.If)
			if !ok {
				return
			}
			call, ok := iff.Cond.(*ssa.Call)
			if !ok || call.Call.StaticCallee() != pred {
				return
			}
			n++
			// the true edge must lead straight to the decoding block: no second test before the decoded write
			t := iff.Block().Succs[0]
			if len(t.Instrs) > 0 {
				if _, isIf := t.Instrs[len(t.Instrs)-1].(*ssa.If); isIf {
					bad = c.P.ShortName(fn) + "@" + c.P.InstrPos(t.Instrs[len(t.Instrs)-1])
				}
			}
		})
		// the predicate's result combined with something else before it is tested
		instrsOf(fn, func(in ssa.Instruction) {
			call, ok := in.(*ssa.Call)
			if !ok || call.Call.StaticCallee() != pred || call.Referrers() == nil {
				return
			}
			for _, r := range *call.Referrers() {
				switch r.(type) {
				case *ssa.If, *ssa.DebugRef:
				default:
					n++
					bad = c.P.ShortName(fn) + "@" + c.P.InstrPos(r)
				}
			}
		})
	}
	switch {
	case n == 0:
		c.Undecided(rule, "decode-by-predicate", desc, "the predicate's result is not branched on below the key function")
	case bad != "":
		c.Fail(rule, "decode-by-predicate", desc, bad+": a second condition decides whether an unreserved escape is decoded; `/v1%2E0/report%2Ejson` and `/v1.0/report.json` get different keys: an unsafe request to the one spelling leaves the other's entry a HIT")
	default:
		c.Pass(rule, "decode-by-predicate", desc, fmt.Sprintf("%d decision(s) on %s", n, c.P.ShortName(pred)))
	}
}

// ruleMatcherIndexesCallersSlice (C08.11 / C04.13): the position returned by the matcher is used by the caller to index the
// list it passed in (serve, validation context, replacement on store). It must therefore be a position in that very
// list: the matcher does not rank or search a copy.
func ruleMatcherIndexesCallersSlice(c *Ctx, rule string) {
	if !c.Need(rule, "varyMatch") {
		return
	}
	vm := c.A.F("varyMatch")
	desc := "the matcher ranks and searches the list it was given, so that the returned position is valid for the caller's list"
	bad := ""
	n := 0
	for _, fn := range c.reachableFrom(vm) {
		if fn != vm && !lexicallyInside(fn, vm) {
			continue
		}
		instrsOf(fn, func(in ssa.Instruction) {
			call, ok := in.(*ssa.Call)
			if !ok {
				return
			}
			sc := call.Call.StaticCallee()
			if sc == nil {
				return
			}
			name := sc.String()
			if o := sc.Origin(); o != nil {
				name = o.String()
			}
			if strings.HasPrefix(name, "slices.Clone") || strings.HasPrefix(name, "slices.Sorted") || strings.HasPrefix(name, "slices.Collect") {
				if len(call.Call.Args) > 0 && isSliceOfRefs(c, call.Call.Args[0].Type()) || isSliceOfRefs(c, call.Type()) {
					bad = c.P.ShortName(fn) + "@" + c.P.InstrPos(in)
				}
			}
			if b, ok := call.Call.Value.(*ssa.Builtin); ok && b.Name() == "copy" && isSliceOfRefs(c, call.Call.Args[0].Type()) {
				bad = c.P.ShortName(fn) + "@" + c.P.InstrPos(in)
			}
			if b, ok := call.Call.Value.(*ssa.Builtin); ok && b.Name() == "append" && isSliceOfRefs(c, call.Type()) {
				bad = c.P.ShortName(fn) + "@" + c.P.InstrPos(in)
			}
		})
		n++
	}
	if bad != "" {
		c.Fail(rule, "matcher-own-list", desc, bad+": the matcher works on a copy of the list; once the stored order differs from the ranking order (after a 304 freshened a variant that is not the newest) the returned position names another variant in the caller's list: `en` gets the `fr` body, and a validation overwrites the wrong record")
		return
	}
	c.Pass(rule, "matcher-own-list", desc, fmt.Sprintf("%s: %d function(s) scanned, no copy of the list", c.P.ShortName(vm), n))
}

func isSliceOfRefs(c *Ctx, t types.Type) bool {
	sl, ok := t.Underlying().(*types.Slice)
	if !ok {
		return false
	}
	return isPtrToNamed(sl.Elem(), c.A.RefT) || isNamed(sl.Elem(), c.A.RefT)
}

// ruleNoReleaseBeforeWriteBack (C08.12 / C20.8): the background function waits on a channel for its goroutine and cancels the
// request's context when it returns. A send on that channel in front of the write-back releases the waiter while the
// reply's body is still being read: the read fails with `context canceled` and a full reply is never stored.
func ruleNoReleaseBeforeWriteBack(c *Ctx, rule string) {
	swr := c.swrFunction()
	if swr == nil {
		return
	}
	desc := "the goroutine of the background revalidation signals its waiter only after the validation handler has run"
	n := 0
	bad := ""
	var bgs []*ssa.Function
	instrsOf(swr, func(in ssa.Instruction) {
		if g, ok := in.(*ssa.Go); ok {
			bgs = append(bgs, c.P.RepoCallees(g)...)
		}
	})
	for _, bg := range bgs {
		for _, f := range c.reachableFrom(bg) {
			var sends, handlers []ssa.Instruction
			instrsOf(f, func(in ssa.Instruction) {
				if _, ok := in.(*ssa.Send); ok {
					sends = append(sends, in)
				}
				if c.An.CallsRole(in, "validationHandler") || c.An.CallsRole(in, "storeResp") {
					handlers = append(handlers, in)
				} else if ci, ok := in.(ssa.CallInstruction); ok {
					// a call of a local function that gets to the handler stands for it here
					for _, cal := range c.P.RepoCallees(ci) {
						for _, g := range c.reachableFrom(cal) {
							hit := false
							instrsOf(g, func(i2 ssa.Instruction) {
								if c.An.CallsRole(i2, "validationHandler") {
									hit = true
								}
							})
							if hit {
								handlers = append(handlers, in)
								break
							}
						}
					}
				}
			})
			if len(handlers) == 0 {
				continue
			}
			for _, s := range sends {
				for _, h := range handlers {
					n++
					reaches := s.Block() == h.Block() && instrDominates(s, h) || s.Block() != h.Block() && reachableAvoiding(s.Block(), h.Block(), nil)
					if reaches {
						bad = c.P.ShortName(f) + "@" + c.P.InstrPos(s)
					}
				}
			}
		}
	}
	switch {
	case n == 0:
		c.Undecided(rule, "release-after-write-back", desc, "no channel send next to the validation handler in the background function")
	case bad != "":
		c.Fail(rule, "release-after-write-back", desc, bad+": the waiter is released before the reply was handled; its deferred cancel ends the request's context while the body of a full 200 reply is still arriving, the store fails and the replaced representation keeps being served")
	default:
		c.Pass(rule, "release-after-write-back", desc, fmt.Sprintf("%d send/handler pair(s)", n))
	}
}

// ruleMetaLineSeparator (C09.14 / C10.19): the entry parser splits the metadata line on the separator the writer puts
// between its parts. Splitting on any white space (Fields) breaks an id that contains a space, which the key of an
// opaque request target does by construction: such an entry is rewritten on every request and never served.
func ruleMetaLineSeparator(c *Ctx, rule string) {
	if !c.Need(rule, "entryParser", "writeEntry") {
		return
	}
	ep := c.A.F("entryParser")
	desc := "the metadata line is split on the writer's separator constant, not on white space in general"
	seps := map[string]bool{}
	fields := ""
	for _, epf := range c.reachableFrom(ep) {
		instrsOf(epf, func(in ssa.Instruction) {
			cc := callOf(in)
			if cc == nil {
				return
			}
			for _, pk := range []string{"bytes", "strings"} {
				for _, fn := range []string{"Split", "SplitN", "Cut", "SplitSeq"} {
					if callIsPkgFunc(cc, pk, fn) && len(cc.Args) >= 2 {
						if k, ok := constStr(cc.Args[1]); ok {
							seps[k] = true
						}
						// []byte("\t")
						c.P.TraceBack(cc.Args[1], TraceOpts{ThroughOps: true}, func(v ssa.Value, _ []int) bool {
							if k, ok := constStr(v); ok {
								seps[k] = true
							}
							return true
						})
					}
				}
				if callIsPkgFunc(cc, pk, "Fields") || callIsPkgFunc(cc, pk, "FieldsFunc") || callIsPkgFunc(cc, pk, "FieldsSeq") {
					fields = c.P.InstrPos(in)
				}
			}
		})
	}
	if fields != "" {
		c.Fail(rule, "meta-line-separator", desc, fields+": the line is split on any white space; the key of an opaque request target (`scheme://authority SP target`) contains a space, its entry has four parts, is rejected as invalid on every read and rewritten on every request")
		return
	}
	if len(seps) == 0 {
		c.Undecided(rule, "meta-line-separator", desc, c.P.ShortName(ep)+": no split of the metadata line on a constant separator")
		return
	}
	// the writer uses the same separator
	agree := false
	for _, fn := range c.reachableFrom(c.A.F("writeEntry")) {
		for k := range stringConstsIn(fn) {
			for sp := range seps {
				if sp != "" && strings.Contains(k, sp) {
					agree = true
				}
			}
		}
	}
	if !agree {
		c.Fail(rule, "meta-line-separator", desc, fmt.Sprintf("%s splits on %q, which the writer never writes", c.P.ShortName(ep), sortedKeys(seps)))
		return
	}
	c.Pass(rule, "meta-line-separator", desc, fmt.Sprintf("%s: separator %q, written by the entry writer", c.P.ShortName(ep), sortedKeys(seps)))
}

// ruleCtorFieldsAssignedBeforeUse (C10.18): in the function that builds the transport, a collaborator is handed to another
// collaborator's constructor only after it was assigned. A member read before its assignment is a nil interface that
// the receiving collaborator keeps: the first call through it panics (the stale-if-error policy inside the validation
// handler: any origin failure while validating).
func ruleCtorFieldsAssignedBeforeUse(c *Ctx, rule string) {
	desc := "no member of the transport is passed to a constructor before it is assigned"
	n := 0
	bad := ""
	for _, fn := range c.P.RepoFuncs {
		if isTestOnly(c, fn) || fn.Parent() != nil {
			continue
		}
		// a constructor of the transport: stores into at least three members of a transport value
		members := map[int]bool{}
		instrsOf(fn, func(in ssa.Instruction) {
			if st, ok := in.(*ssa.Store); ok {
				if fa, ok := st.Addr.(*ssa.FieldAddr); ok && isPtrToNamed(fa.X.Type(), c.A.TransportT) {
					members[fa.Field] = true
				}
			}
		})
		if len(members) < 3 {
			continue
		}
		instrsOf(fn, func(in ssa.Instruction) {
			cc := callOf(in)
			if cc == nil {
				return
			}
			for _, a := range cc.Args {
				u, ok := a.(*ssa.UnOp)
				if !ok || u.Op != token.MUL {
					continue
				}
				fa, ok := u.X.(*ssa.FieldAddr)
				if !ok || !isPtrToNamed(fa.X.Type(), c.A.TransportT) {
					continue
				}
				if _, isIface := u.Type().Underlying().(*types.Interface); !isIface {
					if _, isPtr := u.Type().Underlying().(*types.Pointer); !isPtr {
						continue
					}
				}
				n++
				// stores to the same member: one before the load, or only afterwards?
				before, after := false, ""
				instrsOf(fn, func(i2 ssa.Instruction) {
					st, ok := i2.(*ssa.Store)
					if !ok {
						return
					}
					f2, ok := st.Addr.(*ssa.FieldAddr)
					if !ok || f2.Field != fa.Field || !c.An.sameCanon(f2.X, fa.X) {
						return
					}
					if instrDominates(st, u) || st.Block() != u.Block() && reachableAvoiding(st.Block(), u.Block(), nil) {
						before = true
					} else if instrDominates(u, st) {
						after = c.P.InstrPos(st)
					}
				})
				if !before && after != "" {
					bad = fmt.Sprintf("%s: member %s is read at %s and assigned only at %s", c.P.ShortName(fn), fieldName(fa.X.Type(), fa.Field), c.P.InstrPos(in), after)
				}
			}
		})
	}
	switch {
	case n == 0:
		c.Undecided(rule, "ctor-wiring-order", desc, "no constructor of the transport passes a member on")
	case bad != "":
		c.Fail(rule, "ctor-wiring-order", desc, bad+"; the receiving collaborator keeps a nil interface: an origin failure during a validation panics the round trip (in the background goroutine: the process)")
	default:
		c.Pass(rule, "ctor-wiring-order", desc, fmt.Sprintf("%d member(s) handed to constructors, each assigned before", n))
	}
}

// ruleDirectiveMapsThroughAccessors (C12.14 / C02.11): the exchange reads a directive map only through the accessors (which
// decode quoted-string and numeric forms). An index expression on the map compares the raw argument text:
// `ccReq["max-age"] == "0"` misses `max-age="0"` and `max-age=00`.
func ruleDirectiveMapsThroughAccessors(c *Ctx, rule string) {
	desc := "outside the directive package's own functions no directive map is indexed directly"
	allowed := map[*ssa.Function]bool{}
	var dirTypes []types.Type
	for fn := range c.A.DirAcc {
		if fn == nil {
			continue
		}
		for g := range c.P.StaticTree(fn) {
			allowed[g] = true
		}
		if len(fn.Params) > 0 {
			dirTypes = append(dirTypes, fn.Params[0].Type())
		}
	}
	for _, role := range []string{"parseReq", "parseResp"} {
		if f := c.A.F(role); f != nil {
			for g := range c.P.StaticTree(f) {
				allowed[g] = true
			}
		}
	}
	isDir := func(t types.Type) bool {
		for _, d := range dirTypes {
			if types.Identical(t, d) {
				return true
			}
		}
		return false
	}
	n := 0
	var bad []string
	for fn := range c.A.Reach {
		if allowed[fn] {
			continue
		}
		n++
		instrsOf(fn, func(in ssa.Instruction) {
			if lk, ok := in.(*ssa.Lookup); ok && isDir(lk.X.Type()) {
				bad = append(bad, c.P.ShortName(fn)+"@"+c.P.InstrPos(in))
			}
			if rg, ok := in.(*ssa.Range); ok && isDir(rg.X.Type()) && !rangeOnlyCopiesArguments(rg) {
				bad = append(bad, c.P.ShortName(fn)+"@"+c.P.InstrPos(in))
			}
		})
	}
	if len(bad) > 0 {
		sort.Strings(bad)
		c.Fail(rule, "directive-maps-through-accessors", desc, strings.Join(bad, ", ")+": reads the raw argument of a directive; an equivalent spelling (`max-age=\"0\"`, `max-age=00`) takes the other branch", bad...)
		return
	}
	c.Pass(rule, "directive-maps-through-accessors", desc, fmt.Sprintf("%d functions on the exchange scanned", n))
}

// ruleDeleteOnlyTheKey (C14.12): Delete removes the file of its key and nothing else: the path given to a removal in the
// delete path is the file namer's result itself (not its directory), and nothing is removed recursively.
func ruleDeleteOnlyTheKey(c *Ctx, rule string) {
	fp := c.P.Pkg("store/fscache")
	if fp == nil {
		return
	}
	desc := "Delete removes exactly the file the key maps to (no recursive removal, no directory of several keys)"
	n := 0
	bad := ""
	for _, fn := range c.fsBackendFuncs() {
		instrsOf(fn, func(in ssa.Instruction) {
			cc := callOf(in)
			if cc == nil {
				return
			}
			if callIsMethod(cc, "os", "Root", "RemoveAll") || callIsPkgFunc(cc, "os", "RemoveAll") {
				n++
				bad = c.P.ShortName(fn) + "@" + c.P.InstrPos(in) + ": recursive removal"
				return
			}
			if !(callIsMethod(cc, "os", "Root", "Remove") || callIsPkgFunc(cc, "os", "Remove")) {
				return
			}
			_, args := recvAndArgs(cc)
			if len(args) == 0 {
				return
			}
			// the temporary file of a write is the writer's own
			if !isFinalName(c, cc, fn) {
				return
			}
			n++
			if !c.isNamerResult(args[0]) {
				bad = c.P.ShortName(fn) + "@" + c.P.InstrPos(in) + ": removes a path that is not the file namer's result for the key"
			}
		})
	}
	switch {
	case n == 0:
		c.Undecided(rule, "delete-only-the-key", desc, "no removal in store/fscache")
	case bad != "":
		c.Fail(rule, "delete-only-the-key", desc, bad+"; long keys that differ only in their last fragment are files of one directory: deleting one of them deletes all")
	default:
		c.Pass(rule, "delete-only-the-key", desc, fmt.Sprintf("%d removal(s)", n))
	}
}

// ruleKeysWalkConditions (C14.13): in the listing walk a file is skipped only because it is a directory, a temporary file,
// cannot be decoded, or because its *decoded key* lacks the prefix. A test on the file's own name (its length, its text)
// is wrong for a key that is spread over directories: the name is only its last fragment.
func ruleKeysWalkConditions(c *Ctx, rule string) {
	fp := c.P.Pkg("store/fscache")
	if fp == nil {
		return
	}
	desc := "the listing skips a file only on its kind, its temporary prefix or its decoded key"
	n := 0
	bad := ""
	for _, fn := range c.fsBackendFuncs() {
		// the walk callback: a function with a fs.DirEntry parameter
		var entry *ssa.Parameter
		for _, p := range fn.Params {
			if typeIs(p.Type(), "io/fs", "DirEntry") {
				entry = p
			}
		}
		if entry == nil {
			continue
		}
		n++
		instrsOf(fn, func(in ssa.Instruction) {
			iff, ok := in.(*ssa.If)
			if !ok {
				return
			}
			// conditions that depend on entry.Name() …
			dependsOnName := c.An.dependsOnCall(iff.Cond, func(cc *ssa.Call) bool {
				return cc.Call.IsInvoke() && cc.Call.Method.Name() == "Name" && c.An.sameCanon(cc.Call.Value, entry)
			})
			if !dependsOnName {
				return
			}
			// … are fine when they test the temporary prefix (HasPrefix with a constant) only
			okCond := false
			if call, ok := iff.Cond.(*ssa.Call); ok && callIsPkgFunc(&call.Call, "strings", "HasPrefix") {
				if _, isK := constStr(call.Call.Args[1]); isK {
					okCond = true
				}
			}
			for _, lf := range condLeaves(iff.Cond, true) {
				if call, ok := lf.v.(*ssa.Call); ok && callIsPkgFunc(&call.Call, "strings", "HasPrefix") {
					if _, isK := constStr(call.Call.Args[1]); isK {
						okCond = true
					}
				}
			}
			if !okCond {
				bad = c.P.ShortName(fn) + "@" + c.P.InstrPos(in)
			}
		})
	}
	switch {
	case n == 0:
		c.Undecided(rule, "keys-walk-conditions", desc, "no directory-walk callback in store/fscache")
	case bad != "":
		c.Fail(rule, "keys-walk-conditions", desc, bad+": a file is skipped on a property of its own name; for a key spread over directories the name is the last fragment only: a 327-byte key with a 9-byte tail is missing from Keys(\"https://example.com/\")")
	default:
		c.Pass(rule, "keys-walk-conditions", desc, fmt.Sprintf("%d walk callback(s)", n))
	}
}

// ruleGetReadsWholeFile (C15.5 / C14.14): Get returns the file's whole content: the reader given to the full read is the
// opened file itself, not a limited or sectioned view (a value larger than the limit would come back as a strict prefix
// with a nil error).
func ruleGetReadsWholeFile(c *Ctx, rule string) {
	fp := c.P.Pkg("store/fscache")
	if fp == nil {
		return
	}
	desc := "the backend's full read is applied to the opened file itself"
	n := 0
	bad := ""
	for _, fn := range c.fsBackendFuncs() {
		instrsOf(fn, func(in ssa.Instruction) {
			cc := callOf(in)
			if cc == nil || !(callIsPkgFunc(cc, "io", "ReadAll") || callIsPkgFunc(cc, "io/ioutil", "ReadAll")) {
				return
			}
			n++
			lim := c.An.dependsOnCall(cc.Args[0], func(x *ssa.Call) bool {
				return callIsPkgFunc(&x.Call, "io", "LimitReader") || callIsPkgFunc(&x.Call, "io", "NewSectionReader")
			})
			if mi, ok := cc.Args[0].(*ssa.MakeInterface); ok {
				if al, ok := mi.X.(*ssa.Alloc); ok && strings.Contains(al.Type().String(), "LimitedReader") {
					lim = true
				}
			}
			if lim {
				bad = c.P.ShortName(fn) + "@" + c.P.InstrPos(in)
			}
		})
	}
	switch {
	case n == 0:
		c.Pass(rule, "get-reads-whole-file", desc, "no io.ReadAll in store/fscache (C15.2 decides the read path)")
	case bad != "":
		c.Fail(rule, "get-reads-whole-file", desc, bad+": the read is limited; for an entry larger than the limit Get returns a strict prefix of what Set stored, with a nil error (the transport serves a body that ends in `unexpected EOF`; with encryption Get fails although Set succeeded)")
	default:
		c.Pass(rule, "get-reads-whole-file", desc, fmt.Sprintf("%d full read(s)", n))
	}
}

// ruleCallerHeaderValuesUntouched (C16.12): the cache never writes into the value slices of the caller's request header
// (they are the caller's memory, shared between requests that use one header map). No store goes through an element
// address of a slice that was read out of a request-header map.
func ruleCallerHeaderValuesUntouched(c *Ctx, rule string) {
	desc := "no element of a value slice taken from a request header map is assigned"
	n := 0
	var bad []string
	// functions (and parameter positions) that store into elements of a []string parameter
	writesElems := map[*ssa.Function]map[int]bool{}
	for fn := range c.A.Reach {
		instrsOf(fn, func(in ssa.Instruction) {
			st, ok := in.(*ssa.Store)
			if !ok {
				return
			}
			ia, ok := st.Addr.(*ssa.IndexAddr)
			if !ok {
				return
			}
			if p, ok := c.An.canon(ia.X).(*ssa.Parameter); ok && p.Parent() == fn {
				for i, q := range fn.Params {
					if q == p {
						if writesElems[fn] == nil {
							writesElems[fn] = map[int]bool{}
						}
						writesElems[fn][i] = true
					}
				}
			}
		})
	}
	fromHeaderMap := func(v ssa.Value) bool {
		hit := false
		c.P.TraceBack(v, TraceOpts{NoParams: true}, func(x ssa.Value, _ []int) bool {
			if lk, ok := x.(*ssa.Lookup); ok && isHTTPHeader(lk.X.Type()) {
				hit = true
				return false
			}
			if ex, ok := x.(*ssa.Extract); ok {
				if lk, ok := ex.Tuple.(*ssa.Lookup); ok && isHTTPHeader(lk.X.Type()) {
					hit = true
					return false
				}
				if nx, ok := ex.Tuple.(*ssa.Next); ok {
					if rg, ok := nx.Iter.(*ssa.Range); ok && isHTTPHeader(rg.X.Type()) {
						hit = true
						return false
					}
				}
			}
			if call, ok := x.(*ssa.Call); ok && callIsMethod(&call.Call, "net/http", "Header", "Values") {
				hit = true
				return false
			}
			return true
		})
		return hit
	}
	for fn := range c.A.Reach {
		instrsOf(fn, func(in ssa.Instruction) {
			// direct: hdr[k][i] = v
			if st, ok := in.(*ssa.Store); ok {
				if ia, ok := st.Addr.(*ssa.IndexAddr); ok && isStringType(derefType(ia.Type())) {
					n++
					if fromHeaderMap(ia.X) {
						bad = append(bad, c.P.ShortName(fn)+"@"+c.P.InstrPos(in))
					}
				}
			}
			// through a helper that assigns elements of its parameter
			if ci, ok := in.(ssa.CallInstruction); ok {
				for _, cal := range c.P.RepoCallees(ci) {
					for i := range writesElems[cal] {
						a := argForParam(ci.Common(), cal, i)
						n++
						if a != nil && fromHeaderMap(a) {
							bad = append(bad, c.P.ShortName(fn)+"@"+c.P.InstrPos(in)+" -> "+c.P.ShortName(cal))
						}
					}
				}
			}
		})
	}
	if len(bad) > 0 {
		sort.Strings(bad)
		bad = uniqStrings(bad)
		c.Fail(rule, "caller-header-values-untouched", desc, strings.Join(bad, ", ")+": writes into the value slice of a header map; for a request header that is the caller's own slice (`X-Tenant: \" acme \"` becomes `acme` in the caller's request; concurrent requests sharing the header race)", bad...)
		return
	}
	c.Pass(rule, "caller-header-values-untouched", desc, fmt.Sprintf("%d element stores / helper calls examined", n))
}

// ruleStorerGetsRoundTripRequest (C19.10 / C04.14): the variant a response is filed under is resolved from the request the
// matcher looks at - RoundTrip's request (or a clone made for validation) - never from a request object that came back
// from the upstream (resp.Request may carry fields a wrapping RoundTripper added: the stored variant then never matches,
// and a value that rotates gives one more entry per request).
func ruleStorerGetsRoundTripRequest(c *Ctx, rule string) {
	if !c.Need(rule, "storeResp") {
		return
	}
	desc := "the request given to the storer does not come out of a response object"
	n := 0
	bad := ""
	for fn := range c.A.Reach {
		instrsOf(fn, func(in ssa.Instruction) {
			if !c.An.CallsRole(in, "storeResp") {
				return
			}
			_, args := recvAndArgs(callOf(in))
			for _, a := range args {
				if !ptrTo(a.Type(), "net/http", "Request") {
					continue
				}
				n++
				c.P.TraceBack(a, TraceOpts{ThroughOps: true, ThroughExtern: true}, func(x ssa.Value, _ []int) bool {
					if u, ok := x.(*ssa.UnOp); ok {
						if fa, ok := u.X.(*ssa.FieldAddr); ok && isHTTPResponsePtr(fa.X.Type()) && fieldName(fa.X.Type(), fa.Field) == "Request" {
							bad = c.P.ShortName(fn) + "@" + c.P.InstrPos(in)
							return false
						}
					}
					return true
				})
			}
		})
	}
	switch {
	case n == 0:
		c.Undecided(rule, "storer-request", desc, "no call of the storer with a request argument")
	case bad != "":
		c.Fail(rule, "storer-request", desc, bad+": the variant is resolved from Response.Request; with an upstream that clones the request and adds a nominated field (an Authorization that rotates) every identical client request stores one more entry and index record")
	default:
		c.Pass(rule, "storer-request", desc, fmt.Sprintf("%d store call(s)", n))
	}
}

// ruleTempNameProcessWide (C15.6): two connections opened on one directory in one process write into the same
// directories. The counter that makes a temporary name unique must therefore be shared by the process (a package-level
// variable), not kept per connection.
func ruleTempNameProcessWide(c *Ctx, rule string) {
	fp := c.P.Pkg("store/fscache")
	if fp == nil {
		return
	}
	desc := "the counter in a temporary file name is shared by the whole process"
	n := 0
	bad := ""
	for _, fn := range c.fsBackendFuncs() {
		instrsOf(fn, func(in ssa.Instruction) {
			cc := callOf(in)
			if cc == nil {
				return
			}
			sc := cc.StaticCallee()
			if sc == nil || !strings.Contains(sc.String(), "sync/atomic") || !(strings.HasSuffix(sc.Name(), "Add") || strings.HasPrefix(sc.Name(), "Add")) {
				return
			}
			// is the result part of a file name handed to a create call?
			used := false
			if v, ok := in.(ssa.Value); ok {
				instrsOf(fn, func(i2 ssa.Instruction) {
					c2 := callOf(i2)
					if c2 == nil {
						return
					}
					if _, isCreate := isCreateOrOpenForWrite(c, c2); !isCreate {
						return
					}
					for _, a := range c2.Args {
						if c.An.dependsOnCall(a, func(x *ssa.Call) bool { return ssa.Value(x) == v }) {
							used = true
						}
					}
				})
			}
			if !used {
				return
			}
			n++
			recv := cc.Args[0]
			global := false
			c.P.TraceBack(recv, TraceOpts{NoParams: true}, func(x ssa.Value, _ []int) bool {
				if _, ok := x.(*ssa.Global); ok {
					global = true
					return false
				}
				return true
			})
			if _, ok := recv.(*ssa.Global); ok {
				global = true
			}
			if !global {
				bad = c.P.ShortName(fn) + "@" + c.P.InstrPos(in)
			}
		})
	}
	switch {
	case n == 0:
		c.Pass(rule, "temp-counter-process-wide", desc, "no atomic counter in a temporary name (C15.1 decides uniqueness)")
	case bad != "":
		c.Fail(rule, "temp-counter-process-wide", desc, bad+": the counter is a member of the connection; two connections on one directory (two NewTransport calls with one DSN) both count from 1 and their n-th Sets share a temporary path: Get returns another key's value or a splice")
	default:
		c.Pass(rule, "temp-counter-process-wide", desc, fmt.Sprintf("%d counter(s)", n))
	}
}

// isCreateOrOpenForWrite: a call that creates a file for writing.
func isCreateOrOpenForWrite(c *Ctx, cc *ssa.CallCommon) (int, bool) {
	switch {
	case callIsMethod(cc, "os", "Root", "Create"), callIsMethod(cc, "os", "Root", "OpenFile"):
		return 1, true
	case callIsPkgFunc(cc, "os", "Create"), callIsPkgFunc(cc, "os", "OpenFile"), callIsPkgFunc(cc, "os", "WriteFile"):
		return 0, true
	}
	return 0, false
}

// isSWRValue: v derives from the stored response's stale-while-revalidate accessor (through parameters as well).
func (c *Ctx) isSWRValue(v ssa.Value) bool {
	return c.An.dependsOnCallFull(v, func(cc *ssa.Call) bool { return c.An.isAccessorCall(cc, "rs", "stale-while-revalidate") })
}

// windowTestOpen: the polarity of comparison t under which the stale-while-revalidate window is open (`x < swr`).
func (c *Ctx) windowTestOpen(t *ssa.BinOp, val bool) bool {
	open := (t.Op == token.LSS || t.Op == token.LEQ) == val
	if c.isSWRValue(t.X) {
		open = !open
	}
	return open
}

// windowOpen: the decision dc implies that the stale-while-revalidate window is open: it is the window comparison
// itself, or the true outcome of a local boolean helper that returns true only with the window open.
func (c *Ctx) windowOpen(dc domCond) bool {
	fn := dc.block.Parent()
	tests := c.swrWindowTests(fn)
	for _, lf := range condLeaves(dc.cond, dc.onTrue) {
		for _, t := range tests {
			if lf.v == ssa.Value(t) && c.windowTestOpen(t, lf.val) {
				return true
			}
		}
		if call, ok := lf.v.(*ssa.Call); ok && lf.val {
			if sc := call.Call.StaticCallee(); sc != nil && c.helperImpliesWindow(sc) {
				return true
			}
		}
	}
	if call, ok := dc.cond.(*ssa.Call); ok && dc.onTrue {
		if sc := call.Call.StaticCallee(); sc != nil && c.helperImpliesWindow(sc) {
			return true
		}
	}
	return false
}

// helperImpliesWindow: h is a repo function returning one bool that cannot return true with the window closed: with
// every window comparison of h forced to "closed", all live returns are the constant false.
func (c *Ctx) helperImpliesWindow(h *ssa.Function) bool {
	if h == nil || !c.P.IsRepoFunc(h) || len(h.Blocks) == 0 || h.Signature.Results().Len() != 1 || !isBoolType(h.Signature.Results().At(0).Type()) {
		return false
	}
	tests := c.swrWindowTests(h)
	if len(tests) == 0 {
		return false
	}
	pr := pruneBy(h, func(cond ssa.Value) (bool, bool) {
		for _, t := range tests {
			if cond == ssa.Value(t) {
				// the truth value under which the window is closed
				return !c.windowTestOpen(t, true), true
			}
		}
		return false, false
	})
	assume := AssumeKeys(map[string]bool{})
	n := 0
	for _, b := range h.Blocks {
		if !pr.LiveBlock[b.Index] {
			continue
		}
		r, ok := b.Instrs[len(b.Instrs)-1].(*ssa.Return)
		if !ok || len(r.Results) != 1 {
			continue
		}
		n++
		v, known := c.An.BoolUnder(pr, assume, c.An.RetVal(r, 0), 0)
		if !known || v {
			return false
		}
	}
	return n > 0
}

// ruleAPIListKeysUTF8 (C14.15): the maintenance API lists keys in a JSON document. encoding/json replaces bytes that are
// not valid UTF-8 by U+FFFD, so a key with such bytes (the URL key of `http://h/?q=\xff`) is listed in a form that
// addresses nothing. Decided: a value handed to a JSON encoder in store/expapi that derives from a Keys call has passed
// a UTF-8 validation or an ASCII encoding. (On the pinned tree it has not: recorded as a known finding, the repair would
// change the API's wire format.)
func ruleAPIListKeysUTF8(c *Ctx, rule string) {
	ep := c.P.Pkg("store/expapi")
	if ep == nil {
		return
	}
	desc := "keys listed by the maintenance API survive the JSON encoding"
	n := 0
	bad := ""
	for _, fn := range c.P.RepoFuncs {
		top := fn
		for top.Parent() != nil {
			top = top.Parent()
		}
		if top.Pkg != ep || isTestOnly(c, fn) {
			continue
		}
		instrsOf(fn, func(in ssa.Instruction) {
			cc := callOf(in)
			if cc == nil || !(callIsMethod(cc, "encoding/json", "Encoder", "Encode") || callIsPkgFunc(cc, "encoding/json", "Marshal") || callIsPkgFunc(cc, "encoding/json", "MarshalIndent")) {
				return
			}
			_, args := recvAndArgs(cc)
			if len(args) == 0 {
				return
			}
			// the document: the argument itself, or what is put into a map / struct literal built for it
			vals := []ssa.Value{args[0]}
			if mi, ok := args[0].(*ssa.MakeInterface); ok {
				vals = append(vals, mi.X)
				if mm, ok := mi.X.(*ssa.MakeMap); ok && mm.Referrers() != nil {
					for _, r := range *mm.Referrers() {
						if mu, ok := r.(*ssa.MapUpdate); ok && mu.Map == ssa.Value(mm) {
							vals = append(vals, mu.Value)
						}
					}
				}
			}
			isKeys := func(x *ssa.Call) bool { return x.Call.IsInvoke() && x.Call.Method.Name() == "Keys" }
			fromKeys := false
			var doc ssa.Value
			for _, v := range vals {
				if c.An.dependsOnCall(v, isKeys) {
					fromKeys, doc = true, v
				}
			}
			if !fromKeys {
				return
			}
			n++
			safe := c.An.dependsOnCall(doc, func(x *ssa.Call) bool {
				return callIsPkgFunc(&x.Call, "unicode/utf8", "ValidString") || callIsPkgFunc(&x.Call, "strconv", "QuoteToASCII") ||
					callIsPkgFunc(&x.Call, "net/url", "PathEscape") || callIsPkgFunc(&x.Call, "net/url", "QueryEscape") ||
					callIsMethod(&x.Call, "encoding/base64", "Encoding", "EncodeToString") || callIsPkgFunc(&x.Call, "encoding/hex", "EncodeToString") ||
					callIsPkgFunc(&x.Call, "strings", "ToValidUTF8")
			})
			if !safe {
				bad = c.P.InstrPos(in)
			}
		})
	}
	switch {
	case n == 0:
		c.Pass(rule, "api-list-keys-utf8", desc, "no JSON document built from a key listing in store/expapi")
	case bad != "":
		c.Fail(rule, "api-list-keys-utf8", desc, bad+": the key list goes to encoding/json as it is; a key with bytes that are not valid UTF-8 (`http://h/?q=\\xff#0`) is listed as `http://h/?q=\\ufffd#0`, and GET/DELETE of the listed key answer 404")
	default:
		c.Pass(rule, "api-list-keys-utf8", desc, fmt.Sprintf("%d JSON document(s) with keys", n))
	}
}

// rangeOnlyCopiesArguments: the arguments a range over a directive map yields are only stored into another map as they
// are (a filtered copy of the map); nothing looks at them.
func rangeOnlyCopiesArguments(rg *ssa.Range) bool {
	if rg.Referrers() == nil {
		return false
	}
	for _, r := range *rg.Referrers() {
		nx, ok := r.(*ssa.Next)
		if !ok {
			if _, isDbg := r.(*ssa.DebugRef); isDbg {
				continue
			}
			return false
		}
		for _, r2 := range *nx.Referrers() {
			ex, ok := r2.(*ssa.Extract)
			if !ok {
				return false
			}
			if ex.Index != 2 {
				continue
			}
			for _, u := range *ex.Referrers() {
				switch x := u.(type) {
				case *ssa.MapUpdate:
					if x.Value != ex {
						return false
					}
				case *ssa.DebugRef:
				default:
					return false
				}
			}
		}
	}
	return true
}
