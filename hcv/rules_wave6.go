package hcv

import (
	"fmt"
	"go/token"
	"go/types"
	"os"
	"strings"

	"golang.org/x/tools/go/ssa"
)

// Rules added with the sixth independent seeding (wave 6) and the defects D83-D86 reported by its agents.

// isTrailerOfResponse: v is the Trailer member of an *http.Response (loaded directly, or through a captured / local cell).
func (c *Ctx) isTrailerOfResponse(v ssa.Value, depth int) bool {
	if depth > 4 {
		return false
	}
	v = peel(v)
	u, ok := v.(*ssa.UnOp)
	if !ok || u.Op != token.MUL {
		return false
	}
	switch x := u.X.(type) {
	case *ssa.FieldAddr:
		return isHTTPResponsePtr(x.X.Type()) && fieldName(x.X.Type(), x.Field) == "Trailer"
	case *ssa.FreeVar:
		for _, b := range c.P.freeVarBindings(x) {
			for _, st := range c.P.cellStores(b) {
				if c.isTrailerOfResponse(st.Val, depth+1) {
					return true
				}
			}
		}
	case *ssa.Alloc:
		for _, st := range c.P.cellStores(x) {
			if c.isTrailerOfResponse(st.Val, depth+1) {
				return true
			}
		}
	}
	return false
}

// ruleNoCacheFieldsLeaveTrailers (C02.12): a field the origin sent as a trailer is stored and replayed as a trailer.
// Every stripper of the fields named by a qualified no-cache therefore removes the name from the trailers of the
// response as well as from its header section.
func ruleNoCacheFieldsLeaveTrailers(c *Ctx, rule string) {
	desc := "the stripper of the fields named by a qualified no-cache removes them from the response's trailers too"
	n := 0
	bad := ""
	for fn := range c.A.Reach {
		instrsOf(fn, func(in ssa.Instruction) {
			if !c.An.IsStripFields(in) {
				return
			}
			n++
			call := in.(*ssa.Call)
			body := call.Call.Args[0].(*ssa.MakeClosure).Fn.(*ssa.Function)
			ok := false
			instrsOf(body, func(i2 ssa.Instruction) {
				c2 := callOf(i2)
				if c2 == nil {
					return
				}
				if callIsMethod(c2, "net/http", "Header", "Del") {
					r, _ := recvAndArgs(c2)
					if c.isTrailerOfResponse(r, 0) {
						ok = true
					}
				}
				if b, isB := c2.Value.(*ssa.Builtin); isB && b.Name() == "delete" && len(c2.Args) == 2 && c.isTrailerOfResponse(c2.Args[0], 0) {
					if c.An.dependsOnCall(c2.Args[1], func(cc *ssa.Call) bool {
						return callIsPkgFunc(&cc.Call, "net/http", "CanonicalHeaderKey") || callIsPkgFunc(&cc.Call, "net/textproto", "CanonicalMIMEHeaderKey")
					}) {
						ok = true
					}
				}
			})
			if !ok {
				bad = c.P.ShortName(fn) + "@" + c.P.InstrPos(in)
			}
		})
	}
	switch {
	case n == 0:
		c.Undecided(rule, "strip-covers-trailers", desc, "no stripper of qualified no-cache fields found")
	case bad != "":
		c.Fail(rule, "strip-covers-trailers", desc, bad+": the named fields are deleted from the header section only; stored `no-cache=\"X-Secret\"` with `X-Secret` sent as a trailer is replayed on a HIT with that trailer, without validation")
	default:
		c.Pass(rule, "strip-covers-trailers", desc, fmt.Sprintf("%d stripper(s)", n))
	}
}

// everyPathPasses: every path inside one function from instruction a to instruction b passes an instruction for which
// isK holds (block granularity outside the blocks of a and b).
func everyPathPasses(a, b ssa.Instruction, isK func(ssa.Instruction) bool) bool {
	ab, bb := a.Block(), b.Block()
	kIn := func(blk *ssa.BasicBlock, after, before ssa.Instruction) bool {
		on := after == nil
		for _, in := range blk.Instrs {
			if in == before {
				break
			}
			if on && isK(in) {
				return true
			}
			if in == after {
				on = true
			}
		}
		return false
	}
	if ab == bb {
		pos := func(x ssa.Instruction) int {
			for i, in := range ab.Instrs {
				if in == x {
					return i
				}
			}
			return -1
		}
		if pos(a) < pos(b) {
			return kIn(ab, a, b)
		}
	}
	if kIn(ab, a, nil) || kIn(bb, nil, b) {
		return true
	}
	hasK := map[*ssa.BasicBlock]bool{}
	for _, blk := range ab.Parent().Blocks {
		if blk != ab && blk != bb && kIn(blk, nil, nil) {
			hasK[blk] = true
		}
	}
	seen := map[*ssa.BasicBlock]bool{}
	wl := append([]*ssa.BasicBlock{}, ab.Succs...)
	for len(wl) > 0 {
		x := wl[len(wl)-1]
		wl = wl[:len(wl)-1]
		if x == bb {
			return false
		}
		if seen[x] || hasK[x] {
			continue
		}
		seen[x] = true
		wl = append(wl, x.Succs...)
	}
	return true
}

// ruleDateSurvivesStrip (C09.17 / C11.15): the Date supplied on receipt is part of what the age is computed from. The
// hop-by-hop strip removes every field the response's own Connection field names, Date included (`Connection: Date`);
// between the strip and the entry write the Date is therefore established again, or the strip leaves Date alone.
func ruleDateSurvivesStrip(c *Ctx, rule string) {
	if !c.Need(rule, "stripHop", "writeEntry") {
		return
	}
	desc := "between the hop-by-hop strip and the entry write the response's Date is established again"
	// the strip keeps Date by itself: a comparison with the constant "Date" decides a deletion in the strip's tree
	for _, f := range c.reachableFrom(c.A.F("stripHop")) {
		keeps := false
		instrsOf(f, func(in ssa.Instruction) {
			bo, ok := in.(*ssa.BinOp)
			if !ok || (bo.Op != token.EQL && bo.Op != token.NEQ) {
				return
			}
			for _, s := range []ssa.Value{bo.X, bo.Y} {
				if k, ok := constStr(s); ok && k == "Date" {
					keeps = true
				}
			}
		})
		if keeps {
			c.Pass(rule, "date-after-strip", desc, c.P.ShortName(f)+": the strip tests the field name against Date")
			return
		}
	}
	setsDate := map[*ssa.Function]bool{}
	for fn := range c.A.Reach {
		if headerCallWithKey(fn, "Set", "Date") {
			setsDate[fn] = true
		}
	}
	isRepair := func(in ssa.Instruction) bool {
		ci, ok := in.(ssa.CallInstruction)
		if !ok {
			return false
		}
		if cc := callOf(in); cc != nil && callIsMethod(cc, "net/http", "Header", "Set") {
			_, args := recvAndArgs(cc)
			if k, ok := constStr(args[0]); ok && strings.EqualFold(k, "Date") {
				return true
			}
		}
		for _, cal := range c.P.RepoCallees(ci) {
			if setsDate[cal] {
				return true
			}
			for _, g := range c.reachableFrom(cal) {
				if setsDate[g] && !c.An.MayUpstream(cal, false) {
					return true
				}
			}
		}
		return false
	}
	n := 0
	bad := ""
	for fn := range c.A.Reach {
		var strips, writes []ssa.Instruction
		instrsOf(fn, func(in ssa.Instruction) {
			if c.An.CallsRole(in, "stripHop") {
				strips = append(strips, in)
			}
			if c.An.CallsRole(in, "writeEntry") || (c.A.F("storeResp") != nil && c.An.CallsRole(in, "storeResp")) {
				writes = append(writes, in)
			}
		})
		for _, s := range strips {
			for _, w := range writes {
				if !instrReaches(s, w) {
					continue
				}
				n++
				if everyPathPasses(s, w, isRepair) {
					continue
				}
				// the write is a call of the storer, which repairs the Date itself before its own write
				if c.An.CallsRole(w, "storeResp") {
					st := c.A.F("storeResp")
					pr := c.An.Prune(st, func(*Atom) (bool, bool) { return false, false })
					r := c.An.MustPass(pr, func(in ssa.Instruction) bool { return c.An.CallsRole(in, "writeEntry") }, isRepair)
					if r.Targets > 0 && r.OK {
						continue
					}
				}
				bad = c.P.ShortName(fn) + "@" + c.P.InstrPos(w)
			}
		}
	}
	switch {
	case n == 0:
		c.Undecided(rule, "date-after-strip", desc, "no function strips the hop-by-hop fields and then writes the entry")
	case bad != "":
		c.Fail(rule, "date-after-strip", desc, bad+": the entry is written after the hop-by-hop strip without the Date being supplied again; a response with `Connection: Date` is stored without a Date, its age counts from the zero time, it is never fresh (every request a MISS) and only-if-cached gets `Age: 9223372036`")
	default:
		c.Pass(rule, "date-after-strip", desc, fmt.Sprintf("%d strip/write pair(s)", n))
	}
}

// backgroundFunctions: the functions started by the go statements of the stale-while-revalidate function.
func (c *Ctx) backgroundFunctions() []*ssa.Function {
	swr := c.swrFunction()
	if swr == nil {
		return nil
	}
	var bgs []*ssa.Function
	instrsOf(swr, func(in ssa.Instruction) {
		if g, ok := in.(*ssa.Go); ok {
			bgs = append(bgs, c.P.RepoCallees(g)...)
		}
	})
	return bgs
}

func isHeaderGetOf(cc *ssa.Call, key string) bool {
	if !callIsMethod(&cc.Call, "net/http", "Header", "Get") {
		return false
	}
	_, args := recvAndArgs(&cc.Call)
	k, ok := constStr(args[0])
	return ok && strings.EqualFold(k, key)
}

// ruleBackground304SelectsEntry (C16.15 / C08.13): the background revalidation reads its copy of the entry after the origin
// answered (C07.11). Another exchange may have replaced the entry meanwhile; a 304 speaks about the response whose
// validators were sent. Between the re-read and the validation handler there is therefore a decision that compares the
// entry's validator with the one on the request and that can skip the handler.
func ruleBackground304SelectsEntry(c *Ctx, rule string) {
	bgs := c.backgroundFunctions()
	if len(bgs) == 0 || !c.Need(rule, "readEntry", "validationHandler") {
		return
	}
	desc := "in the background revalidation the validation handler runs only after the re-read entry's validators were compared with those sent"
	below := map[*ssa.Function]bool{}
	for _, f := range c.reachableFrom(c.A.F("validationHandler")) {
		below[f] = true
	}
	// functions that compare a stored validator (ETag / Last-Modified of a header) with another non-constant string
	compares := map[*ssa.Function]bool{}
	cmpETag := map[*ssa.Function]bool{} // both validators have to be compared: an entry may have only one of them
	cmpLM := map[*ssa.Function]bool{}
	transforms := map[*ssa.Function]bool{}
	var tree []*ssa.Function
	for _, bg := range bgs {
		tree = append(tree, c.reachableFrom(bg)...)
	}
	for _, f := range tree {
		if below[f] {
			continue
		}
		instrsOf(f, func(in ssa.Instruction) {
			bo, ok := in.(*ssa.BinOp)
			if !ok || (bo.Op != token.EQL && bo.Op != token.NEQ) || !isStringType(bo.X.Type()) {
				return
			}
			// the validators are compared as they are (octet by octet): an operand is the field value itself, not
			// something computed from it (`strings.TrimPrefix(tag, "W/")` makes "a" and W/"a" the same entry)
			isValidatorGet := func(cc *ssa.Call) bool {
				return isHeaderGetOf(cc, "Etag") || isHeaderGetOf(cc, "Last-Modified") || isHeaderGetOf(cc, "If-None-Match") || isHeaderGetOf(cc, "If-Modified-Since")
			}
			// raw: the operand is a field value as it was read (directly, through a local, a struct member or a helper
			// that hands it on), not something computed from one: every root of its value-preserving trace is a
			// Header.Get of a validator field, a parameter or a constant
			raw := func(v ssa.Value, _ int) bool {
				roots := c.P.Roots(v, TraceOpts{NoHeapFields: true, NoParams: true})
				if len(roots) == 0 {
					return false
				}
				for _, r := range roots {
					switch y := r.(type) {
					case *ssa.Call:
						if !isValidatorGet(y) {
							return false
						}
					case *ssa.Parameter, *ssa.Const:
					case *ssa.UnOp:
						if _, local := y.X.(*ssa.Alloc); !local {
							return false // (the load of a struct literal the value travels in is not a root of its own)
						}
					default:
						return false
					}
				}
				return true
			}
			stored := func(cc *ssa.Call) bool { return isHeaderGetOf(cc, "Etag") || isHeaderGetOf(cc, "Last-Modified") }
			if _, isConst := bo.X.(*ssa.Const); isConst {
				return
			}
			if _, isConst := bo.Y.(*ssa.Const); isConst {
				return
			}
			if !c.An.dependsOnCall(bo.X, isValidatorGet) && !c.An.dependsOnCall(bo.Y, isValidatorGet) {
				return
			}
			if raw(bo.X, 0) && raw(bo.Y, 0) {
				for _, side := range []ssa.Value{bo.X, bo.Y} {
					if c.An.dependsOnCall(side, func(cc *ssa.Call) bool { return isHeaderGetOf(cc, "Etag") }) {
						cmpETag[f] = true
					}
					if c.An.dependsOnCall(side, func(cc *ssa.Call) bool { return isHeaderGetOf(cc, "Last-Modified") }) {
						cmpLM[f] = true
					}
				}
				_ = stored
			} else {
				transforms[f] = true // a validator is compared after it went through another call
			}
		})
	}
	for f := range cmpETag {
		if cmpLM[f] {
			compares[f] = true
		}
	}
	for f := range transforms {
		delete(compares, f)
	}
	n := 0
	bad := ""
	for _, f := range tree {
		if below[f] {
			continue
		}
		var reads, handlers []ssa.Instruction
		instrsOf(f, func(in ssa.Instruction) {
			if c.An.CallsRole(in, "readEntry") {
				reads = append(reads, in)
			}
			if c.An.CallsRole(in, "validationHandler") {
				handlers = append(handlers, in)
			}
		})
		for _, rd := range reads {
			for _, h := range handlers {
				if !instrReaches(rd, h) {
					continue
				}
				n++
				gated := false
				for _, blk := range f.Blocks {
					if len(blk.Instrs) == 0 {
						continue
					}
					iff, ok := blk.Instrs[len(blk.Instrs)-1].(*ssa.If)
					if !ok {
						continue
					}
					isCmp := compares[f] && c.An.dependsOnCall(iff.Cond, func(cc *ssa.Call) bool { return isHeaderGetOf(cc, "Etag") || isHeaderGetOf(cc, "Last-Modified") })
					if !isCmp {
						isCmp = c.An.dependsOnCall(iff.Cond, func(cc *ssa.Call) bool {
							sc := cc.Call.StaticCallee()
							return sc != nil && compares[sc]
						})
					}
					if !isCmp {
						continue
					}
					// the decision comes after the re-read, in front of the handler, and one of its edges skips the handler
					if !(rd.Block() == blk || reachableAvoiding(rd.Block(), blk, nil)) {
						continue
					}
					if !(blk == h.Block() || reachableAvoiding(blk, h.Block(), nil)) {
						continue
					}
					for _, s := range blk.Succs {
						if s != h.Block() && !reachableAvoiding(s, h.Block(), nil) {
							gated = true
						}
					}
				}
				if !gated {
					bad = c.P.ShortName(f) + "@" + c.P.InstrPos(h)
				}
			}
		}
	}
	switch {
	case n == 0:
		c.Undecided(rule, "background-304-selects-entry", desc, "no entry read followed by the validation handler in the background function")
	case bad != "":
		c.Fail(rule, "background-304-selects-entry", desc, bad+": the answer to the background validation is applied to whatever the store holds when it arrives; when a `no-cache` GET replaced the entry (ETag \"v2\") while the conditional request for \"v1\" was pending, the 304 is merged into the new entry and later hits return the body of v2 with the ETag and fields of v1")
	default:
		c.Pass(rule, "background-304-selects-entry", desc, fmt.Sprintf("%d read/handler pair(s)", n))
	}
}

// ruleIndexUpdateAtomic (C08.14 / C09.18 / C19.12): the reference list of a URI is read, changed and written back. Two
// exchanges for one URI (two variants, or a revalidation and a miss) overlap; the list that is written has to be the
// one that is in the store at the time of the write, i.e. it is read in the same critical section as it is written.
// A list handed in by the caller is a snapshot from the beginning of the exchange.
func ruleIndexUpdateAtomic(c *Ctx, rule string) {
	if !c.Need(rule, "writeIndex", "readIndex") {
		return
	}
	desc := "the reference list written back is read in the same critical section (not a snapshot from the start of the exchange)"
	wi := c.A.F("writeIndex")
	n := 0
	for fn := range c.A.Reach {
		if fn == wi {
			continue
		}
		instrsOf(fn, func(in ssa.Instruction) {
			if !c.An.CallsRole(in, "writeIndex") {
				return
			}
			cc := callOf(in)
			_, args := recvAndArgs(cc)
			var list ssa.Value
			for _, a := range args {
				if !isStringType(a.Type()) {
					list = a
				}
			}
			if list == nil {
				return
			}
			n++
			key := "index-update-atomic site=" + c.P.ShortName(fn)
			fromParam, fromRead := false, false
			var readCall ssa.Instruction
			c.P.TraceBack(list, TraceOpts{ThroughOps: true, ThroughExtern: true, NoHeapFields: true, NoParams: true}, func(x ssa.Value, _ []int) bool {
				if p, ok := x.(*ssa.Parameter); ok && p.Parent() == fn {
					fromParam = true
				}
				var call *ssa.Call
				if cl, ok := x.(*ssa.Call); ok {
					call = cl
				}
				if ex, ok := x.(*ssa.Extract); ok {
					if cl, ok := ex.Tuple.(*ssa.Call); ok {
						call = cl
					}
				}
				if call != nil && c.An.CallsRole(call, "readIndex") {
					fromRead = true
					readCall = call
					return false
				}
				return true
			})
			locked := false
			if fromRead && !fromParam {
				instrsOf(fn, func(i2 ssa.Instruction) {
					c2 := callOf(i2)
					if c2 == nil {
						return
					}
					if _, isDefer := i2.(*ssa.Defer); isDefer {
						return
					}
					if (callIsMethod(c2, "sync", "Mutex", "Lock") || callIsMethod(c2, "sync", "RWMutex", "Lock")) && instrDominates(i2, readCall) {
						locked = true
					}
				})
				if locked {
					isUnlock := func(i2 ssa.Instruction) bool {
						if _, isDefer := i2.(*ssa.Defer); isDefer {
							return false
						}
						c2 := callOf(i2)
						return c2 != nil && (callIsMethod(c2, "sync", "Mutex", "Unlock") || callIsMethod(c2, "sync", "RWMutex", "Unlock"))
					}
					unlockedBetween := false
					instrsOf(fn, func(i2 ssa.Instruction) {
						if isUnlock(i2) && instrReaches(readCall, i2) && instrReaches(i2, in) {
							unlockedBetween = true
						}
					})
					if unlockedBetween {
						locked = false
					}
				}
			}
			switch {
			case fromRead && !fromParam && locked:
				c.Pass(rule, key, desc, c.P.ShortName(fn)+"@"+c.P.InstrPos(in))
			case fromParam || !fromRead:
				c.Fail(rule, key, desc, c.P.ShortName(fn)+"@"+c.P.InstrPos(in)+": the list written is the one the caller read when its exchange began; a reference added by an exchange that finished in between is lost (variant `en` being revalidated while `fr` is stored: the write-back of `en` drops `fr`, the next `fr` request is a MISS and its entry stays in the store unreferenced)")
			default:
				c.Fail(rule, key, desc, c.P.ShortName(fn)+"@"+c.P.InstrPos(in)+": the list is read and written without a lock held across both")
			}
		})
	}
	if n == 0 {
		c.Undecided(rule, "index-update-atomic", desc, "no index write found on the exchange")
	}
}

// ---------------------------------------------------------------------------------------------------------------------
// wave 6, first-pass misses

// mapOrigins classifies where a map value comes from: "make" (made here), "clone" (maps.Clone / maps.Collect: a fresh
// map), "parse" (result of a Cache-Control parser), "global" (a package-level variable), "param", "nil", "extern"
// (handed out by a library call, e.g. sync.Map.Load), "other".
func (c *Ctx) mapOrigins(v ssa.Value, depth int, seen map[ssa.Value]bool, out map[string]bool) {
	if depth > 8 || seen[v] {
		return
	}
	seen[v] = true
	switch x := v.(type) {
	case *ssa.MakeMap:
		out["make"] = true
	case *ssa.Const:
		out["nil"] = true
	case *ssa.Parameter:
		out["param"] = true
	case *ssa.Global:
		out["global"] = true
	case *ssa.Phi:
		for _, e := range x.Edges {
			c.mapOrigins(e, depth+1, seen, out)
		}
	case *ssa.ChangeType:
		c.mapOrigins(x.X, depth+1, seen, out)
	case *ssa.MakeInterface:
		c.mapOrigins(x.X, depth+1, seen, out)
	case *ssa.TypeAssert:
		c.mapOrigins(x.X, depth+1, seen, out)
	case *ssa.Extract:
		c.mapOrigins(x.Tuple, depth+1, seen, out)
	case *ssa.UnOp:
		if x.Op != token.MUL {
			out["other"] = true
			return
		}
		switch a := x.X.(type) {
		case *ssa.Global:
			out["global"] = true
		case *ssa.Alloc:
			for _, st := range c.P.cellStores(a) {
				c.mapOrigins(st.Val, depth+1, seen, out)
			}
		case *ssa.FreeVar:
			for _, b := range c.P.freeVarBindings(a) {
				for _, st := range c.P.cellStores(b) {
					c.mapOrigins(st.Val, depth+1, seen, out)
				}
			}
		default:
			out["other"] = true
		}
	case *ssa.Call:
		cc := &x.Call
		if callIsPkgFunc(cc, "maps", "Clone") || callIsPkgFunc(cc, "maps", "Collect") {
			out["clone"] = true
			return
		}
		if c.An.CallsRole(x, "parseReq") || c.An.CallsRole(x, "parseResp") {
			out["parse"] = true
			return
		}
		cal := c.P.RepoCallees(x)
		if len(cal) == 0 {
			out["extern"] = true
			return
		}
		for _, f := range cal {
			for _, b := range f.Blocks {
				for _, in := range b.Instrs {
					if r, ok := in.(*ssa.Return); ok {
						for _, rv := range r.Results {
							if _, isMap := rv.Type().Underlying().(*types.Map); isMap {
								c.mapOrigins(rv, depth+1, seen, out)
							}
						}
					}
				}
			}
		}
	default:
		out["other"] = true
	}
}

func isDirectiveMapType(t types.Type) bool {
	m, ok := t.Underlying().(*types.Map)
	return ok && isStringType(m.Key()) && isStringType(m.Elem())
}

// ruleDirectiveMapsPrivate (C02.13 / C16.16): the parsed directives of a request or a response are read many times in an
// exchange. (a) nothing on the exchange writes to the map a parser handed out (a copy is made first); (b) a parser hands
// out a map it made in that call, never one it keeps (a memoised map is shared by every exchange with the same field
// value, and a write by one of them changes the directives of all later ones).
func ruleDirectiveMapsPrivate(c *Ctx, rule string) {
	if !c.Need(rule, "parseReq", "parseResp") {
		return
	}
	descA := "no function on the exchange writes to a directive map handed out by a parser (only to a copy)"
	descB := "a Cache-Control parser returns a map made in that call"
	parserTree := map[*ssa.Function]bool{}
	for _, role := range []string{"parseReq", "parseResp"} {
		for _, f := range c.reachableFrom(c.A.F(role)) {
			parserTree[f] = true
		}
	}
	n := 0
	bad := ""
	for fn := range c.A.Reach {
		if parserTree[fn] {
			continue
		}
		instrsOf(fn, func(in ssa.Instruction) {
			var m ssa.Value
			if mu, ok := in.(*ssa.MapUpdate); ok {
				m = mu.Map
			}
			if cc := callOf(in); cc != nil {
				if b, ok := cc.Value.(*ssa.Builtin); ok && (b.Name() == "delete" || b.Name() == "clear") && len(cc.Args) >= 1 {
					m = cc.Args[0]
				}
			}
			if m == nil || !isDirectiveMapType(m.Type()) {
				return
			}
			n++
			o := map[string]bool{}
			c.mapOrigins(m, 0, map[ssa.Value]bool{}, o)
			if o["param"] {
				// a helper that edits the map it is given: look at what its callers give it
				for _, e := range c.P.Callers(fn) {
					for _, a := range e.Instr.Common().Args {
						if isDirectiveMapType(a.Type()) {
							c.mapOrigins(a, 1, map[ssa.Value]bool{}, o)
						}
					}
				}
			}
			if o["parse"] {
				bad = c.P.ShortName(fn) + "@" + c.P.InstrPos(in)
			}
		})
	}
	if bad != "" {
		c.Fail(rule, "directive-map-read-only", descA, bad+": the map that is edited is the parser's result itself; together with a parser that keeps its results (or a second reader of the same map) the edit outlives the step it was made for: request `max-age=0` loses the directive and the next such request is answered HIT without validation")
	} else {
		c.Pass(rule, "directive-map-read-only", descA, fmt.Sprintf("%d map write(s) outside the parsers", n))
	}
	nb := 0
	badB := ""
	for f := range parserTree {
		for _, b := range f.Blocks {
			for _, in := range b.Instrs {
				r, ok := in.(*ssa.Return)
				if !ok {
					continue
				}
				for _, rv := range r.Results {
					if !isDirectiveMapType(rv.Type()) {
						continue
					}
					nb++
					o := map[string]bool{}
					c.mapOrigins(rv, 0, map[ssa.Value]bool{}, o)
					if o["global"] || o["extern"] || o["other"] {
						badB = c.P.ShortName(f) + "@" + c.P.InstrPos(in)
					}
				}
			}
		}
	}
	switch {
	case nb == 0:
		c.Undecided(rule, "directive-map-fresh", descB, "no parser returns a directive map")
	case badB != "":
		c.Fail(rule, "directive-map-fresh", descB, badB+": a returned map comes out of package-level state (a memo table): every exchange whose field value is the same shares it, across goroutines and across transports")
	default:
		c.Pass(rule, "directive-map-fresh", descB, fmt.Sprintf("%d return(s)", nb))
	}
}

// rulePortDefaultByScheme (C03.12): a port is left out of the key only when it is the default port of the URI's own
// scheme. Every value the port is compared with is either empty or computed from the scheme of that URI; a default
// obtained for a fixed scheme (`defaultPort("https")`) makes `http://h:443/` and `http://h/` one resource.
func rulePortDefaultByScheme(c *Ctx, rule string) {
	if !c.Need(rule, "urlKey") {
		return
	}
	desc := "the port is compared only with the default port of the URI's own scheme"
	n := 0
	bad := ""
	for _, fn := range c.reachableFrom(c.A.F("urlKey")) {
		ports := map[ssa.Value]bool{}
		var addPort func(v ssa.Value)
		addPort = func(v ssa.Value) {
			if ports[v] {
				return
			}
			if _, isC := v.(*ssa.Const); isC {
				return
			}
			ports[v] = true
			if phi, ok := v.(*ssa.Phi); ok {
				for _, e := range phi.Edges {
					addPort(e)
				}
			}
		}
		instrsOf(fn, func(in ssa.Instruction) {
			add, ok := in.(*ssa.BinOp)
			if !ok || add.Op != token.ADD || !isStringType(add.Type()) {
				return
			}
			inner, ok := add.X.(*ssa.BinOp)
			if !ok || inner.Op != token.ADD {
				return
			}
			if k, ok := constStr(inner.Y); ok && k == ":" {
				addPort(add.Y)
			}
		})
		if len(ports) == 0 {
			continue
		}
		instrsOf(fn, func(in ssa.Instruction) {
			bo, ok := in.(*ssa.BinOp)
			if !ok || (bo.Op != token.EQL && bo.Op != token.NEQ) || !isStringType(bo.X.Type()) {
				return
			}
			if !ports[bo.X] && !ports[bo.Y] {
				return
			}
			for _, side := range []ssa.Value{bo.X, bo.Y} {
				call, ok := side.(*ssa.Call)
				if !ok {
					if ex, isEx := side.(*ssa.Extract); isEx {
						call, ok = ex.Tuple.(*ssa.Call)
					}
				}
				if !ok || len(c.P.RepoCallees(call)) == 0 {
					if k, isK := constStr(side); isK && k != "" && ports[otherOf(bo, side)] {
						// a literal port: the comparison has to stand under a test of the scheme
						n++
						underScheme := false
						for _, dc := range controlConds(bo.Block()) {
							if c.dependsOnField(dc.cond, "net/url", "URL", "Scheme") {
								underScheme = true
							}
						}
						if !underScheme {
							bad = c.P.ShortName(fn) + "@" + c.P.InstrPos(in)
						}
					}
					continue
				}
				if len(sigResults(call.Call.StaticCallee())) == 2 {
					continue // host/port splitter
				}
				n++
				fixed := false
				for _, a := range call.Call.Args {
					if k, isK := constStr(a); isK && k != "" {
						fixed = true
					}
				}
				if fixed {
					bad = c.P.ShortName(fn) + "@" + c.P.InstrPos(in)
				}
			}
		})
	}
	switch {
	case n == 0:
		c.Pass(rule, "port-default-by-scheme", desc, "no comparison of the port with a default below the key function")
	case bad != "":
		c.Fail(rule, "port-default-by-scheme", desc, bad+": the port is compared with the default port of a fixed scheme; `http://h:443/p` gets the key of `http://h/p` (and `https://h:80/p` that of `https://h/p`), URIs that differ in their port share an entry")
	default:
		c.Pass(rule, "port-default-by-scheme", desc, fmt.Sprintf("%d comparison(s)", n))
	}
}

func otherOf(bo *ssa.BinOp, side ssa.Value) ssa.Value {
	if bo.X == side {
		return bo.Y
	}
	return bo.X
}

// dependsOnField: v depends on a load of the named struct member.
func (c *Ctx) dependsOnField(v ssa.Value, pkg, typ, field string) bool {
	hit := false
	c.P.TraceBack(v, TraceOpts{ThroughOps: true, ThroughExtern: true, NoHeapFields: false}, func(x ssa.Value, _ []int) bool {
		if hit {
			return false
		}
		if u, ok := x.(*ssa.UnOp); ok && u.Op == token.MUL {
			if fa, ok := u.X.(*ssa.FieldAddr); ok && ptrTo(fa.X.Type(), pkg, typ) && fieldName(fa.X.Type(), fa.Field) == field {
				hit = true
				return false
			}
		}
		return true
	})
	return hit
}

// ruleScratchReuseEscapes (C04.16 / C09.19): a slice that is emptied with `s = s[:0]` inside a loop and filled again keeps
// its backing array. What was built in it during one iteration must be copied before it is kept (stored into a struct
// member, an element of another slice, a map); slices.Clip and re-slicing do not copy. Otherwise every kept value shows
// the contents of the last iteration: the parameters of `a;x=1, b;y=2` become those of the second member for both.
func ruleScratchReuseEscapes(c *Ctx, rule string) {
	desc := "a buffer that a loop empties and refills is copied before a value built in it is kept"
	n := 0
	bad := ""
	var fns []*ssa.Function
	for fn := range c.A.Reach {
		if fn.Parent() == nil {
			fns = append(fns, fn)
		}
	}
	for _, fn := range fns {
		// the function together with its function literals
		group := []*ssa.Function{fn}
		for i := 0; i < len(group); i++ {
			group = append(group, group[i].AnonFuncs...)
		}
		taintedCells := map[ssa.Value]bool{}
		d := map[ssa.Value]bool{}
		cellOf := func(addr ssa.Value) ssa.Value {
			switch a := addr.(type) {
			case *ssa.Alloc:
				return a
			case *ssa.FreeVar:
				for _, b := range c.P.freeVarBindings(a) {
					return b
				}
			}
			return nil
		}
		for _, g := range group {
			instrsOf(g, func(in ssa.Instruction) {
				sl, ok := in.(*ssa.Slice)
				if !ok || sl.Low != nil || sl.High == nil {
					return
				}
				if k, ok := constInt(sl.High); !ok || k != 0 {
					return
				}
				if _, isSlice := sl.X.Type().Underlying().(*types.Slice); !isSlice {
					return
				}
				n++
				if !blockInCycle(sl.Block()) {
					return
				}
				d[sl] = true
			})
		}
		if len(d) == 0 {
			continue
		}
		for changed := true; changed; {
			changed = false
			mark := func(v ssa.Value) {
				if !d[v] {
					d[v] = true
					changed = true
				}
			}
			for _, g := range group {
				instrsOf(g, func(in ssa.Instruction) {
					switch x := in.(type) {
					case *ssa.Store:
						if d[x.Val] {
							if cell := cellOf(x.Addr); cell != nil && !taintedCells[cell] {
								taintedCells[cell] = true
								changed = true
							}
						}
					case *ssa.UnOp:
						if x.Op == token.MUL {
							if cell := cellOf(x.X); cell != nil && taintedCells[cell] {
								mark(x)
							}
						}
					case *ssa.Phi:
						for _, e := range x.Edges {
							if d[e] {
								mark(x)
							}
						}
					case *ssa.Slice:
						if d[x.X] {
							mark(x)
						}
					case *ssa.ChangeType:
						if d[x.X] {
							mark(x)
						}
					case *ssa.Call:
						cc := &x.Call
						if b, ok := cc.Value.(*ssa.Builtin); ok && b.Name() == "append" && len(cc.Args) >= 1 && d[cc.Args[0]] {
							mark(x)
						}
						if sc := cc.StaticCallee(); sc != nil && len(cc.Args) >= 1 && d[cc.Args[0]] {
							name := sc.String()
							if o := sc.Origin(); o != nil {
								name = o.String()
							}
							if strings.HasPrefix(name, "slices.Clip") || strings.HasPrefix(name, "slices.Grow") {
								mark(x)
							}
						}
					}
				})
			}
		}
		for _, g := range group {
			instrsOf(g, func(in ssa.Instruction) {
				switch x := in.(type) {
				case *ssa.Store:
					if !d[x.Val] {
						return
					}
					switch x.Addr.(type) {
					case *ssa.FieldAddr, *ssa.IndexAddr:
						bad = c.P.ShortName(g) + "@" + c.P.InstrPos(in)
					}
				case *ssa.MapUpdate:
					if d[x.Value] {
						bad = c.P.ShortName(g) + "@" + c.P.InstrPos(in)
					}
				}
			})
		}
	}
	if bad != "" {
		c.Fail(rule, "scratch-reuse-escapes", desc, bad+": a value that shares its backing array with a buffer emptied at the top of the loop is kept without a copy; for `Accept: a/b;v=1, c/d;charset=x` both members end up with the parameters of the last one, so requests that differ in a nominated value normalise to the same text (wrong variant served) and equal values in another order do not (no hit)")
	} else {
		c.Pass(rule, "scratch-reuse-escapes", desc, fmt.Sprintf("%d reset idiom(s) examined", n))
	}
}

// ruleVariantResolvedOnEveryPath (C04.17): the reference a response is stored under records the request's values of the
// nominated fields on every path. A reference written without them (a nil map on some branch) matches every request.
func ruleVariantResolvedOnEveryPath(c *Ctx, rule string) {
	if !c.Need(rule, "storeResp") {
		return
	}
	desc := "the stored reference and the variant id are computed from the resolved values on every path (never from a nil map)"
	fn := c.A.F("storeResp")
	n := 0
	bad := ""
	hasNilEdge := func(v ssa.Value) bool {
		seen := map[ssa.Value]bool{}
		var walk func(x ssa.Value) bool
		walk = func(x ssa.Value) bool {
			if seen[x] {
				return false
			}
			seen[x] = true
			switch y := x.(type) {
			case *ssa.Const:
				return y.IsNil()
			case *ssa.Phi:
				for _, e := range y.Edges {
					if walk(e) {
						return true
					}
				}
			case *ssa.UnOp:
				if al, ok := y.X.(*ssa.Alloc); ok && y.Op == token.MUL {
					// a variable captured by a function literal lives in a cell; its zero value is nil unless a
					// store comes first on every path
					dominated := false
					for _, st := range c.P.cellStores(al) {
						if st.Parent() == y.Parent() && instrDominates(st, y) {
							dominated = true
						}
					}
					if !dominated {
						return true
					}
					for _, st := range c.P.cellStores(al) {
						if walk(st.Val) {
							return true
						}
					}
				}
			}
			return false
		}
		return walk(v)
	}
	instrsOf(fn, func(in ssa.Instruction) {
		if st, ok := in.(*ssa.Store); ok {
			if fa, ok := st.Addr.(*ssa.FieldAddr); ok && isDirectiveMapType(st.Val.Type()) && strings.Contains(fieldName(fa.X.Type(), fa.Field), "Resolved") {
				n++
				if hasNilEdge(st.Val) {
					bad = c.P.InstrPos(in)
				}
			}
		}
		if cc := callOf(in); cc != nil && cc.IsInvoke() {
			for _, a := range cc.Args {
				if isDirectiveMapType(a.Type()) {
					n++
					if hasNilEdge(a) {
						bad = c.P.InstrPos(in)
					}
				}
			}
		}
	})
	switch {
	case n == 0:
		c.Undecided(rule, "variant-resolved-always", desc, "no use of the resolved values in the storer")
	case bad != "":
		c.Fail(rule, "variant-resolved-always", desc, c.P.ShortName(fn)+"@"+bad+": on some path the nominated request values are not resolved; a response to a request without header fields is stored with `Vary: Accept-Language` and nothing to compare, and is then served to `Accept-Language: de`")
	default:
		c.Pass(rule, "variant-resolved-always", desc, fmt.Sprintf("%d use(s)", n))
	}
}

// ruleHopTablePerResponse (C05.14 / C11.16): the set of hop-by-hop names a response is stripped with includes the names its
// own Connection field lists, and the 304 merge adds Content-Length to the set it gets. The function that hands the set
// out therefore returns a map made (or cloned) in that call; a package-level table handed out as it is collects the
// names of every response and is written concurrently.
func ruleHopTablePerResponse(c *Ctx, rule string) {
	if !c.Need(rule, "hopTable") {
		return
	}
	desc := "the hop-by-hop set handed out for a response is a map of its own, not the shared table"
	fn := c.A.F("hopTable")
	n := 0
	bad := ""
	for _, b := range fn.Blocks {
		for _, in := range b.Instrs {
			r, ok := in.(*ssa.Return)
			if !ok {
				continue
			}
			for _, rv := range r.Results {
				if _, isMap := rv.Type().Underlying().(*types.Map); !isMap {
					continue
				}
				n++
				o := map[string]bool{}
				c.mapOrigins(rv, 0, map[ssa.Value]bool{}, o)
				if o["global"] || o["param"] || o["other"] || o["extern"] {
					bad = c.P.InstrPos(in)
				}
			}
		}
	}
	switch {
	case n == 0:
		c.Undecided(rule, "hop-table-per-response", desc, c.P.ShortName(fn)+" returns no map")
	case bad != "":
		c.Fail(rule, "hop-table-per-response", desc, c.P.ShortName(fn)+"@"+bad+": the package-level table itself is handed out; the first 304 adds Content-Length to it (every later response is stored and forwarded without its Content-Length), a response with `Connection: Age` makes every later response lose its Age before it is stored")
	default:
		c.Pass(rule, "hop-table-per-response", desc, fmt.Sprintf("%s: %d return(s)", c.P.ShortName(fn), n))
	}
}

// bodyCloseOf: in closes (directly or deferred) the Body of a response; returns that response value.
func bodyCloseOf(in ssa.Instruction) (ssa.Value, bool) {
	cc := callOf(in)
	if cc == nil || !cc.IsInvoke() || cc.Method.Name() != "Close" {
		return nil, false
	}
	u, ok := cc.Value.(*ssa.UnOp)
	if !ok || u.Op != token.MUL {
		return nil, false
	}
	fa, ok := u.X.(*ssa.FieldAddr)
	if !ok || !isHTTPResponsePtr(fa.X.Type()) || fieldName(fa.X.Type(), fa.Field) != "Body" {
		return nil, false
	}
	return fa.X, true
}

// ruleForwardedBodyNotClosed (C05.15): a response that a function returns still has to be read by the caller. No function
// on the exchange closes the body of a response it goes on to return: a deferred close runs on every way out, the
// forwarding one included.
func ruleForwardedBodyNotClosed(c *Ctx, rule string) {
	desc := "no function closes the body of a response that it returns afterwards"
	n := 0
	bad := ""
	for fn := range c.A.Reach {
		instrsOf(fn, func(in ssa.Instruction) {
			r, ok := bodyCloseOf(in)
			if !ok {
				return
			}
			n++
			_, deferred := in.(*ssa.Defer)
			instrsOf(fn, func(i2 ssa.Instruction) {
				ret, ok := i2.(*ssa.Return)
				if !ok {
					return
				}
				for _, rv := range ret.Results {
					if !isHTTPResponsePtr(rv.Type()) {
						continue
					}
					rv = c.An.RetVal(ret, indexOfResult(ret, rv))
					same := func(x ssa.Value) bool { return c.An.sameCanon(x, r) }
					if phi, isPhi := rv.(*ssa.Phi); isPhi {
						for i, e := range phi.Edges {
							if same(e) && (deferred || reachableAvoiding(in.Block(), phi.Block().Preds[i], nil)) {
								bad = c.P.ShortName(fn) + "@" + c.P.InstrPos(in)
							}
						}
						continue
					}
					if same(rv) && (deferred || instrReaches(in, i2)) {
						bad = c.P.ShortName(fn) + "@" + c.P.InstrPos(in)
					}
				}
			})
		})
	}
	if bad != "" {
		c.Fail(rule, "forwarded-body-open", desc, bad+": the body of the origin's response is closed (a deferred close runs on every return) and the same response is returned; the client of a 503 that is passed on reads `http: read on closed response body` instead of the origin's bytes")
	} else {
		c.Pass(rule, "forwarded-body-open", desc, fmt.Sprintf("%d close site(s)", n))
	}
}

func indexOfResult(ret *ssa.Return, v ssa.Value) int {
	for i, r := range ret.Results {
		if r == v {
			return i
		}
	}
	return 0
}

// dependsOnStatusCode: v depends on the StatusCode member of a response.
func (c *Ctx) dependsOnStatusCode(v ssa.Value) bool {
	return c.dependsOnField(v, "net/http", "Response", "StatusCode")
}

// ruleReplaceWheneverStorable (C08.15): a full reply to a validation request replaces the stored response whenever the
// storability evaluator accepts it - a 404 or 410 with a lifetime included. The only decisions about the reply's status
// in front of the handler's store call are the 304 test and the evaluator itself.
func ruleReplaceWheneverStorable(c *Ctx, rule string) {
	if !c.Need(rule, "validationHandler", "storeResp", "canStore") {
		return
	}
	desc := "in the validation handler the store call depends on the reply's status only through the 304 test and the storability evaluator"
	vh := c.A.F("validationHandler")
	n := 0
	bad := ""
	instrsOf(vh, func(in ssa.Instruction) {
		if !c.An.CallsRole(in, "storeResp") {
			return
		}
		for _, dc := range controlConds(in.Block()) {
			for _, lf := range condLeaves(dc.cond, dc.onTrue) {
				if !c.dependsOnStatusCode(lf.v) {
					continue
				}
				n++
				if bo, ok := lf.v.(*ssa.BinOp); ok {
					if k, ok := constInt(bo.Y); ok && k == 304 {
						continue
					}
					if k, ok := constInt(bo.X); ok && k == 304 {
						continue
					}
				}
				if call, ok := lf.v.(*ssa.Call); ok && c.An.CallsRole(call, "canStore") {
					continue
				}
				bad = c.P.InstrPos(in) + " (condition at " + c.P.InstrPos(dc.block.Instrs[len(dc.block.Instrs)-1]) + ")"
			}
		}
	})
	switch {
	case bad != "":
		c.Fail(rule, "replace-whenever-storable", desc, c.P.ShortName(vh)+"@"+bad+": a further test of the reply's status stands in front of the write-back; a cacheable 404/410 answer to a validation is passed on but not stored, and the replaced 200 is served again (HIT while fresh, STALE inside its stale-while-revalidate window)")
	default:
		c.Pass(rule, "replace-whenever-storable", desc, fmt.Sprintf("%s: %d status decision(s) in front of the store call", c.P.ShortName(vh), n))
	}
}

// ruleRequestHeaderWritesNonNil (C10.23): `Header.Set` on a nil map panics. A request header on which the exchange sets a
// field belongs to a request that came out of the repository's own clone function (which installs a map, C10.13);
// the header of `http.Request.Clone` / `WithContext` is nil when the caller's is.
func ruleRequestHeaderWritesNonNil(c *Ctx, rule string) {
	if !c.Need(rule, "cloneReq") {
		return
	}
	desc := "fields are set only on request headers that the repository's clone function made non-nil"
	n := 0
	bad := ""
	// origin of a request value: "own" (clone function), "std" (net/http clone), "param", "new", "?"
	var reqOrigins func(v ssa.Value, depth int, seen map[ssa.Value]bool, out map[string]bool)
	reqOrigins = func(v ssa.Value, depth int, seen map[ssa.Value]bool, out map[string]bool) {
		if depth > 8 || seen[v] {
			return
		}
		seen[v] = true
		switch x := v.(type) {
		case *ssa.Phi:
			for _, e := range x.Edges {
				reqOrigins(e, depth+1, seen, out)
			}
		case *ssa.Parameter:
			out["param"] = true
		case *ssa.Alloc:
			out["new"] = true
		case *ssa.UnOp:
			if al, ok := x.X.(*ssa.Alloc); ok && x.Op == token.MUL {
				for _, st := range c.P.cellStores(al) {
					reqOrigins(st.Val, depth+1, seen, out)
				}
				return
			}
			out["?"] = true
		case *ssa.Call:
			switch {
			case c.An.CallsRole(x, "cloneReq"):
				out["own"] = true
			case callIsMethod(&x.Call, "net/http", "Request", "Clone"), callIsMethod(&x.Call, "net/http", "Request", "WithContext"):
				if callIsMethod(&x.Call, "net/http", "Request", "WithContext") {
					reqOrigins(x.Call.Args[0], depth+1, seen, out) // shares the receiver's header
				} else {
					out["std"] = true
				}
			default:
				cal := c.P.RepoCallees(x)
				if len(cal) == 0 {
					out["?"] = true
				}
				for _, f := range cal {
					for _, b := range f.Blocks {
						for _, in := range b.Instrs {
							if r, ok := in.(*ssa.Return); ok {
								for _, rv := range r.Results {
									if isHTTPRequestPtr(rv.Type()) {
										reqOrigins(rv, depth+1, seen, out)
									}
								}
							}
						}
					}
				}
			}
		default:
			out["?"] = true
		}
	}
	var headerOrigins func(fn *ssa.Function, h ssa.Value, depth int, out map[string]bool)
	headerOrigins = func(fn *ssa.Function, h ssa.Value, depth int, out map[string]bool) {
		if depth > 3 {
			out["?"] = true
			return
		}
		h = peel(h)
		switch x := h.(type) {
		case *ssa.UnOp:
			if fa, ok := x.X.(*ssa.FieldAddr); ok && x.Op == token.MUL && isHTTPRequestPtr(fa.X.Type()) {
				// a fresh map stored into this very member beforehand
				made := false
				instrsOf(fn, func(in ssa.Instruction) {
					if st, ok := in.(*ssa.Store); ok {
						if fa2, ok := st.Addr.(*ssa.FieldAddr); ok && fa2.Field == fa.Field && c.An.sameCanon(fa2.X, fa.X) {
							if _, isMake := st.Val.(*ssa.MakeMap); isMake {
								made = true
							}
						}
					}
				})
				if made {
					out["own"] = true
					return
				}
				o := map[string]bool{}
				reqOrigins(fa.X, 0, map[ssa.Value]bool{}, o)
				if o["param"] {
					delete(o, "param")
					p, _ := c.An.canon(fa.X).(*ssa.Parameter)
					if p == nil {
						if pp, ok := fa.X.(*ssa.Parameter); ok {
							p = pp
						}
					}
					if p == nil {
						out["?"] = true
					} else {
						idx := paramIndex(fn, p)
						for _, cs := range c.P.Callers(fn) {
							if a := argForParam(cs.Instr.Common(), fn, idx); a != nil {
								oo := map[string]bool{}
								reqOrigins(a, 0, map[ssa.Value]bool{}, oo)
								for k := range oo {
									if k == "param" {
										k = "caller" // the request a caller of the caller passed in: not followed further
									}
									o[k] = true
								}
							}
						}
					}
				}
				for k := range o {
					out[k] = true
				}
				return
			}
			out["?"] = true
		case *ssa.Parameter:
			idx := paramIndex(fn, x)
			cs := c.P.Callers(fn)
			if len(cs) == 0 {
				out["?"] = true
			}
			for _, s := range cs {
				if a := argForParam(s.Instr.Common(), fn, idx); a != nil {
					headerOrigins(s.Caller, a, depth+1, out)
				}
			}
		case *ssa.MakeMap:
			out["own"] = true
		case *ssa.Call:
			if callIsMethod(&x.Call, "net/http", "Header", "Clone") {
				out["std"] = true
				return
			}
			out["?"] = true
		default:
			out["?"] = true
		}
	}
	for fn := range c.A.Reach {
		instrsOf(fn, func(in ssa.Instruction) {
			cc := callOf(in)
			if cc == nil || !(callIsMethod(cc, "net/http", "Header", "Set") || callIsMethod(cc, "net/http", "Header", "Add")) {
				return
			}
			r, _ := recvAndArgs(cc)
			cls := c.An.HeaderClass(r)
			_, isParam := peel(r).(*ssa.Parameter)
			if cls != "rq" && !(isParam && cls == "?") {
				return
			}
			o := map[string]bool{}
			headerOrigins(fn, r, 0, o)
			if isParam && !o["std"] && !o["own"] {
				return // a header of unknown kind handed in: not a request header as far as can be seen
			}
			n++
			if o["std"] || o["caller"] {
				bad = c.P.ShortName(fn) + "@" + c.P.InstrPos(in)
			}
		})
	}
	switch {
	case bad != "":
		c.Fail(rule, "request-header-write-non-nil", desc, bad+": a field is set on the header of a request copied with http.Request.Clone (nil when the caller's header is nil): RoundTrip called with `&http.Request{Method: \"GET\", URL: u}` panics with `assignment to entry in nil map` on a stale-while-revalidate hit of a response with a validator")
	default:
		c.Pass(rule, "request-header-write-non-nil", desc, fmt.Sprintf("%d write(s) to request headers", n))
	}
}

// ruleOwnFieldsSetLast (C11.17): the fields named by a qualified no-cache are chosen by the origin (`no-cache="Age"`). They
// are removed before the cache writes its own Age and status fields onto the response it serves, never after.
func ruleOwnFieldsSetLast(c *Ctx, rule string) {
	desc := "the origin-named fields are stripped before the cache's own Age and status fields are written"
	n := 0
	bad := ""
	for fn := range c.A.Reach {
		var strips, own []ssa.Instruction
		instrsOf(fn, func(in ssa.Instruction) {
			if c.An.IsStripFields(in) {
				strips = append(strips, in)
			} else if _, isGo := in.(*ssa.Go); !isGo {
				// a helper that does the stripping
				if _, leads := c.An.LeadsTo("STRIP-FIELDS", in, c.An.IsStripFields, false); leads {
					strips = append(strips, in)
				}
			}
			if (c.A.F("ageSet") != nil && c.An.CallsRole(in, "ageSet")) || (c.A.F("statusApply") != nil && c.An.CallsRole(in, "statusApply")) {
				own = append(own, in)
			}
		})
		for _, s := range strips {
			for _, o := range own {
				n++
				if instrReaches(o, s) {
					bad = c.P.ShortName(fn) + "@" + c.P.InstrPos(s)
				}
			}
		}
	}
	switch {
	case n == 0:
		c.Undecided(rule, "own-fields-after-strip", desc, "no function both strips the named fields and writes the cache's own")
	case bad != "":
		c.Fail(rule, "own-fields-after-strip", desc, bad+": the strip runs after Age / X-Httpcache-Status / X-From-Cache were written; stored `no-cache=\"Set-Cookie, Age\"` makes a HIT leave without an Age, `no-cache=\"X-Httpcache-Status\"` without a status")
	default:
		c.Pass(rule, "own-fields-after-strip", desc, fmt.Sprintf("%d strip/own-field pair(s)", n))
	}
}

// dependsOnUpstreamHeader: v depends on a field of the origin's reply (read directly or through its parsed directives).
func (c *Ctx) dependsOnUpstreamHeader(v ssa.Value) bool {
	isUp := func(h ssa.Value) bool {
		k := c.An.HeaderClass(h)
		return k == "up"
	}
	return c.An.dependsOnCall(v, func(cc *ssa.Call) bool {
		if callIsMethod(&cc.Call, "net/http", "Header", "Get") || callIsMethod(&cc.Call, "net/http", "Header", "Values") {
			r, _ := recvAndArgs(&cc.Call)
			return isUp(r)
		}
		if c.An.CallsRole(cc, "parseResp") {
			return isUp(cc.Call.Args[0])
		}
		// an accessor on a directive map: look at where the map comes from
		if sc := cc.Call.StaticCallee(); sc != nil && c.P.IsRepoFunc(sc) && len(cc.Call.Args) >= 1 && isDirectiveMapType(cc.Call.Args[0].Type()) {
			return c.An.dependsOnCall(cc.Call.Args[0], func(pc *ssa.Call) bool {
				return c.An.CallsRole(pc, "parseResp") && isUp(pc.Call.Args[0])
			})
		}
		return false
	})
}

// ruleSIEGuardIgnoresErrorReplyHeader (C13.14): whether the stored response may stand in for a failed validation is decided
// by the failure (an error, one of the four statuses), the stored response's and the request's directives and the
// window. No header field of the error reply takes part: a 503 that carries `max-age=0` is still a 503.
func ruleSIEGuardIgnoresErrorReplyHeader(c *Ctx, rule string) {
	if !c.Need(rule, "validationHandler", "siePolicy") {
		return
	}
	desc := "no header field of the origin's error reply decides whether stale-if-error applies"
	vh := c.A.F("validationHandler")
	n := 0
	bad := ""
	instrsOf(vh, func(in ssa.Instruction) {
		if !c.An.IsServeReturn(in) {
			return
		}
		conds := controlConds(in.Block())
		isSIE := false
		for _, dc := range conds {
			for _, lf := range condLeaves(dc.cond, dc.onTrue) {
				if call, ok := lf.v.(*ssa.Call); ok && c.An.CallsRole(call, "siePolicy") {
					isSIE = true
				}
			}
		}
		if !isSIE {
			return
		}
		n++
		for _, dc := range conds {
			leaves := condLeaves(dc.cond, dc.onTrue)
			if len(leaves) == 0 {
				leaves = []condLeaf{{dc.cond, dc.onTrue}}
			}
			for _, lf := range leaves {
				if c.dependsOnUpstreamHeader(lf.v) {
					bad = c.P.InstrPos(dc.block.Instrs[len(dc.block.Instrs)-1])
					if os.Getenv("HCV_DEBUG") != "" {
						fmt.Fprintf(os.Stderr, "C13.14 leaf %s = %s\n", lf.v.Name(), lf.v.String())
					}
				}
			}
		}
	})
	switch {
	case n == 0:
		c.Undecided(rule, "sie-guard-sources", desc, "no return of the stored response under the stale-if-error policy in the validation handler")
	case bad != "":
		c.Fail(rule, "sie-guard-sources", desc, c.P.ShortName(vh)+"@"+bad+": a condition in front of the stale-if-error return reads the error reply's own header; a 503 with `Cache-Control: max-age=0` (or an Expires field) is passed on although the stored response is inside its stale-if-error window, and being storable it replaces the good entry")
	default:
		c.Pass(rule, "sie-guard-sources", desc, fmt.Sprintf("%d stale-if-error return(s)", n))
	}
}

// loopCarried: v depends (inside its function, through values of its own type) on a phi that depends on itself.
func loopCarried(v ssa.Value) *ssa.Phi {
	t := v.Type()
	var found *ssa.Phi
	seen := map[ssa.Value]bool{}
	var reach func(from ssa.Value, target *ssa.Phi, vis map[ssa.Value]bool) bool
	ops := func(x ssa.Value) []ssa.Value {
		var out []ssa.Value
		switch y := x.(type) {
		case *ssa.Phi:
			out = append(out, y.Edges...)
		case *ssa.BinOp:
			out = append(out, y.X, y.Y)
		case *ssa.Convert:
			out = append(out, y.X)
		case *ssa.ChangeType:
			out = append(out, y.X)
		case *ssa.Call:
			out = append(out, y.Call.Args...)
		}
		var same []ssa.Value
		for _, o := range out {
			if types.Identical(o.Type(), t) {
				same = append(same, o)
			}
		}
		return same
	}
	reach = func(from ssa.Value, target *ssa.Phi, vis map[ssa.Value]bool) bool {
		if from == ssa.Value(target) {
			return true
		}
		if vis[from] {
			return false
		}
		vis[from] = true
		for _, o := range ops(from) {
			if reach(o, target, vis) {
				return true
			}
		}
		return false
	}
	var walk func(x ssa.Value)
	walk = func(x ssa.Value) {
		if seen[x] || found != nil {
			return
		}
		seen[x] = true
		if phi, ok := x.(*ssa.Phi); ok {
			for _, e := range phi.Edges {
				if reach(e, phi, map[ssa.Value]bool{}) {
					found = phi
					return
				}
			}
		}
		for _, o := range ops(x) {
			walk(o)
		}
	}
	walk(v)
	return found
}

// ruleSIEWindowPerDirective (C13.15): each stale-if-error directive (of the stored response, of the request) opens its own
// window. The bound the age is compared with is computed from the directive at hand, not from a sum carried from
// one directive to the next.
func ruleSIEWindowPerDirective(c *Ctx, rule string) {
	if !c.Need(rule, "siePolicy") {
		return
	}
	desc := "the window bound is computed from one directive, not accumulated over the directives"
	fn := c.A.F("siePolicy")
	n := 0
	bad := ""
	isDurCmp := func(in ssa.Instruction) (*ssa.BinOp, bool) {
		bo, ok := in.(*ssa.BinOp)
		if !ok {
			return nil, false
		}
		switch bo.Op {
		case token.LSS, token.LEQ, token.GTR, token.GEQ:
		default:
			return nil, false
		}
		return bo, typeIs(bo.X.Type(), "time", "Duration")
	}
	compares := func(g *ssa.Function) bool {
		hit := false
		for _, h := range c.reachableFrom(g) {
			instrsOf(h, func(in ssa.Instruction) {
				if _, ok := isDurCmp(in); ok {
					hit = true
				}
			})
		}
		return hit
	}
	for _, f := range c.reachableFrom(fn) {
		if f.Pkg != fn.Pkg && (f.Parent() == nil || !lexicallyInside(f, fn)) {
			continue
		}
		instrsOf(f, func(in ssa.Instruction) {
			if bo, ok := isDurCmp(in); ok {
				n++
				for _, side := range []ssa.Value{bo.X, bo.Y} {
					if phi := loopCarried(side); phi != nil {
						bad = c.P.InstrPos(in)
					}
				}
				return
			}
			// the comparison sits in a helper: the durations handed to it are the operands
			call, ok := in.(*ssa.Call)
			if !ok {
				return
			}
			for _, g := range c.P.RepoCallees(call) {
				if g == f || !compares(g) {
					continue
				}
				for _, a := range call.Call.Args {
					if !typeIs(a.Type(), "time", "Duration") {
						continue
					}
					n++
					if phi := loopCarried(a); phi != nil {
						bad = c.P.InstrPos(in)
					}
				}
			}
		})
	}
	switch {
	case n == 0:
		c.Undecided(rule, "sie-window-per-directive", desc, "no duration comparison in "+c.P.ShortName(fn))
	case bad != "":
		c.Fail(rule, "sie-window-per-directive", desc, c.P.ShortName(fn)+"@"+bad+": the bound contains a value carried from one loop iteration to the next; with stale-if-error=3 on the stored response and =4 on the request a response 5 s past its lifetime is served although it is outside both windows")
	default:
		c.Pass(rule, "sie-window-per-directive", desc, fmt.Sprintf("%d comparison(s)", n))
	}
}

// ruleMarkerStrictlyInside (C14.18): a fragment of the encoded key gets the directory marker exactly when more of the
// encoding follows it. The decision compares the fragment's end with the length of the encoding; with `<=` where `<`
// belongs, a key whose encoding is a whole number of fragments is stored in a file that is named like a directory.
func ruleMarkerStrictlyInside(c *Ctx, rule string) {
	fp := c.P.Pkg("store/fscache")
	if fp == nil {
		return
	}
	desc := "a fragment carries the directory marker only when its end lies strictly before the end of the encoding"
	outside := func(s string) bool {
		for _, r := range s {
			if !(r >= 'A' && r <= 'Z' || r >= 'a' && r <= 'z' || r >= '0' && r <= '9' || r == '-' || r == '_') {
				return true
			}
		}
		return s != ""
	}
	isLen := func(v ssa.Value) bool {
		call, ok := v.(*ssa.Call)
		if !ok {
			return false
		}
		b, ok := call.Call.Value.(*ssa.Builtin)
		return ok && b.Name() == "len" && isStringType(call.Call.Args[0].Type())
	}
	n := 0
	bad := ""
	for _, fn := range c.P.RepoFuncs {
		if fn.Pkg != fp || !callsNamed(fn, "EncodeToString") {
			continue
		}
		instrsOf(fn, func(in ssa.Instruction) {
			add, ok := in.(*ssa.BinOp)
			if !ok || add.Op != token.ADD {
				return
			}
			k, ok := constStr(add.Y)
			if !ok || !outside(k) {
				return
			}
			if _, isC := add.X.(*ssa.Const); isC {
				return
			}
			for _, dc := range dominatingConds(add.Block()) {
				for _, lf := range condLeaves(dc.cond, dc.onTrue) {
					cmp, ok := lf.v.(*ssa.BinOp)
					if !ok {
						continue
					}
					var rel token.Token
					switch {
					case isLen(cmp.Y) && !isLen(cmp.X):
						rel = cmp.Op
					case isLen(cmp.X) && !isLen(cmp.Y):
						rel = swapTok(cmp.Op)
					default:
						continue
					}
					switch rel {
					case token.LSS, token.LEQ, token.GTR, token.GEQ:
					default:
						continue
					}
					if !lf.val {
						rel = negTok(rel)
					}
					n++
					// rel: fragment end `rel` length of the encoding, where the marker is appended
					if rel != token.LSS {
						bad = c.P.ShortName(fn) + "@" + c.P.InstrPos(cmp)
					}
				}
			}
		})
	}
	switch {
	case bad != "":
		c.Fail(rule, "marker-strictly-inside", desc, bad+": the marker is appended to a fragment that may end exactly at the end of the encoding; a key of 211, 282, 317, ... bytes (a whole number of 47-character fragments) is stored in a file whose name ends in the marker: key listing fails for the whole cache and no longer key with that prefix can be stored")
	default:
		c.Pass(rule, "marker-strictly-inside", desc, fmt.Sprintf("%d boundary comparison(s) in front of the marker", n))
	}
}

// ruleErrorsIsOrder (C14.19): errors.Is(err, target) walks the chain of its first argument. With the arguments exchanged
// (`errors.Is(driver.ErrNotExist, err)`) only the bare sentinel matches, and every wrapped or joined not-exist error of
// the real backends is taken for a failure.
func ruleErrorsIsOrder(c *Ctx, rule string) {
	desc := "errors.Is is called with the error first and the sentinel second"
	n := 0
	bad := ""
	isSentinel := func(v ssa.Value) bool {
		u, ok := v.(*ssa.UnOp)
		if !ok || u.Op != token.MUL {
			return false
		}
		_, isG := u.X.(*ssa.Global)
		return isG
	}
	for _, fn := range c.P.RepoFuncs {
		instrsOf(fn, func(in ssa.Instruction) {
			cc := callOf(in)
			if cc == nil || !callIsPkgFunc(cc, "errors", "Is") || len(cc.Args) != 2 {
				return
			}
			n++
			if isSentinel(cc.Args[0]) && !isSentinel(cc.Args[1]) {
				bad = c.P.ShortName(fn) + "@" + c.P.InstrPos(in)
			}
		})
	}
	switch {
	case n == 0:
		c.Pass(rule, "errors-is-order", desc, "no errors.Is call")
	case bad != "":
		c.Fail(rule, "errors-is-order", desc, bad+": the sentinel is the first argument; DELETE of an absent key through the maintenance API answers 500 instead of 404 on every built-in backend (their not-exist errors are joined or wrapped), while GET of the same key answers 404")
	default:
		c.Pass(rule, "errors-is-order", desc, fmt.Sprintf("%d errors.Is call(s)", n))
	}
}

// sprintfArgs: the variadic arguments of a fmt.Sprintf-like call, by position.
func sprintfArgs(cc *ssa.CallCommon) []ssa.Value {
	if len(cc.Args) < 1 {
		return nil
	}
	sl, ok := cc.Args[len(cc.Args)-1].(*ssa.Slice)
	if !ok {
		return nil
	}
	al, ok := sl.X.(*ssa.Alloc)
	if !ok || al.Referrers() == nil {
		return nil
	}
	out := map[int64]ssa.Value{}
	max := int64(-1)
	for _, r := range *al.Referrers() {
		ia, ok := r.(*ssa.IndexAddr)
		if !ok || ia.Referrers() == nil {
			continue
		}
		idx, ok := constInt(ia.Index)
		if !ok {
			continue
		}
		for _, u := range *ia.Referrers() {
			if st, ok := u.(*ssa.Store); ok {
				v := st.Val
				if mi, ok := v.(*ssa.MakeInterface); ok {
					v = mi.X
				}
				out[idx] = v
				if idx > max {
					max = idx
				}
			}
		}
	}
	res := make([]ssa.Value, max+1)
	for i, v := range out {
		res[i] = v
	}
	return res
}

// tempNameParts: for every file created by the file-system backend under a name that is not the key's own file name,
// the Sprintf call(s) the name is built with.
func (c *Ctx) tempNameSites() (creates []ssa.Instruction, formats map[ssa.Instruction][]*ssa.Call) {
	formats = map[ssa.Instruction][]*ssa.Call{}
	for _, fn := range c.fsBackendFuncs() {
		instrsOf(fn, func(in ssa.Instruction) {
			cc := callOf(in)
			if cc == nil {
				return
			}
			idx, ok := isCreateOrOpenForWrite(c, cc)
			if !ok || idx >= len(cc.Args) {
				return
			}
			name := cc.Args[idx]
			if c.isNamerResult(name) {
				return
			}
			// a name next to the key's file: it derives from the namer's result (its directory) and something else
			creates = append(creates, in)
			c.P.TraceBack(name, TraceOpts{ThroughOps: true, ThroughExtern: true, NoHeapFields: true}, func(x ssa.Value, _ []int) bool {
				if call, ok := x.(*ssa.Call); ok && (callIsPkgFunc(&call.Call, "fmt", "Sprintf") || callIsPkgFunc(&call.Call, "fmt", "Sprint")) {
					formats[in] = append(formats[in], call)
					return false
				}
				return true
			})
		})
	}
	return
}

// ruleTempPrefixOutsideAlphabet (C15.8 / C14.20): a temporary file lives in the directory of the entry. Its name begins
// with a byte that no key's file name can begin with (the names are base64url text, `=` for padding and markers), so
// that no key is read from, or written over, a file that is being written for another key.
func ruleTempPrefixOutsideAlphabet(c *Ctx, rule string) {
	if c.P.Pkg("store/fscache") == nil {
		return
	}
	desc := "the name of a temporary file begins with a byte outside the alphabet of key file names"
	creates, formats := c.tempNameSites()
	n := 0
	bad := ""
	inAlphabet := func(b byte) bool {
		return b >= 'A' && b <= 'Z' || b >= 'a' && b <= 'z' || b >= '0' && b <= '9' || b == '-' || b == '_' || b == '='
	}
	for _, cr := range creates {
		cc := callOf(cr)
		if callIsPkgFunc(cc, "os", "CreateTemp") {
			continue
		}
		for _, f := range formats[cr] {
			format, ok := constStr(f.Call.Args[0])
			if !ok || format == "" {
				continue
			}
			first := ""
			if strings.HasPrefix(format, "%s") || strings.HasPrefix(format, "%v") {
				args := sprintfArgs(&f.Call)
				if len(args) > 0 && args[0] != nil {
					if k, ok := constStr(args[0]); ok {
						first = k
					}
				}
			} else if format[0] != '%' {
				first = format
			}
			if first == "" {
				continue
			}
			n++
			if inAlphabet(first[0]) {
				bad = c.P.InstrPos(f) + " (`" + first + "`)"
			}
		}
	}
	switch {
	case bad != "":
		c.Fail(rule, "temp-prefix-outside-alphabet", desc, bad+": the prefix begins with a byte of the base64url alphabet; the key whose file name equals a temporary name (reachable through the driver API and the maintenance API) is read from another key's half-written file, and a Set for it truncates a file that is about to be published")
	case n == 0:
		c.Pass(rule, "temp-prefix-outside-alphabet", desc, fmt.Sprintf("%d create site(s), no formatted temporary name", len(creates)))
	default:
		c.Pass(rule, "temp-prefix-outside-alphabet", desc, fmt.Sprintf("%d temporary name(s)", n))
	}
}

// ruleTempNameOwnProcess (C15.9): processes that share the cache directory must not share temporary names. A formatted
// temporary name carries the id of the writing process itself (os.Getpid), or the file is created exclusively.
func ruleTempNameOwnProcess(c *Ctx, rule string) {
	if c.P.Pkg("store/fscache") == nil {
		return
	}
	desc := "a temporary name carries the writing process's own id (or the file is created exclusively)"
	creates, formats := c.tempNameSites()
	n := 0
	bad := ""
	for _, cr := range creates {
		cc := callOf(cr)
		if callIsPkgFunc(cc, "os", "CreateTemp") {
			n++
			continue
		}
		if fi, ok := openFlagsArg(cc); ok && fi < len(cc.Args) {
			if k, ok := constInt(cc.Args[fi]); ok && k&c.osFlag("O_EXCL") != 0 {
				n++
				continue
			}
		}
		for _, f := range formats[cr] {
			n++
			own, other := false, false
			for _, a := range sprintfArgs(&f.Call) {
				if a == nil {
					continue
				}
				c.P.TraceBack(a, TraceOpts{ThroughOps: true, ThroughExtern: true, NoHeapFields: true, NoParams: true}, func(x ssa.Value, _ []int) bool {
					if call, ok := x.(*ssa.Call); ok {
						if callIsPkgFunc(&call.Call, "os", "Getpid") {
							own = true
						}
						if callIsPkgFunc(&call.Call, "os", "Getppid") {
							other = true
						}
					}
					return true
				})
			}
			if !own {
				bad = c.P.InstrPos(f)
				if other {
					bad += " (os.Getppid)"
				}
			}
		}
	}
	switch {
	case bad != "":
		c.Fail(rule, "temp-name-own-process", desc, bad+": the name does not contain the id of the writing process; two processes started by one parent on one cache directory both write `.tmp-<ppid>-1`: the first rename publishes the other process's value under the first key")
	case n == 0:
		c.Pass(rule, "temp-name-own-process", desc, "no temporary file is created under a formatted name")
	default:
		c.Pass(rule, "temp-name-own-process", desc, fmt.Sprintf("%d temporary name(s)", n))
	}
}

// ruleNoAppendToSharedSlice (C16.17): append writes into the spare capacity of its first argument. A package-level slice
// used as that argument on the exchange is written by every goroutine that gets there.
func ruleNoAppendToSharedSlice(c *Ctx, rule string) {
	desc := "no function on the exchange appends to a package-level slice"
	n := 0
	bad := ""
	for fn := range c.A.Reach {
		if c.inOnceOrInit(fn) {
			continue
		}
		instrsOf(fn, func(in ssa.Instruction) {
			cc := callOf(in)
			if cc == nil {
				return
			}
			b, ok := cc.Value.(*ssa.Builtin)
			if !ok || b.Name() != "append" || len(cc.Args) < 1 {
				return
			}
			n++
			v := cc.Args[0]
			if sl, ok := v.(*ssa.Slice); ok {
				v = sl.X
			}
			if u, ok := v.(*ssa.UnOp); ok && u.Op == token.MUL {
				if _, isG := u.X.(*ssa.Global); isG {
					bad = c.P.ShortName(fn) + "@" + c.P.InstrPos(in)
				}
			}
		})
	}
	if bad != "" {
		c.Fail(rule, "no-append-to-shared-slice", desc, bad+": the appended elements are written into the backing array of a package-level slice; two exchanges that log at the same time (or one and a background revalidation) build their records in the same memory: a data race, and records that mix the fields of two exchanges")
	} else {
		c.Pass(rule, "no-append-to-shared-slice", desc, fmt.Sprintf("%d append call(s)", n))
	}
}

// ruleKeyNotWiped (C17.12): the file-system backend never clears a buffer that it also hands on: a deferred
// `clear(scratch)` in front of `return slices.Clip(scratch[:n])` returns zeroes - the all-zero key.
func ruleKeyNotWiped(c *Ctx, rule string) {
	if c.P.Pkg("store/fscache") == nil {
		return
	}
	desc := "no function of the file-system backend clears memory that it returns"
	n := 0
	bad := ""
	for _, fn := range c.fsBackendFuncs() {
		var cleared []ssa.Value
		instrsOf(fn, func(in ssa.Instruction) {
			cc := callOf(in)
			if cc == nil {
				return
			}
			if b, ok := cc.Value.(*ssa.Builtin); ok && b.Name() == "clear" && len(cc.Args) == 1 {
				if _, isSlice := cc.Args[0].Type().Underlying().(*types.Slice); isSlice {
					cleared = append(cleared, cc.Args[0])
				}
			}
		})
		if len(cleared) == 0 {
			continue
		}
		n += len(cleared)
		alias := map[ssa.Value]bool{}
		for _, v := range cleared {
			alias[v] = true
			if sl, ok := v.(*ssa.Slice); ok {
				alias[sl.X] = true
			}
		}
		for changed := true; changed; {
			changed = false
			instrsOf(fn, func(in ssa.Instruction) {
				v, ok := in.(ssa.Value)
				if !ok || alias[v] {
					return
				}
				switch x := in.(type) {
				case *ssa.Slice:
					if alias[x.X] {
						alias[v] = true
						changed = true
					}
				case *ssa.Phi:
					for _, e := range x.Edges {
						if alias[e] {
							alias[v] = true
							changed = true
						}
					}
				case *ssa.Call:
					if sc := x.Call.StaticCallee(); sc != nil && len(x.Call.Args) >= 1 && alias[x.Call.Args[0]] {
						name := sc.String()
						if o := sc.Origin(); o != nil {
							name = o.String()
						}
						if strings.HasPrefix(name, "slices.Clip") || strings.HasPrefix(name, "slices.Grow") {
							alias[v] = true
							changed = true
						}
					}
				}
			})
		}
		instrsOf(fn, func(in ssa.Instruction) {
			if r, ok := in.(*ssa.Return); ok {
				for i := range r.Results {
					if alias[c.An.RetVal(r, i)] {
						bad = c.P.ShortName(fn) + "@" + c.P.InstrPos(in)
					}
				}
			}
		})
	}
	if bad != "" {
		c.Fail(rule, "cleared-memory-not-returned", desc, bad+": the returned slice shares its memory with a buffer that the function clears (slices.Clip and re-slicing do not copy); the decoded key is all zeroes when the cipher is set up, every cache is encrypted under the zero key and a cache opened with any other key of that length reads everything")
	} else {
		c.Pass(rule, "cleared-memory-not-returned", desc, fmt.Sprintf("%d clear call(s)", n))
	}
}

// ruleIndexDeleteAfterEntries (C19.13 / C07.12): the invalidator deletes the list of a URI only together with the entries
// the list names: between the computation of a URL key and every deletion under that key, the list stored under it is
// read on every path (the entries it names are deleted from that read, C19.2).
func ruleIndexDeleteAfterEntries(c *Ctx, rule string) {
	if !c.Need(rule, "invalidate", "readIndex") {
		return
	}
	desc := "in the invalidator every deletion under a computed URL key is preceded on every path by a read of the list stored under it"
	n := 0
	bad := ""
	for _, fn := range c.reachableFrom(c.A.F("invalidate")) {
		var keys []*ssa.Call
		instrsOf(fn, func(in ssa.Instruction) {
			if call, ok := in.(*ssa.Call); ok && c.An.IsURLKeyCall(&call.Call, in) {
				keys = append(keys, call)
			}
		})
		for _, k := range keys {
			instrsOf(fn, func(in ssa.Instruction) {
				cc := callOf(in)
				if cc == nil || in == ssa.Instruction(k) || c.An.CallsRole(in, "readIndex") {
					return
				}
				uses := false
				for _, a := range cc.Args {
					if a == ssa.Value(k) {
						uses = true
					}
				}
				if !uses {
					return
				}
				// a deletion: the delete role itself, or a function value handed in for deleting
				isDel := c.An.CallsRole(in, "deleteKey")
				if !isDel && cc.StaticCallee() == nil && !cc.IsInvoke() {
					isDel = true
				}
				if !isDel {
					return
				}
				n++
				if !everyPathPasses(k, in, func(i2 ssa.Instruction) bool {
					if !c.An.CallsRole(i2, "readIndex") {
						return false
					}
					for _, a := range callOf(i2).Args {
						if a == ssa.Value(k) {
							return true
						}
					}
					return false
				}) {
					bad = c.P.ShortName(fn) + "@" + c.P.InstrPos(in)
				}
			})
		}
	}
	switch {
	case n == 0:
		c.Pass(rule, "index-delete-after-entries", desc, "the invalidator deletes under no key it computes itself")
	case bad != "":
		c.Fail(rule, "index-delete-after-entries", desc, bad+": on some path the list is deleted without having been read; `POST /doc?action=publish` answered with `Content-Location: /doc` deletes the list of `/doc` and leaves its entries in the store, unreachable and never removed")
	default:
		c.Pass(rule, "index-delete-after-entries", desc, fmt.Sprintf("%d deletion(s) under computed keys", n))
	}
}

// ruleRefEnumeratorVisitsAll (C19.14 / C07.13): the enumerator of the ids in a reference list ends early only when its
// consumer says so. An exit on any other condition (an element without an id) hides the references behind it from both
// invalidation sites.
func ruleRefEnumeratorVisitsAll(c *Ctx, rule string) {
	desc := "the enumerator of a reference list's ids leaves its loop only at the end of the list or when the consumer stops it"
	n := 0
	bad := ""
	for _, fn := range c.P.RepoFuncs {
		if fn.Parent() == nil || fn.Pkg == nil || fn.Pkg.Pkg.Path() != c.A.internalPath {
			continue
		}
		top := fn.Parent()
		if top.Signature.Recv() == nil {
			continue
		}
		rt := top.Signature.Recv().Type()
		sl, ok := rt.Underlying().(*types.Slice)
		if !ok {
			continue
		}
		if pt, ok := sl.Elem().(*types.Pointer); !ok || !strings.Contains(pt.Elem().String(), "ResponseRef") {
			continue
		}
		if len(fn.Params) != 1 {
			continue
		}
		yield := fn.Params[0]
		if _, isSig := yield.Type().Underlying().(*types.Signature); !isSig {
			continue
		}
		for _, b := range fn.Blocks {
			if len(b.Instrs) == 0 {
				continue
			}
			iff, ok := b.Instrs[len(b.Instrs)-1].(*ssa.If)
			if !ok {
				continue
			}
			inLoop := blockInCycle(b)
			if !inLoop {
				continue
			}
			for i, s := range b.Succs {
				if reachableAvoiding(s, b, nil) {
					continue // stays in the loop
				}
				n++
				// the condition under which this exit is taken
				leaves := condLeaves(iff.Cond, i == 0)
				if len(leaves) == 0 {
					leaves = []condLeaf{{iff.Cond, i == 0}}
				}
				for _, lf := range leaves {
					okLeaf := false
					if call, ok := lf.v.(*ssa.Call); ok && call.Call.Value == ssa.Value(yield) {
						okLeaf = true
					}
					if bo, ok := lf.v.(*ssa.BinOp); ok {
						if bt, ok := bo.X.Type().Underlying().(*types.Basic); ok && bt.Info()&types.IsInteger != 0 {
							okLeaf = true // the bound test of the range loop
						}
					}
					if !okLeaf {
						bad = c.P.ShortName(fn) + "@" + c.P.InstrPos(iff)
					}
				}
			}
		}
	}
	switch {
	case n == 0:
		c.Undecided(rule, "ref-enumerator-visits-all", desc, "no enumerator over a reference list found")
	case bad != "":
		c.Fail(rule, "ref-enumerator-visits-all", desc, bad+": the loop is left on a condition other than the consumer's; references listed behind an element without an id are never visited, an unsafe request deletes the list and leaves their entries in the store")
	default:
		c.Pass(rule, "ref-enumerator-visits-all", desc, fmt.Sprintf("%d loop exit(s)", n))
	}
}

// entrySources: the values an entry-typed value may come from inside its function (through phis and local cells).
func (c *Ctx) entrySources(v ssa.Value) map[ssa.Value]bool {
	out := map[ssa.Value]bool{}
	seen := map[ssa.Value]bool{}
	var walk func(x ssa.Value)
	walk = func(x ssa.Value) {
		if seen[x] {
			return
		}
		seen[x] = true
		switch y := x.(type) {
		case *ssa.Phi:
			for _, e := range y.Edges {
				walk(e)
			}
		case *ssa.Extract:
			out[y.Tuple] = true
		case *ssa.UnOp:
			if al, ok := y.X.(*ssa.Alloc); ok && y.Op == token.MUL {
				for _, st := range c.P.cellStores(al) {
					walk(st.Val)
				}
				return
			}
			out[x] = true
		default:
			out[x] = true
		}
	}
	walk(v)
	return out
}

// ruleValidatedEntryIsSentEntry (C16.18 / C08.16): in the foreground the origin is asked about the entry whose validators
// the conditional request carries. The entry handed to the validation handler is that same entry - not one read from
// the store again after the origin answered, which a concurrent exchange may have replaced (the 304 for "v1" merged
// into v2). (The background path re-reads by design, C07.11, and compares the validators, C16.15.)
func ruleValidatedEntryIsSentEntry(c *Ctx, rule string) {
	if !c.Need(rule, "cond") || c.A.RevalCtxT == nil || c.A.EntryT == nil {
		return
	}
	desc := "the entry given to the validation handler in the foreground is the entry whose validators were put on the request"
	bg := map[*ssa.Function]bool{}
	for _, b := range c.backgroundFunctions() {
		for _, f := range c.reachableFrom(b) {
			bg[f] = true
		}
	}
	n := 0
	bad := ""
	for fn := range c.A.ReachFg {
		if bg[fn] {
			continue
		}
		// the entry whose header the conditional request is built from
		var sent []ssa.Value
		instrsOf(fn, func(in ssa.Instruction) {
			if !c.An.CallsRole(in, "cond") {
				return
			}
			for _, a := range callOf(in).Args {
				if !isHTTPHeader(a.Type()) {
					continue
				}
				// entry.Data.Header: walk down the access path to the entry value
				for x, i := ssa.Value(a), 0; i < 4; i++ {
					u, ok := peel(x).(*ssa.UnOp)
					if !ok || u.Op != token.MUL {
						break
					}
					fa, ok := u.X.(*ssa.FieldAddr)
					if !ok {
						break
					}
					if isPtrToNamed(fa.X.Type(), c.A.EntryT) {
						sent = append(sent, fa.X)
						break
					}
					x = fa.X
				}
			}
		})
		if len(sent) == 0 {
			continue
		}
		sentSrc := map[ssa.Value]bool{}
		for _, s := range sent {
			for k := range c.entrySources(s) {
				sentSrc[k] = true
			}
		}
		instrsOf(fn, func(in ssa.Instruction) {
			st, ok := in.(*ssa.Store)
			if !ok || !isPtrToNamed(st.Val.Type(), c.A.EntryT) {
				return
			}
			fa, ok := st.Addr.(*ssa.FieldAddr)
			if !ok || !isNamed(derefType(fa.X.Type()), c.A.RevalCtxT) {
				return
			}
			n++
			for k := range c.entrySources(st.Val) {
				if !sentSrc[k] {
					bad = c.P.ShortName(fn) + "@" + c.P.InstrPos(in)
				}
			}
		})
	}
	switch {
	case n == 0:
		c.Pass(rule, "validated-entry-is-sent-entry", desc, "no foreground function both builds the conditional request and the validation context")
	case bad != "":
		c.Fail(rule, "validated-entry-is-sent-entry", desc, bad+": the entry handed to the validation handler may be one read from the store after the origin was asked; when a concurrent call replaced it (ETag \"v2\") the 304 for \"v1\" is merged into the new entry: the caller gets the body of v2 under the ETag of v1 and the hybrid is written back")
	default:
		c.Pass(rule, "validated-entry-is-sent-entry", desc, fmt.Sprintf("%d context(s)", n))
	}
}

// ruleUpstreamBodyCloseGuarded (C10.24): net/http's client accepts a response without a Body from a RoundTripper, so an
// upstream configured with WithUpstream may return one (a 304, say). Wherever the exchange closes the body of the
// origin's response itself, the close stands under a nil test of that Body.
func ruleUpstreamBodyCloseGuarded(c *Ctx, rule string) {
	desc := "a close of the origin response's body stands under a nil test of that body"
	fns := map[*ssa.Function]bool{}
	for fn := range c.A.Reach {
		fns[fn] = true
	}
	for _, b := range c.backgroundFunctions() {
		for _, f := range c.reachableFrom(b) {
			fns[f] = true
		}
	}
	n := 0
	bad := ""
	for fn := range fns {
		instrsOf(fn, func(in ssa.Instruction) {
			r, ok := bodyCloseOf(in)
			if !ok {
				return
			}
			kinds := c.An.ResponseKinds(r)
			if !kinds["upstream"] && !kinds["?"] {
				return
			}
			n++
			guarded := false
			for _, dc := range controlConds(in.Block()) {
				for _, lf := range condLeaves(dc.cond, dc.onTrue) {
					bo, ok := lf.v.(*ssa.BinOp)
					if !ok || !(bo.Op == token.NEQ && lf.val || bo.Op == token.EQL && !lf.val) {
						continue
					}
					for _, side := range [][2]ssa.Value{{bo.X, bo.Y}, {bo.Y, bo.X}} {
						if !isNilConst(side[1]) {
							continue
						}
						if u, ok := side[0].(*ssa.UnOp); ok && u.Op == token.MUL {
							if fa, ok := u.X.(*ssa.FieldAddr); ok && fieldName(fa.X.Type(), fa.Field) == "Body" && c.An.sameCanon(fa.X, r) {
								guarded = true
							}
						}
					}
				}
			}
			if !guarded {
				bad = c.P.ShortName(fn) + "@" + c.P.InstrPos(in)
			}
		})
	}
	switch {
	case bad != "":
		c.Fail(rule, "upstream-body-close-guarded", desc, bad+": the body of the origin's response is closed without a nil test; a WithUpstream round tripper that returns a response without a Body (a 304) makes this goroutine panic")
	default:
		c.Pass(rule, "upstream-body-close-guarded", desc, fmt.Sprintf("%d close site(s) on origin responses", n))
	}
}

// ruleVaryNamesStorable (C19.15 / C04.18): the field names of a Vary list come from the origin and end up as the keys of a
// JSON object in the index. Like the values (C19.5) they pass through the storable form (validated UTF-8, or an ASCII
// encoding); a name with other bytes would come back as U+FFFD, the reference would never be recognised again and every
// identical request would append another one.
func ruleVaryNamesStorable(c *Ctx, rule string) {
	desc := "the field names yielded by the Vary resolver are in a form that survives the index encoding"
	ip := c.P.Pkg("internal")
	n := 0
	bad := ""
	storable := func(x *ssa.Call) bool {
		sc := x.Call.StaticCallee()
		if sc == nil || !c.P.IsRepoFunc(sc) {
			return false
		}
		rs := sigResults(sc)
		if len(rs) != 1 || !isStringType(rs[0]) {
			return false
		}
		valid, enc := false, false
		for g := range c.P.StaticTree(sc) {
			instrsOf(g, func(in ssa.Instruction) {
				cc := callOf(in)
				if cc == nil {
					return
				}
				if callIsPkgFunc(cc, "unicode/utf8", "ValidString") || callIsPkgFunc(cc, "unicode/utf8", "Valid") {
					valid = true
				}
				if callIsPkgFunc(cc, "strconv", "QuoteToASCII") || callIsPkgFunc(cc, "encoding/hex", "EncodeToString") || callIsMethod(cc, "encoding/base64", "Encoding", "EncodeToString") || callIsPkgFunc(cc, "net/url", "QueryEscape") || callIsPkgFunc(cc, "net/url", "PathEscape") {
					enc = true
				}
			})
		}
		return valid && enc
	}
	for fn := range c.A.Reach {
		top := fn
		for top.Parent() != nil {
			top = top.Parent()
		}
		if top.Pkg != ip {
			continue
		}
		instrsOf(fn, func(in ssa.Instruction) {
			call, ok := in.(*ssa.Call)
			if !ok || call.Call.IsInvoke() || call.Call.StaticCallee() != nil {
				return
			}
			if len(call.Call.Args) != 2 || !isStringType(call.Call.Args[0].Type()) || !isStringType(call.Call.Args[1].Type()) {
				return
			}
			if sig, ok := call.Call.Value.Type().Underlying().(*types.Signature); !ok || sig.Results().Len() != 1 || !isBoolType(sig.Results().At(0).Type()) {
				return
			}
			// the resolver looks the request header up by the name it yields
			fromHeader := false
			c.P.TraceBack(call.Call.Args[1], TraceOpts{ThroughOps: true, ThroughExtern: true, NoParams: true}, func(v ssa.Value, _ []int) bool {
				if l, ok := v.(*ssa.Lookup); ok && isHTTPHeader(l.X.Type()) {
					fromHeader = true
					return false
				}
				if cl, ok := v.(*ssa.Call); ok && (callIsMethod(&cl.Call, "net/http", "Header", "Values") || callIsMethod(&cl.Call, "net/http", "Header", "Get")) {
					_, args := recvAndArgs(&cl.Call)
					if _, isK := args[0].(*ssa.Const); !isK {
						fromHeader = true
					}
					return false
				}
				return true
			})
			if !fromHeader {
				return
			}
			n++
			if _, isK := call.Call.Args[0].(*ssa.Const); isK {
				return
			}
			if !c.An.dependsOnCall(call.Call.Args[0], storable) {
				bad = c.P.ShortName(fn) + "@" + c.P.InstrPos(in)
			}
		})
	}
	switch {
	case n == 0:
		c.Undecided(rule, "vary-names-storable", desc, "no resolver yield found")
	case bad != "":
		c.Fail(rule, "vary-names-storable", desc, bad+": the name is yielded as the origin sent it; `Vary: *, X-\\xff` comes back from the JSON index keyed by U+FFFD, the stored reference never equals a new one and every identical request appends a reference (the index grows without bound)")
	default:
		c.Pass(rule, "vary-names-storable", desc, fmt.Sprintf("%d resolver yield(s)", n))
	}
}

// ruleListingThroughRoot (C14.21): Set, Get and Delete reach the files through the os.Root handle, which resolves a name one
// component at a time. The listing does the same: a walk by path name (filepath.WalkDir on the directory's name)
// fails with "file name too long" as soon as one key of about 3000 bytes has spread its fragments over a deep tree,
// does not descend into a base directory that is a symbolic link, and looks a relative base directory up again
// after a change of the working directory.
func ruleListingThroughRoot(c *Ctx, rule string) {
	if c.P.Pkg("store/fscache") == nil {
		return
	}
	desc := "the file-system backend does not walk its directory by path name"
	n := 0
	bad := ""
	byName := func(f *ssa.Function) bool {
		return isPkgFunc(f, "path/filepath", "WalkDir") || isPkgFunc(f, "path/filepath", "Walk") || isPkgFunc(f, "os", "ReadDir") || isPkgFunc(f, "os", "DirFS")
	}
	for _, fn := range c.fsBackendFuncs() {
		if isTestOnly(c, fn) {
			continue
		}
		instrsOf(fn, func(in ssa.Instruction) {
			n++
			for _, op := range in.Operands(nil) {
				if f, ok := (*op).(*ssa.Function); ok && byName(f) {
					bad = c.P.ShortName(fn) + "@" + c.P.InstrPos(in) + " (" + f.String() + ")"
				}
			}
		})
	}
	switch {
	case bad != "":
		c.Fail(rule, "listing-through-root", desc, bad+": the key listing walks the cache directory by its path name; one key of 3000 bytes (its fragment directories nest deeper than a path may be long) makes Keys fail for every prefix although Set and Get of that key work, and a symlinked base directory lists one bogus key and none of the live ones")
	default:
		c.Pass(rule, "listing-through-root", desc, fmt.Sprintf("%d instruction(s) of the backend examined", n))
	}
}
