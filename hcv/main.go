package hcv

import (
	"flag"

	"golang.org/x/tools/go/ssa"

	"fmt"
	"os"
	"strings"
)

// Main is the command-line entry point; it returns the process exit code.
func Main(args []string) int {
	if len(args) == 0 {
		fmt.Fprintln(os.Stderr, "usage: hcv check|dump|list ...")
		return 2
	}
	switch args[0] {
	case "dump":
		fs := flag.NewFlagSet("dump", flag.ExitOnError)
		repo := fs.String("repo", "/repo", "repository")
		pat := fs.String("f", "", "substring of function name")
		_ = fs.Parse(args[1:])
		p, err := Load(LoadConfig{Repo: *repo})
		if err != nil {
			fmt.Fprintln(os.Stderr, err)
			return 1
		}
		for _, fn := range p.RepoFuncs {
			if *pat == "" || strings.Contains(FuncName(fn), *pat) {
				fn.WriteTo(os.Stdout)
			}
		}
		return 0
	case "check":
		return CheckMain(args[1:])
	case "chacheck":
		p, err := Load(LoadConfig{Repo: "/repo", UseCHA: true})
		if err != nil {
			fmt.Fprintln(os.Stderr, err)
			return 1
		}
		a := ResolveAnchors(p)
		fmt.Println("unresolved:", a.Unresolved, "reach:", len(a.Reach))
		for _, id := range PropertyIDs() {
			obs := runProperty(registry[id], p, a)
			bad := 0
			for _, o := range obs {
				if o.Status != Discharged && !isKnownKey(o.Key) {
					bad++
					fmt.Println("  ", o.Status, o.Key, "::", firstLines(o.Detail, 2))
				}
			}
			fmt.Println(id, "obligations", len(obs), "bad", bad)
		}
		return 0
	case "mutants":
		return MutantsMain(args[1:])
	case "explain":
		return ExplainMain(args[1:])
	case "list":
		return ListMain()
	case "dbgpath":
		p, err := Load(LoadConfig{Repo: "/repo"})
		if err != nil {
			fmt.Fprintln(os.Stderr, err)
			return 1
		}
		DebugPath(p, ResolveAnchors(p), args[1], func(in ssa.Instruction) bool {
			if s, ok := in.(*ssa.Select); ok {
				return s.Blocking
			}
			return false
		})
		return 0
	case "dbgadds":
		p, err := Load(LoadConfig{Repo: "/repo"})
		if err != nil {
			fmt.Fprintln(os.Stderr, err)
			return 1
		}
		DebugAdds(p, ResolveAnchors(p))
		return 0
	case "dbgreach":
		repo := "/repo"
		if len(args) > 2 {
			repo = args[2]
		}
		p, err := Load(LoadConfig{Repo: repo})
		if err != nil {
			fmt.Fprintln(os.Stderr, err)
			return 1
		}
		DebugReach(p, ResolveAnchors(p), args[1])
		return 0
	case "dbgrespstores":
		p, err := Load(LoadConfig{Repo: "/repo"})
		if err != nil {
			fmt.Fprintln(os.Stderr, err)
			return 1
		}
		DebugRespStores(p, ResolveAnchors(p))
		return 0
	case "dbgdyn":
		p, err := Load(LoadConfig{Repo: args[1]})
		if err != nil {
			fmt.Fprintln(os.Stderr, err)
			return 1
		}
		DebugDyn(p, args[2])
		return 0
	case "dbgvta":
		p, err := Load(LoadConfig{Repo: args[1]})
		if err != nil {
			fmt.Fprintln(os.Stderr, err)
			return 1
		}
		DebugVTA(p, args[2])
		return 0
	case "dbgstrip":
		p, err := Load(LoadConfig{Repo: "/repo"})
		if err != nil {
			fmt.Fprintln(os.Stderr, err)
			return 1
		}
		DebugStrip(p, ResolveAnchors(p))
		return 0
	case "anchors":
		fs := flag.NewFlagSet("anchors", flag.ExitOnError)
		repo := fs.String("repo", "/repo", "repository")
		pat := fs.String("reach", "", "list reachable functions whose name contains this")
		_ = fs.Parse(args[1:])
		p, err := Load(LoadConfig{Repo: *repo})
		if err != nil {
			fmt.Fprintln(os.Stderr, err)
			return 1
		}
		a := ResolveAnchors(p)
		if *pat != "" {
			for _, fn := range p.RepoFuncs {
				if strings.Contains(FuncName(fn), *pat) {
					fmt.Println("reach", a.Reach[fn], "fg", a.ReachFg[fn], FuncName(fn))
				}
			}
		}
		for _, l := range a.Log {
			fmt.Println(l)
		}
		for _, u := range a.Unresolved {
			fmt.Println("ANCHOR-UNRESOLVED", u)
		}
		fmt.Println("reach:", len(a.Reach), "fg:", len(a.ReachFg))
		return 0
	}
	fmt.Fprintln(os.Stderr, "unknown command", args[0])
	return 2
}
