package hcv

import (
	"fmt"
	"go/token"
	"net/http"
	"sort"
	"strings"

	"golang.org/x/tools/go/ssa"
)

func init() {
	register(&Property{
		ID:    "C05",
		Title: "Cached responses are byte-faithful copies of the origin response",
		Decides: "the hop-by-hop table contains the RFC set and the fields named by every Connection field line; the hop-by-hop strip dominates the entry write on the same " +
			"response; the 304 merge skips hop-by-hop fields and Content-Length; the entry is serialised with its body and parsed back by the inverse reader; the cache writes " +
			"only Age, its two status fields and a missing Date onto responses, and deletes only through the strip / no-cache-fields / merge roles; the cache's own status is " +
			"applied to an origin response only after it was serialised.",
		NotDecided: "byte fidelity of httputil.DumpResponse/http.ReadResponse for every framing, protocol version, trailer and header shape (bodies up to 1 MiB, HTTP/2); exact body bytes on the miss path; backend byte preservation (C14).",
		Rules: []Rule{
			{ID: "C05.1", Desc: "hop-by-hop table and Connection-named fields", Run: ruleC05_1, MinSites: 2},
			{ID: "C05.2", Desc: "strip dominates entry write", Run: ruleC05_2, MinSites: 1},
			{ID: "C05.3", Desc: "304 merge filter", Run: func(c *Ctx) { ruleMergeFilter(c, "C05.3") }, MinSites: 1},
			{ID: "C05.4", Desc: "codec pair: dump with body, parse with the inverse", Run: func(c *Ctx) { ruleCodecPair(c, "C05.4") }, MinSites: 2},
			{ID: "C05.5", Desc: "header-write whitelist", Run: ruleC05_5, MinSites: 5},
			{ID: "C05.6", Desc: "status applied after the entry was serialised", Run: ruleC05_6, MinSites: 1},
			{ID: "C05.9", Desc: "fields named by a qualified no-cache are removed only from a response that is handed out unvalidated, never in front of validation or write-back", Run: ruleC05_9, MinSites: 1},
			{ID: "C05.8", Desc: "a valid origin Date is forwarded and stored unchanged; only an invalid one is repaired", Run: func(c *Ctx) { ruleDateRepair(c, "C05.8") }, MinSites: 1},
			{ID: "C05.7", Desc: "no field of an origin or stored response object is rewritten (only header entries, C05.5)", Run: ruleC05_7, MinSites: 1},
			{ID: "C05.10", Desc: "a hit has exactly the stored body: an entry whose body ends early is not served", Run: func(c *Ctx) { ruleStoredBodyComplete(c, "C05.10") }, MinSites: 1},
			{ID: "C05.11", Desc: "trailer fields that appear while the body is read reach the stored entry", Run: func(c *Ctx) { ruleTrailersAfterRead(c, "C05.11") }, MinSites: 1},
			{ID: "C05.12", Desc: "the response object given to the storer is the one that is returned (its body is replaced by a re-readable copy there)", Run: func(c *Ctx) { ruleStoreServedObject(c, "C05.12") }, MinSites: 1},
			{ID: "C05.13", Desc: "the re-readable body reaches the live response after the last serialisation pass, on every way out", Run: func(c *Ctx) { ruleBodyHandedBackLast(c, "C05.13") }, MinSites: 1},
			{ID: "C05.14", Desc: "the hop-by-hop set used for one response is not the shared table (Content-Length added by the 304 merge stays out of later responses)", Run: func(c *Ctx) { ruleHopTablePerResponse(c, "C05.14") }, MinSites: 1},
			{ID: "C05.15", Desc: "the body of a response that is passed on is not closed by the cache", Run: func(c *Ctx) { ruleForwardedBodyNotClosed(c, "C05.15") }, MinSites: 1},
			{ID: "C05.16", Desc: "trailers are stored whatever the length framing (HTTP/2 with Content-Length)", Run: func(c *Ctx) { ruleChunkedWhenTrailersOnly(c, "C05.16") }, MinSites: 1},
			{ID: "C05.17", Desc: "a 304 removes no stored end-to-end field that it does not repeat", Run: func(c *Ctx) { ruleMergeDeletesOnlyAge(c, "C05.17") }, MinSites: 1},
			{ID: "C05.18", Desc: "no end-to-end field is listed as hop-by-hop", Run: func(c *Ctx) { ruleHopTableExact(c, "C05.18") }, MinSites: 1},
			{ID: "C05.19", Desc: "every name put into the hop-by-hop set is in canonical form (the 304 merge looks fields up by their canonical names)", Run: func(c *Ctx) { ruleHopSetKeysCanonical(c, "C05.19") }, MinSites: 1},
		},
	})
}

func ruleC05_1(c *Ctx) {
	if !c.Need("C05.1", "hopTable", "stripHop") {
		return
	}
	ht := c.A.F("hopTable")
	have := map[string]bool{}
	instrsOf(ht, func(in ssa.Instruction) {
		if mu, ok := in.(*ssa.MapUpdate); ok {
			if s, ok := constStr(mu.Key); ok {
				have[s] = true
			}
		}
	})
	for _, g := range globalMapsLoadedIn(ht) {
		for _, k := range globalMapLiteralKeys(g) {
			have[k] = true
		}
	}
	var missing []string
	for _, h := range oracleHop {
		if !have[http.CanonicalHeaderKey(h)] {
			missing = append(missing, h)
		}
	}
	var hl []string
	for k := range have {
		hl = append(hl, k)
	}
	sort.Strings(hl)
	desc := "the hop-by-hop table contains Connection, Proxy-Connection, Keep-Alive, TE, Transfer-Encoding, Upgrade, Proxy-Authenticate, Proxy-Authentication-Info, Proxy-Authorization"
	if len(missing) > 0 {
		c.Fail("C05.1", "hop-table", desc, c.P.ShortName(ht)+": missing "+strings.Join(missing, ", ")+"; these fields would be stored and replayed", hl...)
	} else {
		c.Pass("C05.1", "hop-table", desc, hl...)
	}
	// keys must be in canonical form because deletion is by map key
	for k := range have {
		if k != http.CanonicalHeaderKey(k) {
			c.Fail("C05.1", "hop-table-canonical key="+k, "table keys are canonical header names (deletion is by map key)", c.P.ShortName(ht)+": key "+k+" is not canonical; delete(header, key) never matches")
		}
	}
	// Connection-named fields: a dynamic MapUpdate fed by the Connection field's members, canonicalised
	dyn := false
	instrsOf(ht, func(in ssa.Instruction) {
		if mu, ok := in.(*ssa.MapUpdate); ok {
			if _, isC := mu.Key.(*ssa.Const); !isC {
				dyn = true
			}
		}
	})
	for _, f := range c.reachableFrom(ht) {
		if f.Parent() == ht {
			instrsOf(f, func(in ssa.Instruction) {
				if mu, ok := in.(*ssa.MapUpdate); ok {
					if _, isC := mu.Key.(*ssa.Const); !isC {
						dyn = true
					}
				}
			})
		}
	}
	if dyn {
		c.Pass("C05.1", "connection-named", "fields named by the Connection field are added to the table", c.P.ShortName(ht))
	} else {
		c.Fail("C05.1", "connection-named", "fields named by the Connection field are added to the table", c.P.ShortName(ht)+": no dynamic table entry; `Connection: X-Hop` leaves X-Hop in the stored response")
	}
	ruleRLIST(c, "C05.1", "Connection")
	// the strip deletes every table member from the response's header
	sh := c.A.F("stripHop")
	delOK := false
	for _, f := range c.reachableFrom(sh) {
		instrsOf(f, func(in ssa.Instruction) {
			if call := callOf(in); call != nil {
				if b, ok := call.Value.(*ssa.Builtin); ok && b.Name() == "delete" && len(call.Args) == 2 && isHTTPHeader(call.Args[0].Type()) {
					delOK = true
				}
				if callIsMethod(call, "net/http", "Header", "Del") {
					delOK = true
				}
			}
		})
	}
	// ... for every response: no return of the strip function avoids the loop over the table (an early return for some
	// protocol version or status leaves Proxy-Authenticate, Keep-Alive etc. in what is stored)
	if sh != c.A.F("storeResp") {
		pr := c.An.Prune(sh, nil)
		r := c.An.MustPass(pr, nil, func(in ssa.Instruction) bool {
			if rg, ok := in.(*ssa.Range); ok {
				for _, root := range c.P.Roots(rg.X, TraceOpts{NoParams: true}) {
					if call, ok := root.(*ssa.Call); ok && call.Call.StaticCallee() == ht {
						return true
					}
				}
				if call, ok := c.An.canon(rg.X).(*ssa.Call); ok && call.Call.StaticCallee() == ht {
					return true
				}
			}
			// maps.DeleteFunc(header, pred) and friends: a call that receives the header and deletes by predicate
			if cc := callOf(in); cc != nil && len(cc.Args) == 2 && isHTTPHeader(cc.Args[0].Type()) {
				if sc := cc.StaticCallee(); sc != nil {
					n := sc.String()
					if o := sc.Origin(); o != nil {
						n = o.String()
					}
					if strings.HasPrefix(n, "maps.DeleteFunc") {
						return true
					}
				}
			}
			return false
		})
		if r.OK {
			c.Pass("C05.1", "strip-unconditional", "every return of the strip function has passed the deletion of the table's members", c.P.ShortName(sh))
		} else {
			c.Fail("C05.1", "strip-unconditional", "every return of the strip function has passed the deletion of the table's members", c.P.InstrPos(r.Missing[0])+": returns without stripping; e.g. skipping HTTP/2 responses stores and replays Proxy-Authenticate, Proxy-Authentication-Info and Keep-Alive, which are legal there")
		}
	}
	if delOK {
		c.Pass("C05.1", "strip-deletes", "the strip deletes each table member from the response header", c.P.ShortName(sh))
	} else {
		c.Fail("C05.1", "strip-deletes", "the strip deletes each table member from the response header", c.P.ShortName(sh)+": no deletion found")
	}
}

func ruleC05_2(c *Ctx) {
	if !c.Need("C05.2", "storeResp", "stripHop", "writeEntry") {
		return
	}
	sr := c.A.F("storeResp")
	pr := c.An.Prune(sr, nil)
	isWrite := func(in ssa.Instruction) bool { return c.An.CallsRole(in, "writeEntry") }
	var stripArg ssa.Value
	stripFn := c.A.F("stripHop")
	inlineRange, inlineResp := c.hopStripLoop(sr)
	r := c.An.MustPass(pr, isWrite, func(in ssa.Instruction) bool {
		if call := callOf(in); call != nil && call.StaticCallee() == stripFn && stripFn != sr {
			stripArg = call.Args[0]
			return true
		}
		// the strip written out in the storing function itself: the loop over the table that deletes each member
		if inlineRange != nil && in == ssa.Instruction(inlineRange) {
			stripArg = inlineResp
			return true
		}
		return false
	})
	desc := "no entry is written unless the hop-by-hop strip ran on that response first"
	if r.Targets == 0 {
		c.Undecided("C05.2", "strip-before-write", desc, "no entry write in "+c.P.ShortName(sr))
		return
	}
	if !r.OK {
		c.Fail("C05.2", "strip-before-write", desc, c.P.InstrPos(r.Missing[0])+": entry write reachable without the hop-by-hop strip; Transfer-Encoding / Connection would be stored and replayed")
		return
	}
	// the stripped response is the one placed into the entry
	same := false
	instrsOf(sr, func(in ssa.Instruction) {
		if s, ok := in.(*ssa.Store); ok {
			if fa, ok := s.Addr.(*ssa.FieldAddr); ok && isPtrToNamed(fa.X.Type(), c.A.EntryT) && fa.Field == c.A.EntryData && c.An.sameCanon(s.Val, stripArg) {
				same = true
			}
		}
	})
	if same {
		c.Pass("C05.2", "strip-before-write", desc, c.P.ShortName(sr)+": strip(resp) dominates the write of the entry holding resp")
	} else {
		c.Fail("C05.2", "strip-before-write", desc, c.P.ShortName(sr)+": the stripped response is not the one stored in the entry")
	}
}

// hopStripLoop: in fn, `for k := range <hop-by-hop table of resp.Header> { delete(resp.Header, k) }`; returns the range
// instruction (executed once, before the first iteration) and the response whose header is stripped.
func (c *Ctx) hopStripLoop(fn *ssa.Function) (*ssa.Range, ssa.Value) {
	ht := c.A.F("hopTable")
	if ht == nil {
		return nil, nil
	}
	var rng *ssa.Range
	var resp ssa.Value
	instrsOf(fn, func(in ssa.Instruction) {
		r, ok := in.(*ssa.Range)
		if !ok {
			return
		}
		fromTable := false
		for _, root := range c.P.Roots(r.X, TraceOpts{NoParams: true}) {
			if call, ok := root.(*ssa.Call); ok && call.Call.StaticCallee() == ht {
				fromTable = true
			}
		}
		if call, ok := c.An.canon(r.X).(*ssa.Call); ok && call.Call.StaticCallee() == ht {
			fromTable = true
		}
		if !fromTable {
			return
		}
		// a delete keyed by this iteration's key, not under any further condition inside the loop body
		instrsOf(fn, func(i2 ssa.Instruction) {
			call := callOf(i2)
			if call == nil {
				return
			}
			var hdr, key ssa.Value
			if b, ok := call.Value.(*ssa.Builtin); ok && b.Name() == "delete" && len(call.Args) == 2 && isHTTPHeader(call.Args[0].Type()) {
				hdr, key = call.Args[0], call.Args[1]
			} else if callIsMethod(call, "net/http", "Header", "Del") {
				rv, args := recvAndArgs(call)
				hdr, key = rv, args[0]
			} else {
				return
			}
			ex, ok := c.An.canon(key).(*ssa.Extract)
			if !ok {
				return
			}
			nx, ok := ex.Tuple.(*ssa.Next)
			if !ok || nx.Iter != ssa.Value(r) {
				return
			}
			// the only condition between the iteration step and the delete is the loop's own "more elements" test
			for _, dc := range controlConds(i2.Block()) {
				if dc.block == nx.Block() || !nx.Block().Dominates(dc.block) {
					continue
				}
				return
			}
			if u, ok := c.An.canon(hdr).(*ssa.UnOp); ok {
				if fa, ok := u.X.(*ssa.FieldAddr); ok && isHTTPResponsePtr(fa.X.Type()) {
					rng, resp = r, fa.X
				}
			}
		})
	})
	return rng, resp
}

// ruleCodecPair (C05.4 / C09.2): the entry is dumped with its body and parsed by the inverse reader.
func ruleCodecPair(c *Ctx, rule string) {
	if !c.Need(rule, "writeEntry", "entryParser") {
		return
	}
	n := 0
	for _, fn := range c.reachableFrom(c.A.F("writeEntry")) {
		instrsOf(fn, func(in ssa.Instruction) {
			call := callOf(in)
			if call == nil || !callIsPkgFunc(call, "net/http/httputil", "DumpResponse") {
				return
			}
			n++
			b, ok := constBool(call.Args[1])
			where := c.P.ShortName(fn) + "@" + c.P.InstrPos(in)
			if ok && b {
				c.Pass(rule, "dump-with-body", "the stored entry is serialised with its body (DumpResponse(_, true))", where)
			} else {
				c.Fail(rule, "dump-with-body", "the stored entry is serialised with its body (DumpResponse(_, true))", where+": body argument is not the constant true; entries would be stored header-only")
			}
			// the dumped response is the entry's own response
			_, isData := c.An.isEntryDataLoad(call.Args[0])
			headCopy := false
			if al, ok := call.Args[0].(*ssa.Alloc); ok && !isData {
				// a local copy of the entry's response head (`head := *r.Data`), adjusted before it is written
				for _, st := range c.P.cellStores(al) {
					if ld, ok := st.Val.(*ssa.UnOp); ok && ld.Op == token.MUL {
						if _, ok := c.An.isEntryDataLoad(ld.X); ok {
							isData, headCopy = true, true
						}
					}
				}
			}
			if headCopy {
				// the copy must not carry this hop's connection state into the store: Close is cleared
				al := call.Args[0].(*ssa.Alloc)
				closeCleared := false
				if refs := al.Referrers(); refs != nil {
					for _, r := range *refs {
						if fa, ok := r.(*ssa.FieldAddr); ok && fieldName(fa.X.Type(), fa.Field) == "Close" && fa.Referrers() != nil {
							for _, u := range *fa.Referrers() {
								if st, ok := u.(*ssa.Store); ok {
									if b, isC := constBool(st.Val); isC && !b {
										closeCleared = true
									}
								}
							}
						}
					}
				}
				// the library writes a trailer section only for a chunked message: when the head copy has trailers, its
				// framing is switched to chunked before this dump (a store to TransferEncoding that can reach the dump and
				// is made under a condition on a trailer map)
				chunked := ""
				if refs := al.Referrers(); refs != nil {
					for _, r := range *refs {
						fa, ok := r.(*ssa.FieldAddr)
						if !ok || fieldName(fa.X.Type(), fa.Field) != "TransferEncoding" || fa.Referrers() == nil {
							continue
						}
						for _, u := range *fa.Referrers() {
							st, ok := u.(*ssa.Store)
							if !ok || st.Addr != ssa.Value(fa) {
								continue
							}
							reaches := st.Block() == in.Block() && instrDominates(st, in) || st.Block() != in.Block() && reachableAvoiding(st.Block(), in.Block(), nil)
							if !reaches {
								continue
							}
							for _, dc := range controlConds(st.Block()) {
								readsTrailer := false
								c.P.TraceBack(dc.cond, TraceOpts{ThroughOps: true, ThroughExtern: true}, func(v ssa.Value, _ []int) bool {
									if f2, ok := v.(*ssa.FieldAddr); ok && fieldName(f2.X.Type(), f2.Field) == "Trailer" {
										readsTrailer = true
										return false
									}
									if uo, ok := v.(*ssa.UnOp); ok {
										if f2, ok := uo.X.(*ssa.FieldAddr); ok && fieldName(f2.X.Type(), f2.Field) == "Trailer" {
											readsTrailer = true
											return false
										}
									}
									return true
								})
								if readsTrailer {
									chunked = c.P.InstrPos(st)
								}
							}
						}
					}
				}
				dk := fmt.Sprintf("dump-chunked-when-trailers #%d", n)
				dd := "a head copy that has trailers is written with chunked framing (the only framing the library writes trailers for)"
				if chunked != "" {
					c.Pass(rule, dk, dd, where+" after "+chunked)
				} else {
					c.Fail(rule, dk, dd, where+": no switch to chunked framing under a trailer condition in front of this dump; the trailer fields of an HTTP/2 response (no Transfer-Encoding) are not written into the entry")
				}
				if closeCleared {
					c.Pass(rule, "dump-without-connection-state", "the stored message does not carry this hop's Close flag (it would come back as `Connection: close`)", where)
				} else {
					c.Fail(rule, "dump-without-connection-state", "the stored message does not carry this hop's Close flag (it would come back as `Connection: close`)", where+": the serialised copy keeps Close; a stored HTTP/1.0 response is replayed with a `Connection: close` field the origin never sent")
				}
			}
			if isData && !headCopy {
				c.Fail(rule, "dump-without-connection-state", "the stored message does not carry this hop's Close flag (it would come back as `Connection: close`)", where+": the live response object is serialised as it is; when its Close flag is set (HTTP/1.0, close-delimited body) `Connection: close` is written into the entry and replayed, and the trailers of a non-chunked (HTTP/2) response are dropped")
			}
			if isData {
				c.Pass(rule, "dump-entry-data", "the serialised response is the entry's response", where)
			} else {
				c.Fail(rule, "dump-entry-data", "the serialised response is the entry's response", where+": DumpResponse is applied to something else")
			}
		})
	}
	if n == 0 {
		c.Undecided(rule, "dump-with-body", "the entry writer serialises through DumpResponse", "no DumpResponse call reachable from the entry writer")
	}
	// DumpResponse writes trailer fields only for a chunked message: for any other framing (an HTTP/2 response has no
	// Transfer-Encoding) they reach the stored form only if the writer looks at the trailer map itself.
	if n > 0 {
		consulted := ""
		for _, fn := range c.reachableFrom(c.A.F("writeEntry")) {
			instrsOf(fn, func(in ssa.Instruction) {
				if fa, ok := in.(*ssa.FieldAddr); ok && isHTTPResponsePtr(fa.X.Type()) && fieldName(fa.X.Type(), fa.Field) == "Trailer" {
					consulted = c.P.ShortName(fn) + "@" + c.P.InstrPos(in)
				}
				if f, ok := in.(*ssa.Field); ok && fieldName(f.X.Type(), f.Field) == "Trailer" {
					consulted = c.P.ShortName(fn) + "@" + c.P.InstrPos(in)
				}
			})
		}
		dt := "the entry writer consults the response's trailer map (the library dump writes trailers for chunked framing only)"
		if consulted != "" {
			c.Pass(rule, "dump-trailers-consulted", dt, consulted)
		} else {
			c.Fail(rule, "dump-trailers-consulted", dt, "no read of Response.Trailer below the entry writer: the trailer fields of a response that is not chunked (HTTP/2) are missing from the stored entry and from every later hit")
		}
	}
	ep := c.A.F("entryParser")
	// ReadResponse reads from the same reader that consumed the metadata line
	okReader := false
	instrsOf(ep, func(in ssa.Instruction) {
		call := callOf(in)
		if call == nil || !callIsPkgFunc(call, "net/http", "ReadResponse") {
			return
		}
		rd := call.Args[0]
		// some earlier read on the same reader value
		if refs := rd.Referrers(); refs != nil {
			for _, r := range *refs {
				if c2 := callOf(r); c2 != nil && r != in {
					if sc := c2.StaticCallee(); sc != nil && strings.HasPrefix(sc.Name(), "Read") {
						okReader = true
					}
				}
			}
		}
		// the parsed response is what ends up in the entry's Data
	})
	if okReader {
		c.Pass(rule, "parse-same-reader", "the entry parser hands the remainder of the same buffer to http.ReadResponse after the metadata line", c.P.ShortName(ep))
	} else {
		c.Fail(rule, "parse-same-reader", "the entry parser hands the remainder of the same buffer to http.ReadResponse after the metadata line", c.P.ShortName(ep)+": ReadResponse does not read from the reader that consumed the metadata")
	}
	// the parser fails closed: a ReadResponse error returns a nil entry
	var rrErr ssa.Value
	instrsOf(ep, func(in ssa.Instruction) {
		if call, ok := in.(*ssa.Call); ok && callIsPkgFunc(&call.Call, "net/http", "ReadResponse") {
			if refs := call.Referrers(); refs != nil {
				for _, r := range *refs {
					if ex, ok := r.(*ssa.Extract); ok && ex.Index == 1 {
						rrErr = ex
					}
				}
			}
		}
	})
	if rrErr == nil {
		c.Fail(rule, "parse-fails-closed", "a stored value that does not parse yields an error, not a partial entry", c.P.ShortName(ep)+": the ReadResponse error is discarded")
		return
	}
	pr := c.An.Prune(ep, func(a *Atom) (bool, bool) {
		if a.Key == "nil:err" && c.An.sameCanon(a.Val, rrErr) {
			return false, true
		}
		return false, false
	})
	okClosed := true
	pr.LiveInstrs(func(in ssa.Instruction) {
		if r, ok := in.(*ssa.Return); ok && len(r.Results) == 2 {
			// only look at returns after the ReadResponse call
			if !rrErr.(*ssa.Extract).Block().Dominates(r.Block()) {
				return
			}
			if !isNilConst(r.Results[0]) {
				okClosed = false
			}
		}
	})
	if okClosed {
		c.Pass(rule, "parse-fails-closed", "a stored value that does not parse yields an error, not a partial entry", c.P.ShortName(ep))
	} else {
		c.Fail(rule, "parse-fails-closed", "a stored value that does not parse yields an error, not a partial entry", c.P.ShortName(ep)+": a non-nil entry is returned with the ReadResponse error set")
	}
}

func ruleC05_5(c *Ctx) {
	allowedSet := map[string]bool{"Age": true, "X-Httpcache-Status": true, "X-From-Cache": true, "Date": true}
	roleOK := map[*ssa.Function]string{}
	for _, r := range []string{"stripHop", "merge304", "hopTable", "statusApply", "ageSet"} {
		if f := c.A.F(r); f != nil {
			roleOK[f] = r
		}
	}
	n := 0
	bad := 0
	var sites []string
	var fns []*ssa.Function
	for fn := range c.A.Reach {
		fns = append(fns, fn)
	}
	sort.Slice(fns, func(i, j int) bool { return FuncName(fns[i]) < FuncName(fns[j]) })
	for _, fn := range fns {
		instrsOf(fn, func(in ssa.Instruction) {
			var hdr, key ssa.Value
			what := ""
			if call := callOf(in); call != nil {
				for _, m := range []string{"Set", "Add", "Del"} {
					if callIsMethod(call, "net/http", "Header", m) {
						var args []ssa.Value
						hdr, args = recvAndArgs(call)
						key = args[0]
						what = m
					}
				}
				if b, ok := call.Value.(*ssa.Builtin); ok && b.Name() == "delete" && len(call.Args) == 2 && isHTTPHeader(call.Args[0].Type()) {
					hdr, key, what = call.Args[0], call.Args[1], "delete"
				}
			}
			if mu, ok := in.(*ssa.MapUpdate); ok && isHTTPHeader(mu.Map.Type()) {
				hdr, key, what = mu.Map, mu.Key, "map-set"
			}
			if hdr == nil {
				return
			}
			cls := c.An.HeaderClass(hdr)
			if cls == "rq" {
				return
			}
			n++
			where := fmt.Sprintf("%s@%s %s", c.P.ShortName(fn), c.P.InstrPos(in), what)
			if k, ok := constStr(key); ok {
				where += "(" + k + ")"
				if allowedSet[http.CanonicalHeaderKey(k)] {
					sites = append(sites, where)
					return
				}
			}
			// role-based allowance
			top := fn
			for top.Parent() != nil {
				top = top.Parent()
			}
			if r, ok := roleOK[top]; ok {
				sites = append(sites, where+" role="+r)
				return
			}
			if what == "Del" {
				// deletion of the fields named by the stored qualified no-cache directive
				if c.An.dependsOnCallFull(key, func(cc *ssa.Call) bool { return c.An.isAccessorCall(cc, "rs", "no-cache") }) || fn.Parent() != nil && closureOfStripFields(c, fn) {
					sites = append(sites, where+" role=strip-no-cache-fields")
					return
				}
			}
			bad++
			c.Fail("C05.5", "header-write fn="+c.P.ShortName(fn), "the cache writes only Age, its status fields and a missing Date onto responses", where+" on a response header of class "+cls)
		})
	}
	if n == 0 {
		c.Undecided("C05.5", "vacuity", "response header writes exist", "none found")
		return
	}
	if bad == 0 {
		c.Pass("C05.5", "header-write-whitelist", "every write to a response header is one of: Age, X-Httpcache-Status, X-From-Cache, Date (when missing), or belongs to the strip / merge / no-cache-fields roles", sites...)
	}
	// the Date write only fills a missing/invalid Date
	for fn := range c.A.Reach {
		if !headerCallWithKey(fn, "Set", "Date") {
			continue
		}
		guarded := false
		instrsOf(fn, func(in ssa.Instruction) {
			if call := callOf(in); call != nil && callIsMethod(call, "net/http", "Header", "Set") {
				_, args := recvAndArgs(call)
				if k, _ := constStr(args[0]); k == "Date" && len(controlConds(in.Block())) > 0 {
					guarded = true
				}
			}
		})
		if guarded {
			c.Pass("C05.5", "date-only-when-missing fn="+c.P.ShortName(fn), "Date is set only under a guard (missing or invalid Date)", c.P.ShortName(fn))
		} else {
			c.Fail("C05.5", "date-only-when-missing fn="+c.P.ShortName(fn), "Date is set only under a guard (missing or invalid Date)", c.P.ShortName(fn)+": unconditional Date overwrite")
		}
	}
}

func closureOfStripFields(c *Ctx, fn *ssa.Function) bool {
	// fn is the body closure of a strip-fields iteration in its parent
	p := fn.Parent()
	if p == nil {
		return false
	}
	hit := false
	instrsOf(p, func(in ssa.Instruction) {
		if c.An.IsStripFields(in) {
			if mc, ok := in.(*ssa.Call).Call.Args[0].(*ssa.MakeClosure); ok && mc.Fn == fn {
				hit = true
			}
		}
	})
	return hit
}

func ruleC05_6(c *Ctx) {
	if !c.Need("C05.6", "storeResp", "statusApply") {
		return
	}
	sites := c.storeSites()
	for _, site := range sites {
		fn := site.Parent()
		// any status application on an origin header from which the store call is reachable?
		bad := ""
		instrsOf(fn, func(in ssa.Instruction) {
			if !c.An.CallsRole(in, "statusApply") {
				return
			}
			call := callOf(in)
			if c.An.HeaderClass(call.Args[1]) != "up" {
				return
			}
			if instrReaches(in, site) {
				bad = c.P.InstrPos(in)
			}
		})
		desc := "the cache's own status is applied to the origin response only after the entry was serialised"
		if bad != "" {
			c.Fail("C05.6", "status-after-store fn="+c.P.ShortName(fn), desc, bad+": status applied before the store call at "+c.P.InstrPos(site)+"; stored copies would carry the cache's status fields")
		} else {
			c.Pass("C05.6", "status-after-store fn="+c.P.ShortName(fn), desc, c.P.ShortName(fn)+"@"+c.P.InstrPos(site))
		}
	}
	if len(sites) == 0 {
		c.Undecided("C05.6", "vacuity", "store sites exist", "none")
	}
}

// instrReaches: b is reachable from a within their function (same block: a before b).
func instrReaches(a, b ssa.Instruction) bool {
	if a.Block() == b.Block() {
		for _, in := range a.Block().Instrs {
			if in == a {
				return true
			}
			if in == b {
				break
			}
		}
		return blockInCycle(a.Block())
	}
	return reachableAvoiding(a.Block(), b.Block(), nil) && a.Block() != b.Block()
}

// ruleC05_7: what is replayed is what the origin sent. Header entries are governed by C05.5; every other part of the
// response (status, protocol, framing fields such as TransferEncoding / ContentLength / Trailer) must reach the
// serialiser as received: no function on the exchange stores into a field of an *http.Response. The body field is
// exempt (replacing the reader by an equivalent one is how a body is re-armed after it was read).
func ruleC05_7(c *Ctx) {
	desc := "no function on the exchange writes a field of a response object (other than Body)"
	var fns []*ssa.Function
	for fn := range c.A.Reach {
		fns = append(fns, fn)
	}
	sort.Slice(fns, func(i, j int) bool { return FuncName(fns[i]) < FuncName(fns[j]) })
	bad := 0
	scanned := 0
	for _, fn := range fns {
		scanned++
		instrsOf(fn, func(in ssa.Instruction) {
			st, ok := in.(*ssa.Store)
			if !ok {
				return
			}
			fa, ok := st.Addr.(*ssa.FieldAddr)
			if !ok || !isHTTPResponsePtr(fa.X.Type()) {
				return
			}
			name := fieldName(fa.X.Type(), fa.Field)
			if name == "Body" {
				return
			}
			// a response object built here from scratch (composite literal) is not an origin/stored response
			if _, isAlloc := c.An.canon(fa.X).(*ssa.Alloc); isAlloc {
				return
			}
			// a missing header map replaced by an empty one (`if resp.Header == nil { resp.Header = make(http.Header) }`)
			// changes nothing of the message
			if _, isMake := st.Val.(*ssa.MakeMap); isMake && name == "Header" {
				nilTested := false
				for _, dc := range dominatingConds(st.Block()) {
					for _, lf := range condLeaves(dc.cond, dc.onTrue) {
						bo, ok := lf.v.(*ssa.BinOp)
						if !ok || !(bo.Op == token.EQL && lf.val || bo.Op == token.NEQ && !lf.val) {
							continue
						}
						for _, side := range [][2]ssa.Value{{bo.X, bo.Y}, {bo.Y, bo.X}} {
							if !isNilConst(side[1]) {
								continue
							}
							if u, ok := side[0].(*ssa.UnOp); ok {
								if fa2, ok := u.X.(*ssa.FieldAddr); ok && fa2.Field == fa.Field && c.An.sameCanon(fa2.X, fa.X) {
									nilTested = true
								}
							}
						}
					}
				}
				if nilTested {
					return
				}
			}
			bad++
			where := c.P.ShortName(fn) + "@" + c.P.InstrPos(in)
			c.Fail("C05.7", "response-field-written field="+name+" fn="+c.P.ShortName(fn), desc,
				where+": writes Response."+name+"; the stored and replayed message differs from what the origin sent (e.g. clearing TransferEncoding makes the serialiser drop the trailer section of a chunked response)", where)
		})
	}
	if bad == 0 {
		c.Pass("C05.7", "response-fields-untouched", desc, fmt.Sprintf("%d functions reachable from RoundTrip scanned, 0 stores into *http.Response fields", scanned))
	}
}

// ruleC05_9: the stripper of qualified no-cache fields edits the stored response object in place. That is right for a
// response about to be returned unvalidated; in front of the validation handler (or of a write-back) it removes an
// end-to-end field from what a 304 freshens, stores and returns. In every function on the exchange, no stripper
// instruction can be followed by a call of the validation handler or of the storer.
func ruleC05_9(c *Ctx) {
	desc := "no qualified-no-cache strip precedes the validation handler or a store of the same exchange"
	n := 0
	bad := ""
	var fns []*ssa.Function
	for fn := range c.A.Reach {
		fns = append(fns, fn)
	}
	sort.Slice(fns, func(i, j int) bool { return FuncName(fns[i]) < FuncName(fns[j]) })
	for _, fn := range fns {
		var strips, sinks []ssa.Instruction
		instrsOf(fn, func(in ssa.Instruction) {
			if c.An.IsStripFields(in) {
				strips = append(strips, in)
			}
			if c.An.CallsRole(in, "validationHandler") || c.An.CallsRole(in, "storeResp") {
				sinks = append(sinks, in)
			}
		})
		n += len(strips)
		for _, st := range strips {
			for _, sk := range sinks {
				if instrDominates(st, sk) || instrReaches(st, sk) {
					bad = fmt.Sprintf("%s: the strip at %s can be followed by %s at %s", c.P.ShortName(fn), c.P.InstrPos(st), sk.String(), c.P.InstrPos(sk))
				}
			}
		}
	}
	switch {
	case n == 0:
		c.Undecided("C05.9", "strip-not-before-validation", desc, "no stripper of qualified no-cache fields on the exchange")
	case bad != "":
		c.Fail("C05.9", "strip-not-before-validation", desc, bad+"; a 304-validated reuse of `no-cache=\"X-Token\"` then lacks X-Token, and the stored entry loses it for good")
	default:
		c.Pass("C05.9", "strip-not-before-validation", desc, fmt.Sprintf("%d strip sites, none in front of the validation handler or the storer", n))
	}
}
