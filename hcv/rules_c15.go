package hcv

import (
	"fmt"
	"go/token"
	"strings"

	"golang.org/x/tools/go/ssa"
)

func init() {
	register(&Property{
		ID:    "C15",
		Title: "Store writes are atomic under concurrency, failed writes and crashes",
		Decides: "in the file-system backend's write path the file that is created and written is never the file that readers open: the name given to the creating call is " +
			"not the key's file name, the data is written, synced and closed, and only then renamed onto the key's file name; the read path opens the key's file once and reads it fully.",
		NotDecided: "linearisability of concurrent operations in general (decided: the write protocol, per-call unique temporary names shared by the process, and that an operation which reported its timeout publishes nothing afterwards); rename/fsync guarantees of the file system, directory fsync, behaviour under SIGKILL.",
		Rules: []Rule{
			{ID: "C15.1", Desc: "write protocol: temp, write, sync, close, rename", Run: ruleC15_1, MinSites: 1},
			{ID: "C15.2", Desc: "read path: one open, one full read", Run: ruleC15_2, MinSites: 1},
			{ID: "C15.3", Desc: "what is written to the file is private to the Set that wrote it (the encryptor hands out a buffer of its own per call)", Run: func(c *Ctx) { ruleC17_3(c); renameRule(c, "C17.3", "C15.3") }, MinSites: 1},
			{ID: "C15.4", Desc: "an operation that reported its timeout publishes nothing afterwards (rename / remove under a gate the timeout closes)", Run: func(c *Ctx) { ruleAbandonedNotPublished(c, "C15.4") }, MinSites: 1},
			{ID: "C15.5", Desc: "Get reads the whole file", Run: func(c *Ctx) { ruleGetReadsWholeFile(c, "C15.5") }, MinSites: 1},
			{ID: "C15.6", Desc: "temporary names are unique across the connections of a process", Run: func(c *Ctx) { ruleTempNameProcessWide(c, "C15.6") }, MinSites: 1},
			{ID: "C15.7", Desc: "a stored entry whose body ends early is unreadable (no truncated response is served)", Run: func(c *Ctx) { ruleStoredBodyComplete(c, "C15.7") }, MinSites: 1},
			{ID: "C15.8", Desc: "no key's file name can be a temporary file's name (Get never reads a file that is being written for another key)", Run: func(c *Ctx) { ruleTempPrefixOutsideAlphabet(c, "C15.8") }, MinSites: 1},
			{ID: "C15.9", Desc: "temporary names are not shared between processes on one directory", Run: func(c *Ctx) { ruleTempNameOwnProcess(c, "C15.9") }, MinSites: 1},
			{ID: "C15.10", Desc: "framing fields reach the serialiser as received: a chunked body is stored self-delimiting, so that a cut entry is noticed", Run: func(c *Ctx) { ruleC05_7(c); renameRule(c, "C05.7", "C15.10") }, MinSites: 1},
			{ID: "C15.11", Desc: "the abandon gate waits for a publishing step that is running", Run: func(c *Ctx) { ruleGateLocksUnconditionally(c, "C15.11") }, MinSites: 1},
			{ID: "C15.12", Desc: "a refused publishing step is reported as an error (the writer knows its value was not published and removes its working file)", Run: func(c *Ctx) { ruleGateRefusalIsAnError(c, "C15.12") }, MinSites: 1},
		},
	})
}

func isFileCreate(cc *ssa.CallCommon) (nameArg int, ok bool) {
	switch {
	case callIsMethod(cc, "os", "Root", "Create"):
		return 1, true
	case callIsMethod(cc, "os", "Root", "OpenFile"):
		// read-only opens are not creates
		if len(cc.Args) >= 3 {
			if k, isC := constInt(cc.Args[2]); isC && k&3 == 0 && k&0x40 == 0 {
				return 0, false
			}
		}
		return 1, true
	case callIsMethod(cc, "os", "Root", "WriteFile"):
		return 1, true
	case callIsPkgFunc(cc, "os", "Create"), callIsPkgFunc(cc, "os", "WriteFile"):
		return 0, true
	case callIsPkgFunc(cc, "os", "OpenFile"):
		if len(cc.Args) >= 2 {
			if k, isC := constInt(cc.Args[1]); isC && k&3 == 0 && k&0x40 == 0 {
				return 0, false
			}
		}
		return 0, true
	}
	return 0, false
}

// openFlagsArg: the index of the flag argument when cc is an OpenFile call.
func openFlagsArg(cc *ssa.CallCommon) (int, bool) {
	switch {
	case callIsMethod(cc, "os", "Root", "OpenFile") && len(cc.Args) >= 3:
		return 2, true
	case callIsPkgFunc(cc, "os", "OpenFile") && len(cc.Args) >= 2:
		return 1, true
	}
	return 0, false
}

// osFlag: the value of the os package constant in the loaded configuration (they differ between operating systems).
func (c *Ctx) osFlag(name string) int64 {
	for _, pk := range c.P.SSA.AllPackages() {
		if pk.Pkg.Path() == "os" {
			if k := pk.Const(name); k != nil {
				if v, ok := constInt(k.Value); ok {
					return v
				}
			}
		}
	}
	return 0
}

func isRename(cc *ssa.CallCommon) (oldArg, newArg int, ok bool) {
	if callIsMethod(cc, "os", "Root", "Rename") {
		return 1, 2, true
	}
	if callIsPkgFunc(cc, "os", "Rename") {
		return 0, 1, true
	}
	return 0, 0, false
}

// fsBackendFuncs: functions (and closures) of the file-system backend package.
func (c *Ctx) fsBackendFuncs() []*ssa.Function {
	fp := c.P.Pkg("store/fscache")
	var out []*ssa.Function
	for _, fn := range c.P.RepoFuncs {
		top := fn
		for top.Parent() != nil {
			top = top.Parent()
		}
		if top.Pkg == fp && len(fn.Blocks) > 0 {
			out = append(out, fn)
		}
	}
	return out
}

// isNamerResult: v is the result of the key->file-name mapping (interface call FileName or the concrete namer).
func (c *Ctx) isNamerResult(v ssa.Value) bool {
	hit := false
	direct := true
	c.P.TraceBack(v, TraceOpts{NoHeapFields: true}, func(x ssa.Value, _ []int) bool {
		switch y := x.(type) {
		case *ssa.Call:
			if c.An.IsFileNamerCall(y) {
				hit = true
				return false
			}
		case *ssa.BinOp:
			direct = false
		}
		return true
	})
	return hit && direct
}

func ruleC15_1(c *Ctx) {
	n := 0
	for _, fn := range c.fsBackendFuncs() {
		instrsOf(fn, func(in ssa.Instruction) {
			cc := callOf(in)
			if cc == nil {
				return
			}
			ni, ok := isFileCreate(cc)
			if !ok {
				return
			}
			n++
			where := c.P.ShortName(fn) + "@" + c.P.InstrPos(in)
			name := cc.Args[ni]
			desc := "a value is written to a temporary file, synced, closed and then renamed onto the key's file; the key's file is never opened for writing"
			key := "atomic-write fn=" + c.P.ShortName(fn)
			if c.isNamerResult(name) {
				c.Fail("C15.1", key, desc, where+": the key's own file is created/truncated and written in place. Witness: a concurrent Get reads a prefix; a write cut at byte k (full disk, kill) leaves a k-byte value that is later returned as valid", where)
				return
			}
			// the temporary file starts empty: Create truncates; OpenFile must ask for O_TRUNC or O_EXCL. A leftover of a killed
			// writer under the same name (the sequence restarts with the process, and so may the pid) would otherwise keep
			// its tail behind the new value
			if fi, isOpen := openFlagsArg(cc); isOpen {
				if k, isC := constInt(cc.Args[fi]); isC {
					trunc, excl := c.osFlag("O_TRUNC"), c.osFlag("O_EXCL")
					if trunc != 0 && k&trunc == 0 && (excl == 0 || k&excl == 0) {
						c.Fail("C15.1", "temp-starts-empty fn="+c.P.ShortName(fn), "the temporary file is created empty (truncated or exclusive)", where+fmt.Sprintf(": OpenFile flags %#x contain neither O_TRUNC nor O_EXCL; a longer leftover temporary file of a killed writer keeps its tail, and Get returns the new value followed by old bytes", k), where)
						return
					}
				}
			}
			// the temporary file's own name is short: it may live in the entry's directory (filepath.Dir of the entry name) but
			// must not extend the entry's file name, which may already be as long as a file name can be
			extends := false
			c.P.TraceBack(name, TraceOpts{ThroughOps: true, ThroughExtern: true, NoParams: true, NoHeapFields: true}, func(x ssa.Value, _ []int) bool {
				if call, ok := x.(*ssa.Call); ok {
					if callIsPkgFunc(&call.Call, "path/filepath", "Dir") || callIsPkgFunc(&call.Call, "path", "Dir") || callIsPkgFunc(&call.Call, "path/filepath", "Split") {
						return false // only the directory part is used
					}
					if c.An.IsFileNamerCall(call) {
						extends = true
						return false
					}
				}
				return true
			})
			if extends {
				c.Fail("C15.1", "temp-name-short fn="+c.P.ShortName(fn), "the temporary file's name does not extend the entry's file name", where+": the temporary name is built from the entry's whole file name plus a suffix; for keys whose encoded name is within a suffix length of the 255-byte limit (about 182..191 key bytes) the temporary file cannot be created and Set fails", where)
				return
			}
			// the temporary name must be unique per writer: it depends on a counter, random source or clock
			uniq := c.An.dependsOnCall(name, func(x *ssa.Call) bool {
				sc := x.Call.StaticCallee()
				if sc == nil {
					return false
				}
				n := sc.String()
				return strings.Contains(n, "sync/atomic") || strings.HasPrefix(n, "crypto/rand.") || strings.HasPrefix(n, "math/rand") ||
					n == "os.CreateTemp" || n == "os.MkdirTemp" || strings.Contains(n, "time.Time).UnixNano") || n == "time.Now"
			})
			if !uniq {
				c.Fail("C15.1", "temp-name-unique fn="+c.P.ShortName(fn), "concurrent writers never share a temporary file", where+": the temporary name does not depend on a per-call unique source (counter / random / clock); two concurrent Sets of one key truncate and rename each other's half-written file", where)
				return
			}
			// derived/temp name: require the rename protocol on the success path
			var ren ssa.Instruction
			instrsOf(fn, func(i2 ssa.Instruction) {
				if c2 := callOf(i2); c2 != nil {
					if _, newI, ok := isRename(c2); ok && c.isNamerResult(c2.Args[newI]) {
						ren = i2
					}
				}
			})
			if ren == nil {
				// the rename may sit in a function literal that is handed to a helper which runs it (a gate, a retry
				// loop): the call that receives the literal then stands for the rename in this function's ordering
				for _, g := range fn.AnonFuncs {
					inLit := false
					instrsOf(g, func(i2 ssa.Instruction) {
						if c2 := callOf(i2); c2 != nil {
							if _, newI, ok := isRename(c2); ok && c.isNamerResult(c2.Args[newI]) {
								inLit = true
							}
						}
					})
					if !inLit {
						continue
					}
					instrsOf(fn, func(i2 ssa.Instruction) {
						c2 := callOf(i2)
						if c2 == nil {
							return
						}
						for _, a := range c2.Args {
							if mc, ok := a.(*ssa.MakeClosure); ok && mc.Fn == ssa.Value(g) {
								ren = i2
							}
						}
					})
				}
			}
			if ren == nil {
				c.Fail("C15.1", key, desc, where+": a differently named file is written but never renamed onto the key's file name", where)
				return
			}
			pr := c.An.Prune(fn, nil)
			isRen := func(i2 ssa.Instruction) bool { return i2 == ren }
			steps := []struct {
				name string
				is   func(ssa.Instruction) bool
			}{
				{"Write", func(i2 ssa.Instruction) bool {
					c2 := callOf(i2)
					return c2 != nil && (callIsMethod(c2, "os", "File", "Write") || callIsMethod(c2, "os", "File", "WriteString") || callIsMethod(c2, "os", "Root", "WriteFile") || callIsPkgFunc(c2, "os", "WriteFile"))
				}},
				{"Sync", func(i2 ssa.Instruction) bool {
					c2 := callOf(i2)
					return c2 != nil && callIsMethod(c2, "os", "File", "Sync")
				}},
				{"Close", func(i2 ssa.Instruction) bool {
					if _, isDefer := i2.(*ssa.Defer); isDefer {
						return false // a deferred Close runs after the rename
					}
					c2 := callOf(i2)
					return c2 != nil && callIsMethod(c2, "os", "File", "Close")
				}},
			}
			bad := ""
			for _, s := range steps {
				r := c.An.MustPass(pr, isRen, s.is)
				if !r.OK {
					bad += " " + s.name
				}
			}
			if bad != "" {
				c.Fail("C15.1", key, desc, where+": the rename at "+c.P.InstrPos(ren)+" is reachable without"+bad+" before it", where)
				return
			}
			// success return only after the rename
			r := c.An.MustPass(pr, func(i2 ssa.Instruction) bool {
				rt, ok := i2.(*ssa.Return)
				return ok && len(rt.Results) == 1 && isNilConst(c.An.RetVal(rt, 0))
			}, isRen)
			if !r.OK {
				c.Fail("C15.1", key, desc, where+": a `return nil` is reachable without the rename", where)
				return
			}
			// no failure after the temporary file exists leaves it behind: every return with a non-nil error that is
			// reachable from the create call has passed a removal of the temporary name (directly or in a cleanup
			// helper/closure), except the return of the create call's own error
			createErr := ssa.Value(nil)
			if v, ok := in.(ssa.Value); ok && v.Referrers() != nil {
				for _, r := range *v.Referrers() {
					if ex, ok := r.(*ssa.Extract); ok && ex.Index == 1 {
						createErr = ex
					}
				}
			}
			isRemove := func(cc *ssa.CallCommon) bool {
				return cc != nil && (callIsMethod(cc, "os", "Root", "Remove") || callIsPkgFunc(cc, "os", "Remove"))
			}
			cleans := func(i2 ssa.Instruction) bool {
				cc := callOf(i2)
				if cc == nil {
					return false
				}
				if _, isDefer := i2.(*ssa.Defer); isDefer {
					return false
				}
				if isRemove(cc) {
					return true
				}
				if ci, ok := i2.(ssa.CallInstruction); ok {
					for _, cal := range c.P.Callees(ci) {
						if c.P.IsRepoFunc(cal) && callsWhere(cal, isRemove) {
							return true
						}
					}
				}
				return false
			}
			leak := ""
			seenB := map[*ssa.BasicBlock]bool{}
			var walk func(b *ssa.BasicBlock, from int)
			walk = func(b *ssa.BasicBlock, from int) {
				if leak != "" {
					return
				}
				if from == 0 {
					if seenB[b] {
						return
					}
					seenB[b] = true
				}
				for _, i2 := range b.Instrs[from:] {
					if cleans(i2) || i2 == ren && false {
						return
					}
					if rt, ok := i2.(*ssa.Return); ok && len(rt.Results) == 1 {
						ev := c.An.RetVal(rt, 0)
						if isNilConst(ev) {
							return // success
						}
						if createErr != nil && c.An.sameCanon(ev, createErr) {
							return // the create itself failed: nothing to remove
						}
						leak = c.P.InstrPos(rt)
						return
					}
				}
				for _, sx := range b.Succs {
					walk(sx, 0)
				}
			}
			start := 0
			for i, i2 := range in.Block().Instrs {
				if i2 == in {
					start = i + 1
				}
			}
			walk(in.Block(), start)
			if leak != "" {
				c.Fail("C15.1", "temp-removed-on-failure fn="+c.P.ShortName(fn), "a failed write leaves no temporary file behind", where+": the return at "+leak+" hands back an error while the temporary file still exists; every request that fails there (e.g. the rename onto a name that is a directory) adds one uniquely named file, which the key listing skips and nothing ever removes", where)
				return
			}
			c.Pass("C15.1", key, desc, where, "rename@"+c.P.InstrPos(ren))
		})
	}
	if n == 0 {
		c.Undecided("C15.1", "vacuity", "the file-system backend creates files somewhere", "no file-creating call found in store/fscache")
	}
}

func ruleC15_2(c *Ctx) {
	n := 0
	for _, fn := range c.fsBackendFuncs() {
		opens, reads := 0, 0
		var first ssa.Instruction
		instrsOf(fn, func(in ssa.Instruction) {
			cc := callOf(in)
			if cc == nil {
				return
			}
			if callIsMethod(cc, "os", "Root", "Open") || callIsPkgFunc(cc, "os", "Open") {
				if c.isNamerResult(cc.Args[len(cc.Args)-1]) {
					opens++
					first = in
				}
			}
			if callIsPkgFunc(cc, "io", "ReadAll") || callIsMethod(cc, "os", "Root", "ReadFile") || callIsPkgFunc(cc, "os", "ReadFile") {
				reads++
			}
			if callIsMethod(cc, "os", "File", "Read") || callIsMethod(cc, "os", "File", "ReadAt") {
				reads += 100 // partial reads
			}
		})
		if opens == 0 {
			continue
		}
		n++
		where := c.P.ShortName(fn) + "@" + c.P.InstrPos(first)
		desc := "the read path opens the key's file once and reads it completely"
		if opens == 1 && reads == 1 {
			c.Pass("C15.2", "read-once fn="+c.P.ShortName(fn), desc, where)
		} else {
			c.Fail("C15.2", "read-once fn="+c.P.ShortName(fn), desc, fmt.Sprintf("%s: opens=%d full reads=%d (100+ = partial reads)", where, opens, reads))
		}
	}
	if n == 0 {
		// ReadFile-style single call
		for _, fn := range c.fsBackendFuncs() {
			instrsOf(fn, func(in ssa.Instruction) {
				if cc := callOf(in); cc != nil && (callIsMethod(cc, "os", "Root", "ReadFile")) && c.isNamerResult(cc.Args[1]) {
					n++
					c.Pass("C15.2", "read-once fn="+c.P.ShortName(fn), "the read path reads the key's file with one call", c.P.ShortName(fn)+"@"+c.P.InstrPos(in))
				}
			})
		}
	}
	if n == 0 {
		c.Undecided("C15.2", "vacuity", "the read path opens the key's file", "no Open(FileName(key)) in store/fscache")
	}
	_ = token.ADD
	_ = strings.Contains
}
