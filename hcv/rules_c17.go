package hcv

import (
	"fmt"
	"go/constant"
	"go/token"
	"go/types"
	"strings"

	"golang.org/x/tools/go/ssa"
)

func init() {
	register(&Property{
		ID:    "C17",
		Title: "Encryption at rest hides stored contents and rejects tampering",
		Decides: "with an encryptor configured, the bytes reaching the file write derive from Encrypt's result and an Encrypt error returns before any file is created; the bytes " +
			"returned by the read path derive from Decrypt's result and a Decrypt error returns no data; the encryptor is AES-GCM (cipher.NewGCM over aes.NewCipher) with the " +
			"nonce prepended on Seal, taken from the prefix on Open after a length check; the nonce is filled by io.ReadFull (error checked) from crypto/rand.Reader; the DSN " +
			"values on/aesgcm append the encryption option with the DSN or environment key, an empty key is an error, and an option error aborts Open.",
		NotDecided: "absence of plaintext fragments in files (a cryptographic property of AES-GCM); roll-back of a file to an older version of itself; wrong-key behaviour beyond GCM authentication. (That a file moved between keys is rejected is decided one layer up: C17.6.)",
		Rules: []Rule{
			{ID: "C17.1", Desc: "encrypt before write", Run: ruleC17_1, MinSites: 1},
			{ID: "C17.2", Desc: "decrypt before return, fail closed", Run: ruleC17_2, MinSites: 1},
			{ID: "C17.3", Desc: "AEAD construction and nonce framing", Run: ruleC17_3, MinSites: 3},
			{ID: "C17.4", Desc: "fresh random nonce", Run: ruleC17_4, MinSites: 2},
			{ID: "C17.5", Desc: "option / DSN / environment wiring", Run: ruleC17_5, MinSites: 2},
			{ID: "C17.6", Desc: "enabling encryption without a usable key fails at open", Run: ruleC17_6, MinSites: 1},
			{ID: "C17.6", Desc: "an entry is handed out only for the key it was stored under (a file moved between keys is a miss)", Run: func(c *Ctx) { ruleEntryBelongsToKey(c, "C17.6") }, MinSites: 1},
			{ID: "C17.7", Desc: "the DSN reader looks at every value of the encrypt parameter", Run: func(c *Ctx) { ruleDSNAllEncryptValues(c, "C17.7") }, MinSites: 1},
			{ID: "C17.8", Desc: "every Set encrypts and writes anew (no success return before the write; equal values give different ciphertexts)", Run: func(c *Ctx) { ruleC15_1(c); renameRule(c, "C15.1", "C17.8") }, MinSites: 1},
			{ID: "C17.9", Desc: "the DSN's key wins over the environment's", Run: func(c *Ctx) { ruleDSNKeyFirst(c, "C17.9") }, MinSites: 1},
			{ID: "C17.10", Desc: "the DSN's query reaches the driver unparsed (no lossy URL.Query() on the way)", Run: func(c *Ctx) { ruleNoLossyQueryOnDSNPath(c, "C17.10") }, MinSites: 1},
			{ID: "C17.11", Desc: "an index moved between keys of the store is not followed to another URI's entries", Run: func(c *Ctx) { ruleIndexRefsBelongToKey(c, "C17.11") }, MinSites: 1},
			{ID: "C17.12", Desc: "the decoded key is not wiped before it is used (no cleared buffer is returned)", Run: func(c *Ctx) { ruleKeyNotWiped(c, "C17.12") }, MinSites: 1},
			{ID: "C17.13", Desc: "the minimum ciphertext length is the AEAD's (short values are not rejected as tampered)", Run: func(c *Ctx) { ruleCiphertextMinLength(c, "C17.13") }, MinSites: 1},
			{ID: "C17.14", Desc: "an unusable key fails at open: the constructor's error is returned by the option", Run: func(c *Ctx) { ruleOptionReturnsConstructorError(c, "C17.14") }, MinSites: 1},
			{ID: "C17.15", Desc: "the file-system backend keeps no package-level container of connections (every open uses its own key and encryption setting)", Run: func(c *Ctx) { ruleNoSharedConnections(c, "C17.15") }, MinSites: 1},
		},
	})
}

// encField: the encryptor field of the file-system cache struct (interface with Encrypt/Decrypt).
func (c *Ctx) encIface() *types.Named {
	fp := c.P.Pkg("store/fscache")
	if fp == nil {
		return nil
	}
	for _, m := range fp.Members {
		tn, ok := m.(*ssa.Type)
		if !ok {
			continue
		}
		n := namedOf(tn.Type())
		if n == nil {
			continue
		}
		if it, ok := n.Underlying().(*types.Interface); ok {
			has := map[string]bool{}
			for i := 0; i < it.NumMethods(); i++ {
				has[it.Method(i).Name()] = true
			}
			if has["Encrypt"] && has["Decrypt"] {
				return n
			}
		}
	}
	return nil
}

func isEncNil(a *Atom) bool {
	return strings.HasPrefix(a.Key, "nil:field:") || a.Key == "nil:other"
}

// liveSources walks a value back through live phi edges and reports the leaves.
func (an *Analysis) liveLeaves(pr *Pruned, v ssa.Value) []ssa.Value {
	var out []ssa.Value
	seen := map[ssa.Value]bool{}
	var walk func(v ssa.Value)
	walk = func(v ssa.Value) {
		if seen[v] {
			return
		}
		seen[v] = true
		switch x := v.(type) {
		case *ssa.Phi:
			for _, e := range pr.LivePhiEdges(x) {
				walk(e)
			}
		case *ssa.ChangeType:
			walk(x.X)
		case *ssa.UnOp:
			// named result / local cell: stores in live blocks
			if al, ok := x.X.(*ssa.Alloc); ok {
				any := false
				for _, st := range an.P.cellStores(al) {
					if st.Parent() == pr.Fn && pr.LiveBlock[st.Block().Index] {
						any = true
						walk(st.Val)
					}
				}
				if any {
					return
				}
			}
			out = append(out, v)
		default:
			out = append(out, v)
		}
	}
	walk(v)
	return out
}

// liveLeavesInter: liveLeaves, continuing from a parameter into the corresponding argument at every live call site of
// the function inside `scope` (each caller pruned under the same assumption).
func (an *Analysis) liveLeavesInter(fn *ssa.Function, assume Assume, v ssa.Value, scope map[*ssa.Function]bool, depth int) []ssa.Value {
	pr := an.Prune(fn, assume)
	var out []ssa.Value
	for _, l := range an.liveLeaves(pr, v) {
		p, isParam := l.(*ssa.Parameter)
		if !isParam || depth > 4 {
			out = append(out, l)
			continue
		}
		idx := paramIndex(fn, p)
		expanded := false
		for _, cs := range an.P.Callers(fn) {
			if !scope[cs.Caller] {
				continue
			}
			prc := an.Prune(cs.Caller, assume)
			if !prc.LiveBlock[cs.Instr.Block().Index] {
				continue
			}
			if a := argForParam(cs.Instr.Common(), fn, idx); a != nil {
				expanded = true
				out = append(out, an.liveLeavesInter(cs.Caller, assume, a, scope, depth+1)...)
			}
		}
		if !expanded {
			out = append(out, l)
		}
	}
	return out
}

func isFileWrite(cc *ssa.CallCommon) (dataArg int, ok bool) {
	switch {
	case callIsMethod(cc, "os", "File", "Write"):
		return 1, true
	case callIsMethod(cc, "os", "Root", "WriteFile"):
		return 2, true
	case callIsPkgFunc(cc, "os", "WriteFile"):
		return 1, true
	}
	return 0, false
}

func ruleC17_1(c *Ctx) {
	ei := c.encIface()
	if ei == nil {
		c.Undecided("C17.1", "anchor", "the encryptor interface exists", "no interface with Encrypt/Decrypt in store/fscache")
		return
	}
	n := 0
	for _, fenc := range c.fsBackendFuncs() {
		var encCall *ssa.Call
		instrsOf(fenc, func(in ssa.Instruction) {
			if call, ok := in.(*ssa.Call); ok && call.Call.IsInvoke() && call.Call.Method.Name() == "Encrypt" && isNamed(call.Call.Value.Type(), ei) {
				encCall = call
			}
		})
		if encCall == nil {
			continue
		}
		n++
		scope := map[*ssa.Function]bool{}
		tree := c.reachableFrom(fenc)
		for _, g := range tree {
			scope[g] = true
		}
		var encErr ssa.Value
		if refs := encCall.Referrers(); refs != nil {
			for _, r := range *refs {
				if ex, ok := r.(*ssa.Extract); ok && ex.Index == 1 {
					encErr = ex
				}
			}
		}
		okAssume := func(a *Atom) (bool, bool) {
			if isEncNil(a) && a.Val != nil && isNamed(a.Val.Type(), ei) {
				return false, true // enc != nil
			}
			if a.Key == "nil:err" {
				return true, true // success path
			}
			return false, false
		}
		nw := 0
		for _, g := range tree {
			instrsOf(g, func(in ssa.Instruction) {
				cc := callOf(in)
				if cc == nil {
					return
				}
				di, ok := isFileWrite(cc)
				if !ok {
					return
				}
				nw++
				where := c.P.ShortName(g) + "@" + c.P.InstrPos(in)
				leaves := c.An.liveLeavesInter(g, okAssume, cc.Args[di], scope, 0)
				okAll := len(leaves) > 0
				bad := ""
				for _, l := range leaves {
					if ex, ok := l.(*ssa.Extract); ok && ex.Tuple == ssa.Value(encCall) && ex.Index == 0 {
						continue
					}
					okAll = false
					bad = l.String()
				}
				desc := "with an encryptor configured, the bytes written to the file are Encrypt's result"
				if okAll {
					c.Pass("C17.1", "encrypt-before-write fn="+c.P.ShortName(fenc), desc, where)
				} else {
					c.Fail("C17.1", "encrypt-before-write fn="+c.P.ShortName(fenc), desc, where+": under {enc != nil} the written bytes can be `"+bad+"` (plaintext on disk)", where)
				}
			})
		}
		if nw == 0 {
			c.Undecided("C17.1", "encrypt-before-write fn="+c.P.ShortName(fenc), "the write path writes a file", "no file write reachable from "+c.P.ShortName(fenc))
		}
		desc2 := "an encryption failure aborts the write before a file is created"
		if encErr == nil {
			c.Fail("C17.1", "encrypt-error-aborts fn="+c.P.ShortName(fenc), desc2, c.P.ShortName(fenc)+": the Encrypt error is not examined")
			continue
		}
		pr2 := c.An.Prune(fenc, func(a *Atom) (bool, bool) {
			if a.Key == "nil:err" && c.An.sameCanon(a.Val, encErr) {
				return false, true
			}
			if isEncNil(a) && a.Val != nil && isNamed(a.Val.Type(), ei) {
				return false, true
			}
			return false, false
		})
		isCreate := func(in ssa.Instruction) bool {
			cc := callOf(in)
			if cc == nil {
				return false
			}
			_, ok := isFileCreate(cc)
			return ok
		}
		live := false
		pr2.LiveInstrs(func(in ssa.Instruction) {
			if _, leads := c.An.LeadsTo("FILE-CREATE", in, isCreate, false); leads {
				live = true
			}
		})
		if live {
			c.Fail("C17.1", "encrypt-error-aborts fn="+c.P.ShortName(fenc), desc2, c.P.ShortName(fenc)+": file creation reachable with the Encrypt error set")
		} else {
			c.Pass("C17.1", "encrypt-error-aborts fn="+c.P.ShortName(fenc), desc2, c.P.ShortName(fenc))
		}
	}
	if n == 0 {
		c.Fail("C17.1", "encrypt-call", "the write path calls Encrypt", "no call of the encryptor's Encrypt in store/fscache: values are written in plaintext")
	}
}

func ruleC17_2(c *Ctx) {
	ei := c.encIface()
	if ei == nil {
		c.Undecided("C17.2", "anchor", "the encryptor interface exists", "not found")
		return
	}
	n := 0
	for _, fn := range c.fsBackendFuncs() {
		var dec *ssa.Call
		instrsOf(fn, func(in ssa.Instruction) {
			if call, ok := in.(*ssa.Call); ok && call.Call.IsInvoke() && call.Call.Method.Name() == "Decrypt" && isNamed(call.Call.Value.Type(), ei) {
				dec = call
			}
		})
		if dec == nil {
			continue
		}
		n++
		where := c.P.ShortName(fn) + "@" + c.P.InstrPos(dec)
		var decErr ssa.Value
		if refs := dec.Referrers(); refs != nil {
			for _, r := range *refs {
				if ex, ok := r.(*ssa.Extract); ok && ex.Index == 1 {
					decErr = ex
				}
			}
		}
		// (a) success: returned data derives from Decrypt's result
		pr := c.An.Prune(fn, func(a *Atom) (bool, bool) {
			if isEncNil(a) && isNamed(a.Val.Type(), ei) {
				return false, true
			}
			if a.Key == "nil:err" {
				return true, true
			}
			return false, false
		})
		okData := true
		nret := 0
		pr.LiveInstrs(func(in ssa.Instruction) {
			r, ok := in.(*ssa.Return)
			if !ok || len(r.Results) != 2 || isNilConst(c.An.RetVal(r, 0)) {
				return
			}
			nret++
			for _, l := range c.An.liveLeaves(pr, c.An.RetVal(r, 0)) {
				ex, ok := l.(*ssa.Extract)
				if ok && ex.Tuple == dec && ex.Index == 0 {
					continue
				}
				okData = false
			}
		})
		desc := "with an encryptor configured, the bytes returned are Decrypt's result"
		if nret == 0 {
			c.Undecided("C17.2", "decrypt-before-return fn="+c.P.ShortName(fn), desc, where+": no data return live")
		} else if okData {
			c.Pass("C17.2", "decrypt-before-return fn="+c.P.ShortName(fn), desc, where)
		} else {
			c.Fail("C17.2", "decrypt-before-return fn="+c.P.ShortName(fn), desc, where+": under {enc != nil} raw file bytes can be returned")
		}
		// (b) failure: no data
		desc2 := "a file that fails authentication yields an error and no data"
		if decErr == nil {
			c.Fail("C17.2", "decrypt-fails-closed fn="+c.P.ShortName(fn), desc2, where+": the Decrypt error is discarded; a tampered file is served")
			continue
		}
		pr2 := c.An.Prune(fn, func(a *Atom) (bool, bool) {
			if a.Key == "nil:err" && c.An.sameCanon(a.Val, decErr) {
				return false, true
			}
			if isEncNil(a) && isNamed(a.Val.Type(), ei) {
				return false, true
			}
			return false, false
		})
		closed := true
		// returns reachable from the Decrypt call over live edges
		reach := map[int]bool{}
		wl := []*ssa.BasicBlock{dec.Block()}
		for len(wl) > 0 {
			b := wl[len(wl)-1]
			wl = wl[:len(wl)-1]
			if reach[b.Index] {
				continue
			}
			reach[b.Index] = true
			for _, sb := range b.Succs {
				if pr2.LiveBlock[sb.Index] && pr2.EdgeLive(b, sb) {
					wl = append(wl, sb)
				}
			}
		}
		pr2.LiveInstrs(func(in ssa.Instruction) {
			r, ok := in.(*ssa.Return)
			if !ok || len(r.Results) != 2 || !reach[r.Block().Index] {
				return
			}
			if !isNilConst(c.An.RetVal(r, 0)) || isNilConst(c.An.RetVal(r, 1)) {
				closed = false
			}
		})
		if closed {
			c.Pass("C17.2", "decrypt-fails-closed fn="+c.P.ShortName(fn), desc2, where)
		} else {
			c.Fail("C17.2", "decrypt-fails-closed fn="+c.P.ShortName(fn), desc2, where+": data (or a nil error) is returned although Decrypt failed")
		}
	}
	if n == 0 {
		c.Undecided("C17.2", "vacuity", "the read path decrypts", "no Decrypt call in store/fscache")
	}
}

func (c *Ctx) aeadType() (*types.Named, *ssa.Function) {
	// the concrete encryptor: struct with a cipher.AEAD field; its constructor calls cipher.NewGCM
	for _, fn := range c.fsBackendFuncs() {
		if callsWhere(fn, func(cc *ssa.CallCommon) bool { return callIsPkgFunc(cc, "crypto/cipher", "NewGCM") }) {
			rs := sigResults(fn)
			if len(rs) >= 1 {
				if n := namedOf(derefType(rs[0])); n != nil {
					return n, fn
				}
			}
		}
	}
	return nil, nil
}

func ruleC17_3(c *Ctx) {
	t, ctor := c.aeadType()
	if t == nil {
		c.Fail("C17.3", "aead-constructor", "the encryptor is built with cipher.NewGCM over aes.NewCipher", "no function in store/fscache calls cipher.NewGCM")
		return
	}
	okAES := false
	instrsOf(ctor, func(in ssa.Instruction) {
		if cc := callOf(in); cc != nil && callIsPkgFunc(cc, "crypto/cipher", "NewGCM") {
			if c.An.dependsOnCall(cc.Args[0], func(x *ssa.Call) bool { return callIsPkgFunc(&x.Call, "crypto/aes", "NewCipher") }) {
				okAES = true
			}
		}
	})
	// the key material handed to the block cipher is the decoded key as given: no slice of it (a key cut to the cipher's
	// maximum size is accepted although it is not usable as given, and all keys sharing that prefix decrypt the cache)
	cut := ""
	instrsOf(ctor, func(in ssa.Instruction) {
		cc := callOf(in)
		if cc == nil || !callIsPkgFunc(cc, "crypto/aes", "NewCipher") {
			return
		}
		c.P.TraceBack(cc.Args[0], TraceOpts{NoParams: true, NoHeapFields: true}, func(v ssa.Value, _ []int) bool {
			if sl, ok := v.(*ssa.Slice); ok {
				cut = c.P.InstrPos(sl) + " `" + sl.String() + "`"
				return false
			}
			return true
		})
	})
	if cut != "" {
		c.Fail("C17.3", "key-as-given", "the decoded key reaches aes.NewCipher unmodified (a key of the wrong size is refused at open)", c.P.ShortName(ctor)+": the key is re-sliced at "+cut+" before it is used; over-long keys are accepted, and a wrong key that shares the kept prefix yields data")
	} else {
		c.Pass("C17.3", "key-as-given", "the decoded key reaches aes.NewCipher unmodified (a key of the wrong size is refused at open)", c.P.ShortName(ctor))
	}
	if okAES {
		c.Pass("C17.3", "aead-constructor", "the encryptor is built with cipher.NewGCM over aes.NewCipher", c.P.ShortName(ctor))
	} else {
		c.Fail("C17.3", "aead-constructor", "the encryptor is built with cipher.NewGCM over aes.NewCipher", c.P.ShortName(ctor)+": the GCM block cipher is not aes.NewCipher's result")
	}
	// constructor errors propagate (base64, key size)
	pr := c.An.Prune(ctor, func(a *Atom) (bool, bool) {
		if a.Key == "nil:err" {
			return false, true
		}
		return false, false
	})
	okErr := true
	pr.LiveInstrs(func(in ssa.Instruction) {
		if r, ok := in.(*ssa.Return); ok && len(r.Results) == 2 {
			if !isNilConst(r.Results[0]) && isNilConst(r.Results[1]) && !pr.LiveBlock[r.Block().Index] {
				okErr = false
			}
		}
	})
	nErrChecks := 0
	instrsOf(ctor, func(in ssa.Instruction) {
		if iff, ok := in.(*ssa.If); ok {
			if a, _, ok := c.An.AtomOf(iff.Cond); ok && a.Key == "nil:err" {
				nErrChecks++
			}
		}
	})
	if nErrChecks >= 3 && okErr {
		c.Pass("C17.3", "constructor-errors", "key decoding, cipher and GCM construction errors are returned", fmt.Sprintf("%s: %d error checks", c.P.ShortName(ctor), nErrChecks))
	} else {
		c.Fail("C17.3", "constructor-errors", "key decoding, cipher and GCM construction errors are returned", fmt.Sprintf("%s: only %d error checks", c.P.ShortName(ctor), nErrChecks))
	}
	enc := c.P.SSA.LookupMethod(types.NewPointer(t), t.Obj().Pkg(), "Encrypt")
	dec := c.P.SSA.LookupMethod(types.NewPointer(t), t.Obj().Pkg(), "Decrypt")
	if enc == nil || dec == nil {
		c.Undecided("C17.3", "aead-methods", "Encrypt/Decrypt methods exist", "not found on "+t.Obj().Name())
		return
	}
	// Seal(dst=nonce, nonce, data, aad): the output is prefixed by the nonce
	okSeal := false
	instrsOf(enc, func(in ssa.Instruction) {
		cc := callOf(in)
		if cc != nil && cc.IsInvoke() && cc.Method.Name() == "Seal" && len(cc.Args) == 4 {
			if c.An.sameCanon(cc.Args[0], cc.Args[1]) {
				okSeal = true
			}
		}
	})
	if okSeal {
		c.Pass("C17.3", "seal-prefixes-nonce", "Seal appends to the nonce, so the stored bytes start with the nonce", c.P.ShortName(enc))
	} else {
		c.Fail("C17.3", "seal-prefixes-nonce", "Seal appends to the nonce, so the stored bytes start with the nonce", c.P.ShortName(enc)+": Seal's dst is not the nonce; Decrypt cannot recover it")
	}
	// Open uses the prefix; short input rejected before slicing
	okOpen, okLen := false, false
	instrsOf(dec, func(in ssa.Instruction) {
		cc := callOf(in)
		if cc != nil && cc.IsInvoke() && cc.Method.Name() == "Open" && len(cc.Args) == 4 {
			_, isSlice1 := cc.Args[1].(*ssa.Slice)
			_, isSlice2 := cc.Args[2].(*ssa.Slice)
			if isSlice1 && isSlice2 {
				okOpen = true
			}
			// the slicing is dominated by a length check
			for _, dc := range controlConds(in.Block()) {
				if b, ok := dc.cond.(*ssa.BinOp); ok {
					if call, ok := b.X.(*ssa.Call); ok {
						if bi, ok := call.Call.Value.(*ssa.Builtin); ok && bi.Name() == "len" {
							okLen = true
						}
					}
				}
			}
		}
	})
	if okOpen && okLen {
		c.Pass("C17.3", "open-uses-prefix", "Open takes the nonce from the prefix after a length check", c.P.ShortName(dec))
	} else {
		c.Fail("C17.3", "open-uses-prefix", "Open takes the nonce from the prefix after a length check", fmt.Sprintf("%s: prefix slicing=%v, length check=%v (a short file would panic or be accepted)", c.P.ShortName(dec), okOpen, okLen))
	}
	// no short cut around the cipher: every return without error passes Seal (Encrypt) / Open (Decrypt)
	for _, pair := range []struct {
		fn   *ssa.Function
		meth string
		why  string
	}{
		{enc, "Seal", "a value that is handed back unencrypted is written to the file as it is"},
		{dec, "Open", "stored bytes accepted without authentication: a file truncated to that shape is returned as a valid value"},
	} {
		pr := c.An.Prune(pair.fn, nil)
		r := c.An.MustPass(pr, func(in ssa.Instruction) bool {
			rt, ok := in.(*ssa.Return)
			return ok && len(rt.Results) == 2 && isNilConst(c.An.RetVal(rt, 1))
		}, func(in ssa.Instruction) bool {
			cc := callOf(in)
			return cc != nil && cc.IsInvoke() && cc.Method.Name() == pair.meth && len(cc.Args) == 4
		})
		d := "every successful return of " + pair.fn.Name() + " passes the AEAD " + pair.meth
		switch {
		case r.Targets == 0:
			c.Pass("C17.3", "no-bypass-"+pair.meth, d, c.P.ShortName(pair.fn)+": no literal nil-error return (the error of "+pair.meth+" is handed on)")
		case r.OK:
			c.Pass("C17.3", "no-bypass-"+pair.meth, d, fmt.Sprintf("%s: %d returns", c.P.ShortName(pair.fn), r.Targets))
		default:
			c.Fail("C17.3", "no-bypass-"+pair.meth, d, c.P.InstrPos(r.Missing[0])+": returns without error before "+pair.meth+"; "+pair.why)
		}
	}
	// what Encrypt returns is storage of its own: the backend writes it to the file after Encrypt returned, and a second
	// Set on the same handle may encrypt in between
	for _, b := range enc.Blocks {
		r, ok := b.Instrs[len(b.Instrs)-1].(*ssa.Return)
		if !ok || len(r.Results) != 2 {
			continue
		}
		v := c.An.RetVal(r, 0)
		if isNilConst(v) {
			continue
		}
		var foreign []string
		for _, o := range c.sliceBacking(v) {
			if o != "fresh" && o != "nil" {
				foreign = append(foreign, o)
			}
		}
		d := "Encrypt returns a buffer allocated for this call (not one kept in the encryptor)"
		if len(foreign) > 0 {
			c.Fail("C17.3", "ciphertext-owned", d, c.P.InstrPos(r)+": the returned slice may share storage with "+strings.Join(foreign, ", ")+"; two overlapping Sets on one handle overwrite each other's ciphertext between Encrypt and the file write (key A's file receives B's value, or a splice that fails authentication)")
		} else {
			c.Pass("C17.3", "ciphertext-owned", d, c.P.InstrPos(r))
		}
	}
	// the Open error is returned (authentication failure is not swallowed)
	okRet := false
	instrsOf(dec, func(in ssa.Instruction) {
		if r, ok := in.(*ssa.Return); ok && len(r.Results) == 2 {
			if ex, ok := r.Results[1].(*ssa.Extract); ok {
				if call, ok := ex.Tuple.(*ssa.Call); ok && call.Call.IsInvoke() && call.Call.Method.Name() == "Open" {
					okRet = true
				}
			}
		}
	})
	if okRet {
		c.Pass("C17.3", "open-error-returned", "the authentication error of Open is returned to the caller", c.P.ShortName(dec))
	} else {
		c.Fail("C17.3", "open-error-returned", "the authentication error of Open is returned to the caller", c.P.ShortName(dec)+": Open's error does not reach the return")
	}
}

func ruleC17_4(c *Ctx) {
	t, ctor := c.aeadType()
	if t == nil {
		c.Undecided("C17.4", "anchor", "encryptor type known", "not found")
		return
	}
	enc := c.P.SSA.LookupMethod(types.NewPointer(t), t.Obj().Pkg(), "Encrypt")
	// nonce filled by io.ReadFull with the error checked
	var rf *ssa.Call
	instrsOf(enc, func(in ssa.Instruction) {
		if call, ok := in.(*ssa.Call); ok && (callIsPkgFunc(&call.Call, "io", "ReadFull") || callIsPkgFunc(&call.Call, "crypto/rand", "Read")) {
			rf = call
		}
	})
	desc := "every Encrypt fills a fresh nonce completely from the random source and checks the error"
	if rf == nil {
		c.Fail("C17.4", "nonce-filled", desc, c.P.ShortName(enc)+": no io.ReadFull / rand.Read; a constant nonce makes two writes of one value identical and breaks GCM")
		return
	}
	errChecked := false
	if refs := rf.Referrers(); refs != nil {
		for _, r := range *refs {
			if ex, ok := r.(*ssa.Extract); ok && isErrorType(ex.Type()) {
				if rr := ex.Referrers(); rr != nil {
					for _, u := range *rr {
						if _, ok := u.(*ssa.BinOp); ok {
							errChecked = true
						}
					}
				}
			}
		}
	}
	// the buffer filled is the nonce given to Seal
	sameBuf := false
	instrsOf(enc, func(in ssa.Instruction) {
		cc := callOf(in)
		if cc != nil && cc.IsInvoke() && cc.Method.Name() == "Seal" {
			buf := rf.Call.Args[len(rf.Call.Args)-1]
			if c.An.sameCanon(buf, cc.Args[1]) {
				sameBuf = true
			}
		}
	})
	// nonce allocated per call with NonceSize
	perCall := false
	instrsOf(enc, func(in ssa.Instruction) {
		if ms, ok := in.(*ssa.MakeSlice); ok {
			if call, ok := ms.Len.(*ssa.Call); ok && call.Call.IsInvoke() && call.Call.Method.Name() == "NonceSize" {
				perCall = true
			}
		}
	})
	if errChecked && sameBuf && perCall {
		c.Pass("C17.4", "nonce-filled", desc, c.P.ShortName(enc)+"@"+c.P.InstrPos(rf))
	} else {
		c.Fail("C17.4", "nonce-filled", desc, fmt.Sprintf("%s: error checked=%v, filled buffer is Seal's nonce=%v, allocated per call with NonceSize=%v", c.P.ShortName(enc), errChecked, sameBuf, perCall))
	}
	// the reader wired in non-test code is crypto/rand.Reader
	okReader := true
	nSites := 0
	var sites []string
	for _, cs := range c.P.Callers(ctor) {
		if isTestOnly(c, cs.Caller) {
			continue
		}
		nSites++
		arg := cs.Instr.Common().Args[0]
		isRand := false
		if u, ok := arg.(*ssa.UnOp); ok {
			if g, ok := u.X.(*ssa.Global); ok && g.Name() == "Reader" && g.Pkg.Pkg.Path() == "crypto/rand" {
				isRand = true
			}
		}
		sites = append(sites, c.P.ShortName(cs.Caller)+"@"+c.P.InstrPos(cs.Instr))
		if !isRand {
			okReader = false
		}
	}
	desc2 := "the nonce source wired into the encryptor in non-test code is crypto/rand.Reader"
	if nSites == 0 {
		c.Undecided("C17.4", "nonce-source", desc2, "no non-test call of the encryptor constructor")
	} else if okReader {
		c.Pass("C17.4", "nonce-source", desc2, sites...)
	} else {
		c.Fail("C17.4", "nonce-source", desc2, fmt.Sprintf("%v: a different reader is passed", sites))
	}
	// the reader field read in Encrypt is the one stored by the constructor
	_ = ctor
}

func ruleC17_5(c *Ctx) {
	fp := c.P.Pkg("store/fscache")
	if fp == nil {
		return
	}
	// the encryption option: exported function whose closure stores the enc field from the AEAD constructor
	_, ctor := c.aeadType()
	var opt *ssa.Function
	for _, fn := range c.fsBackendFuncs() {
		if fn.Parent() != nil && callsWhere(fn, func(cc *ssa.CallCommon) bool { return cc.StaticCallee() == ctor }) {
			opt = fn
		}
	}
	if opt == nil {
		c.Fail("C17.5", "option-builds-encryptor", "the encryption option constructs the encryptor", "no option closure calls the encryptor constructor")
		return
	}
	// empty key is an error
	okEmpty := false
	instrsOf(opt, func(in ssa.Instruction) {
		if b, ok := in.(*ssa.BinOp); ok {
			if s, ok := constStr(b.Y); ok && s == "" && isStringType(b.X.Type()) {
				// the true edge of key == "" must return a non-nil error
				blk := b.Block()
				if iff, ok := blk.Instrs[len(blk.Instrs)-1].(*ssa.If); ok && iff.Cond == b {
					t := blk.Succs[0]
					if r, ok := t.Instrs[len(t.Instrs)-1].(*ssa.Return); ok && len(r.Results) == 1 && !isNilConst(r.Results[0]) {
						okEmpty = true
					}
				}
			}
		}
	})
	if okEmpty {
		c.Pass("C17.5", "empty-key-is-error", "the encryption option rejects an empty key", c.P.ShortName(opt))
	} else {
		c.Fail("C17.5", "empty-key-is-error", "the encryption option rejects an empty key", c.P.ShortName(opt)+": no `key == \"\"` => error path; encryption requested without a key would silently store plaintext")
	}
	// the constructor's error is returned by the option and the field is the constructor's result
	okWire := false
	instrsOf(opt, func(in ssa.Instruction) {
		if st, ok := in.(*ssa.Store); ok {
			if fa, ok := st.Addr.(*ssa.FieldAddr); ok && isNamed(derefType(fa.Type()), c.encIface()) {
				if c.An.dependsOnCall(st.Val, func(x *ssa.Call) bool { return x.Call.StaticCallee() == ctor }) {
					okWire = true
				}
			}
		}
	})
	if okWire {
		c.Pass("C17.5", "option-sets-encryptor", "the option installs the constructed encryptor", c.P.ShortName(opt))
	} else {
		c.Fail("C17.5", "option-sets-encryptor", "the option installs the constructed encryptor", c.P.ShortName(opt)+": the enc field is not assigned from the constructor")
	}
	// DSN: encrypt=on|aesgcm appends the option with key = cmp.Or(DSN key, env key)
	var dsn *ssa.Function
	for _, fn := range c.fsBackendFuncs() {
		cs := stringConstsIn(fn)
		if cs["encrypt"] && cs["encrypt_key"] {
			dsn = fn
		}
	}
	if dsn == nil {
		c.Fail("C17.5", "dsn-wiring", "the DSN parser handles encrypt / encrypt_key", "no function mentions both parameters")
		return
	}
	cs := stringConstsIn(dsn)
	var probs []string
	// the documented spellings: constants the value of the encrypt parameter is compared with
	spelled := map[string]bool{}
	instrsOf(dsn, func(in ssa.Instruction) {
		bo, ok := in.(*ssa.BinOp)
		if !ok || bo.Op != token.EQL {
			return
		}
		for _, pr := range [][2]ssa.Value{{bo.X, bo.Y}, {bo.Y, bo.X}} {
			k, isK := constStr(pr[1])
			if !isK {
				continue
			}
			if c.An.dependsOnCall(pr[0], func(x *ssa.Call) bool {
				if !callIsMethod(&x.Call, "net/url", "Values", "Get") {
					return false
				}
				_, a := recvAndArgs(&x.Call)
				name, ok := constStr(a[0])
				return ok && name == "encrypt"
			}) {
				spelled[k] = true
			}
		}
	})
	// ... or looked up in a constant table keyed by the parameter's value
	isEncryptParam := func(v ssa.Value) bool {
		return c.An.dependsOnCall(v, func(x *ssa.Call) bool {
			if !callIsMethod(&x.Call, "net/url", "Values", "Get") {
				return false
			}
			_, a := recvAndArgs(&x.Call)
			name, ok := constStr(a[0])
			return ok && name == "encrypt"
		})
	}
	instrsOf(dsn, func(in ssa.Instruction) {
		v, ok := in.(ssa.Value)
		if !ok {
			return
		}
		cm, lk := constMapLookup(v)
		if cm == nil || !isEncryptParam(lk.Index) {
			return
		}
		for _, k := range cm.keys {
			if k.Kind() != constant.String {
				continue
			}
			val := cm.vals[k.ExactString()]
			if cm.set || (len(val) == 1 && val[0] != nil && val[0].Kind() == constant.Bool && constant.BoolVal(val[0])) {
				spelled[constant.StringVal(k)] = true
			}
		}
	})
	// a request for encryption that cannot be understood must fail at open, not fall back to plaintext:
	// (1) the query is parsed with its error reported (URL.Query() silently drops malformed pairs, e.g. `encrypt=on%`)
	if callsWhere(dsn, func(cc *ssa.CallCommon) bool { return callIsMethod(cc, "net/url", "URL", "Query") }) {
		probs = append(probs, "the parameters are read with URL.Query(), which drops malformed pairs without a trace (`...&encrypt=on%` opens unencrypted)")
	}
	// (2) some error return is reached only when every comparison of the encrypt value failed (the unknown-value case)
	unknownRefused := false
	instrsOf(dsn, func(in ssa.Instruction) {
		r, ok := in.(*ssa.Return)
		if !ok || len(r.Results) != 2 || isNilConst(c.An.RetVal(r, 1)) {
			return
		}
		failed := 0
		for _, dc := range dominatingConds(r.Block()) {
			for _, lf := range condLeaves(dc.cond, dc.onTrue) {
				// the value is in no table of known spellings (`mode, known := modes[encrypt]; if !known { return err }`)
				if ex, ok := lf.v.(*ssa.Extract); ok && ex.Index == 1 && !lf.val {
					if lk, ok := ex.Tuple.(*ssa.Lookup); ok && lk.CommaOk && isEncryptParam(lk.Index) {
						failed += 2
					}
				}
				bo, ok := lf.v.(*ssa.BinOp)
				if !ok || !(bo.Op == token.EQL && !lf.val || bo.Op == token.NEQ && lf.val) {
					continue
				}
				if isEncryptParam(bo.X) || isEncryptParam(bo.Y) {
					failed++
				}
			}
		}
		if failed >= 2 {
			unknownRefused = true
		}
	})
	if !unknownRefused {
		probs = append(probs, "no error is returned for a value of encrypt that matches none of the known spellings (`encrypt=ON`, `encrypt=true` open unencrypted)")
	}
	if !spelled["on"] || !spelled["aesgcm"] {
		probs = append(probs, fmt.Sprintf("the documented values encrypt=on and encrypt=aesgcm are not both recognised (compared with: %v); with the missing spelling the cache silently writes plaintext", sortedKeys(spelled)))
	}
	// each documented spelling leads to the option: with the encrypt value fixed to it, no success return of the DSN
	// reader is reachable without the call of the encryption option
	for _, spelling := range []string{"on", "aesgcm"} {
		if !spelled[spelling] {
			continue
		}
		eval := func(v ssa.Value) (bool, bool) { return evalStringCond(v, spelling, isEncryptParam, 0) }
		pr := pruneBy(dsn, eval)
		res := c.An.MustPass(pr, func(in ssa.Instruction) bool {
			// a return that may report success: its error is nil or whatever the opener called last returns, not an
			// error made here (fmt.Errorf, errors.New, a package-level error value)
			r, ok := in.(*ssa.Return)
			if !ok || len(r.Results) != 2 {
				return false
			}
			ev := c.An.RetVal(r, 1)
			if isNilConst(ev) {
				return true
			}
			switch x := ev.(type) {
			case *ssa.Call:
				return !c.constructsError(x)
			case *ssa.Extract:
				return true
			case *ssa.MakeInterface:
				return false
			case *ssa.UnOp:
				if _, isG := x.X.(*ssa.Global); isG {
					return false
				}
			}
			return true
		}, func(in ssa.Instruction) bool {
			cc := callOf(in)
			return cc != nil && cc.StaticCallee() == opt.Parent()
		})
		if res.Targets > 0 && !res.OK {
			probs = append(probs, fmt.Sprintf("with encrypt=%s a cache can be opened (%s) without the encryption option having been applied: the value is accepted but means no encryption", spelling, c.P.InstrPos(res.Missing[0])))
		}
	}
	if !cs["FSCACHE_ENCRYPT_KEY"] {
		probs = append(probs, "environment key FSCACHE_ENCRYPT_KEY not consulted")
	}
	// the option constructor is called with a key depending on Query().Get("encrypt_key") and os.Getenv
	optOuter := opt.Parent()
	okKey := false
	instrsOf(dsn, func(in ssa.Instruction) {
		cc := callOf(in)
		if cc == nil || cc.StaticCallee() != optOuter {
			return
		}
		dGet := c.An.dependsOnCall(cc.Args[0], func(x *ssa.Call) bool { return callIsPkgFunc(&x.Call, "os", "Getenv") })
		dQ := c.An.dependsOnCall(cc.Args[0], func(x *ssa.Call) bool { return callIsMethod(&x.Call, "net/url", "Values", "Get") })
		if dGet && dQ {
			okKey = true
		}
		// the call is dominated by the encrypt == on || aesgcm test
		if len(controlConds(in.Block())) == 0 {
			probs = append(probs, "the option is appended unconditionally")
		}
	})
	if !okKey {
		probs = append(probs, "the key handed to the option does not depend on both the DSN value and the environment")
	}
	if len(probs) > 0 {
		c.Fail("C17.5", "dsn-wiring", "encrypt=on|aesgcm appends the encryption option with the DSN or environment key", c.P.ShortName(dsn)+": "+strings.Join(probs, "; "))
	} else {
		c.Pass("C17.5", "dsn-wiring", "encrypt=on|aesgcm appends the encryption option with the DSN or environment key", c.P.ShortName(dsn))
	}
}

func ruleC17_6(c *Ctx) {
	// Open: the function that applies options in a loop
	var open *ssa.Function
	for _, fn := range c.fsBackendFuncs() {
		if fn.Parent() == nil && callsWhere(fn, isOptionApply) {
			open = fn
		}
	}
	desc := "an option error aborts Open: no cache is returned"
	if open == nil {
		c.Undecided("C17.6", "open-aborts", desc, "no function applying options found in store/fscache")
		return
	}
	var applyErr ssa.Value
	instrsOf(open, func(in ssa.Instruction) {
		if call, ok := in.(*ssa.Call); ok && isOptionApply(&call.Call) {
			applyErr = call
		}
	})
	pr := c.An.Prune(open, func(a *Atom) (bool, bool) {
		if a.Key == "nil:err" && c.An.sameCanon(a.Val, applyErr) {
			return false, true
		}
		return false, false
	})
	// after the apply call with error: the only live returns in blocks dominated by the error branch return nil cache
	okAbort := false
	blk := applyErr.(*ssa.Call).Block()
	if iff, ok := blk.Instrs[len(blk.Instrs)-1].(*ssa.If); ok {
		if a, neg, ok := c.An.AtomOf(iff.Cond); ok && a.Key == "nil:err" {
			errSucc := blk.Succs[0]
			if !neg { // cond is err == nil: error edge is the false successor
				errSucc = blk.Succs[1]
			}
			if r, ok := errSucc.Instrs[len(errSucc.Instrs)-1].(*ssa.Return); ok && len(r.Results) == 2 && isNilConst(c.An.RetVal(r, 0)) && !isNilConst(c.An.RetVal(r, 1)) {
				okAbort = true
			}
		}
	}
	_ = pr
	if okAbort {
		c.Pass("C17.6", "open-aborts", desc, c.P.ShortName(open)+"@"+c.P.InstrPos(applyErr.(*ssa.Call)))
	} else {
		c.Fail("C17.6", "open-aborts", desc, c.P.ShortName(open)+": the error of an option is not returned with a nil cache; encryption could be silently disabled")
	}
}

// isOptionApply: an interface call of an option's single method: func(*T) error with T a struct of the backend package.
func isOptionApply(cc *ssa.CallCommon) bool {
	if cc == nil || !cc.IsInvoke() {
		return false
	}
	sig, ok := cc.Method.Type().(*types.Signature)
	if !ok || sig.Params().Len() != 1 || sig.Results().Len() != 1 || !isErrorType(sig.Results().At(0).Type()) {
		return false
	}
	pt, ok := sig.Params().At(0).Type().(*types.Pointer)
	if !ok {
		return false
	}
	_, isStruct := pt.Elem().Underlying().(*types.Struct)
	return isStruct
}

// evalStringCond evaluates a branch condition for a fixed value `val` of the string recognised by isVar: comparisons
// with constants, lookups in constant tables keyed by it, negations. Anything else is unknown.
func evalStringCond(v ssa.Value, val string, isVar func(ssa.Value) bool, depth int) (bool, bool) {
	if depth > 6 {
		return false, false
	}
	switch x := v.(type) {
	case *ssa.UnOp:
		if x.Op == token.NOT {
			b, ok := evalStringCond(x.X, val, isVar, depth+1)
			return !b, ok
		}
	case *ssa.BinOp:
		if x.Op != token.EQL && x.Op != token.NEQ {
			return false, false
		}
		for _, side := range [][2]ssa.Value{{x.X, x.Y}, {x.Y, x.X}} {
			if k, ok := constStr(side[1]); ok && isVar(side[0]) {
				return (k == val) == (x.Op == token.EQL), true
			}
		}
	case *ssa.Extract:
		cm, lk := constMapLookup(x.Tuple)
		if cm == nil || !lk.CommaOk || !isVar(lk.Index) {
			return false, false
		}
		vals, present := cm.vals[constant.MakeString(val).ExactString()]
		if x.Index == 1 {
			return present, true
		}
		if !present {
			vals = cm.zero
		}
		if len(vals) == 1 && vals[0] != nil && vals[0].Kind() == constant.Bool {
			return constant.BoolVal(vals[0]), true
		}
	case *ssa.Lookup:
		cm, lk := constMapLookup(x)
		if cm == nil || lk.CommaOk || !isVar(lk.Index) {
			return false, false
		}
		vals, present := cm.vals[constant.MakeString(val).ExactString()]
		if !present {
			vals = cm.zero
		}
		if len(vals) == 1 && vals[0] != nil && vals[0].Kind() == constant.Bool {
			return constant.BoolVal(vals[0]), true
		}
	}
	return false, false
}

// pruneBy computes the blocks and edges of fn that stay reachable when every branch whose condition eval decides is
// taken accordingly.
func pruneBy(fn *ssa.Function, eval func(cond ssa.Value) (bool, bool)) *Pruned {
	pr := &Pruned{Fn: fn, LiveBlock: map[int]bool{}, liveEdge: map[[2]int]bool{}, Used: map[string]bool{}}
	if len(fn.Blocks) == 0 {
		return pr
	}
	work := []*ssa.BasicBlock{fn.Blocks[0]}
	pr.LiveBlock[0] = true
	for len(work) > 0 {
		b := work[len(work)-1]
		work = work[:len(work)-1]
		succs := b.Succs
		if len(b.Instrs) > 0 {
			if iff, ok := b.Instrs[len(b.Instrs)-1].(*ssa.If); ok {
				if truth, known := eval(iff.Cond); known {
					if truth {
						succs = b.Succs[:1]
					} else {
						succs = b.Succs[1:2]
					}
				}
			}
		}
		for _, s := range succs {
			pr.liveEdge[[2]int{b.Index, s.Index}] = true
			if !pr.LiveBlock[s.Index] {
				pr.LiveBlock[s.Index] = true
				work = append(work, s)
			}
		}
	}
	return pr
}
